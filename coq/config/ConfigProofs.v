(** Proofs about the configuration loader model: regenerated tables = documented tables, clean rejection,
    faithful loading, my_addr is a listening address. *)
From Coq Require Import List String Ascii ZArith NArith Bool Lia.
From VLib Require Import Bytes.
From Config Require Import PyVal ConfigTypes Gen.ConfigTables ConfigModel ConfigSpec.
Import ListNotations.
Open Scope string_scope.
Open Scope Z_scope.

(** * The regenerated tables, defaults and rules are the documented ones *)

Definition tables_statement : Prop :=
  encr_table = doc_encr /\ integ_table = doc_integ /\ prf_table = doc_prf /\ dh_table = doc_dh /\
  ip_proto_table = doc_ip_proto /\ mode_table = doc_mode /\ ipsec_proto_table = doc_ipsec_proto.

Lemma tables_ok : tables_statement.
Proof. unfold tables_statement. repeat split; reflexivity. Qed.

Definition defaults_statement : Prop :=
  default_ike_encr = doc_ike_encr /\ default_ike_integ = doc_ike_integ /\ default_ike_prf = doc_ike_prf /\
  default_ike_dh = doc_ike_dh /\ default_ike_lifetime = doc_ike_lifetime /\ default_ike_dpd = doc_dpd /\
  default_auth_id = doc_default_id /\ default_child_ipsec_proto = PStr "esp" /\
  default_child_encr = doc_child_encr /\ default_child_integ = doc_child_integ /\ default_child_dh = doc_child_dh /\
  default_child_ip_proto = PStr "any" /\ default_child_my_port = PInt 0 /\ default_child_peer_port = PInt 0 /\
  default_child_lifetime = doc_child_lifetime /\ default_child_mode = PStr "tunnel".

Lemma defaults_ok : defaults_statement.
Proof. unfold defaults_statement. repeat split; reflexivity. Qed.

(** order of the transforms in the two proposals, NO_ESN last, no ENCR for AH, protocol and proposal numbers,
    identity and selector type numbers, the port rule *)
Definition rules_statement : Prop :=
  ike_transform_order = [K_encr; K_integ; K_prf; K_dh] /\
  child_transform_order = [K_encr; K_integ; K_dh; K_no_esn] /\
  no_esn_transforms = [NO_ESN] /\ ah_protocol = PROTO_AH /\ ah_cleared = [K_encr] /\
  ike_protocol = PROTO_IKE /\ ike_proposal_num = 1 /\ child_proposal_num = 1 /\
  (ID_IPV4_ADDR, ID_FQDN, ID_RFC822_ADDR, ID_IPV6_ADDR) = (1, 2, 3, 5) /\
  (TS_IPV4_ADDR_RANGE, TS_IPV6_ADDR_RANGE) = (7, 8) /\
  (forall port, from_network_end_port port = if Z.eqb port 0 then 65535 else port).

Lemma rules_ok : rules_statement.
Proof. unfold rules_statement. repeat split; reflexivity. Qed.

(** no table key begins with '[' or '{' (so str(list) / str(dict) is never a key: see PyVal.py_str_atom) *)
Definition plain_key {A} (kv : string * A) : bool :=
  match fst kv with
  | String c _ => negb (Ascii.eqb c "[") && negb (Ascii.eqb c "{")
  | EmptyString => true
  end.

Definition keys_statement : Prop :=
  forallb plain_key encr_table && forallb plain_key integ_table && forallb plain_key prf_table
  && forallb plain_key dh_table = true.

Lemma keys_ok : keys_statement.
Proof. reflexivity. Qed.

(** * Clean rejection *)

(** classes a library oracle may raise (the PEM loaders also cryptography's UnsupportedAlgorithm); the harness
    observes exactly these on every resolved value *)
Definition lib_exc (e : exc) : bool :=
  match e with ValueError | TypeError | AttributeError | KeyError => true | _ => false end.

Record env_ok (E : env) : Prop := {
  ok_getaddrinfo : forall v e, o_getaddrinfo E v = Raise e -> lib_exc e = true \/ e = GaiError;
  ok_ip_address : forall v e, o_ip_address E v = Raise e -> lib_exc e = true;
  ok_ip_network : forall v e, o_ip_network E v = Raise e -> lib_exc e = true;
  ok_pubkey : forall s e, o_pubkey E s = Raise e -> lib_exc e = true \/ e = UnsupportedAlgorithm;
  ok_privkey : forall s e, o_privkey E s = Raise e -> lib_exc e = true \/ e = UnsupportedAlgorithm
}.

(** classes that Configuration.__init__ turns into ConfigurationError (or that are ConfigurationError) *)
Definition safe (e : exc) : bool :=
  match e with GaiError | OtherError => false | _ => true end.

Definition raises_safe {A} (m : res A) : Prop := forall e, m = Raise e -> safe e = true.

Lemma rs_ok {A} (a : A) : raises_safe (Ok a).
Proof. intros e H; discriminate. Qed.

Lemma rs_raise {A} e : safe e = true -> raises_safe (@Raise A e).
Proof. intros Hs e' H; inversion H; subst; exact Hs. Qed.

Lemma rs_bind {A B} (m : res A) (f : A -> res B) :
  raises_safe m -> (forall a, raises_safe (f a)) -> raises_safe (bind m f).
Proof.
  intros Hm Hf e H. destruct m as [a|e0]; cbn in H.
  - exact (Hf a e H).
  - inversion H; subst. apply Hm; reflexivity.
Qed.

Lemma rs_except_raise {A} (m : res A) classes :
  (forall e, m = Raise e -> safe e = true \/ exc_in e classes = true) ->
  raises_safe (except_raise m classes ConfigurationError).
Proof.
  intros Hm e H. destruct m as [a|e0]; cbn in H; [discriminate|].
  destruct (Hm e0 eq_refl) as [Hs|Hc].
  - destruct (exc_in e0 classes); inversion H; subst; [reflexivity|exact Hs].
  - rewrite Hc in H. inversion H; reflexivity.
Qed.

Lemma rs_except_pass {A} (m fb : res A) classes :
  raises_safe m -> raises_safe fb -> raises_safe (except_pass m classes fb).
Proof.
  intros Hm Hf e H. unfold except_pass in H. destruct m as [a|e0]; [discriminate|].
  destruct (exc_in e0 classes); [exact (Hf e H)|]. inversion H; subst. apply Hm; reflexivity.
Qed.

Lemma lib_safe e : lib_exc e = true -> safe e = true.
Proof. destruct e; cbn; congruence. Qed.

Ltac rs_step :=
  match goal with
  | |- raises_safe (bind _ _) => apply rs_bind; [| intros ?]
  | |- raises_safe (Ok _) => apply rs_ok
  | |- raises_safe (Raise _) => apply rs_raise; reflexivity
  | |- raises_safe (match ?x with _ => _ end) => destruct x
  | |- raises_safe (let _ := _ in _) => cbv zeta
  end.

Lemma rs_py_get d k : raises_safe (py_get d k).
Proof. unfold py_get. repeat rs_step. Qed.
Lemma rs_py_getitem d k : raises_safe (py_getitem d k).
Proof. unfold py_getitem. repeat rs_step. Qed.
Lemma rs_py_iter v : raises_safe (py_iter v).
Proof. unfold py_iter. repeat rs_step. Qed.
Lemma rs_py_encode v : raises_safe (py_encode v).
Proof. unfold py_encode. repeat rs_step. Qed.
Lemma rs_py_int f v : raises_safe (py_int f v).
Proof. unfold py_int. repeat rs_step. Qed.

Lemma rs_load_from_dict {A} key (t : list (string * A)) : raises_safe (load_from_dict key t).
Proof.
  unfold load_from_dict. apply rs_except_raise. intros e H. left.
  unfold table_getitem in H. destruct key; try (inversion H; reflexivity).
  destruct (table_get s t); inversion H; reflexivity.
Qed.

Lemma rs_load_alg t x : raises_safe (load_alg t x).
Proof.
  unfold load_alg. destruct (py_str_atom x).
  - apply rs_load_from_dict.
  - apply rs_except_raise. intros e H. inversion H. left; reflexivity.
Qed.

Lemma rs_load_alg_list t l : raises_safe (load_alg_list t l).
Proof.
  induction l as [|x r IH]; cbn [load_alg_list]; [apply rs_ok|].
  apply rs_bind; [apply rs_load_alg|intros tr]. apply rs_bind; [exact IH|intros rest]. apply rs_ok.
Qed.

Lemma rs_load_crypto_algs names t : raises_safe (load_crypto_algs names t).
Proof. unfold load_crypto_algs. destruct names; try (apply rs_raise; reflexivity). apply rs_load_alg_list. Qed.

Lemma rs_make_proposal n p trs : raises_safe (make_proposal n p trs).
Proof. unfold make_proposal. destruct trs; [apply rs_raise; reflexivity|apply rs_ok]. Qed.

Section WithEnv.
Variable E : env.
Hypothesis HE : env_ok E.

Lemma rs_load_ip_network v : raises_safe (load_ip_network E v).
Proof.
  unfold load_ip_network. apply rs_except_raise. intros e H. left. apply lib_safe.
  exact (ok_ip_network E HE v e H).
Qed.

Lemma rs_load_ip_address v : raises_safe (load_ip_address E v).
Proof.
  unfold load_ip_address. apply rs_except_raise. intros e H.
  destruct (o_getaddrinfo E v) as [txt|e0] eqn:Hg; cbn in H.
  - destruct (o_ip_address E (PStr txt)) as [a|e1] eqn:Ha; cbn in H; [discriminate|].
    inversion H; subst. left. apply lib_safe. exact (ok_ip_address E HE _ _ Ha).
  - inversion H; subst. destruct (ok_getaddrinfo E HE _ _ Hg) as [Hl|Hgai].
    + left. apply lib_safe; exact Hl.
    + right. subst. reflexivity.
Qed.

Lemma rs_payload_id_text v : raises_safe (payload_id_text v).
Proof.
  unfold payload_id_text.
  apply rs_bind; [destruct v; try apply rs_ok; apply rs_raise; reflexivity|intros ty].
  apply rs_bind; [apply rs_py_encode|intros; apply rs_ok].
Qed.

Lemma rs_get_payload_id v : raises_safe (get_payload_id E v).
Proof.
  unfold get_payload_id. apply rs_except_pass; [|apply rs_payload_id_text].
  intros e H. destruct (o_ip_address E v) as [a|e0] eqn:Ha; cbn in H; [discriminate|].
  inversion H; subst. apply lib_safe. exact (ok_ip_address E HE _ _ Ha).
Qed.

Lemma rs_load_opt_key d k loader :
  (forall s e, loader s = Raise e -> lib_exc e = true \/ e = UnsupportedAlgorithm) ->
  raises_safe (load_opt_key d k loader).
Proof.
  intros Hl. unfold load_opt_key. apply rs_bind; [apply rs_py_get|intros o]. destruct o; [|apply rs_ok].
  apply rs_bind; [apply rs_py_encode|intros pem]. apply rs_bind; [|intros; apply rs_ok].
  intros e H. destruct (Hl _ _ H) as [Hx| ->]; [apply lib_safe; exact Hx|reflexivity].
Qed.

Lemma rs_load_auth_conf d : raises_safe (load_auth_conf E d).
Proof.
  unfold load_auth_conf.
  apply rs_bind; [apply rs_py_get|intros o]. cbv zeta.
  apply rs_bind.
  { apply rs_bind; [apply rs_py_get|intros o2]. destruct o2; [|apply rs_ok].
    apply rs_bind; [apply rs_py_encode|intros; apply rs_ok]. }
  intros psk. apply rs_bind; [apply rs_get_payload_id|intros idp].
  apply rs_bind; [apply rs_load_opt_key; exact (ok_pubkey E HE)|intros pub].
  apply rs_bind; [apply rs_load_opt_key; exact (ok_privkey E HE)|intros priv]. apply rs_ok.
Qed.

Lemma rs_get_int d k dflt : raises_safe (get_int E d k dflt).
Proof. unfold get_int. apply rs_bind; [apply rs_py_get|intros; apply rs_py_int]. Qed.

Lemma rs_load_ipsec_conf my peer k d : raises_safe (load_ipsec_conf E my peer k d).
Proof.
  unfold load_ipsec_conf.
  repeat first
    [ apply rs_ok
    | apply rs_py_get | apply rs_load_from_dict | apply rs_load_crypto_algs | apply rs_get_int
    | apply rs_load_ip_network | apply rs_py_int | apply rs_make_proposal
    | progress cbv zeta
    | apply rs_bind; [|intros ?]
    | match goal with |- raises_safe (match ?x with _ => _ end) => destruct x end ].
Qed.

Lemma rs_load_protect my peer k l : raises_safe (load_protect E my peer k l).
Proof.
  revert k. induction l as [|d r IH]; intros k; cbn [load_protect]; [apply rs_ok|].
  apply rs_bind; [apply rs_load_ipsec_conf|intros c]. apply rs_bind; [apply IH|intros; apply rs_ok].
Qed.

Lemma rs_load_ike_conf addrs k name d : raises_safe (load_ike_conf E addrs k name d).
Proof.
  unfold load_ike_conf.
  repeat first
    [ apply rs_ok
    | apply rs_raise; reflexivity
    | apply rs_py_get | apply rs_py_getitem | apply rs_load_crypto_algs | apply rs_get_int
    | apply rs_load_ip_address | apply rs_load_auth_conf | apply rs_make_proposal | apply rs_py_iter
    | apply rs_load_protect
    | apply rs_bind; [|intros ?]
    | match goal with |- raises_safe (if ?x then _ else _) => destruct x end ].
Qed.

(** every class the loader can raise is turned into ConfigurationError by the except clauses of __init__
    (this is where the regenerated clause list is used: without `except InvalidSyntax` it fails) *)
Lemma init_except_maps e : safe e = true -> @init_except ikeconf (Raise e) = Raise ConfigurationError.
Proof. destruct e; cbn; intros H; try discriminate; reflexivity. Qed.

Lemma init_except_clean addrs k name d :
  (exists ic, init_except (load_ike_conf E addrs k name d) = Ok ic) \/
  init_except (load_ike_conf E addrs k name d) = Raise ConfigurationError.
Proof.
  destruct (load_ike_conf E addrs k name d) as [ic|e] eqn:H.
  - left; exists ic; reflexivity.
  - right. apply init_except_maps. exact (rs_load_ike_conf addrs k name d e H).
Qed.

Lemma load_connections_clean addrs items : forall k acc,
  (exists c, load_connections E addrs k acc items = Ok c) \/
  load_connections E addrs k acc items = Raise ConfigurationError.
Proof.
  induction items as [|[name d] r IH]; intros k acc; cbn [load_connections].
  - left; eexists; reflexivity.
  - destruct (init_except_clean addrs k name d) as [[ic Hic]|Hr]; rewrite ?Hic, ?Hr; cbn [bind].
    + apply IH.
    + right; reflexivity.
Qed.

Lemma load_clean addrs d :
  (exists c, load E addrs d = Ok c) \/ load E addrs d = Raise ConfigurationError.
Proof.
  destruct d; cbn [load]; try (right; reflexivity). apply load_connections_clean.
Qed.

End WithEnv.

(** * Faithful loading *)

Lemma bind_ok {A B} (m : res A) (f : A -> res B) b :
  bind m f = Ok b -> exists a, m = Ok a /\ f a = Ok b.
Proof. destruct m; cbn; [eauto|discriminate]. Qed.

Ltac inv_bind H :=
  let a := fresh "a" in let Ha := fresh "Ha" in
  apply bind_ok in H; destruct H as (a & Ha & H); cbv beta zeta in H.

Lemma except_raise_ok {A} (m : res A) classes to a : except_raise m classes to = Ok a -> m = Ok a.
Proof. destruct m; cbn; [auto|]. destruct (exc_in e classes); discriminate. Qed.

Lemma py_get_field d k o : py_get d k = Ok o -> o = field d k.
Proof. destruct d; cbn; intros H; inversion H; reflexivity. Qed.

Lemma py_getitem_field d k v : py_getitem d k = Ok v -> field d k = Some v.
Proof.
  destruct d; cbn; intros H; try discriminate. destruct (assoc_str k l); inversion H; reflexivity.
Qed.

Lemma with_default_field d k x : with_default (field d k) x = field_or d k x.
Proof. reflexivity. Qed.

Lemma field_or_some d k v x : field d k = Some v -> field_or d k x = v.
Proof. unfold field_or. intros ->. reflexivity. Qed.

Lemma load_from_dict_ok {A} key (t : list (string * A)) a :
  load_from_dict key t = Ok a -> exists s, key = PStr s /\ table_get s t = Some a.
Proof.
  intros H. apply except_raise_ok in H. destruct key; cbn in H; try discriminate.
  exists s. split; [reflexivity|]. destruct (table_get s t); inversion H; reflexivity.
Qed.

Lemma load_name_ok key (t : list (string * Z)) z : load_from_dict key t = Ok z -> z = read_name t key.
Proof. intros H. apply load_from_dict_ok in H as (s & -> & Hs). cbn. rewrite Hs. reflexivity. Qed.

Lemma load_alg_ok t x tr : load_alg t x = Ok tr -> read_alg t x = [tr].
Proof.
  unfold load_alg, read_alg. destruct (py_str_atom x).
  - intros H. apply load_from_dict_ok in H as (s' & Hs & Ht). inversion Hs; subst. rewrite Ht. reflexivity.
  - intros H. apply except_raise_ok in H. discriminate.
Qed.

Lemma load_alg_list_ok t l : forall trs, load_alg_list t l = Ok trs -> trs = flat_map (read_alg t) l.
Proof.
  induction l as [|x r IH]; cbn [load_alg_list flat_map]; intros trs H.
  - inversion H; reflexivity.
  - inv_bind H. inv_bind H. inversion H; subst. rewrite (load_alg_ok _ _ _ Ha). rewrite <- (IH _ Ha0). reflexivity.
Qed.

Lemma load_crypto_algs_ok v t trs : load_crypto_algs v t = Ok trs -> trs = read_algs t v.
Proof. destruct v; cbn; try discriminate. apply load_alg_list_ok. Qed.

Lemma make_proposal_ok n p trs pr :
  make_proposal n p trs = Ok pr -> pr = {| p_num := n; p_protocol := p; p_transforms := trs |}.
Proof. destruct trs; cbn; intros H; inversion H; reflexivity. Qed.

Lemma cleared_encr p l : cleared K_encr p l = if Z.eqb p PROTO_AH then [] else l.
Proof.
  unfold cleared. change (Z.eqb p ah_protocol) with (Z.eqb p PROTO_AH). destruct (Z.eqb p PROTO_AH); reflexivity.
Qed.
Lemma cleared_integ p l : cleared K_integ p l = l.
Proof. unfold cleared. destruct (Z.eqb p ah_protocol); reflexivity. Qed.
Lemma cleared_dh p l : cleared K_dh p l = l.
Proof. unfold cleared. destruct (Z.eqb p ah_protocol); reflexivity. Qed.

Lemma child_transforms encr integ dh :
  flat_map (pick encr integ [] dh) child_transform_order = (encr ++ integ ++ dh ++ [NO_ESN])%list.
Proof. cbn. reflexivity. Qed.

Lemma ike_transforms encr integ prf dh :
  flat_map (pick encr integ prf dh) ike_transform_order = (encr ++ integ ++ prf ++ dh)%list.
Proof. cbn. rewrite app_nil_r. reflexivity. Qed.

Lemma from_network_spec n port proto : from_network n port proto = read_selector n port proto.
Proof. reflexivity. Qed.

Section Faithful.
Variable E : env.

Lemma get_int_ok d k dflt z : get_int E d k dflt = Ok z -> z = read_int E (field_or d k dflt).
Proof.
  unfold get_int. intros H. inv_bind H. apply py_get_field in Ha. subst a.
  rewrite with_default_field in H. unfold read_int. rewrite H. reflexivity.
Qed.

Lemma py_int_ok v z : py_int (o_int_nonascii E) v = Ok z -> z = read_int E v.
Proof. intros H. unfold read_int. rewrite H. reflexivity. Qed.

Lemma load_ip_address_ok v a : load_ip_address E v = Ok a -> a = read_endpoint E v.
Proof.
  unfold load_ip_address, read_endpoint. intros H. apply except_raise_ok in H.
  inv_bind H. inv_bind H. rewrite Ha, Ha0. inversion H; reflexivity.
Qed.

Lemma load_ip_network_ok v n : load_ip_network E v = Ok n -> o_ip_network E v = Ok n.
Proof. apply except_raise_ok. Qed.

Lemma get_payload_id_ok v i : get_payload_id E v = Ok i -> i = read_identity E v.
Proof.
  unfold get_payload_id, read_identity, except_pass.
  destruct (o_ip_address E v) as [a|e0]; cbn [bind].
  - intros H. inversion H. reflexivity.
  - destruct (exc_in e0 payload_id_caught); [|discriminate].
    unfold payload_id_text. intros H. inv_bind H. inv_bind H.
    destruct v; cbn in Ha0; try discriminate. inversion Ha0; subst. inversion Ha; subst.
    inversion H. reflexivity.
Qed.

Lemma load_opt_key_ok d k loader o : load_opt_key d k loader = Ok o -> o = read_key loader (field d k).
Proof.
  unfold load_opt_key. intros H. inv_bind H. apply py_get_field in Ha. subst a.
  destruct (field d k) as [v|]; [|inversion H; reflexivity].
  inv_bind H. inv_bind H. destruct v; cbn in Ha; try discriminate. inversion Ha; subst.
  cbn. rewrite Ha0. inversion H; reflexivity.
Qed.

Lemma load_auth_conf_ok d a : load_auth_conf E d = Ok a -> a = read_auth E d.
Proof.
  unfold load_auth_conf, read_auth. intros H.
  inv_bind H. apply py_get_field in Ha. subst a0. rewrite with_default_field in H.
  inv_bind H. inv_bind Ha. apply py_get_field in Ha0. subst a1.
  inv_bind H. apply get_payload_id_ok in Ha0.
  inv_bind H. apply load_opt_key_ok in Ha1.
  inv_bind H. apply load_opt_key_ok in Ha2.
  inversion H; subst. f_equal.
  destruct (field d "psk") as [v|]; [|inversion Ha; reflexivity].
  inv_bind Ha. destruct v; cbn in Ha0; try discriminate. inversion Ha0; subst. inversion Ha; reflexivity.
Qed.

Lemma subnet_ok o dflt n :
  match o with Some v => load_ip_network E v | None => Ok (network_of_address dflt) end = Ok n ->
  n = read_subnet E o dflt.
Proof.
  destruct o as [v|]; cbn.
  - intros H. apply load_ip_network_ok in H. rewrite H. reflexivity.
  - intros H. inversion H. reflexivity.
Qed.

Lemma load_ipsec_conf_ok my peer k d c :
  load_ipsec_conf E my peer k d = Ok c -> c = read_child E my peer k d.
Proof.
  unfold load_ipsec_conf. intros H.
  repeat match type of H with
         | bind (py_get _ _) _ = Ok _ =>
             let a := fresh "o" in let Ha := fresh "Ho" in
             apply bind_ok in H; destruct H as (a & Ha & H); cbv beta zeta in H;
             apply py_get_field in Ha; subst a; rewrite ?with_default_field in H
         | bind (load_from_dict _ _) _ = Ok _ =>
             let a := fresh "z" in let Ha := fresh "Hz" in
             apply bind_ok in H; destruct H as (a & Ha & H); cbv beta zeta in H;
             apply load_name_ok in Ha; subst a
         | bind (load_crypto_algs _ _) _ = Ok _ =>
             let a := fresh "l" in let Ha := fresh "Hl" in
             apply bind_ok in H; destruct H as (a & Ha & H); cbv beta zeta in H;
             apply load_crypto_algs_ok in Ha; subst a
         | bind (get_int _ _ _ _) _ = Ok _ =>
             let a := fresh "z" in let Ha := fresh "Hz" in
             apply bind_ok in H; destruct H as (a & Ha & H); cbv beta zeta in H;
             apply get_int_ok in Ha; subst a
         | bind (match _ with Some v => load_ip_network _ v | None => _ end) _ = Ok _ =>
             let a := fresh "n" in let Ha := fresh "Hn" in
             apply bind_ok in H; destruct H as (a & Ha & H); cbv beta zeta in H;
             apply subnet_ok in Ha; subst a
         | bind (make_proposal _ _ _) _ = Ok _ =>
             let a := fresh "p" in let Ha := fresh "Hp" in
             apply bind_ok in H; destruct H as (a & Ha & H); cbv beta zeta in H;
             apply make_proposal_ok in Ha; subst a
         end.
  (* the index: given, or the k-th random draw *)
  apply bind_ok in H. destruct H as (idx & Hidx & H). cbv beta zeta in H.
  assert (Hi : idx = match field d "index" with Some v => read_int E v | None => o_randint E k end).
  { destruct (field d "index"); [apply py_int_ok; exact Hidx|inversion Hidx; reflexivity]. }
  subst idx.
  repeat match type of H with
         | bind (py_get _ _) _ = Ok _ =>
             let a := fresh "o" in let Ha := fresh "Ho" in
             apply bind_ok in H; destruct H as (a & Ha & H); cbv beta zeta in H;
             apply py_get_field in Ha; subst a; rewrite ?with_default_field in H
         | bind (load_from_dict _ _) _ = Ok _ =>
             let a := fresh "z" in let Ha := fresh "Hz" in
             apply bind_ok in H; destruct H as (a & Ha & H); cbv beta zeta in H;
             apply load_name_ok in Ha; subst a
         | bind (get_int _ _ _ _) _ = Ok _ =>
             let a := fresh "z" in let Ha := fresh "Hz" in
             apply bind_ok in H; destruct H as (a & Ha & H); cbv beta zeta in H;
             apply get_int_ok in Ha; subst a
         | bind (make_proposal _ _ _) _ = Ok _ =>
             let a := fresh "p" in let Ha := fresh "Hp" in
             apply bind_ok in H; destruct H as (a & Ha & H); cbv beta zeta in H;
             apply make_proposal_ok in Ha; subst a
         end.
  inversion H; clear H. unfold read_child.
  rewrite ?child_transforms, cleared_encr, cleared_integ, cleared_dh.
  reflexivity.
Qed.

Lemma load_protect_ok my peer l : forall k cs,
  load_protect E my peer k l = Ok cs -> cs = read_protect E my peer k l.
Proof.
  induction l as [|d r IH]; cbn [load_protect read_protect]; intros k cs H.
  - inversion H; reflexivity.
  - inv_bind H. inv_bind H. inversion H; subst.
    rewrite (load_ipsec_conf_ok _ _ _ _ _ Ha), (IH _ _ Ha0). reflexivity.
Qed.

Lemma load_ike_conf_ok addrs k name d ic :
  load_ike_conf E addrs k name d = Ok ic ->
  ic = read_connection E k name d /\ existsb (addr_eqb (i_my_addr ic)) addrs = true.
Proof.
  unfold load_ike_conf. intros H.
  repeat match type of H with
         | bind (py_get _ _) _ = Ok _ =>
             let a := fresh "o" in let Ha := fresh "Ho" in
             apply bind_ok in H; destruct H as (a & Ha & H); cbv beta zeta in H;
             apply py_get_field in Ha; subst a; rewrite ?with_default_field in H
         | bind (load_crypto_algs _ _) _ = Ok _ =>
             let a := fresh "l" in let Ha := fresh "Hl" in
             apply bind_ok in H; destruct H as (a & Ha & H); cbv beta zeta in H;
             apply load_crypto_algs_ok in Ha; subst a
         end.
  inv_bind H. apply py_getitem_field in Ha. inv_bind H. apply load_ip_address_ok in Ha0.
  rename Ha into Hmy. rename Ha0 into Hmy'.
  inv_bind H. apply py_getitem_field in Ha. inv_bind H. apply load_ip_address_ok in Ha0.
  rename Ha into Hpeer. rename Ha0 into Hpeer'.
  inv_bind H. apply py_getitem_field in Ha. inv_bind H. apply load_auth_conf_ok in Ha0.
  rename Ha into Hma. rename Ha0 into Hma'.
  inv_bind H. apply py_getitem_field in Ha. inv_bind H. apply load_auth_conf_ok in Ha0.
  rename Ha into Hpa. rename Ha0 into Hpa'.
  inv_bind H. apply get_int_ok in Ha. rename Ha into Hlt.
  inv_bind H. apply get_int_ok in Ha. rename Ha into Hdpd.
  inv_bind H. apply make_proposal_ok in Ha. rename Ha into Hprop.
  destruct (existsb (addr_eqb a0) addrs) eqn:Hmem; cbn [negb] in H; [|discriminate].
  inv_bind H. apply py_getitem_field in Ha. rename Ha into Hprot.
  inv_bind H. rename Ha into Hiter.
  inv_bind H. apply load_protect_ok in Ha.
  inversion H; clear H. cbn [i_my_addr]. split; [|exact Hmem].
  unfold read_connection.
  rewrite (field_or_some _ _ _ PNone Hmy), (field_or_some _ _ _ PNone Hpeer),
    (field_or_some _ _ _ PNone Hma), (field_or_some _ _ _ PNone Hpa), Hprot.
  unfold entries_of. rewrite Hiter. subst. rewrite ike_transforms. reflexivity.
Qed.

Lemma init_except_ok {A} (m : res A) a : init_except m = Ok a -> m = Ok a.
Proof. destruct m as [x|e]; [auto|]. destruct e; cbn; discriminate. Qed.

Lemma load_connections_ok addrs items : forall k acc c,
  load_connections E addrs k acc items = Ok c -> c = read_connections E k acc items.
Proof.
  induction items as [|[name d] r IH]; cbn [load_connections read_connections]; intros k acc c H.
  - inversion H; reflexivity.
  - inv_bind H. apply init_except_ok in Ha. apply load_ike_conf_ok in Ha as [-> _].
    apply IH in H. exact H.
Qed.

Lemma load_faithful addrs d c : load E addrs d = Ok c -> c = spec E d.
Proof. destruct d; cbn [load spec]; try discriminate. apply load_connections_ok. Qed.

(** * my_addr is a listening address, and is the first component of the key *)

Definition listened (addrs : list address) (c : config) : Prop :=
  Forall (fun kv => existsb (addr_eqb (i_my_addr (snd kv))) addrs = true /\
                    fst kv = (i_my_addr (snd kv), i_peer_addr (snd kv))) c.

Lemma key_eqb_eq k k' : key_eqb k k' = true -> k = k'.
Proof.
  destruct k as [[v1 a1] [v2 a2]], k' as [[w1 b1] [w2 b2]]. unfold key_eqb, addr_eqb. cbn [fst snd].
  intros H. apply andb_prop in H as [H1 H2]. apply andb_prop in H1 as [H11 H12]. apply andb_prop in H2 as [H21 H22].
  apply Z.eqb_eq in H11, H12, H21, H22. subst. reflexivity.
Qed.

Lemma dict_set_listened addrs acc ic :
  listened addrs acc -> existsb (addr_eqb (i_my_addr ic)) addrs = true ->
  listened addrs (dict_set acc (i_my_addr ic, i_peer_addr ic) ic).
Proof.
  unfold listened. induction acc as [|[k' v'] r IH]; cbn [dict_set]; intros Hacc Hic.
  - constructor; [split; [exact Hic|reflexivity]|constructor].
  - inversion Hacc as [|? ? [H1 H2] Hr]; subst. cbn [fst snd] in *.
    destruct (key_eqb (i_my_addr ic, i_peer_addr ic) k') eqn:Hk.
    + apply key_eqb_eq in Hk. constructor; [|exact Hr]. cbn [fst snd]. split; [exact Hic|]. symmetry; exact Hk.
    + constructor; [split; assumption|]. apply IH; assumption.
Qed.

Lemma load_connections_listened addrs items : forall k acc c,
  listened addrs acc -> load_connections E addrs k acc items = Ok c -> listened addrs c.
Proof.
  induction items as [|[name d] r IH]; cbn [load_connections]; intros k acc c Hacc H.
  - inversion H; subst; exact Hacc.
  - inv_bind H. apply init_except_ok in Ha. apply load_ike_conf_ok in Ha as [_ Hmem].
    eapply IH; [|exact H]. apply dict_set_listened; assumption.
Qed.

Lemma load_listened addrs d c : load E addrs d = Ok c -> listened addrs c.
Proof.
  destruct d; cbn [load]; try discriminate. apply load_connections_listened. constructor.
Qed.

End Faithful.

(** membership by addr_eqb is membership *)
Lemma addr_mem_In a addrs : existsb (addr_eqb a) addrs = true -> In a addrs.
Proof.
  intros H. apply existsb_exists in H as (x & Hin & Heq).
  unfold addr_eqb in Heq. apply andb_prop in Heq as [H1 H2]. apply Z.eqb_eq in H1, H2.
  destruct a, x; cbn in *; subst. exact Hin.
Qed.

Lemma load_my_addr E addrs d c :
  load E addrs d = Ok c ->
  Forall (fun kv => In (i_my_addr (snd kv)) addrs /\ fst kv = (i_my_addr (snd kv), i_peer_addr (snd kv))) c.
Proof.
  intros H. apply load_listened in H. unfold listened in H. rewrite Forall_forall in *.
  intros kv Hin. destruct (H kv Hin) as [H1 H2]. split; [apply addr_mem_In; exact H1|exact H2].
Qed.

(** * Non-vacuity: an environment satisfying [env_ok], a dictionary that loads, one that is rejected *)
Definition example_env : env :=
  {| o_getaddrinfo := fun v => match v with PStr s => Ok s | PNone => Raise GaiError | _ => Raise TypeError end;
     o_ip_address := fun v => match v with
                              | PStr s => if String.eqb s "10.0.0.1" then Ok (4, 167772161)
                                          else if String.eqb s "10.0.0.2" then Ok (4, 167772162)
                                          else Raise ValueError
                              | _ => Raise ValueError
                              end;
     o_ip_network := fun _ => Raise ValueError;
     o_pubkey := fun _ => Raise UnsupportedAlgorithm;
     o_privkey := fun _ => Raise TypeError;
     o_int_nonascii := fun _ => None;
     o_randint := fun _ => 77 |}.

Example example_env_ok : env_ok example_env.
Proof.
  constructor; cbn.
  - intros v e H. destruct v; inversion H; auto.
  - intros v e H. destruct v; try (inversion H; reflexivity).
    destruct (String.eqb s "10.0.0.1"); [discriminate|]. destruct (String.eqb s "10.0.0.2"); [discriminate|].
    inversion H; reflexivity.
  - intros v e H; inversion H; reflexivity.
  - intros v e H; inversion H; right; reflexivity.
  - intros v e H; inversion H; left; reflexivity.
Qed.

Definition example_conn (extra : list (pv * pv)) : pv :=
  PDict [(PStr "c", PDict ([(PStr "my_addr", PStr "10.0.0.1"); (PStr "peer_addr", PStr "10.0.0.2");
                            (PStr "my_auth", PDict [(PStr "psk", PStr "a"); (PStr "id", PStr "alice@example.org")]);
                            (PStr "peer_auth", PDict [(PStr "psk", PStr "b")]);
                            (PStr "protect", PList [PDict [(PStr "ipsec_proto", PStr "ah"); (PStr "my_port", PStr " 2_3 ")]])]
                           ++ extra))].

Example example_loads :
  exists ic, load example_env [(4, 167772161)] (example_conn []) = Ok [(((4, 167772161), (4, 167772162)), ic)]
             /\ p_transforms (i_proposal ic) = [T 1 12 (Some 256); T 3 12 None; T 2 5 None; T 4 14 None]
             /\ map (fun c => (p_transforms (c_proposal c), ts_end_port (c_my_ts c), c_index c)) (i_protect ic)
                = [([T 3 12 None; NO_ESN], 23, 77)]
             /\ id_type (a_id (i_my_auth ic)) = 3.
Proof. eexists. vm_compute. repeat split. Qed.

Example example_rejected :
  load example_env [(4, 167772162)] (example_conn []) = Raise ConfigurationError           (* not listening *)
  /\ load example_env [(4, 167772161)] (example_conn [(PStr "lifetime", PStr "abc")]) = Raise ConfigurationError
  /\ load example_env [(4, 167772161)]
       (example_conn [(PStr "encr", PList []); (PStr "integ", PList []); (PStr "prf", PList []); (PStr "dh", PList [])])
     = Raise ConfigurationError.                                                          (* F14 *)
Proof. vm_compute. repeat split. Qed.
