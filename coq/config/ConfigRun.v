(** Entry points evaluated by the correspondence check (sx in, sx out). *)
From Coq Require Import List String Ascii ZArith NArith Bool.
From VLib Require Import Sx.
From Config Require Import PyVal ConfigTypes Gen.ConfigTables ConfigModel.
Import ListNotations.
Open Scope string_scope.
Open Scope Z_scope.

Definition bytes_of_string (s : string) : list N := map N_of_ascii (list_ascii_of_string s).

(** Text is interned: string literals are by far the most expensive thing for coqc to read, so the harness
    sends every distinct text once per batch ([tab]) and refers to it as L [10 + index]. *)
Definition hx (h : string) : string :=
  match hex_to_bytes h with Some b => string_of_bytes b | None => "BAD-HEX" end.

Fixpoint index_of (s : string) (tab : list string) (i : Z) : option Z :=
  match tab with
  | [] => None
  | t :: r => if String.eqb s t then Some i else index_of s r (i + 1)
  end.

Section Tab.
Variable tab : list string.

Definition sx_text (s : string) : sx :=
  match index_of s tab 0 with
  | Some i => SxL [SxZ (10 + i)]
  | None => sx_bytes (bytes_of_string s)
  end.

(** harness encoding of Python values: None -> SxNone, int -> SxZ, str -> L [10 + index] (or SxS / SxH),
    bool -> L [1; b], list -> L (4 :: items), dict -> L (5 :: k1 :: v1 :: k2 :: v2 ...) *)
Fixpoint pv_of_sx (x : sx) {struct x} : option pv :=
  match x with
  | SxNone => Some PNone
  | SxZ z => Some (PInt z)
  | SxS s => Some (PStr s)
  | SxH h => match hex_to_bytes h with Some b => Some (PStr (string_of_bytes b)) | None => None end
  | SxL l =>
      match l with
      | SxZ tag :: items =>
          if Z.eqb tag 1 then
            match items with [SxZ b] => Some (PBool (negb (Z.eqb b 0))) | _ => None end
          else if Z.leb 10 tag then
            match items with [] => Some (PStr (nth (Z.to_nat (tag - 10)) tab "BAD-INDEX")) | _ => None end
          else if Z.eqb tag 4 then
            option_map PList
              ((fix go (l : list sx) : option (list pv) :=
                  match l with
                  | [] => Some []
                  | y :: r => match pv_of_sx y, go r with Some a, Some b => Some (a :: b) | _, _ => None end
                  end) items)
          else if Z.eqb tag 5 then
            option_map PDict
              ((fix go (l : list sx) : option (list (pv * pv)) :=
                  match l with
                  | [] => Some []
                  | k :: v :: r =>
                      match pv_of_sx k, pv_of_sx v, go r with
                      | Some a, Some b, Some c => Some ((a, b) :: c)
                      | _, _, _ => None
                      end
                  | _ => None
                  end) items)
          else None
      | _ => None
      end
  end.

(** canonical output encoding of a Python value *)
Fixpoint sx_of_pv (v : pv) : sx :=
  match v with
  | PNone => SxNone
  | PBool b => SxL [SxZ 1; SxZ (if b then 1 else 0)]
  | PInt z => SxZ z
  | PStr s => sx_text s
  | PList l => SxL (SxZ 4 :: map sx_of_pv l)
  | PDict kvs => SxL (SxZ 5 :: flat_map (fun kv => [sx_of_pv (fst kv); sx_of_pv (snd kv)]) kvs)
  end.

(** exception classes are exchanged as numbers: 0 ConfigurationError, 1 KeyError, 2 AttributeError, 3 TypeError,
    4 ValueError, 5 socket.gaierror, 6 message.InvalidSyntax, 8 cryptography UnsupportedAlgorithm, 7 anything else *)
Definition exc_code (e : exc) : Z :=
  match e with
  | ConfigurationError => 0 | KeyError => 1 | AttributeError => 2 | TypeError => 3 | ValueError => 4
  | GaiError => 5 | InvalidSyntax => 6 | OtherError => 7 | UnsupportedAlgorithm => 8
  end.

Definition exc_of_code (z : Z) : exc :=
  if Z.eqb z 0 then ConfigurationError else if Z.eqb z 1 then KeyError else if Z.eqb z 2 then AttributeError
  else if Z.eqb z 3 then TypeError else if Z.eqb z 4 then ValueError else if Z.eqb z 5 then GaiError
  else if Z.eqb z 6 then InvalidSyntax else if Z.eqb z 8 then UnsupportedAlgorithm else OtherError.

Definition sx_addr (a : address) : sx := SxL [SxZ (fst a); SxZ (snd a)].
Definition sx_transform (t : transform) : sx := SxL [SxZ (t_type t); SxZ (t_id t); sx_opt SxZ (t_keylen t)].
Definition sx_proposal (p : proposal) : sx := SxL [SxZ (p_num p); SxZ (p_protocol p); sx_list sx_transform (p_transforms p)].
Definition sx_ident (i : ident) : sx := SxL [SxZ (id_type i); sx_text (id_data i)].
Definition sx_auth (a : authconf) : sx :=
  SxL [sx_opt sx_text (a_psk a); sx_ident (a_id a); sx_opt SxZ (a_privkey a);
       sx_opt SxZ (a_pubkey a)].
Definition sx_tsel (t : tsel) : sx :=
  SxL [SxZ (ts_type t); SxZ (ts_proto t); SxZ (ts_start_port t); SxZ (ts_end_port t); sx_addr (ts_start_addr t);
       sx_addr (ts_end_addr t)].
Definition sx_ipsecconf (c : ipsecconf) : sx :=
  SxL [sx_tsel (c_my_ts c); SxZ (c_index c); sx_tsel (c_peer_ts c); SxZ (c_lifetime c); SxZ (c_mode c);
       sx_proposal (c_proposal c)].
Definition sx_ikeconf (i : ikeconf) : sx :=
  SxL [sx_of_pv (i_name i); sx_addr (i_my_addr i); sx_addr (i_peer_addr i); sx_auth (i_my_auth i);
       sx_auth (i_peer_auth i); SxZ (i_lifetime i); SxZ (i_dpd i); sx_proposal (i_proposal i);
       sx_list sx_ipsecconf (i_protect i)].
Definition sx_config (c : config) : sx :=
  sx_list (fun kv => SxL [SxL [sx_addr (fst (fst kv)); sx_addr (snd (fst kv))]; sx_ikeconf (snd kv)]) c.

Definition sx_res {A} (f : A -> sx) (r : res A) : sx :=
  match r with Ok a => SxL [SxZ 0; f a] | Raise e => SxL [SxZ 1; SxZ (exc_code e)] end.

(** environment entries: L [kind; key; outcome]; outcome = L (0 :: values) | L [1; class code] *)
Definition entry := (Z * pv * sx)%type.

Fixpoint entries_of_sx (l : list sx) : option (list entry) :=
  match l with
  | [] => Some []
  | SxL [SxZ k; key; out] :: r =>
      match pv_of_sx key, entries_of_sx r with
      | Some kv, Some rest => Some ((k, kv, out) :: rest)
      | _, _ => None
      end
  | _ => None
  end.

Fixpoint find_entry (kind : Z) (key : pv) (l : list entry) : option sx :=
  match l with
  | [] => None
  | (k, kv, out) :: r => if Z.eqb k kind && pv_eqb kv key then Some out else find_entry kind key r
  end.

Definition outcome {A} (dec : list sx -> option A) (o : option sx) : res A :=
  match o with
  | Some (SxL (SxZ 0 :: vals)) => match dec vals with Some a => Ok a | None => Raise OtherError end
  | Some (SxL [SxZ 1; SxZ cls]) => Raise (exc_of_code cls)
  | _ => Raise OtherError          (* the harness did not resolve this value: shows up as a mismatch *)
  end.

Definition dec_str (l : list sx) : option string :=
  match l with
  | [x] => match pv_of_sx x with Some (PStr s) => Some s | _ => None end
  | _ => None
  end.
Definition dec_addr (l : list sx) : option address := match l with [SxZ v; SxZ a] => Some (v, a) | _ => None end.
Definition dec_net (l : list sx) : option network :=
  match l with [SxZ v; SxZ a; SxZ b] => Some {| n_version := v; n_first := a; n_last := b |} | _ => None end.
Definition dec_Z (l : list sx) : option Z := match l with [SxZ z] => Some z | _ => None end.

Definition env_of (entries : list entry) (draws : list Z) : env :=
  {| o_getaddrinfo := fun v => outcome dec_str (find_entry 0 v entries);
     o_ip_address := fun v => outcome dec_addr (find_entry 1 v entries);
     o_ip_network := fun v => outcome dec_net (find_entry 2 v entries);
     o_pubkey := fun s => outcome dec_Z (find_entry 3 (PStr s) entries);
     o_privkey := fun s => outcome dec_Z (find_entry 4 (PStr s) entries);
     o_int_nonascii := fun s => match outcome dec_Z (find_entry 5 (PStr s) entries) with Ok z => Some z | Raise _ => None end;
     o_randint := fun k => nth k draws (-1) |}.

Fixpoint addrs_of_sx (l : list sx) : option (list address) :=
  match l with
  | [] => Some []
  | SxL [SxZ v; SxZ a] :: r => option_map (cons (v, a)) (addrs_of_sx r)
  | _ => None
  end.

Fixpoint zs_of_sx (l : list sx) : option (list Z) :=
  match l with
  | [] => Some []
  | SxZ z :: r => option_map (cons z) (zs_of_sx r)
  | _ => None
  end.

(** The oracle answers are pure functions of the value, so the harness sends them once per batch. *)
Definition genv_of (x : sx) : list entry :=
  match x with SxL l => match entries_of_sx l with Some e => e | None => [] end | _ => [] end.

(** Configuration._load_ike_conf(name, conn, addrs) for the first connection of the dictionary: only whether it
    returns and, if not, the exception class BEFORE __init__ maps it (the loaded tree is part of the full result) *)
Definition raw_first (E : env) (addrs : list address) (d : pv) : sx :=
  match d with
  | PDict ((name, conn) :: _) =>
      match load_ike_conf E addrs 0 name conn with
      | Ok _ => SxL [SxZ 0]
      | Raise e => SxL [SxZ 1; SxZ (exc_code e)]
      end
  | _ => SxNone
  end.

(** input L [L addrs; L draws; dict]  ->  L [Configuration(addrs, dict); raw result of the first connection] *)
Definition run_load (entries : list entry) (x : sx) : sx :=
  match x with
  | SxL [SxL a; SxL dr; d] =>
      match addrs_of_sx a, zs_of_sx dr, pv_of_sx d with
      | Some addrs, Some draws, Some dict =>
          let E := env_of entries draws in
          SxL [sx_res sx_config (load E addrs dict); raw_first E addrs dict]
      | _, _, _ => bad_input
      end
  | _ => bad_input
  end.

(** input: a value -> int(value) (ASCII text decided by the model itself) *)
Definition run_int (x : sx) : sx :=
  match pv_of_sx x with
  | Some v => sx_res SxZ (py_int (fun _ => None) v)
  | None => bad_input
  end.

End Tab.
