(** The loaded configuration tree and the oracle environment. *)
From Coq Require Import List String ZArith Bool.
From Config Require Import PyVal.
Import ListNotations.

(** message.Transform(type, id, keylen) *)
Record transform := { t_type : Z; t_id : Z; t_keylen : option Z }.
(** message.Proposal(num, protocol_id, spi = b'', transforms) *)
Record proposal := { p_num : Z; p_protocol : Z; p_transforms : list transform }.
(** ipaddress.IPv4Address / IPv6Address: (version, integer value) *)
Definition address : Type := (Z * Z)%type.
Definition addr_eqb (a b : address) : bool := Z.eqb (fst a) (fst b) && Z.eqb (snd a) (snd b).
(** ipaddress.IPv4Network / IPv6Network: version, first and last address *)
Record network := { n_version : Z; n_first : Z; n_last : Z }.
(** message.PayloadID(id_type, id_data) *)
Record ident := { id_type : Z; id_data : string }.
(** message.TrafficSelector *)
Record tsel := { ts_type : Z; ts_proto : Z; ts_start_port : Z; ts_end_port : Z; ts_start_addr : address;
                 ts_end_addr : address }.
(** A loaded key is identified by the oracle (the harness numbers the key pairs it knows). *)
Record authconf := { a_psk : option string; a_id : ident; a_privkey : option Z; a_pubkey : option Z }.
Record ipsecconf := { c_my_ts : tsel; c_index : Z; c_peer_ts : tsel; c_lifetime : Z; c_mode : Z;
                      c_proposal : proposal }.
Record ikeconf := { i_name : pv; i_my_addr : address; i_peer_addr : address; i_my_auth : authconf;
                    i_peer_auth : authconf; i_lifetime : Z; i_dpd : Z; i_proposal : proposal;
                    i_protect : list ipsecconf }.
(** Configuration.ike_configurations: an insertion-ordered dict keyed by (my_addr, peer_addr) *)
Definition config : Type := list ((address * address) * ikeconf).

Definition key_eqb (a b : address * address) : bool := addr_eqb (fst a) (fst b) && addr_eqb (snd a) (snd b).

(** d[k] = v on an insertion-ordered dict *)
Fixpoint dict_set (d : config) (k : address * address) (v : ikeconf) : config :=
  match d with
  | [] => [(k, v)]
  | (k', v') :: r => if key_eqb k k' then (k', v) :: r else (k', v') :: dict_set r k v
  end.

(** Which list of transforms a Proposal constructor argument names (order regenerated from the source). *)
Inductive algkind := K_encr | K_integ | K_prf | K_dh | K_no_esn.
Definition algkind_eqb (a b : algkind) : bool :=
  match a, b with
  | K_encr, K_encr | K_integ, K_integ | K_prf, K_prf | K_dh, K_dh | K_no_esn, K_no_esn => true
  | _, _ => false
  end.

(** Oracles: what the library functions answer for the values of the dictionary.  The harness resolves
    them on the real interpreter before the model runs; the theorems quantify over every environment. *)
Record env := {
  (* socket.getaddrinfo(v, None)[0][4][0] : the first address, as text *)
  o_getaddrinfo : pv -> res string;
  (* ipaddress.ip_address(v) *)
  o_ip_address : pv -> res address;
  (* ipaddress.ip_network(v) *)
  o_ip_network : pv -> res network;
  (* RsaPublicKey(pem) / RsaPrivateKey(pem): identity of the loaded key *)
  o_pubkey : string -> res Z;
  o_privkey : string -> res Z;
  (* int(text) for text with non-ASCII characters; None = ValueError *)
  o_int_nonascii : string -> option Z;
  (* the k-th call of random.randint(0, 2 ** 20) *)
  o_randint : nat -> Z
}.
