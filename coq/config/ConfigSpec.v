(** The documented reading of a configuration dictionary (README / example.yaml), written without
    reference to the loader: what each key means, the defaults when a key is omitted, which algorithm
    name stands for which IANA transform.  It describes no error: for a dictionary the loader rejects,
    [spec] is irrelevant.  The oracles (address / network / PEM / non-ASCII integer parsing, random index)
    are those of the environment. *)
From Coq Require Import List String Ascii ZArith NArith Bool.
From VLib Require Import Bytes.
From Config Require Import PyVal ConfigTypes.
Import ListNotations.
Open Scope string_scope.
Open Scope Z_scope.

(** IANA "IKEv2 Parameters": transform types ENCR=1 PRF=2 INTEG=3 DH=4 ESN=5 *)
Definition T (ty id : Z) (keylen : option Z) : transform := {| t_type := ty; t_id := id; t_keylen := keylen |}.

(** documented algorithm names -> IANA numbers *)
Definition doc_encr : list (string * transform) :=
  [("aes128", T 1 12 (Some 128)); ("aes256", T 1 12 (Some 256))].          (* ENCR_AES_CBC = 12 *)
Definition doc_integ : list (string * transform) :=
  [("sha256", T 3 12 None);     (* AUTH_HMAC_SHA2_256_128 *)
   ("sha512", T 3 14 None);     (* AUTH_HMAC_SHA2_512_256 *)
   ("sha1", T 3 2 None)].       (* AUTH_HMAC_SHA1_96 *)
Definition doc_prf : list (string * transform) :=
  [("sha1", T 2 2 None); ("sha256", T 2 5 None); ("sha512", T 2 7 None)].  (* PRF_HMAC_SHA1 / SHA2_256 / SHA2_512 *)
Definition doc_dh : list (string * transform) :=
  [("14", T 4 14 None); ("15", T 4 15 None); ("16", T 4 16 None); ("17", T 4 17 None); ("18", T 4 18 None);
   ("19", T 4 19 None); ("20", T 4 20 None); ("21", T 4 21 None);
   ("modp2048", T 4 14 None); ("modp3072", T 4 15 None); ("modp4096", T 4 16 None); ("modp6144", T 4 17 None);
   ("modp8192", T 4 18 None); ("ecp256", T 4 19 None); ("ecp384", T 4 20 None); ("ecp521", T 4 21 None)].
Definition doc_ip_proto : list (string * Z) := [("tcp", 6); ("any", 0); ("udp", 17); ("icmp", 1)].   (* IP protocol numbers *)
Definition doc_mode : list (string * Z) := [("transport", 0); ("tunnel", 1)].            (* XFRM_MODE_* *)
Definition doc_ipsec_proto : list (string * Z) := [("esp", 3); ("ah", 2)].                (* IKEv2 protocol ids *)
Definition NO_ESN : transform := T 5 0 None.
Definition PROTO_IKE : Z := 1.
Definition PROTO_AH : Z := 2.

(** documented defaults *)
Definition doc_default_id : pv := PStr "https://github.com/alejandro-perez/pyikev2".
Definition doc_ike_encr : pv := PList [PStr "aes256"].
Definition doc_ike_integ : pv := PList [PStr "sha256"].
Definition doc_ike_prf : pv := PList [PStr "sha256"].
Definition doc_ike_dh : pv := PList [PStr "14"].
Definition doc_ike_lifetime : pv := PInt 900.       (* 15 minutes *)
Definition doc_dpd : pv := PInt 60.
Definition doc_child_encr : pv := PList [PStr "aes256"].
Definition doc_child_integ : pv := PList [PStr "sha256"].
Definition doc_child_dh : pv := PList [].             (* no PFS unless asked for *)
Definition doc_child_lifetime : pv := PInt 300.     (* 5 minutes *)

Section Spec.
Variable E : env.

Definition field (d : pv) (k : string) : option pv :=
  match d with PDict kvs => assoc_str k kvs | _ => None end.
Definition field_or (d : pv) (k : string) (default : pv) : pv :=
  match field d k with Some v => v | None => default end.

(** an algorithm name may be written as text or as a number ("14" / 14) *)
Definition read_alg (t : list (string * transform)) (x : pv) : list transform :=
  match py_str_atom x with
  | Some s => match table_get s t with Some tr => [tr] | None => [] end
  | None => []
  end.
(** the listed algorithms, in the listed order *)
Definition read_algs (t : list (string * transform)) (v : pv) : list transform :=
  match v with PList l => flat_map (read_alg t) l | _ => [] end.

Definition read_name (t : list (string * Z)) (v : pv) : Z :=
  match v with PStr s => match table_get s t with Some z => z | None => 0 end | _ => 0 end.

Definition read_int (v : pv) : Z :=
  match py_int (o_int_nonascii E) v with Ok z => z | Raise _ => 0 end.

Definition no_address : address := (0, 0).
(** an endpoint: the first address its name resolves to *)
Definition read_endpoint (v : pv) : address :=
  match o_getaddrinfo E v with
  | Ok txt => match o_ip_address E (PStr txt) with Ok a => a | Raise _ => no_address end
  | Raise _ => no_address
  end.

Definition packed_address (a : address) : string :=
  string_of_list_ascii (map ascii_of_N (be_encode (if Z.eqb (fst a) 4 then 4%nat else 16%nat) (Z.to_N (snd a)))).

(** identity typing: an IPv4 / IPv6 literal, else an e-mail address when it contains '@', else a FQDN
    (RFC 7296 3.5: ID_IPV4_ADDR = 1, ID_FQDN = 2, ID_RFC822_ADDR = 3, ID_IPV6_ADDR = 5) *)
Definition read_identity (v : pv) : ident :=
  match o_ip_address E v with
  | Ok a => {| id_type := if Z.eqb (fst a) 4 then 1 else 5; id_data := packed_address a |}
  | Raise _ =>
      match v with
      | PStr s => {| id_type := if contains_char "@" s then 3 else 2; id_data := s |}
      | _ => {| id_type := 0; id_data := "" |}
      end
  end.

Definition read_key (loader : string -> res Z) (v : option pv) : option Z :=
  match v with
  | Some (PStr pem) => match loader pem with Ok k => Some k | Raise _ => None end
  | _ => None
  end.

Definition read_auth (d : pv) : authconf :=
  {| a_psk := match field d "psk" with Some (PStr s) => Some s | _ => None end;
     a_id := read_identity (field_or d "id" doc_default_id);
     a_privkey := read_key (o_privkey E) (field d "privkey");
     a_pubkey := read_key (o_pubkey E) (field d "pubkey") |}.

(** a subnet; when omitted, exactly the endpoint address *)
Definition read_subnet (v : option pv) (endpoint : address) : network :=
  match v with
  | None => {| n_version := fst endpoint; n_first := snd endpoint; n_last := snd endpoint |}
  | Some v => match o_ip_network E v with Ok n => n | Raise _ => {| n_version := 0; n_first := 0; n_last := 0 |} end
  end.

(** RFC 7296 3.13.1: TS_IPV4_ADDR_RANGE = 7, TS_IPV6_ADDR_RANGE = 8; port 0 stands for every port *)
Definition read_selector (n : network) (port proto : Z) : tsel :=
  {| ts_type := if Z.eqb (n_version n) 6 then 8 else 7; ts_proto := proto;
     ts_start_port := port; ts_end_port := if Z.eqb port 0 then 65535 else port;
     ts_start_addr := (n_version n, n_first n); ts_end_addr := (n_version n, n_last n) |}.

(** one entry of `protect`; [k] = its position among all the entries of the file (for the random index) *)
Definition read_child (my_addr peer_addr : address) (k : nat) (d : pv) : ipsecconf :=
  let proto := read_name doc_ipsec_proto (field_or d "ipsec_proto" (PStr "esp")) in
  let encr := if Z.eqb proto PROTO_AH then [] else read_algs doc_encr (field_or d "encr" doc_child_encr) in
  let integ := read_algs doc_integ (field_or d "integ" doc_child_integ) in
  let dh := read_algs doc_dh (field_or d "dh" doc_child_dh) in
  let ip_proto := read_name doc_ip_proto (field_or d "ip_proto" (PStr "any")) in
  {| c_my_ts := read_selector (read_subnet (field d "my_subnet") my_addr)
                              (read_int (field_or d "my_port" (PInt 0))) ip_proto;
     c_index := match field d "index" with Some v => read_int v | None => o_randint E k end;
     c_peer_ts := read_selector (read_subnet (field d "peer_subnet") peer_addr)
                                (read_int (field_or d "peer_port" (PInt 0))) ip_proto;
     c_lifetime := read_int (field_or d "lifetime" doc_child_lifetime);
     c_mode := read_name doc_mode (field_or d "mode" (PStr "tunnel"));
     c_proposal := {| p_num := 1; p_protocol := proto; p_transforms := encr ++ integ ++ dh ++ [NO_ESN] |} |}.

Fixpoint read_protect (my_addr peer_addr : address) (k : nat) (l : list pv) : list ipsecconf :=
  match l with
  | [] => []
  | d :: r => read_child my_addr peer_addr k d :: read_protect my_addr peer_addr (S k) r
  end.

(** the entries of `protect` (what iterating the value yields) *)
Definition entries_of (v : option pv) : list pv :=
  match v with Some v => match py_iter v with Ok l => l | Raise _ => [] end | None => [] end.

Definition read_connection (k : nat) (name d : pv) : ikeconf :=
  let my_addr := read_endpoint (field_or d "my_addr" PNone) in
  let peer_addr := read_endpoint (field_or d "peer_addr" PNone) in
  {| i_name := name; i_my_addr := my_addr; i_peer_addr := peer_addr;
     i_my_auth := read_auth (field_or d "my_auth" PNone);
     i_peer_auth := read_auth (field_or d "peer_auth" PNone);
     i_lifetime := read_int (field_or d "lifetime" doc_ike_lifetime);
     i_dpd := read_int (field_or d "dpd" doc_dpd);
     i_proposal := {| p_num := 1; p_protocol := PROTO_IKE;
                      p_transforms := read_algs doc_encr (field_or d "encr" doc_ike_encr)
                                      ++ read_algs doc_integ (field_or d "integ" doc_ike_integ)
                                      ++ read_algs doc_prf (field_or d "prf" doc_ike_prf)
                                      ++ read_algs doc_dh (field_or d "dh" doc_ike_dh) |};
     i_protect := read_protect my_addr peer_addr k (entries_of (field d "protect")) |}.

(** connections keyed by (local, peer) address, in file order; a later connection with the same key replaces
    the earlier one *)
Fixpoint read_connections (k : nat) (acc : config) (items : list (pv * pv)) : config :=
  match items with
  | [] => acc
  | (name, d) :: r =>
      let ic := read_connection k name d in
      read_connections (k + List.length (i_protect ic)) (dict_set acc (i_my_addr ic, i_peer_addr ic) ic) r
  end.

Definition spec (d : pv) : config :=
  match d with PDict items => read_connections 0 [] items | _ => [] end.

End Spec.
