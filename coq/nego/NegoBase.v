(** Data types and the Python containers used by the negotiation code (hand-written, no proofs). *)
From Coq Require Import ZArith List Bool.
Import ListNotations.
Open Scope Z_scope.

(** message.Transform: (type, id, keylen); enum-typed fields are plain integers (SafeIntEnum accepts every int) *)
Record transform := { t_type : Z; t_id : Z; t_keylen : option Z }.

(** message.Proposal *)
Record proposal := { p_num : Z; p_proto : Z; p_spi : list N; p_transforms : list transform }.

Definition optZ_eqb (a b : option Z) : bool :=
  match a, b with
  | Some x, Some y => Z.eqb x y
  | None, None => true
  | _, _ => false
  end.

(** Python dict keyed by Transform.Type (insertion ordered) *)
Definition dict := list (Z * transform).

Fixpoint dict_has (d : dict) (k : Z) : bool :=
  match d with
  | [] => false
  | (k', _) :: r => if Z.eqb k k' then true else dict_has r k
  end.

(** d[k] = v : a new key goes to the end, an existing key keeps its place *)
Fixpoint dict_set (d : dict) (k : Z) (v : transform) : dict :=
  match d with
  | [] => [(k, v)]
  | (k', v') :: r => if Z.eqb k k' then (k', v) :: r else (k', v') :: dict_set r k v
  end.

Definition dict_keys (d : dict) : list Z := map fst d.
Definition dict_values (d : dict) : list transform := map snd d.

(** set(...) == set(...) over integers *)
Definition memZ (x : Z) (l : list Z) : bool := existsb (Z.eqb x) l.
Definition setZ_eqb (a b : list Z) : bool := forallb (fun x => memZ x b) a && forallb (fun x => memZ x a) b.

(** Python exceptions raised by the modelled code *)
Inductive exn :=
| NoProposalChosen
| InvalidKePayload (group : Z)
| InvalidSyntax
| StopIteration
| PayloadNotFound
| IndexError.

Inductive result (A : Type) := Ok (a : A) | Raise (e : exn).
Arguments Ok {A} a.
Arguments Raise {A} e.
