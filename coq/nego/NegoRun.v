(** Entry points evaluated by the correspondence check (sx in, sx out). *)
From Coq Require Import List ZArith String Bool.
From VLib Require Import Sx Bytes.
From Nego Require Import NegoBase Gen.NegoFacts Nego.
Import ListNotations.
Open Scope string_scope.

Fixpoint opt_all {A} (l : list (option A)) : option (list A) :=
  match l with
  | [] => Some []
  | Some a :: r => match opt_all r with Some r' => Some (a :: r') | None => None end
  | None :: _ => None
  end.

Definition transform_of_sx (x : sx) : option transform :=
  match x with
  | SxL [SxZ ty; SxZ id; SxZ kl] => Some {| t_type := ty; t_id := id; t_keylen := Some kl |}
  | SxL [SxZ ty; SxZ id; SxNone] => Some {| t_type := ty; t_id := id; t_keylen := None |}
  | _ => None
  end.

Definition sx_of_transform (t : transform) : sx :=
  SxL [SxZ (t_type t); SxZ (t_id t); match t_keylen t with Some k => SxZ k | None => SxNone end].

Definition proposal_of_sx (x : sx) : option proposal :=
  match x with
  | SxL [SxZ num; SxZ proto; spi; SxL ts] =>
      match get_bytes spi, opt_all (map transform_of_sx ts) with
      | Some spi, Some ts => Some {| p_num := num; p_proto := proto; p_spi := spi; p_transforms := ts |}
      | _, _ => None
      end
  | _ => None
  end.

Definition sx_of_proposal (p : proposal) : sx :=
  SxL [SxZ (p_num p); SxZ (p_proto p); sx_bytes (p_spi p); SxL (map sx_of_transform (p_transforms p))].

Definition sa_of_sx (x : sx) : option (list proposal) :=
  match x with SxL l => opt_all (map proposal_of_sx l) | _ => None end.

Definition sx_of_exn (e : exn) : sx :=
  match e with
  | NoProposalChosen => SxS "NoProposalChosen"
  | InvalidKePayload g =>
      SxL [SxS "InvalidKePayload"; SxZ g;
           match notify_of e with Some (ty, data) => SxL [SxZ ty; sx_bytes data] | None => SxNone end]
  | InvalidSyntax => SxS "InvalidSyntax"
  | StopIteration => SxS "StopIteration"
  | PayloadNotFound => SxS "PayloadNotFound"
  | IndexError => SxS "IndexError"
  end.

Definition sx_of_result (r : result proposal) : sx :=
  match r with Ok p => sx_of_proposal p | Raise e => sx_of_exn e end.

(* input: L [mine; peer]
   output: L [mine.intersection(peer); mine.is_subset(peer); peer.is_subset(mine); mine == peer] *)
Definition run_isect (x : sx) : sx :=
  match x with
  | SxL [a; b] =>
      match proposal_of_sx a, proposal_of_sx b with
      | Some a, Some b =>
          SxL [sx_opt sx_of_proposal (intersection a b); sx_bool (is_subset a b); sx_bool (is_subset b a);
               sx_bool (proposal_eq a b)]
      | _, _ => bad_input
      end
  | _ => bad_input
  end.

(* input: L [mine; sa]   output: proposal | exception *)
Definition run_select (x : sx) : sx :=
  match x with
  | SxL [a; s] =>
      match proposal_of_sx a, sa_of_sx s with
      | Some a, Some s => sx_of_result (select_best a s)
      | _, _ => bad_input
      end
  | _ => bad_input
  end.

(* input: L [mine; sa; ke_group] *)
Definition run_ike_responder (x : sx) : sx :=
  match x with
  | SxL [a; s; SxZ g] =>
      match proposal_of_sx a, sa_of_sx s with
      | Some a, Some s => sx_of_result (ike_responder a s g)
      | _, _ => bad_input
      end
  | _ => bad_input
  end.

(* input: L [ike_auth; conf proposal; sa; ke_group | None] *)
Definition run_child_responder (x : sx) : sx :=
  match x with
  | SxL [SxZ ia; a; s; g] =>
      match proposal_of_sx a, sa_of_sx s, (match g with SxZ g => Some (Some g) | SxNone => Some None | _ => None end) with
      | Some a, Some s, Some g =>
          match child_responder (negb (Z.eqb ia 0)) a s g with
          | Ok p => sx_of_proposal p
          | Raise e => match child_reply_notify e with
                       | Some (ty, data) => SxL [SxS "notify"; SxZ ty; sx_bytes data]
                       | None => sx_of_exn e
                       end
          end
      | _, _, _ => bad_input
      end
  | _ => bad_input
  end.

(* input: L [mine; sa] *)
Definition run_initiator_ike (x : sx) : sx :=
  match x with
  | SxL [a; s] =>
      match proposal_of_sx a, sa_of_sx s with
      | Some a, Some s => sx_of_result (initiator_ike a s)
      | _, _ => bad_input
      end
  | _ => bad_input
  end.

(* input: L [ike_auth; offer; sa] *)
Definition run_initiator_child (x : sx) : sx :=
  match x with
  | SxL [SxZ ia; a; s] =>
      match proposal_of_sx a, sa_of_sx s with
      | Some a, Some s => sx_of_result (initiator_child (negb (Z.eqb ia 0)) a s)
      | _, _ => bad_input
      end
  | _ => bad_input
  end.

(* input: L [offer; suggested group]   output: group | exception *)
Definition run_invalid_ke (x : sx) : sx :=
  match x with
  | SxL [a; SxZ g] =>
      match proposal_of_sx a with
      | Some a => match handle_invalid_ke a g with Ok g => SxZ g | Raise e => sx_of_exn e end
      | None => bad_input
      end
  | _ => bad_input
  end.

(* input: L [proposal]  output: copy_without_dh_transforms *)
Definition run_copy (x : sx) : sx :=
  match proposal_of_sx x with
  | Some a => sx_of_result (copy_without_dh a)
  | None => bad_input
  end.

(* dispatcher: L [S tag; input] *)
Definition run_any (x : sx) : sx :=
  match x with
  | SxL [SxS tag; i] =>
      if String.eqb tag "isect" then run_isect i
      else if String.eqb tag "select" then run_select i
      else if String.eqb tag "ike_responder" then run_ike_responder i
      else if String.eqb tag "child_responder" then run_child_responder i
      else if String.eqb tag "initiator_ike" then run_initiator_ike i
      else if String.eqb tag "initiator_child" then run_initiator_child i
      else if String.eqb tag "invalid_ke" then run_invalid_ke i
      else if String.eqb tag "copy" then run_copy i
      else bad_input
  | _ => bad_input
  end.
