(** C11 property theorems (nothing else lives here).  Transforms are (type, id, keylen) triples; [In t l] is
    membership of the triple.  All statements hold for lists of every length. *)
From Coq Require Import ZArith List.
From VLib Require Import Bytes.
From Nego Require Import NegoBase Gen.NegoFacts Nego NegoProofs.
Import ListNotations.
Open Scope Z_scope.

(** the suite computed from my offer and one peer proposal: same protocol, num/SPI of the peer, exactly one transform
    of each type my offer contains, each (type, id, key length) present in both offers *)
Theorem C11_intersection_sound : forall mine peer r,
  intersection mine peer = Some r ->
  p_proto mine = p_proto peer /\ p_proto r = p_proto mine /\ p_num r = p_num peer /\ p_spi r = p_spi peer /\
  NoDup (map t_type (p_transforms r)) /\
  (forall ty, In ty (map t_type (p_transforms r)) <-> In ty (map t_type (p_transforms mine))) /\
  (forall t, In t (p_transforms r) -> In t (p_transforms mine) /\ In t (p_transforms peer)).
Proof. exact intersection_sound. Qed.
Print Assumptions C11_intersection_sound.

(** local preference: each chosen transform is the first of its type in my list that the peer also offers; the
    result lists them in my order *)
Theorem C11_intersection_preference : forall mine peer r,
  intersection mine peer = Some r ->
  (forall t, In t (p_transforms r) ->
     exists pre post, p_transforms mine = pre ++ t :: post /\
       forall u, In u pre -> t_type u = t_type t -> ~ In u (p_transforms peer)) /\
  p_transforms r = chosen_in_order [] (p_transforms mine) (p_transforms peer).
Proof. intros mine peer r H. split; [exact (intersection_preference _ _ _ H) | exact (intersection_order _ _ _ H)]. Qed.
Print Assumptions C11_intersection_preference.

(** a suite exists exactly when the protocols agree and every type I require has a common transform *)
Theorem C11_intersection_complete : forall mine peer,
  (p_proto mine = p_proto peer /\
   forall ty, In ty (map t_type (p_transforms mine)) ->
              exists t, In t (p_transforms mine) /\ t_type t = ty /\ In t (p_transforms peer)) <->
  intersection mine peer <> None.
Proof. exact intersection_complete. Qed.
Print Assumptions C11_intersection_complete.

(** the responder answers with the suite of the first acceptable peer proposal, in payload order *)
Theorem C11_select_first : forall mine sa r,
  select_best mine sa = Ok r <->
  exists pre peer post, sa = pre ++ peer :: post /\
    (forall q, In q pre -> intersection mine q = None) /\ intersection mine peer = Some r.
Proof. exact select_first. Qed.
Print Assumptions C11_select_first.

(** no acceptable proposal <-> NoProposalChosen (answered with N(NO_PROPOSAL_CHOSEN), empty data) *)
Theorem C11_none_refused : forall mine sa,
  ((forall q, In q sa -> intersection mine q = None) <-> select_best mine sa = Raise NoProposalChosen) /\
  notify_of NoProposalChosen = Some (NOTIFY_NO_PROPOSAL_CHOSEN, []) /\
  (forall ia conf ke mine', (if ia : bool then copy_without_dh conf else Ok conf) = Ok mine' ->
     (forall q, In q sa -> intersection mine' q = None) -> child_responder ia conf sa ke = Raise NoProposalChosen).
Proof.
  intros mine sa. split; [exact (none_refused mine sa)|]. split; [reflexivity|].
  intros ia conf ke mine' H1 H2. exact (child_responder_refused ia conf sa ke mine' H1 H2).
Qed.
Print Assumptions C11_none_refused.

(** initiator, IKE_SA: an accepted response proposal is drawn from my offer, at most one transform per type;
    a foreign transform or another protocol is refused *)
Theorem C11_initiator_ike : forall mine sa,
  (forall resp, initiator_ike mine sa = Ok resp ->
     (exists rest, sa = resp :: rest) /\ p_proto resp = p_proto mine /\
     (forall t, In t (p_transforms resp) -> In t (p_transforms mine)) /\
     (forall t u, In t (p_transforms resp) -> In u (p_transforms resp) -> t_type t = t_type u -> t = u)) /\
  (forall resp rest, sa = resp :: rest ->
     (exists t, In t (p_transforms resp) /\ ~ In t (p_transforms mine)) \/ p_proto resp <> p_proto mine ->
     initiator_ike mine sa = Raise NoProposalChosen).
Proof.
  intros mine sa. split; [intros resp; exact (initiator_ike_accepted mine sa resp)|].
  intros resp rest -> H. exact (initiator_ike_refused mine resp rest H).
Qed.
Print Assumptions C11_initiator_ike.

(** pinned: the IKE-side check does not demand every type; an incomplete response is not adopted either - it fails
    in key generation with StopIteration (the IKE_SA is dropped, nothing installed) *)
Theorem C11_initiator_ike_incomplete : forall mine sa,
  initiator_ike mine sa = Raise StopIteration <->
  exists resp rest, sa = resp :: rest /\ is_subset resp mine = true /\
    (get_transforms resp TYPE_PRF = [] \/ get_transforms resp TYPE_INTEG = [] \/ get_transforms resp TYPE_ENCR = []).
Proof. exact initiator_ike_incomplete. Qed.
Print Assumptions C11_initiator_ike_incomplete.

(** initiator, CHILD_SA: an accepted response proposal is (as a set) the intersection of my offer with it: only my
    transforms, at most one per type, and every type I require *)
Theorem C11_initiator_child : forall ike_auth offer sa chosen,
  initiator_child ike_auth offer sa = Ok chosen ->
  exists mine i, (if ike_auth : bool then copy_without_dh offer else Ok offer) = Ok mine /\
    (exists rest, sa = chosen :: rest) /\ intersection mine chosen = Some i /\
    (forall t, In t (p_transforms chosen) <-> In t (p_transforms i)) /\
    p_proto chosen = p_proto mine /\
    (forall t, In t (p_transforms chosen) -> In t (p_transforms mine)) /\
    (forall t u, In t (p_transforms chosen) -> In u (p_transforms chosen) -> t_type t = t_type u -> t = u) /\
    (forall ty, In ty (map t_type (p_transforms chosen)) <-> In ty (map t_type (p_transforms mine))).
Proof.
  intros ia offer sa chosen H. destruct (initiator_child_accepted ia offer sa chosen H) as (mine & Hm & Hsa & Hr).
  destruct (initiator_child_sound mine chosen Hr) as (i & Hi & A & B & C & D & E).
  exists mine, i. repeat split; auto; try apply A; try apply E.
Qed.
Print Assumptions C11_initiator_child.

(** KE payload in another group than the chosen suite's: InvalidKePayload naming the chosen group (a DH transform of
    my own offer), answered with N(INVALID_KE_PAYLOAD) carrying the group on 16 bits; no other failure is possible *)
Theorem C11_invalid_ke : forall mine sa ke_group,
  match ike_responder mine sa ke_group with
  | Ok chosen => select_best mine sa = Ok chosen /\
                 exists t, get_transform chosen TYPE_DH = Ok t /\ t_id t = ke_group
  | Raise (InvalidKePayload g) =>
      exists chosen t, select_best mine sa = Ok chosen /\ get_transform chosen TYPE_DH = Ok t /\
                       g = t_id t /\ g <> ke_group /\ In t (p_transforms mine) /\ t_type t = TYPE_DH /\
                       notify_of (InvalidKePayload g) = Some (NOTIFY_INVALID_KE_PAYLOAD, be_encode 2 (Z.to_N g))
  | Raise NoProposalChosen => forall q, In q sa -> intersection mine q = None
  | Raise StopIteration => exists chosen, select_best mine sa = Ok chosen /\ get_transforms chosen TYPE_DH = []
  | Raise _ => False
  end.
Proof. exact ike_responder_spec. Qed.
Print Assumptions C11_invalid_ke.

Theorem C11_invalid_ke_child : forall (ike_auth : bool) conf sa ke g,
  child_responder ike_auth conf sa ke = Raise (InvalidKePayload g) ->
  exists mine chosen t l g', ke = Some g' /\ (if ike_auth then copy_without_dh conf else Ok conf) = Ok mine /\
    select_best mine sa = Ok chosen /\ get_transforms chosen TYPE_DH = t :: l /\ g = t_id t /\ g <> g' /\
    In t (p_transforms mine) /\ t_type t = TYPE_DH.
Proof. exact child_responder_invalid_ke. Qed.
Print Assumptions C11_invalid_ke_child.

(** CHILD_SA responder: what is accepted is the selected suite, and a DH transform in it forces a matching KE group *)
Theorem C11_child_responder_ok : forall (ike_auth : bool) conf sa ke chosen,
  child_responder ike_auth conf sa ke = Ok chosen ->
  exists mine, (if ike_auth then copy_without_dh conf else Ok conf) = Ok mine /\ select_best mine sa = Ok chosen /\
    (forall t, In t (get_transforms chosen TYPE_DH) ->
       exists t0 l, get_transforms chosen TYPE_DH = t0 :: l /\ ke = Some (t_id t0)).
Proof. exact child_responder_ok. Qed.
Print Assumptions C11_child_responder_ok.

(** the retry after INVALID_KE_PAYLOAD happens only with a group that is a DH transform of my stored offer *)
Theorem C11_suggested_group_offered : forall offer g,
  (handle_invalid_ke offer g = Ok g <->
   exists t, In t (p_transforms offer) /\ t_type t = TYPE_DH /\ t_id t = g) /\
  (handle_invalid_ke offer g = Raise NoProposalChosen <->
   ~ exists t, In t (p_transforms offer) /\ t_type t = TYPE_DH /\ t_id t = g).
Proof. exact suggested_group_offered. Qed.
Print Assumptions C11_suggested_group_offered.
