(** Hand-written executable model of the SA negotiation around the generated facts (Gen/NegoFacts.v).
    No proofs in this file. *)
From Coq Require Import ZArith List Bool.
From VLib Require Import Bytes.
From Nego Require Import NegoBase Gen.NegoFacts.
Import ListNotations.
Open Scope Z_scope.

(** * Proposal.intersection *)
Fixpoint isect_inner_loop (x_outer : transform) (inner : list transform) (selected : dict) : dict :=
  match inner with
  | [] => selected
  | x_inner :: rest => isect_inner_loop x_outer rest (isect_step x_outer x_inner selected)
  end.

Fixpoint isect_outer_loop (outer inner : list transform) (selected : dict) : dict :=
  match outer with
  | [] => selected
  | x_outer :: rest => isect_outer_loop rest inner (isect_inner_loop x_outer inner selected)
  end.

(** None = Python None.  (For a proposal with an empty transform list - which the constructor of Proposal refuses -
    the real code would raise InvalidSyntax from the constructor call instead of returning.) *)
Definition intersection (self other : proposal) : option proposal :=
  if isect_guard self other then
    let selected := isect_outer_loop (isect_outer self other) (isect_inner self other) [] in
    if isect_success self other selected then Some (isect_result self other selected) else None
  else None.

Definition is_subset (self other : proposal) : bool := is_subset_with intersection self other.

(** Proposal.copy_without_dh_transforms (the constructor refuses an empty list) *)
Definition copy_without_dh (self : proposal) : result proposal :=
  match without_dh self with
  | [] => Raise InvalidSyntax
  | l => Ok {| p_num := p_num self; p_proto := p_proto self; p_spi := p_spi self; p_transforms := l |}
  end.

(** Proposal.get_transform / get_transforms *)
Definition get_transforms (p : proposal) (ty : Z) : list transform :=
  filter (fun x => Z.eqb (t_type x) ty) (p_transforms p).
Definition get_transform (p : proposal) (ty : Z) : result transform :=
  match get_transforms p ty with
  | t :: _ => Ok t
  | [] => Raise StopIteration
  end.

(** * IkeSa._select_best_sa_proposal *)
Fixpoint select_best (mine : proposal) (sa : list proposal) : result proposal :=
  match sa with
  | [] => Raise NoProposalChosen
  | peer :: rest =>
      match select_try intersection mine peer with
      | Some r => Ok r
      | None => select_best mine rest
      end
  end.

(** * Responder *)

(** IKE_SA_INIT / IKE_SA rekey: _process_ike_sa_negotiation_request up to the DH computation *)
Definition ike_responder (mine : proposal) (sa : list proposal) (ke_group : Z) : result proposal :=
  match select_best mine sa with
  | Raise e => Raise e
  | Ok chosen =>
      match get_transform chosen TYPE_DH with
      | Raise e => Raise e
      | Ok t => if ke_mismatch (t_id t) ke_group then Raise (InvalidKePayload (t_id t)) else Ok chosen
      end
  end.

(** CHILD_SA: the proposal part of _process_create_child_sa_negotiation_req ([ke] = group of the KE payload if any) *)
Definition child_responder (ike_auth : bool) (conf_proposal : proposal) (sa : list proposal) (ke : option Z)
  : result proposal :=
  match (if ike_auth then copy_without_dh conf_proposal else Ok conf_proposal) with
  | Raise e => Raise e
  | Ok mine =>
      match select_best mine sa with
      | Raise e => Raise e
      | Ok chosen =>
          match get_transforms chosen TYPE_DH with
          | [] => Ok chosen
          | t :: _ =>
              match ke with
              | None => Raise PayloadNotFound
              | Some g => if ke_mismatch (t_id t) g then Raise (InvalidKePayload (t_id t)) else Ok chosen
              end
          end
      end
  end.

(** PayloadNOTIFY.from_exception for the two exceptions of this property: (notification type, data) *)
Definition notify_of (e : exn) : option (Z * bytes) :=
  match e with
  | NoProposalChosen => Some (NOTIFY_NO_PROPOSAL_CHOSEN, [])
  | InvalidKePayload g => Some (NOTIFY_INVALID_KE_PAYLOAD, be_encode 2 (Z.to_N g))
  | _ => None
  end.

(** the except clauses of _process_create_child_sa_negotiation_req: the notify sent back for a failed negotiation
    (IkeSaError subclasses without an own clause are reported as NO_PROPOSAL_CHOSEN); None = not caught there *)
Definition child_reply_notify (e : exn) : option (Z * bytes) :=
  match e with
  | NoProposalChosen | InvalidKePayload _ => notify_of e
  | PayloadNotFound | InvalidSyntax => Some (NOTIFY_NO_PROPOSAL_CHOSEN, [])
  | StopIteration | IndexError => None
  end.

(** * Initiator *)

(** process_ike_sa_negotiation_response: the proposal check, then the lookups of generate_ike_sa_key_material *)
Definition initiator_ike (mine : proposal) (sa : list proposal) : result proposal :=
  match sa with
  | [] => Raise IndexError
  | resp :: _ =>
      if negb (is_subset resp mine) then Raise NoProposalChosen
      else match get_transform resp TYPE_PRF, get_transform resp TYPE_INTEG, get_transform resp TYPE_ENCR with
           | Ok _, Ok _, Ok _ => Ok resp
           | _, _, _ => Raise StopIteration
           end
  end.

(** _process_create_child_sa_negotiation_res: the proposal check *)
Definition initiator_child (ike_auth : bool) (my_offer : proposal) (sa : list proposal) : result proposal :=
  match (if ike_auth then copy_without_dh my_offer else Ok my_offer) with
  | Raise e => Raise e
  | Ok mine =>
      match sa with
      | [] => Raise IndexError
      | chosen :: _ => if initiator_child_reject intersection mine chosen then Raise NoProposalChosen else Ok chosen
      end
  end.

(** handle_invalid_ke: the retry uses the suggested group only if it was offered *)
Definition handle_invalid_ke (my_offer : proposal) (suggested_group : Z) : result Z :=
  if suggested_group_reject my_offer suggested_group then Raise NoProposalChosen else Ok suggested_group.
