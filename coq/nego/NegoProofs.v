(** Proofs about the negotiation model: by induction over transform / proposal lists, no size bound. *)
From Coq Require Import ZArith List Bool Lia ZifyBool.
From VLib Require Import Bytes.
From Nego Require Import NegoBase Gen.NegoFacts Nego.
Import ListNotations.
Open Scope Z_scope.

(** ** basic facts about the containers *)
Lemma optZ_eqb_eq a b : optZ_eqb a b = true <-> a = b.
Proof.
  destruct a as [x|], b as [y|]; cbn; split; intros H; try discriminate; try reflexivity.
  - f_equal. lia.
  - inversion H. lia.
Qed.

Lemma transform_eq_eq a b : transform_eq a b = true <-> a = b.
Proof.
  unfold transform_eq. rewrite !andb_true_iff, optZ_eqb_eq. split.
  - intros (H1 & H2 & H3). destruct a, b; cbn in *. f_equal; try lia; assumption.
  - intros ->. repeat split; lia.
Qed.

Lemma tmem_In t l : tmem t l = true <-> In t l.
Proof.
  unfold tmem. rewrite existsb_exists. split.
  - intros (x & Hin & He). apply transform_eq_eq in He. subst; assumption.
  - intros H. exists t. split; [assumption | apply transform_eq_eq; reflexivity].
Qed.

Lemma tmem_false t l : tmem t l = false <-> ~ In t l.
Proof. rewrite <- tmem_In. destruct (tmem t l); split; intros; congruence. Qed.

Lemma memZ_In x l : memZ x l = true <-> In x l.
Proof.
  unfold memZ. rewrite existsb_exists. split.
  - intros (y & Hin & He). assert (x = y) by lia. subst; assumption.
  - intros H. exists x. split; [assumption | lia].
Qed.

Lemma setZ_eqb_spec a b : setZ_eqb a b = true <-> (forall x, In x a <-> In x b).
Proof.
  unfold setZ_eqb. rewrite andb_true_iff, !forallb_forall. split.
  - intros [H1 H2] x. split; intros Hx; apply memZ_In; auto.
  - intros H. split; intros x Hx; apply memZ_In; apply H; assumption.
Qed.

Lemma tset_eqb_spec a b : tset_eqb a b = true <-> (forall x, In x a <-> In x b).
Proof.
  unfold tset_eqb. rewrite andb_true_iff, !forallb_forall. split.
  - intros [H1 H2] x. split; intros Hx; apply tmem_In; auto.
  - intros H. split; intros x Hx; apply tmem_In; apply H; assumption.
Qed.

Lemma dict_has_In d k : dict_has d k = true <-> In k (dict_keys d).
Proof.
  induction d as [|[k' v] r IH]; cbn [dict_has dict_keys map fst]; [split; [discriminate|intros []]|].
  destruct (Z.eqb k k') eqn:E.
  - split; auto. intros _. left. lia.
  - rewrite IH. unfold dict_keys. split; [right; assumption|]. intros [H|H]; [lia|assumption].
Qed.

Lemma dict_set_new d k v : dict_has d k = false -> dict_set d k v = d ++ [(k, v)].
Proof.
  induction d as [|[k' v'] r IH]; cbn [dict_has dict_set app]; [reflexivity|].
  destruct (Z.eqb k k'); [discriminate|]. intros H. rewrite IH by assumption. reflexivity.
Qed.

Lemma dict_has_app d k v k' : dict_has (d ++ [(k, v)]) k' = dict_has d k' || Z.eqb k' k.
Proof.
  induction d as [|[k0 v0] r IH]; cbn [dict_has app].
  - destruct (Z.eqb k' k); reflexivity.
  - destruct (Z.eqb k' k0); [reflexivity | exact IH].
Qed.

Lemma NoDup_map_inj {A B} (f : A -> B) l a b : NoDup (map f l) -> In a l -> In b l -> f a = f b -> a = b.
Proof.
  induction l as [|x l IH]; cbn [map]; intros Hnd Ha Hb Hf; [destruct Ha|].
  inversion Hnd as [|? ? Hnot Hnd']; subst.
  destruct Ha as [->|Ha], Hb as [->|Hb]; auto.
  - exfalso. apply Hnot. rewrite Hf. apply in_map. assumption.
  - exfalso. apply Hnot. rewrite <- Hf. apply in_map. assumption.
Qed.

Lemma NoDup_snoc {A} (l : list A) x : NoDup l -> ~ In x l -> NoDup (l ++ [x]).
Proof.
  induction l as [|y l IH]; cbn [app]; intros Hnd Hx.
  - constructor; [intros []|constructor].
  - inversion Hnd; subst. constructor.
    + intros H. apply in_app_or in H. destruct H as [H|[H|[]]]; [contradiction|]. apply Hx. left; auto.
    + apply IH; auto. intros H. apply Hx. right; assumption.
Qed.

(** ** the nested loops of Proposal.intersection *)

(** one round of the outer loop: [my] is selected iff its type is still free and it occurs in the peer list *)
Definition sel_step (my : transform) (peers : list transform) (sel : dict) : dict :=
  if dict_has sel (t_type my) then sel
  else if tmem my peers then sel ++ [(t_type my, my)] else sel.

Lemma inner_spec my peers : forall sel, isect_inner_loop my peers sel = sel_step my peers sel.
Proof.
  induction peers as [|p rest IH]; intros sel; cbn [isect_inner_loop].
  - unfold sel_step, tmem. cbn [existsb]. destruct (dict_has sel (t_type my)); reflexivity.
  - rewrite IH. unfold isect_step, sel_step, tmem. cbn [existsb].
    destruct (dict_has sel (t_type my)) eqn:Eh.
    + rewrite andb_false_r. cbn [negb]. rewrite Eh. reflexivity.
    + destruct (transform_eq my p) eqn:Ee; cbn [andb negb orb].
      * rewrite dict_set_new by assumption. rewrite dict_has_app, Z.eqb_refl, orb_true_r. reflexivity.
      * rewrite Eh. reflexivity.
Qed.

Definition Inv (peers done : list transform) (sel : dict) : Prop :=
  NoDup (dict_keys sel) /\
  (forall k t, In (k, t) sel ->
     k = t_type t /\ tmem t peers = true /\
     exists pre post, done = pre ++ t :: post /\
                      forall u, In u pre -> t_type u = t_type t -> tmem u peers = false) /\
  (forall t, In t done -> tmem t peers = true -> dict_has sel (t_type t) = true).

Lemma Inv_nil peers : Inv peers [] [].
Proof. repeat split; try constructor; intros; contradiction. Qed.

Lemma Inv_step peers done sel m : Inv peers done sel -> Inv peers (done ++ [m]) (sel_step m peers sel).
Proof.
  intros (Hnd & Hent & Hcomp). unfold sel_step.
  assert (Hent' : forall k t, In (k, t) sel ->
     k = t_type t /\ tmem t peers = true /\
     exists pre post, done ++ [m] = pre ++ t :: post /\
                      forall u, In u pre -> t_type u = t_type t -> tmem u peers = false).
  { intros k t Hin. destruct (Hent k t Hin) as (A & B & pre & post & -> & C).
    repeat split; auto. exists pre, (post ++ [m]). split; [rewrite <- app_assoc; reflexivity | exact C]. }
  destruct (dict_has sel (t_type m)) eqn:Eh; [|destruct (tmem m peers) eqn:Em].
  - split; [exact Hnd|]. split; [exact Hent'|].
    intros t Hin Ht. apply in_app_or in Hin. destruct Hin as [Hin|[<-|[]]]; auto.
  - split; [|split].
    + unfold dict_keys. rewrite map_app. cbn [map fst]. apply NoDup_snoc; [exact Hnd|].
      intros H. apply dict_has_In in H. congruence.
    + intros k t Hin. apply in_app_or in Hin. destruct Hin as [Hin|[Heq|[]]]; [auto|].
      inversion Heq; subst k t. repeat split; auto.
      exists done, []. split; [reflexivity|]. intros u Hu Hty.
      destruct (tmem u peers) eqn:Eu; [|reflexivity].
      specialize (Hcomp u Hu Eu). rewrite Hty in Hcomp. congruence.
    + intros t Hin Ht. rewrite dict_has_app. apply in_app_or in Hin. destruct Hin as [Hin|[<-|[]]].
      * rewrite (Hcomp t Hin Ht). reflexivity.
      * rewrite Z.eqb_refl, orb_true_r. reflexivity.
  - split; [exact Hnd|]. split; [exact Hent'|].
    intros t Hin Ht. apply in_app_or in Hin. destruct Hin as [Hin|[<-|[]]]; [auto | congruence].
Qed.

Lemma outer_spec peers : forall rest done sel,
  Inv peers done sel -> Inv peers (done ++ rest) (isect_outer_loop rest peers sel).
Proof.
  induction rest as [|m rest IH]; intros done sel H; cbn [isect_outer_loop].
  - rewrite app_nil_r. exact H.
  - rewrite inner_spec. replace (done ++ m :: rest) with ((done ++ [m]) ++ rest) by (rewrite <- app_assoc; reflexivity).
    apply IH. apply Inv_step. exact H.
Qed.

(** what [intersection] computes, unfolded once *)
Lemma intersection_unfold mine peer r :
  intersection mine peer = Some r <->
  p_proto mine = p_proto peer /\
  let d := isect_outer_loop (p_transforms mine) (p_transforms peer) [] in
  (forall ty, In ty (dict_keys d) <-> In ty (map t_type (p_transforms mine))) /\
  r = {| p_num := p_num peer; p_proto := p_proto mine; p_spi := p_spi peer; p_transforms := dict_values d |}.
Proof.
  unfold intersection, isect_guard, isect_outer, isect_inner, isect_success, isect_result. cbv zeta.
  destruct (Z.eqb (p_proto mine) (p_proto peer)) eqn:Eg.
  - destruct (setZ_eqb _ _) eqn:Es.
    + pose proof (proj1 (setZ_eqb_spec _ _) Es) as Es'. split.
      * intros H; inversion H; subst. repeat split; try lia; apply Es'.
      * intros (_ & _ & ->). reflexivity.
    + split; [discriminate|]. intros (_ & Hs & _). pose proof (proj2 (setZ_eqb_spec _ _) Hs). congruence.
  - split; [discriminate|]. intros (Hp & _). lia.
Qed.

Lemma dict_values_In d t : In t (dict_values d) <-> exists k, In (k, t) d.
Proof.
  unfold dict_values. rewrite in_map_iff. split.
  - intros ([k v] & <- & Hin). exists k. exact Hin.
  - intros (k & Hin). exists (k, t). split; [reflexivity | exact Hin].
Qed.

Lemma Inv_types peers done d :
  Inv peers done d -> map t_type (dict_values d) = dict_keys d.
Proof.
  intros (_ & Hent & _). unfold dict_values, dict_keys. rewrite map_map.
  apply map_ext_in. intros [k t] Hin. destruct (Hent k t Hin) as (-> & _). reflexivity.
Qed.

(** ** C11_intersection_sound *)
Theorem intersection_sound mine peer r :
  intersection mine peer = Some r ->
  p_proto mine = p_proto peer /\ p_proto r = p_proto mine /\ p_num r = p_num peer /\ p_spi r = p_spi peer /\
  NoDup (map t_type (p_transforms r)) /\
  (forall ty, In ty (map t_type (p_transforms r)) <-> In ty (map t_type (p_transforms mine))) /\
  (forall t, In t (p_transforms r) -> In t (p_transforms mine) /\ In t (p_transforms peer)).
Proof.
  intros H. apply intersection_unfold in H. destruct H as (Hp & Hs & ->). cbv zeta in Hs. cbn [p_proto p_num p_spi p_transforms].
  pose proof (outer_spec (p_transforms peer) (p_transforms mine) [] [] (Inv_nil _)) as HI. cbn [app] in HI.
  set (d := isect_outer_loop (p_transforms mine) (p_transforms peer) []) in *.
  rewrite (Inv_types _ _ _ HI). destruct HI as (Hnd & Hent & Hcomp).
  repeat split; auto; try apply Hs.
  - apply dict_values_In in H. destruct H as (k & Hin). destruct (Hent k t Hin) as (_ & _ & pre & post & -> & _).
    apply in_or_app. right. left. reflexivity.
  - apply dict_values_In in H. destruct H as (k & Hin). destruct (Hent k t Hin) as (_ & Hm & _).
    apply tmem_In. exact Hm.
Qed.

(** ** C11_intersection_preference: every chosen transform is the first of its type, in my order, that the peer offers *)
Theorem intersection_preference mine peer r :
  intersection mine peer = Some r ->
  forall t, In t (p_transforms r) ->
    exists pre post, p_transforms mine = pre ++ t :: post /\
      forall u, In u pre -> t_type u = t_type t -> ~ In u (p_transforms peer).
Proof.
  intros H t Ht. apply intersection_unfold in H. destruct H as (Hp & Hs & ->). cbn [p_transforms] in Ht.
  pose proof (outer_spec (p_transforms peer) (p_transforms mine) [] [] (Inv_nil _)) as (Hnd & Hent & Hcomp). cbn [app] in *.
  apply dict_values_In in Ht. destruct Ht as (k & Hin).
  destruct (Hent k t Hin) as (_ & _ & pre & post & Hsplit & Hpre).
  exists pre, post. split; [exact Hsplit|]. intros u Hu Hty. apply tmem_false. auto.
Qed.

(** the result lists the chosen transforms in my order of preference (order of first selection) *)
Fixpoint chosen_in_order (seen : list Z) (mine peers : list transform) : list transform :=
  match mine with
  | [] => []
  | t :: rest =>
      if negb (memZ (t_type t) seen) && tmem t peers
      then t :: chosen_in_order (t_type t :: seen) rest peers
      else chosen_in_order seen rest peers
  end.

Lemma outer_order peers : forall rest sel,
  dict_values (isect_outer_loop rest peers sel) = dict_values sel ++ chosen_in_order (dict_keys sel) rest peers /\
  True.
Proof.
  induction rest as [|m rest IH]; intros sel; cbn [isect_outer_loop chosen_in_order].
  - rewrite app_nil_r. auto.
  - rewrite inner_spec. unfold sel_step. split; [|exact I].
    assert (Hm : memZ (t_type m) (dict_keys sel) = dict_has sel (t_type m)).
    { destruct (dict_has sel (t_type m)) eqn:E.
      - apply memZ_In. apply dict_has_In. exact E.
      - destruct (memZ (t_type m) (dict_keys sel)) eqn:E2; [|reflexivity].
        apply memZ_In in E2. apply dict_has_In in E2. congruence. }
    rewrite Hm. destruct (dict_has sel (t_type m)) eqn:Eh; cbn [negb andb].
    + apply IH.
    + destruct (tmem m peers) eqn:Em.
      * destruct (IH (sel ++ [(t_type m, m)])) as [-> _].
        unfold dict_values, dict_keys. rewrite !map_app. cbn [map fst snd]. rewrite <- app_assoc. cbn [app].
        f_equal. f_equal.
        (* the order of [seen] does not matter *)
        assert (G : forall mine s1 s2, (forall x, In x s1 <-> In x s2) ->
                                       chosen_in_order s1 mine peers = chosen_in_order s2 mine peers).
        { induction mine as [|t mine IHm]; intros s1 s2 Hs; cbn [chosen_in_order]; [reflexivity|].
          assert (E : memZ (t_type t) s1 = memZ (t_type t) s2).
          { destruct (memZ (t_type t) s1) eqn:E1, (memZ (t_type t) s2) eqn:E2; auto.
            - apply memZ_In in E1. apply Hs in E1. apply memZ_In in E1. congruence.
            - apply memZ_In in E2. apply Hs in E2. apply memZ_In in E2. congruence. }
          rewrite E. destruct (negb (memZ (t_type t) s2) && tmem t peers).
          - f_equal. apply IHm. intros x. cbn [In]. rewrite Hs. tauto.
          - apply IHm. exact Hs. }
        apply G. intros x. rewrite in_app_iff. cbn [In]. tauto.
      * apply IH.
Qed.

Theorem intersection_order mine peer r :
  intersection mine peer = Some r ->
  p_transforms r = chosen_in_order [] (p_transforms mine) (p_transforms peer).
Proof.
  intros H. apply intersection_unfold in H. destruct H as (_ & _ & ->). cbn [p_transforms].
  destruct (outer_order (p_transforms peer) (p_transforms mine) []) as [-> _]. reflexivity.
Qed.

(** ** C11_intersection_complete *)
Theorem intersection_complete mine peer :
  (p_proto mine = p_proto peer /\
   forall ty, In ty (map t_type (p_transforms mine)) ->
              exists t, In t (p_transforms mine) /\ t_type t = ty /\ In t (p_transforms peer)) <->
  intersection mine peer <> None.
Proof.
  pose proof (outer_spec (p_transforms peer) (p_transforms mine) [] [] (Inv_nil _)) as HI. cbn [app] in HI.
  split.
  - intros (Hp & Hall).
    assert (H : exists r, intersection mine peer = Some r); [|destruct H as (r & ->); discriminate].
    eexists. apply intersection_unfold. split; [exact Hp|]. cbv zeta. split; [|reflexivity].
    destruct HI as (Hnd & Hent & Hcomp). intros ty. split.
    + intros Hk. unfold dict_keys in Hk. apply in_map_iff in Hk. destruct Hk as ([k t] & <- & Hin).
      destruct (Hent k t Hin) as (-> & _ & pre & post & Hs & _). cbn [fst]. apply in_map. rewrite Hs.
      apply in_or_app. right. left. reflexivity.
    + intros Hty. destruct (Hall ty Hty) as (t & Hin & <- & Hpeer). apply dict_has_In. apply Hcomp; auto.
      apply tmem_In. exact Hpeer.
  - intros H. destruct (intersection mine peer) as [r|] eqn:E; [|congruence].
    destruct (intersection_sound _ _ _ E) as (Hp & _ & _ & _ & _ & Hty & Hin).
    split; [exact Hp|]. intros ty Hmine. apply Hty in Hmine. apply in_map_iff in Hmine.
    destruct Hmine as (t & <- & Ht). exists t. destruct (Hin t Ht). auto.
Qed.

(** ** C11_select_first / C11_none_refused *)
Theorem select_first mine sa r :
  select_best mine sa = Ok r <->
  exists pre peer post, sa = pre ++ peer :: post /\
    (forall q, In q pre -> intersection mine q = None) /\ intersection mine peer = Some r.
Proof.
  induction sa as [|p rest IH]; cbn [select_best]; unfold select_try.
  - split; [discriminate|]. intros (pre & peer & post & H & _). destruct pre; discriminate.
  - destruct (intersection mine p) as [r0|] eqn:E.
    + split.
      * intros H; inversion H; subst. exists [], p, rest. repeat split; auto. intros q [].
      * intros (pre & peer & post & Hs & Hpre & Hp). destruct pre as [|q pre]; cbn [app] in Hs; inversion Hs; subst.
        -- congruence.
        -- specialize (Hpre q (or_introl eq_refl)). congruence.
    + rewrite IH. split.
      * intros (pre & peer & post & -> & Hpre & Hp). exists (p :: pre), peer, post. repeat split; auto.
        intros q [<-|Hq]; auto.
      * intros (pre & peer & post & Hs & Hpre & Hp). destruct pre as [|q pre]; cbn [app] in Hs; inversion Hs; subst.
        -- congruence.
        -- exists pre, peer, post. repeat split; auto. intros x Hx. apply Hpre. right; exact Hx.
Qed.

Theorem none_refused mine sa :
  (forall q, In q sa -> intersection mine q = None) <-> select_best mine sa = Raise NoProposalChosen.
Proof.
  induction sa as [|p rest IH]; cbn [select_best]; unfold select_try.
  - split; auto. intros _ q [].
  - destruct (intersection mine p) as [r0|] eqn:E.
    + split; [|discriminate]. intros H. specialize (H p (or_introl eq_refl)). congruence.
    + rewrite <- IH. split; [intros H q Hq; apply H; right; exact Hq | intros H q [<-|Hq]; auto].
Qed.

Lemma select_total mine sa : (exists r, select_best mine sa = Ok r) \/ select_best mine sa = Raise NoProposalChosen.
Proof.
  induction sa as [|p rest IH]; cbn [select_best]; [auto|]. destruct (select_try intersection mine p); eauto.
Qed.

(** the chosen suite, spelled out (statement of the property) *)
Theorem select_sound mine sa r :
  select_best mine sa = Ok r ->
  exists peer, In peer sa /\ p_proto r = p_proto mine /\ p_proto mine = p_proto peer /\
    p_num r = p_num peer /\ p_spi r = p_spi peer /\
    NoDup (map t_type (p_transforms r)) /\
    (forall ty, In ty (map t_type (p_transforms r)) <-> In ty (map t_type (p_transforms mine))) /\
    (forall t, In t (p_transforms r) -> In t (p_transforms mine) /\ In t (p_transforms peer)).
Proof.
  intros H. apply select_first in H. destruct H as (pre & peer & post & -> & _ & Hi).
  exists peer. destruct (intersection_sound _ _ _ Hi) as (A & B & C & D & E & F & G).
  repeat split; auto; try apply F; try apply G; auto. apply in_or_app. right. left. reflexivity.
Qed.

(** ** initiator *)

(** C11_initiator_ike: an accepted IKE response proposal is drawn from my offer, at most one transform per type *)
Theorem initiator_ike_sound mine resp :
  is_subset resp mine = true ->
  p_proto resp = p_proto mine /\
  (forall t, In t (p_transforms resp) -> In t (p_transforms mine)) /\
  (forall t u, In t (p_transforms resp) -> In u (p_transforms resp) -> t_type t = t_type u -> t = u).
Proof.
  unfold is_subset, is_subset_with. destruct (intersection resp mine) as [i|] eqn:E; [|discriminate].
  unfold proposal_eq. rewrite andb_true_iff, tset_eqb_spec. intros (_ & Hset).
  destruct (intersection_sound _ _ _ E) as (Hp & _ & _ & _ & Hnd & _ & Hin).
  split; [exact Hp|]. split.
  - intros t Ht. apply Hset in Ht. apply Hin in Ht. tauto.
  - intros t u Ht Hu Hty. apply Hset in Ht, Hu. eapply NoDup_map_inj; eauto.
Qed.

Theorem initiator_ike_accepted mine sa resp :
  initiator_ike mine sa = Ok resp ->
  (exists rest, sa = resp :: rest) /\ p_proto resp = p_proto mine /\
  (forall t, In t (p_transforms resp) -> In t (p_transforms mine)) /\
  (forall t u, In t (p_transforms resp) -> In u (p_transforms resp) -> t_type t = t_type u -> t = u).
Proof.
  unfold initiator_ike. destruct sa as [|p rest]; [discriminate|].
  destruct (is_subset p mine) eqn:E; cbn [negb]; [|discriminate].
  destruct (get_transform p TYPE_PRF), (get_transform p TYPE_INTEG), (get_transform p TYPE_ENCR); try discriminate.
  intros H; inversion H; subst. split; [eauto|]. apply initiator_ike_sound. exact E.
Qed.

Theorem initiator_ike_refused mine resp rest :
  (exists t, In t (p_transforms resp) /\ ~ In t (p_transforms mine)) \/ p_proto resp <> p_proto mine ->
  initiator_ike mine (resp :: rest) = Raise NoProposalChosen.
Proof.
  intros H. unfold initiator_ike. destruct (is_subset resp mine) eqn:E; [|reflexivity]. exfalso.
  destruct (initiator_ike_sound _ _ E) as (Hp & Hin & _). destruct H as [(t & Ht & Hn)|H]; auto.
Qed.

(** pinned behaviour: the IKE check does not require every type to be present; a response lacking PRF, INTEG or ENCR
    passes it and then fails in key generation (StopIteration -> the IKE_SA is dropped, nothing installed) *)
Theorem initiator_ike_incomplete mine sa :
  initiator_ike mine sa = Raise StopIteration <->
  exists resp rest, sa = resp :: rest /\ is_subset resp mine = true /\
    (get_transforms resp TYPE_PRF = [] \/ get_transforms resp TYPE_INTEG = [] \/ get_transforms resp TYPE_ENCR = []).
Proof.
  unfold initiator_ike, get_transform. split.
  - destruct sa as [|resp rest]; [discriminate|]. destruct (is_subset resp mine) eqn:Es; cbn [negb]; [|discriminate].
    intros H. exists resp, rest. split; [reflexivity|]. split; [exact Es|].
    destruct (get_transforms resp TYPE_PRF); [auto|]. destruct (get_transforms resp TYPE_INTEG); [auto|].
    destruct (get_transforms resp TYPE_ENCR); [auto|]. cbn in H. discriminate H.
  - intros (resp & rest & -> & Hs & H). rewrite Hs. cbn [negb].
    destruct (get_transforms resp TYPE_PRF), (get_transforms resp TYPE_INTEG), (get_transforms resp TYPE_ENCR);
      try reflexivity; destruct H as [H|[H|H]]; discriminate.
Qed.

(** C11_initiator_child: an accepted CHILD response proposal is, as a set, the intersection of my offer with it *)
Theorem initiator_child_sound mine chosen :
  initiator_child_reject intersection mine chosen = false ->
  exists i, intersection mine chosen = Some i /\
    (forall t, In t (p_transforms chosen) <-> In t (p_transforms i)) /\
    p_proto chosen = p_proto mine /\
    (forall t, In t (p_transforms chosen) -> In t (p_transforms mine)) /\
    (forall t u, In t (p_transforms chosen) -> In u (p_transforms chosen) -> t_type t = t_type u -> t = u) /\
    (forall ty, In ty (map t_type (p_transforms chosen)) <-> In ty (map t_type (p_transforms mine))).
Proof.
  unfold initiator_child_reject. destruct (intersection mine chosen) as [i|] eqn:E; [|discriminate].
  intros H. apply negb_false_iff in H. unfold proposal_eq in H. rewrite andb_true_iff, tset_eqb_spec in H.
  destruct H as (_ & Hset). exists i. split; [reflexivity|].
  destruct (intersection_sound _ _ _ E) as (Hp & _ & _ & _ & Hnd & Hty & Hin).
  split; [intros t; symmetry; apply Hset|]. split; [lia|]. split; [|split].
  - intros t Ht. apply Hset in Ht. apply Hin in Ht. tauto.
  - intros t u Ht Hu Htu. apply Hset in Ht, Hu. eapply NoDup_map_inj; eauto.
  - intros ty. rewrite <- Hty. rewrite !in_map_iff. split; intros (t & <- & Ht); exists t; split; auto; apply Hset; auto.
Qed.

Theorem initiator_child_accepted (ike_auth : bool) offer sa chosen :
  initiator_child ike_auth offer sa = Ok chosen ->
  exists mine, (if ike_auth then copy_without_dh offer else Ok offer) = Ok mine /\
    (exists rest, sa = chosen :: rest) /\
    initiator_child_reject intersection mine chosen = false.
Proof.
  unfold initiator_child. destruct (if ike_auth then copy_without_dh offer else Ok offer) as [mine|e]; [|discriminate].
  destruct sa as [|c rest]; [discriminate|].
  destruct (initiator_child_reject intersection mine c) eqn:E; [discriminate|].
  intros H; inversion H; subst. exists mine. eauto.
Qed.

(** ** KE group *)

(** C11_invalid_ke (IKE_SA): the group answered is the DH transform of the chosen suite, which both sides offered *)
Theorem ike_responder_spec mine sa ke_group :
  match ike_responder mine sa ke_group with
  | Ok chosen => select_best mine sa = Ok chosen /\
                 exists t, get_transform chosen TYPE_DH = Ok t /\ t_id t = ke_group
  | Raise (InvalidKePayload g) =>
      exists chosen t, select_best mine sa = Ok chosen /\ get_transform chosen TYPE_DH = Ok t /\
                       g = t_id t /\ g <> ke_group /\ In t (p_transforms mine) /\ t_type t = TYPE_DH /\
                       notify_of (InvalidKePayload g) = Some (NOTIFY_INVALID_KE_PAYLOAD, be_encode 2 (Z.to_N g))
  | Raise NoProposalChosen => forall q, In q sa -> intersection mine q = None
  | Raise StopIteration => exists chosen, select_best mine sa = Ok chosen /\ get_transforms chosen TYPE_DH = []
  | Raise _ => False
  end.
Proof.
  unfold ike_responder. destruct (select_total mine sa) as [(chosen & Hs)|Hs]; rewrite Hs.
  - unfold get_transform. destruct (get_transforms chosen TYPE_DH) as [|t l] eqn:Eg.
    + eauto.
    + unfold ke_mismatch. destruct (negb (Z.eqb (t_id t) ke_group)) eqn:Ek.
      * exists chosen, t. unfold get_transform. rewrite Eg. repeat split; auto; try lia.
        -- assert (Hin : In t (get_transforms chosen TYPE_DH)) by (rewrite Eg; left; reflexivity).
           unfold get_transforms in Hin. apply filter_In in Hin. destruct Hin as (Hin & _).
           destruct (select_sound _ _ _ Hs) as (peer & _ & _ & _ & _ & _ & _ & _ & G). apply G in Hin. tauto.
        -- assert (Hin : In t (get_transforms chosen TYPE_DH)) by (rewrite Eg; left; reflexivity).
           unfold get_transforms in Hin. apply filter_In in Hin. lia.
      * split; [reflexivity|]. exists t. unfold get_transform. rewrite Eg. split; [reflexivity|lia].
  - apply none_refused. exact Hs.
Qed.

Lemma own_raise (ike_auth : bool) (conf : proposal) (e : exn) :
  (if ike_auth then copy_without_dh conf else Ok conf) = Raise e -> e = InvalidSyntax.
Proof.
  destruct ike_auth; [|discriminate]. unfold copy_without_dh. destruct (without_dh conf); [|discriminate].
  intros H; inversion H; reflexivity.
Qed.

Theorem child_responder_invalid_ke (ike_auth : bool) conf sa ke g :
  child_responder ike_auth conf sa ke = Raise (InvalidKePayload g) ->
  exists mine chosen t l g', ke = Some g' /\ (if ike_auth then copy_without_dh conf else Ok conf) = Ok mine /\
    select_best mine sa = Ok chosen /\ get_transforms chosen TYPE_DH = t :: l /\ g = t_id t /\ g <> g' /\
    In t (p_transforms mine) /\ t_type t = TYPE_DH.
Proof.
  unfold child_responder. destruct (if ike_auth then copy_without_dh conf else Ok conf) as [mine|e] eqn:Em.
  2:{ intros H; inversion H; subst. apply own_raise in Em. discriminate. }
  destruct (select_best mine sa) as [chosen|e] eqn:Hs.
  2:{ intros H; inversion H; subst. destruct (select_total mine sa) as [(r & Hr)|Hr]; congruence. }
  destruct (get_transforms chosen TYPE_DH) as [|t l] eqn:Eg; [discriminate|].
  destruct ke as [g'|]; [|discriminate].
  unfold ke_mismatch. destruct (negb (Z.eqb (t_id t) g')) eqn:Ek; [|discriminate].
  intros H; inversion H; subst. exists mine, chosen, t, l, g'.
  assert (Hin : In t (get_transforms chosen TYPE_DH)) by (rewrite Eg; left; reflexivity).
  unfold get_transforms in Hin. apply filter_In in Hin. destruct Hin as (Hin & Hty).
  destruct (select_sound _ _ _ Hs) as (peer & _ & _ & _ & _ & _ & _ & _ & G). apply G in Hin.
  repeat split; auto; try lia; tauto.
Qed.

Theorem child_responder_ok (ike_auth : bool) conf sa ke chosen :
  child_responder ike_auth conf sa ke = Ok chosen ->
  exists mine, (if ike_auth then copy_without_dh conf else Ok conf) = Ok mine /\ select_best mine sa = Ok chosen /\
    (forall t, In t (get_transforms chosen TYPE_DH) -> exists t0 l, get_transforms chosen TYPE_DH = t0 :: l /\ ke = Some (t_id t0)).
Proof.
  unfold child_responder. destruct (if ike_auth then copy_without_dh conf else Ok conf) as [mine|e]; [|discriminate].
  destruct (select_best mine sa) as [c|e] eqn:Hs; [|discriminate].
  destruct (get_transforms c TYPE_DH) as [|t l] eqn:Eg.
  - intros H; inversion H; subst. exists mine. rewrite Eg. repeat split; auto. intros t [].
  - destruct ke as [g|]; [|discriminate]. unfold ke_mismatch. destruct (negb (Z.eqb (t_id t) g)) eqn:Ek; [discriminate|].
    intros H; inversion H; subst. exists mine. rewrite Eg. repeat split; auto. intros _ _. exists t, l. split; auto. f_equal. lia.
Qed.

Theorem child_responder_refused (ike_auth : bool) conf sa ke mine :
  (if ike_auth then copy_without_dh conf else Ok conf) = Ok mine ->
  (forall q, In q sa -> intersection mine q = None) ->
  child_responder ike_auth conf sa ke = Raise NoProposalChosen.
Proof.
  intros Hm Hn. unfold child_responder. rewrite Hm. apply none_refused in Hn. rewrite Hn. reflexivity.
Qed.

(** the DH-less copy used in IKE_AUTH *)
Lemma copy_without_dh_spec p q : copy_without_dh p = Ok q ->
  p_proto q = p_proto p /\ p_num q = p_num p /\ p_spi q = p_spi p /\
  forall t, In t (p_transforms q) <-> In t (p_transforms p) /\ t_type t <> TYPE_DH.
Proof.
  unfold copy_without_dh. destruct (without_dh p) as [|t0 l] eqn:E; [discriminate|].
  intros H; inversion H; subst; clear H. cbn [p_proto p_num p_spi p_transforms]. repeat split; auto.
  - rewrite <- E in H. unfold without_dh in H. apply filter_In in H. tauto.
  - rewrite <- E in H. unfold without_dh in H. apply filter_In in H. unfold TYPE_DH. lia.
  - intros (Hin & Hty). rewrite <- E. unfold without_dh. apply filter_In. split; [exact Hin|]. unfold TYPE_DH in Hty. lia.
Qed.

(** C11_suggested_group_offered *)
Theorem suggested_group_offered offer g :
  (handle_invalid_ke offer g = Ok g <->
   exists t, In t (p_transforms offer) /\ t_type t = TYPE_DH /\ t_id t = g) /\
  (handle_invalid_ke offer g = Raise NoProposalChosen <->
   ~ exists t, In t (p_transforms offer) /\ t_type t = TYPE_DH /\ t_id t = g).
Proof.
  unfold handle_invalid_ke, suggested_group_reject.
  assert (Hm : memZ g (map t_id (filter (fun x => Z.eqb (t_type x) 4) (p_transforms offer))) = true <->
               exists t, In t (p_transforms offer) /\ t_type t = TYPE_DH /\ t_id t = g).
  { rewrite memZ_In, in_map_iff. unfold TYPE_DH. split.
    - intros (t & <- & Hin). apply filter_In in Hin. exists t. repeat split; try tauto. lia.
    - intros (t & Hin & Hty & <-). exists t. split; [reflexivity|]. apply filter_In. split; [exact Hin|lia]. }
  destruct (memZ g _) eqn:E; cbn [negb].
  - split; split; auto; try discriminate. + intros _. apply Hm. reflexivity. + intros H. exfalso. apply H. apply Hm. reflexivity.
  - split; split; auto; try discriminate.
    + intros H. apply Hm in H. discriminate.
    + intros _ H. apply Hm in H. discriminate.
Qed.

(** ** Non-vacuity: concrete offers for which the hypotheses hold *)
Definition tr (ty id : Z) (kl : option Z) : transform := {| t_type := ty; t_id := id; t_keylen := kl |}.
Definition ex_mine : proposal := {| p_num := 1; p_proto := PROTO_IKE; p_spi := [];
  p_transforms := [tr 1 12 (Some 256); tr 1 12 (Some 128); tr 3 12 None; tr 2 5 None; tr 4 14 None; tr 4 19 None] |}.
Definition ex_peer : proposal := {| p_num := 2; p_proto := PROTO_IKE; p_spi := [7%N];
  p_transforms := [tr 4 19 None; tr 4 14 None; tr 2 5 None; tr 3 12 None; tr 1 12 (Some 128); tr 1 13 (Some 256)] |}.
Definition ex_bad : proposal := {| p_num := 1; p_proto := PROTO_IKE; p_spi := [];
  p_transforms := [tr 1 12 (Some 192); tr 3 12 None; tr 2 5 None; tr 4 14 None] |}.

Example negotiation_example :
  intersection ex_mine ex_peer = Some {| p_num := 2; p_proto := PROTO_IKE; p_spi := [7%N];
     p_transforms := [tr 1 12 (Some 128); tr 3 12 None; tr 2 5 None; tr 4 14 None] |} /\
  intersection ex_mine ex_bad = None /\
  (exists r, select_best ex_mine [ex_bad; ex_peer] = Ok r /\ intersection ex_mine ex_peer = Some r) /\
  select_best ex_mine [ex_bad] = Raise NoProposalChosen /\
  ike_responder ex_mine [ex_peer] 19 = Raise (InvalidKePayload 14) /\
  notify_of (InvalidKePayload 14) = Some (17, [0%N; 14%N]) /\
  (exists r, ike_responder ex_mine [ex_peer] 14 = Ok r) /\
  handle_invalid_ke ex_mine 19 = Ok 19 /\ handle_invalid_ke ex_mine 2 = Raise NoProposalChosen /\
  is_subset {| p_num := 1; p_proto := PROTO_IKE; p_spi := []; p_transforms := [tr 1 12 (Some 128); tr 3 12 None; tr 2 5 None; tr 4 14 None] |} ex_mine = true /\
  is_subset ex_peer ex_mine = false.
Proof. vm_compute. repeat split; eauto. Qed.
