(** Generic lemmas about the result/tick monad, struct unpacking and slicing used by all codec proofs. *)
From Coq Require Import List NArith Arith Bool PeanoNat Lia ZifyBool ZifyNat ZifyN.
From VLib Require Import Bytes.
From Codec Require Import Gen.MessageTables Struct.
Import ListNotations.

Ltac split_ifs :=
  repeat match goal with
         | H : context [if ?c then _ else _] |- _ => destruct c eqn:?
         | |- context [if ?c then _ else _] => destruct c eqn:?
         end.

(** [safe r]: finished, and with a value or a protocol error only. *)
Definition safe {A} (r : res A) : Prop :=
  match r with
  | Ok _ => True
  | Raise InvalidSyntax | Raise UnsupportedCriticalPayload => True
  | _ => False
  end.

(** [good b m]: safe result and at most [b] loop iterations. *)
Definition good {A} (b : N) (m : M A) : Prop := safe (fst m) /\ (snd m <= b)%N.

Lemma good_le {A} (a b : N) (m : M A) : good a m -> (a <= b)%N -> good b m.
Proof. unfold good; intros [? ?] ?; split; [assumption | lia]. Qed.

Lemma good_ret {A} (a : A) b : good b (ret a).
Proof. unfold good, ret; cbn; split; [exact I | lia]. Qed.

Lemma good_raise_is {A} b : good b (@raise A InvalidSyntax).
Proof. unfold good, raise; cbn; split; [exact I | lia]. Qed.

Lemma good_raise_ucp {A} b : good b (@raise A UnsupportedCriticalPayload).
Proof. unfold good, raise; cbn; split; [exact I | lia]. Qed.

Lemma good_bind {A B} (a b : N) (m : M A) (f : A -> M B) :
  good a m -> (forall x, fst m = Ok x -> good b (f x)) -> good (a + b) (bind m f).
Proof.
  unfold good, bind. intros [Hs Ht] Hf. destruct (fst m) as [x| e |] eqn:E; cbn [fst snd].
  - destruct (Hf x eq_refl) as [Hs2 Ht2]. split; [assumption | lia].
  - split; [exact Hs | lia].
  - destruct Hs.
Qed.

Lemma good_tick_bind {B} (b : N) (k : M B) : good b k -> good (1 + b) (bind tick (fun _ => k)).
Proof.
  intros H. apply good_bind; [| intros; exact H]. unfold good, tick; cbn; split; [exact I | lia].
Qed.

Lemma pair_eta {A B} (p : A * B) : (fst p, snd p) = p.
Proof. destruct p; reflexivity. Qed.

Lemma bind_ret_l {A B} (a : A) (f : A -> M B) : bind (ret a) f = f a.
Proof. unfold bind, ret; cbn [fst snd]. rewrite N.add_0_l. apply pair_eta. Qed.

Lemma bind_raise_l {A B} e (f : A -> M B) : bind (raise e) f = raise e.
Proof. reflexivity. Qed.

(** try: unpack_from ... except struct_error: raise InvalidSyntax, followed by the continuation *)
Lemma bind_unpack {B} f d o (k : list val -> M B) :
  bind (except_raise (unpack_from f d o) StructError InvalidSyntax) k =
  if (o + fmt_size f <=? length d)%nat then k (unpack_fields f (skipn o d)) else raise InvalidSyntax.
Proof.
  unfold unpack_from. destruct (o + fmt_size f <=? length d)%nat.
  - unfold except_raise. cbn [fst ret]. apply bind_ret_l.
  - reflexivity.
Qed.

Lemma bind_unpack_plain {B} f d o (k : list val -> M B) :
  bind (unpack_from f d o) k =
  if (o + fmt_size f <=? length d)%nat then k (unpack_fields f (skipn o d)) else raise StructError.
Proof.
  unfold unpack_from. destruct (o + fmt_size f <=? length d)%nat; [apply bind_ret_l | reflexivity].
Qed.

Lemma fst_bind {A B} (m : M A) (f : A -> M B) :
  fst (bind m f) = match fst m with Ok a => fst (f a) | Raise e => Raise e | Diverged => Diverged end.
Proof. unfold bind. destruct (fst m); reflexivity. Qed.

Lemma slice_len_le d a b : (length (slice d a b) <= b - a)%nat.
Proof. rewrite slice_length. lia. Qed.

Lemma slice_len_le2 d a b : (length (slice d a b) <= length d - a)%nat.
Proof. rewrite slice_length. lia. Qed.

Lemma good_tick_le {B} (b c : N) (k : M B) : good b k -> (1 + b <= c)%N -> good c (bind tick (fun _ => k)).
Proof. intros H Hle. eapply good_le; [apply good_tick_bind; exact H | exact Hle]. Qed.

Lemma good_bind_le {A B} (a b c : N) (m : M A) (f : A -> M B) :
  good a m -> (forall x, fst m = Ok x -> good b (f x)) -> (a + b <= c)%N -> good c (bind m f).
Proof. intros H1 H2 Hle. eapply good_le; [apply good_bind; eassumption | exact Hle]. Qed.

Lemma good_bind_ret {A B} (c : N) (m : M A) (g : A -> B) :
  good c m -> good c (bind m (fun x => ret (g x))).
Proof.
  intros H. apply good_bind_le with (a := c) (b := 0%N); [exact H | intros; apply good_ret | lia].
Qed.

(** [goodP P b m]: safe unconditionally; at most [b] iterations when [P] (well-formedness of the input bytes). *)
Definition goodP {A} (P : Prop) (b : N) (m : M A) : Prop := safe (fst m) /\ (P -> (snd m <= b)%N).

Lemma goodP_of_good {A} P b (m : M A) : good b m -> goodP P b m.
Proof. unfold good, goodP. intros [? ?]; split; auto. Qed.

Lemma goodP_weaken {A} (P Q : Prop) b (m : M A) : (P -> Q) -> goodP Q b m -> goodP P b m.
Proof. unfold goodP. intros HPQ [? ?]; split; auto. Qed.

Lemma goodP_le {A} P (a b : N) (m : M A) : goodP P a m -> (a <= b)%N -> goodP P b m.
Proof. unfold goodP; intros [? H] ?; split; [assumption | intros HP; specialize (H HP); lia]. Qed.

Lemma goodP_bind_le {A B} P (a b c : N) (m : M A) (f : A -> M B) :
  goodP P a m -> (forall x, fst m = Ok x -> goodP P b (f x)) -> (P -> (a + b <= c)%N) -> goodP P c (bind m f).
Proof.
  unfold goodP, bind. intros [Hs Ht] Hf Hle. destruct (fst m) as [x| e |] eqn:E; cbn [fst snd].
  - destruct (Hf x eq_refl) as [Hs2 Ht2]. split; [assumption |].
    intros HP. specialize (Ht HP). specialize (Ht2 HP). specialize (Hle HP). lia.
  - split; [exact Hs |]. intros HP. specialize (Ht HP). specialize (Hle HP). lia.
  - destruct Hs.
Qed.

Lemma goodP_tick_le {B} P (b c : N) (k : M B) : goodP P b k -> (P -> (1 + b <= c)%N) -> goodP P c (bind tick (fun _ => k)).
Proof.
  intros H Hle. apply goodP_bind_le with (a := 1%N) (b := b); [| intros; exact H | exact Hle].
  unfold goodP, tick; cbn; split; [exact I | lia].
Qed.

Lemma goodP_bind_ret {A B} P (c : N) (m : M A) (g : A -> B) :
  goodP P c m -> goodP P c (bind m (fun x => ret (g x))).
Proof.
  intros H. apply goodP_bind_le with (a := c) (b := 0%N); [exact H | intros; apply goodP_of_good, good_ret | lia].
Qed.
