(** Entry points evaluated by the correspondence checks (sx in, sx out), instantiated with the toy primitives. *)
From Coq Require Import List NArith ZArith Arith Bool String.
From VLib Require Import Sx Bytes.
From Codec Require Import Gen.MessageTables Struct Codec Toy.
Import ListNotations.
Open Scope string_scope.

(* ---- model values -> sx ---------------------------------------------------------------------- *)
Definition sx_transform (t : transform) : sx :=
  SxL [sx_N (t_type t); sx_N (t_id t); sx_opt sx_N (t_keylen t)].
Definition sx_proposal (p : proposal) : sx :=
  SxL [sx_N (p_num p); sx_N (p_protocol p); sx_bytes (p_spi p); sx_list sx_transform (p_transforms p)].
Definition sx_tsel (t : tsel) : sx :=
  SxL [sx_N (ts_type t); sx_N (ts_proto t); sx_N (ts_sport t); sx_N (ts_eport t); sx_bytes (ts_saddr t);
       sx_bytes (ts_eaddr t)].
(** run-length encoding of the DELETE SPI list (a 4-byte payload can announce 65535 empty SPIs) *)
Fixpoint rle (l : list bytes) : list (bytes * nat) :=
  match l with
  | [] => []
  | x :: r =>
      match rle r with
      | (y, n) :: t => if bytes_eqb x y then (y, S n) :: t else (x, 1%nat) :: (y, n) :: t
      | [] => [(x, 1%nat)]
      end
  end.
Definition sx_rle (l : list bytes) : sx := sx_list (fun p => SxL [sx_bytes (fst p); sx_nat (snd p)]) (rle l).

Definition sx_body (b : pbody) : list sx :=
  match b with
  | B_SA ps => [sx_list sx_proposal ps]
  | B_KE g d => [sx_N g; sx_bytes d]
  | B_ID _ t d => [sx_N t; sx_bytes d]
  | B_AUTH m d => [sx_N m; sx_bytes d]
  | B_NONCE n => [sx_bytes n]
  | B_NOTIFY p t s d => [sx_N p; sx_N t; sx_bytes s; sx_bytes d]
  | B_DELETE p spis => [sx_N p; sx_rle spis]
  | B_VENDOR v => [sx_bytes v]
  | B_TS _ sels => [sx_list sx_tsel sels]
  | B_SK c n => [sx_bytes c; sx_N n]
  end.
Definition sx_payload (p : payload) : sx :=
  SxL (sx_N (pl_type p) :: sx_bool (pl_critical p) :: sx_body (pl_body p)).
Definition sx_message (m : message) : sx :=
  SxL [sx_bytes (m_spi_i m); sx_bytes (m_spi_r m); sx_N (m_major m); sx_N (m_minor m); sx_N (m_exchange m);
       sx_bool (m_is_response m); sx_bool (m_higher m); sx_bool (m_is_initiator m); sx_N (m_id m);
       sx_list sx_payload (m_payloads m); sx_list sx_payload (m_enc_payloads m);
       sx_opt sx_bytes (m_iv m); sx_bool (m_authenticated m)].

Definition exn_name (e : exn) : string :=
  match e with
  | InvalidSyntax => "InvalidSyntax" | UnsupportedCriticalPayload => "UnsupportedCriticalPayload"
  | StructError => "error" | KeyError => "KeyError" | IndexError => "IndexError" | ValueError => "ValueError"
  | ZeroDivisionError => "ZeroDivisionError" | AttributeError => "AttributeError"
  end.

Definition sx_res {A} (f : A -> sx) (r : res A) : sx :=
  match r with
  | Ok a => SxL [SxS "OK"; f a]
  | Raise e => SxL [SxS "EXC"; SxS (exn_name e)]
  | Diverged => SxL [SxS "DIVERGED"]
  end.

(* ---- sx -> model values ---------------------------------------------------------------------- *)
Definition obind {A B} (o : option A) (f : A -> option B) : option B :=
  match o with Some a => f a | None => None end.
Fixpoint omap {A B} (f : A -> option B) (l : list A) : option (list B) :=
  match l with
  | [] => Some []
  | x :: r => obind (f x) (fun y => obind (omap f r) (fun ys => Some (y :: ys)))
  end.
Definition get_optN (x : sx) : option (option N) :=
  match x with SxNone => Some None | _ => obind (get_N x) (fun n => Some (Some n)) end.
Definition get_optbytes (x : sx) : option (option bytes) :=
  match x with SxNone => Some None | _ => obind (get_bytes x) (fun n => Some (Some n)) end.

Definition transform_of_sx (x : sx) : option transform :=
  match x with
  | SxL [a; b; c] =>
      obind (get_N a) (fun a => obind (get_N b) (fun b => obind (get_optN c) (fun c => Some (mkTransform a b c))))
  | _ => None
  end.
Definition proposal_of_sx (x : sx) : option proposal :=
  match x with
  | SxL [a; b; c; SxL ts] =>
      obind (get_N a) (fun a => obind (get_N b) (fun b => obind (get_bytes c) (fun c =>
      obind (omap transform_of_sx ts) (fun ts => Some (mkProposal a b c ts)))))
  | _ => None
  end.
Definition tsel_of_sx (x : sx) : option tsel :=
  match x with
  | SxL [a; b; c; d; e; f] =>
      obind (get_N a) (fun a => obind (get_N b) (fun b => obind (get_N c) (fun c => obind (get_N d) (fun d =>
      obind (get_bytes e) (fun e => obind (get_bytes f) (fun f => Some (mkTsel a b c d e f)))))))
  | _ => None
  end.
Definition unrle_of_sx (x : sx) : option (list bytes) :=
  match x with
  | SxL [b; n] => obind (get_bytes b) (fun b => obind (get_N n) (fun n => Some (repeat b (N.to_nat n))))
  | _ => None
  end.
Definition body_of_sx (c : pclass) (xs : list sx) : option pbody :=
  match c, xs with
  | PayloadSA, [SxL ps] => obind (omap proposal_of_sx ps) (fun ps => Some (B_SA ps))
  | PayloadKE, [g; d] => obind (get_N g) (fun g => obind (get_bytes d) (fun d => Some (B_KE g d)))
  | PayloadIDi, [t; d] => obind (get_N t) (fun t => obind (get_bytes d) (fun d => Some (B_ID true t d)))
  | PayloadIDr, [t; d] => obind (get_N t) (fun t => obind (get_bytes d) (fun d => Some (B_ID false t d)))
  | PayloadAUTH, [t; d] => obind (get_N t) (fun t => obind (get_bytes d) (fun d => Some (B_AUTH t d)))
  | PayloadNONCE, [d] => obind (get_bytes d) (fun d => Some (B_NONCE d))
  | PayloadVENDOR, [d] => obind (get_bytes d) (fun d => Some (B_VENDOR d))
  | PayloadNOTIFY, [p; t; s; d] =>
      obind (get_N p) (fun p => obind (get_N t) (fun t => obind (get_bytes s) (fun s => obind (get_bytes d) (fun d =>
      Some (B_NOTIFY p t s d)))))
  | PayloadDELETE, [p; SxL spis] =>
      obind (get_N p) (fun p => obind (omap unrle_of_sx spis) (fun spis => Some (B_DELETE p (List.concat spis))))
  | PayloadTSi, [SxL ts] => obind (omap tsel_of_sx ts) (fun ts => Some (B_TS true ts))
  | PayloadTSr, [SxL ts] => obind (omap tsel_of_sx ts) (fun ts => Some (B_TS false ts))
  | PayloadSK, [c; n] => obind (get_bytes c) (fun c => obind (get_N n) (fun n => Some (B_SK c n)))
  | _, _ => None
  end.
Definition payload_of_sx (x : sx) : option payload :=
  match x with
  | SxL (t :: c :: body) =>
      obind (get_N t) (fun t => obind (get_bool c) (fun c => obind (lookup t type_2_payload) (fun cls =>
      obind (body_of_sx cls body) (fun b => Some (mkPayload c b)))))
  | _ => None
  end.
Definition message_of_sx (x : sx) : option message :=
  match x with
  | SxL [si; sr; ma; mi; ex; f1; f2; f3; mid; SxL ps; SxL eps; iv; au] =>
      obind (get_bytes si) (fun si => obind (get_bytes sr) (fun sr => obind (get_N ma) (fun ma =>
      obind (get_N mi) (fun mi => obind (get_N ex) (fun ex => obind (get_bool f1) (fun f1 =>
      obind (get_bool f2) (fun f2 => obind (get_bool f3) (fun f3 => obind (get_N mid) (fun mid =>
      obind (omap payload_of_sx ps) (fun ps => obind (omap payload_of_sx eps) (fun eps =>
      obind (get_optbytes iv) (fun iv => obind (get_bool au) (fun au =>
      Some (mkMessage si sr ma mi ex f1 f2 f3 mid ps eps iv au))))))))))))))
  | _ => None
  end.
Definition get_nat (x : sx) : option nat := obind (get_N x) (fun n => Some (N.to_nat n)).
Definition crypto_of_sx (x : sx) : option (option crypto) :=
  match x with
  | SxNone => Some None
  | SxL [bs; icv; ke; ka; iv] =>
      obind (get_nat bs) (fun bs => obind (get_nat icv) (fun icv => obind (get_bytes ke) (fun ke =>
      obind (get_bytes ka) (fun ka => obind (get_bytes iv) (fun iv => Some (Some (mkCrypto bs icv ke ka iv)))))))
  | _ => None
  end.

Definition icv_of (c : option crypto) : nat := match c with Some cr => c_icv cr | None => O end.

(* ---- entry points ------------------------------------------------------------------------------ *)
(** input L [crypto; header_only; data] -> ["OK"; message] | ["EXC"; class] | ["DIVERGED"] *)
Definition run_decode (x : sx) : sx :=
  match x with
  | SxL [c; h; d] =>
      match crypto_of_sx c, get_bool h, get_bytes d with
      | Some c, Some h, Some d => sx_res sx_message (decode toy_dec (toy_mac (icv_of c)) c h d)
      | _, _, _ => bad_input
      end
  | _ => bad_input
  end.

(** same input -> L [result; loop iterations] *)
Definition run_decode_iters (x : sx) : sx :=
  match x with
  | SxL [c; h; d] =>
      match crypto_of_sx c, get_bool h, get_bytes d with
      | Some c, Some h, Some d =>
          let r := decode_m toy_dec (toy_mac (icv_of c)) c h d in
          SxL [sx_res sx_message (fst r); sx_N (snd r)]
      | _, _, _ => bad_input
      end
  | _ => bad_input
  end.

(** input L [crypto; message] -> ["OK"; bytes] | ["EXC"; class] *)
Definition run_encode (x : sx) : sx :=
  match x with
  | SxL [c; m] =>
      match crypto_of_sx c, message_of_sx m with
      | Some c, Some m => sx_res sx_bytes (encode toy_enc (toy_mac (icv_of c)) c m)
      | _, _ => bad_input
      end
  | _ => bad_input
  end.

(** a single payload class: input L [type number; data] -> parse result (critical = false) *)
Definition run_parse_payload (x : sx) : sx :=
  match x with
  | SxL [t; d] =>
      match get_N t, get_bytes d with
      | Some t, Some d =>
          sx_res (fun b => sx_payload (mkPayload false b)) (fst (parse_one t d))
      | _, _ => bad_input
      end
  | _ => bad_input
  end.
