(** Executable model of /repo/message.py (the message codec), statement by statement.
    No proofs in this file.  Numbers, tables, struct formats and integer expressions come from
    Gen/MessageTables.v, regenerated from message.py on every run. *)
From Coq Require Import List NArith Arith Bool PeanoNat.
From VLib Require Import Bytes.
From Codec Require Import Gen.MessageTables Struct.
Import ListNotations.
Open Scope m_scope.

(* ------------------------------------------------------------------------------------------ *)
(** * Data *)

Record transform := mkTransform { t_type : N; t_id : N; t_keylen : option N }.
Record proposal := mkProposal { p_num : N; p_protocol : N; p_spi : bytes; p_transforms : list transform }.
(** addresses are the packed octets of the ipaddress object (4 or 16 of them) *)
Record tsel := mkTsel { ts_type : N; ts_proto : N; ts_sport : N; ts_eport : N; ts_saddr : bytes; ts_eaddr : bytes }.

Inductive pbody :=
| B_SA (proposals : list proposal)
| B_KE (dh_group : N) (ke_data : bytes)
| B_ID (initiator : bool) (id_type : N) (id_data : bytes)           (* PayloadIDi / PayloadIDr *)
| B_AUTH (method : N) (auth_data : bytes)
| B_NONCE (nonce : bytes)
| B_NOTIFY (protocol_id : N) (ntype : N) (spi : bytes) (ndata : bytes)
| B_DELETE (protocol_id : N) (spis : list bytes)
| B_VENDOR (vendor_id : bytes)
| B_TS (initiator : bool) (sels : list tsel)                         (* PayloadTSi / PayloadTSr *)
| B_SK (ciphertext : bytes) (next_payload_type : N).

Record payload := mkPayload { pl_critical : bool; pl_body : pbody }.

Definition body_class (b : pbody) : pclass :=
  match b with
  | B_SA _ => PayloadSA | B_KE _ _ => PayloadKE
  | B_ID i _ _ => if i then PayloadIDi else PayloadIDr
  | B_AUTH _ _ => PayloadAUTH | B_NONCE _ => PayloadNONCE | B_NOTIFY _ _ _ _ => PayloadNOTIFY
  | B_DELETE _ _ => PayloadDELETE | B_VENDOR _ => PayloadVENDOR
  | B_TS i _ => if i then PayloadTSi else PayloadTSr
  | B_SK _ _ => PayloadSK
  end.

(** payload.type (a class attribute) *)
Definition pl_type (p : payload) : N := class_type (body_class (pl_body p)).

Record message := mkMessage {
  m_spi_i : bytes; m_spi_r : bytes; m_major : N; m_minor : N; m_exchange : N;
  m_is_response : bool; m_higher : bool; m_is_initiator : bool; m_id : N;
  m_payloads : list payload; m_enc_payloads : list payload;
  m_iv : option bytes; m_authenticated : bool }.

(** crypto context as message.py sees it: cipher.block_size, integrity.hash_size, sk_e, sk_a and the value the
    next cipher.generate_iv() call returns (an environment draw). *)
Record crypto := mkCrypto { c_bs : nat; c_icv : nat; c_sk_e : bytes; c_sk_a : bytes; c_new_iv : bytes }.

(* ------------------------------------------------------------------------------------------ *)
(** * Transform *)

(** Transform.parse: the attribute loop *)
Fixpoint attr_loop (fuel : nat) (data : bytes) (ty id : N) (off : nat) : M transform :=
  match fuel with
  | O => diverged
  | S f =>
      if (off <? length data)%nat then
        tick ;;;
        vs <- except_raise (unpack_from fmt_Transform_parse_1 data off) StructError InvalidSyntax ;;
        match vs with
        | [VN attr_type; VN attr_value] =>
            if transform_attr_is_keylen attr_type then ret (mkTransform ty id (Some attr_value))
            else attr_loop f data ty id (off + 4)
        | _ => raise ValueError
        end
      else ret (mkTransform ty id None)
  end.

Definition parse_transform (data : bytes) : M transform :=
  vs <- except_raise (unpack_from fmt_Transform_parse_0 data 0) StructError InvalidSyntax ;;
  match vs with
  | [VN ty; _; VN id] => attr_loop (S (length data)) data ty id 4
  | _ => raise ValueError
  end.

Definition truthy (k : option N) : bool := match k with Some k => negb (N.eqb k 0) | None => false end.

Definition transform_to_bytes (t : transform) : M bytes :=
  d <- pack fmt_Transform_to_bytes_0 [VN (t_type t); VN 0; VN (t_id t)] ;;
  if truthy (t_keylen t) then
    a <- pack fmt_Transform_to_bytes_1 [VN transform_keylen_attr; VN (match t_keylen t with Some k => k | None => 0 end)] ;;
    ret (d ++ a)
  else ret d.

(* ------------------------------------------------------------------------------------------ *)
(** * Proposal *)

Definition new_proposal (num proto : N) (spi : bytes) (ts : list transform) : M proposal :=
  if (length ts =? 0)%nat then raise InvalidSyntax else ret (mkProposal num proto spi ts).

Fixpoint transforms_loop (fuel : nat) (data : bytes) (off : nat) : M (list transform) :=
  match fuel with
  | O => diverged
  | S f =>
      if (off <? length data)%nat then
        tick ;;;
        vs <- except_raise (unpack_from fmt_Proposal_parse_1 data off) StructError InvalidSyntax ;;
        match vs with
        | [VN more; _; VN len] =>
            t <- parse_transform (slice data (off + 4) (off + N.to_nat len)) ;;
            rest <- transforms_loop f data (off + N.to_nat len) ;;
            ret (t :: rest)
        | _ => raise ValueError
        end
      else ret []
  end.

Definition parse_proposal (data : bytes) : M proposal :=
  vs <- except_raise (unpack_from fmt_Proposal_parse_0 data 0) StructError InvalidSyntax ;;
  match vs with
  | [VN num; VN proto; VN spi_size; VN n_transforms] =>
      let spi := if (0 <? spi_size)%N then slice data 4 (4 + N.to_nat spi_size) else [] in
      ts <- transforms_loop (S (length data)) data (4 + N.to_nat spi_size) ;;
      if negb (N.eqb n_transforms (N.of_nat (length ts))) then raise InvalidSyntax
      else new_proposal num proto spi ts
  | _ => raise ValueError
  end.

(** the `for index in range(len(xs))` loops writing sub-structure headers *)
Fixpoint transforms_to_bytes (ts : list transform) (index count : nat) : M bytes :=
  match ts with
  | [] => ret []
  | t :: rest =>
      td <- transform_to_bytes t ;;
      h <- pack fmt_Proposal_to_bytes_1
             [VN (transform_more (N.of_nat index) (N.of_nat count)); VN transform_reserved;
              VN (transform_length_field (N.of_nat (length td)))] ;;
      r <- transforms_to_bytes rest (S index) count ;;
      ret (h ++ td ++ r)
  end.

Definition proposal_to_bytes (p : proposal) : M bytes :=
  h <- pack fmt_Proposal_to_bytes_0
         [VN (p_num p); VN (p_protocol p); VN (N.of_nat (length (p_spi p))); VN (N.of_nat (length (p_transforms p)))] ;;
  r <- transforms_to_bytes (p_transforms p) 0 (length (p_transforms p)) ;;
  ret (h ++ p_spi p ++ r).

(* ------------------------------------------------------------------------------------------ *)
(** * Payload SA *)

Fixpoint proposals_loop (fuel : nat) (data : bytes) (off : nat) : M (list proposal) :=
  match fuel with
  | O => diverged
  | S f =>
      if (off <? length data)%nat then
        tick ;;;
        vs <- except_raise (unpack_from fmt_PayloadSA_parse_0 data off) StructError InvalidSyntax ;;
        match vs with
        | [VN more; _; VN len] =>
            p <- parse_proposal (slice data (off + 4) (off + N.to_nat len)) ;;
            rest <- proposals_loop f data (off + N.to_nat len) ;;
            ret (p :: rest)
        | _ => raise ValueError
        end
      else ret []
  end.

Definition new_sa (ps : list proposal) : M pbody :=
  if (length ps =? 0)%nat then raise InvalidSyntax else ret (B_SA ps).

Definition parse_sa (data : bytes) : M pbody :=
  ps <- proposals_loop (S (length data)) data 0 ;;
  new_sa ps.

Fixpoint proposals_to_bytes (ps : list proposal) (index count : nat) : M bytes :=
  match ps with
  | [] => ret []
  | p :: rest =>
      pd <- proposal_to_bytes p ;;
      h <- pack fmt_PayloadSA_to_bytes_0
             [VN (proposal_more (N.of_nat index) (N.of_nat count)); VN proposal_reserved;
              VN (proposal_length_field (N.of_nat (length pd)))] ;;
      r <- proposals_to_bytes rest (S index) count ;;
      ret (h ++ pd ++ r)
  end.

(* ------------------------------------------------------------------------------------------ *)
(** * The simple payloads *)

Definition parse_ke (data : bytes) : M pbody :=
  vs <- except_raise (unpack_from fmt_PayloadKE_parse_0 data 0) StructError InvalidSyntax ;;
  match vs with
  | [VN dh_group; _] => ret (B_KE dh_group (slice_from data 4))
  | _ => raise ValueError
  end.

Definition parse_id (initiator : bool) (data : bytes) : M pbody :=
  vs <- except_raise (unpack_from fmt_PayloadID_parse_0 data 0) StructError InvalidSyntax ;;
  match vs with
  | [VN id_type; _] => ret (B_ID initiator id_type (slice_from data 4))
  | _ => raise ValueError
  end.

Definition parse_auth (data : bytes) : M pbody :=
  vs <- except_raise (unpack_from fmt_PayloadAUTH_parse_0 data 0) StructError InvalidSyntax ;;
  match vs with
  | [VN method; _] => ret (B_AUTH method (slice_from data 4))
  | _ => raise ValueError
  end.

Definition new_nonce (nonce : bytes) : M pbody :=
  if nonce_length_bad (N.of_nat (length nonce)) then raise InvalidSyntax else ret (B_NONCE nonce).

Definition new_vendor (v : bytes) : M pbody :=
  if (length v =? 0)%nat then raise InvalidSyntax else ret (B_VENDOR v).

Definition parse_notify (data : bytes) : M pbody :=
  vs <- except_raise (unpack_from fmt_PayloadNOTIFY_parse_0 data 0) StructError InvalidSyntax ;;
  match vs with
  | [VN protocol_id; VN spi_size; VN ntype] =>
      let spi := if (0 <? spi_size)%N then slice data 4 (4 + N.to_nat spi_size) else [] in
      ret (B_NOTIFY protocol_id ntype spi (slice_from data (4 + N.to_nat spi_size)))
  | _ => raise ValueError
  end.

(** PayloadDELETE.parse: `for i in range(0, num_spis)` with unchecked slices.  The offset is kept in binary
    (it can reach 65535 * 255); data[off:off+size] is empty as soon as off >= len(data). *)
Definition slice_N (data : bytes) (off size : N) : bytes :=
  if (N.of_nat (length data) <=? off)%N then [] else slice data (N.to_nat off) (N.to_nat (off + size)).

Fixpoint delete_spis (n : nat) (data : bytes) (off size : N) : M (list bytes) :=
  match n with
  | O => ret []
  | S n' =>
      tick ;;;
      rest <- delete_spis n' data (off + size)%N size ;;
      ret (slice_N data off size :: rest)
  end.

Definition parse_delete (data : bytes) : M pbody :=
  vs <- except_raise (unpack_from fmt_PayloadDELETE_parse_0 data 0) StructError InvalidSyntax ;;
  match vs with
  | [VN protocol_id; VN spi_size; VN num_spis] =>
      spis <- delete_spis (N.to_nat num_spis) data 4%N spi_size ;;
      ret (B_DELETE protocol_id spis)
  | _ => raise ValueError
  end.

(* ------------------------------------------------------------------------------------------ *)
(** * Traffic selectors *)

(** ipaddress.ip_address(octets): an IPv4Address for 4 octets, an IPv6Address for 16, ValueError otherwise *)
Definition ip_address (b : bytes) : M bytes :=
  if ((length b =? 4) || (length b =? 16))%nat then ret b else raise ValueError.

Definition parse_tsel (data : bytes) : M tsel :=
  r <- except_raise
         (vs <- unpack_from fmt_TrafficSelector_parse_0 data 0 ;;
          match vs with
          | [VN ty; VN proto; _; VN sp; VN ep] =>
              let addr_len := ts_addr_len_parse ty in
              av <- unpack_from (fmt_TrafficSelector_parse_1 (N.to_nat addr_len)) data ts_addr_offset ;;
              match av with
              | [VB sa; VB ea] => ret (mkTsel ty proto sp ep sa ea)
              | _ => raise ValueError
              end
          | _ => raise ValueError
          end) StructError InvalidSyntax ;;
  sa <- ip_address (ts_saddr r) ;;
  ea <- ip_address (ts_eaddr r) ;;
  ret (mkTsel (ts_type r) (ts_proto r) (ts_sport r) (ts_eport r) sa ea).

Definition tsel_to_bytes (t : tsel) : M bytes :=
  let addr_len := ts_addr_len_to_bytes (ts_type t) in
  pack (fmt_TrafficSelector_to_bytes_0 (N.to_nat addr_len))
       [VN (ts_type t); VN (ts_proto t); VN (ts_length_field addr_len); VN (ts_sport t); VN (ts_eport t);
        VB (ts_saddr t); VB (ts_eaddr t)].

Fixpoint tsels_loop (fuel : nat) (data : bytes) (off : nat) : M (list tsel) :=
  match fuel with
  | O => diverged
  | S f =>
      if (off <? length data)%nat then
        tick ;;;
        vs <- except_raise (unpack_from fmt_PayloadTS_parse_1 data off) StructError InvalidSyntax ;;
        match vs with
        | [_; VN len] =>
            t <- parse_tsel (slice data off (off + N.to_nat len)) ;;
            rest <- tsels_loop f data (off + N.to_nat len) ;;
            ret (t :: rest)
        | _ => raise ValueError
        end
      else ret []
  end.

Definition parse_ts (initiator : bool) (data : bytes) : M pbody :=
  vs <- except_raise (unpack_from fmt_PayloadTS_parse_0 data 0) StructError InvalidSyntax ;;
  match vs with
  | [VN n_ts; _] =>
      sels <- tsels_loop (S (length data)) data 4 ;;
      if negb (N.eqb n_ts (N.of_nat (length sels))) then raise InvalidSyntax
      else ret (B_TS initiator sels)
  | _ => raise ValueError
  end.

Fixpoint tsels_to_bytes (ts : list tsel) : M bytes :=
  match ts with
  | [] => ret []
  | t :: rest => d <- tsel_to_bytes t ;; r <- tsels_to_bytes rest ;; ret (d ++ r)
  end.

(* ------------------------------------------------------------------------------------------ *)
(** * Dispatch on the payload class *)

Definition parse_body (c : pclass) (data : bytes) : M pbody :=
  match c with
  | PayloadSA => parse_sa data
  | PayloadKE => parse_ke data
  | PayloadIDi => parse_id true data
  | PayloadIDr => parse_id false data
  | PayloadAUTH => parse_auth data
  | PayloadNONCE => new_nonce data
  | PayloadVENDOR => new_vendor data
  | PayloadNOTIFY => parse_notify data
  | PayloadTSi => parse_ts true data
  | PayloadTSr => parse_ts false data
  | PayloadSK => ret (B_SK data 0)
  | PayloadDELETE => parse_delete data
  end.

Definition body_to_bytes (b : pbody) : M bytes :=
  match b with
  | B_SA ps => proposals_to_bytes ps 0 (length ps)
  | B_KE g d => h <- pack fmt_PayloadKE_to_bytes_0 [VN g; VN 0] ;; ret (h ++ d)
  | B_ID _ t d => h <- pack fmt_PayloadID_to_bytes_0 [VN t; VN 0; VN 0] ;; ret (h ++ d)
  | B_AUTH m d => h <- pack fmt_PayloadAUTH_to_bytes_0 [VN m; VN 0; VN 0] ;; ret (h ++ d)
  | B_NONCE n => ret n
  | B_NOTIFY p t spi d =>
      h <- pack fmt_PayloadNOTIFY_to_bytes_0 [VN p; VN (N.of_nat (length spi)); VN t] ;;
      ret (h ++ spi ++ d)
  | B_DELETE p spis =>
      h <- pack fmt_PayloadDELETE_to_bytes_0
             [VN p; VN (match spis with s :: _ => N.of_nat (length s) | [] => 0 end); VN (N.of_nat (length spis))] ;;
      ret (h ++ concat spis)
  | B_VENDOR v => ret v
  | B_TS _ sels =>
      h <- pack fmt_PayloadTS_to_bytes_0 [VN (N.of_nat (length sels)); VN 0; VN 0] ;;
      r <- tsels_to_bytes sels ;;
      ret (h ++ r)
  | B_SK c _ => ret c
  end.

(* ------------------------------------------------------------------------------------------ *)
(** * The generic payload chain *)

(** the body of the `try:` in Message._parse_payloads *)
Definition parse_one (pt : N) (data : bytes) : M pbody :=
  match lookup pt type_2_payload with
  | Some cls => parse_body cls data
  | None => raise KeyError
  end.

Definition set_next (b : pbody) (next : N) : pbody :=
  match b with B_SK c _ => B_SK c next | _ => b end.

Fixpoint payloads_loop (fuel : nat) (data : bytes) (off : nat) (pt : N) : M (list payload) :=
  match fuel with
  | O => diverged
  | S f =>
      if negb (N.eqb pt Payload_Type_NONE) then
        tick ;;;
        vs <- except_raise (unpack_from fmt_Message_parse_payloads_0 data off) StructError InvalidSyntax ;;
        match vs with
        | [VN next; VN crit; VN len] =>
            let critical := payload_critical_of crit in
            if payload_length_bad len then raise InvalidSyntax else
            let body := parse_one pt (slice data (off + 4) (off + N.to_nat len)) in
            match fst body with
            | Raise KeyError =>
                ((Ok tt, snd body) : M unit) ;;;
                if critical then raise UnsupportedCriticalPayload
                else payloads_loop f data (off + N.to_nat len) next
            | _ =>
                b <- body ;;
                let is_sk := N.eqb pt Payload_Type_SK in
                rest <- payloads_loop f data (off + N.to_nat len) (if is_sk then Payload_Type_NONE else next) ;;
                ret (mkPayload critical (if is_sk then set_next b next else b) :: rest)
            end
        | _ => raise ValueError
        end
      else if negb (off =? length data)%nat then raise InvalidSyntax
      else ret []
  end.

Definition parse_payloads (data : bytes) (first : N) : M (list payload) :=
  payloads_loop (length data + 2) data 0 first.

Definition sk_next (p : payload) : M N :=
  match pl_body p with B_SK _ n => ret n | _ => raise AttributeError end.

Fixpoint payloads_to_bytes (ps : list payload) : M bytes :=
  match ps with
  | [] => ret []
  | p :: rest =>
      d <- body_to_bytes (pl_body p) ;;
      next <- match rest with
              | q :: _ => ret (pl_type q)
              | [] => if N.eqb (pl_type p) Payload_Type_SK then sk_next p else ret Payload_Type_NONE
              end ;;
      h <- pack fmt_Message_payloads_to_bytes_0
             [VN next; VN payload_critical_byte; VN (payload_length_field (N.of_nat (length d)))] ;;
      r <- payloads_to_bytes rest ;;
      ret (h ++ d ++ r)
  end.

(* ------------------------------------------------------------------------------------------ *)
(** * Payload SK and the message *)

Section WithPrimitives.
  (** cipher.encrypt / cipher.decrypt (key, iv, data) and integrity.compute (key, data) *)
  Variables enc dec : bytes -> bytes -> bytes -> bytes.
  Variable mac : bytes -> bytes -> bytes.

  (** PayloadSK.decrypt *)
  Definition sk_decrypt (c : crypto) (ciphertext : bytes) : M (bytes * bytes) :=
    let bs := c_bs c in
    let iv := firstn bs ciphertext in
    let ct := slice_to_neg (skipn bs ciphertext) (c_icv c) in
    if negb (length iv =? bs)%nat || (length ct =? 0)%nat then raise InvalidSyntax
    else if (bs =? 0)%nat then raise ZeroDivisionError
    else if negb (length ct mod bs =? 0)%nat then raise InvalidSyntax
    else
      let decrypted := dec (c_sk_e c) iv ct in
      match rev decrypted with
      | [] => raise IndexError
      | padlen :: _ =>
          if (N.of_nat (length decrypted) <? padlen + 1)%N then raise InvalidSyntax
          else ret (iv, firstn (length decrypted - 1 - N.to_nat padlen) decrypted)
      end.

  (** PayloadSK.generate: the plaintext handed to the cipher, then the payload body *)
  Definition sk_plaintext (c : crypto) (cleartext : bytes) : M bytes :=
    if (c_bs c =? 0)%nat then raise ZeroDivisionError else
    let padlen := sk_padlen (N.of_nat (c_bs c)) (N.of_nat (length cleartext)) in
    p <- pack fmt_PayloadSK_generate_0 [VN padlen] ;;
    ret (cleartext ++ repeat 0%N (N.to_nat padlen) ++ p).

  Definition sk_generate (c : crypto) (cleartext iv : bytes) : M bytes :=
    pt <- sk_plaintext c cleartext ;;
    ret (iv ++ enc (c_sk_e c) iv pt ++ repeat 0%N (c_icv c)).

  Definition split_last {A} (l : list A) : option (list A * A) :=
    match rev l with [] => None | x :: r => Some (rev r, x) end.

  (** Message.parse *)
  Definition decode_m (c : option crypto) (header_only : bool) (data : bytes) : M message :=
    vs <- except_raise (unpack_from fmt_Message_parse_0 data 0) StructError InvalidSyntax ;;
    match vs with
    | [VB spi_i; VB spi_r; VN first; VN ver; VN exch; VN flags; VN mid; _] =>
        let mk ps eps iv auth :=
          mkMessage spi_i spi_r (hdr_parse_major ver) (hdr_parse_minor ver) (hdr_parse_exchange_type exch)
                    (hdr_parse_is_response flags) (hdr_parse_can_use_higher_version flags)
                    (hdr_parse_is_initiator flags) (hdr_parse_message_id mid) ps eps iv auth in
        let iv0 := match c with Some cr => Some (c_new_iv cr) | None => None end in
        if header_only then ret (mk [] [] iv0 false) else
        ps <- parse_payloads (slice_from data hdr_size) first ;;
        match c, split_last ps with
        | Some cr, Some (init, last) =>
            if N.eqb (pl_type last) Payload_Type_SK then
              let checksum := mac (c_sk_a cr) (slice_to_neg data (c_icv cr)) in
              if negb (bytes_eqb checksum (slice_from_neg data (c_icv cr))) then raise InvalidSyntax else
              match pl_body last with
              | B_SK ciphertext next =>
                  r <- sk_decrypt cr ciphertext ;;
                  eps <- parse_payloads (snd r) next ;;
                  ret (mk init eps (Some (fst r)) true)
              | _ => raise AttributeError
              end
            else ret (mk ps [] iv0 false)
        | _, _ => ret (mk ps [] iv0 false)
        end
    | _ => raise IndexError
    end.

  (** Message.to_bytes (crypto = the message's crypto attribute) *)
  Definition encode_m (c : option crypto) (m : message) : M bytes :=
    ps <- match c with
          | None => ret (m_payloads m)
          | Some cr =>
              cleartext <- payloads_to_bytes (m_enc_payloads m) ;;
              let iv := match m_iv m with Some iv => iv | None => c_new_iv cr end in
              body <- sk_generate cr cleartext iv ;;
              let next := match m_enc_payloads m with q :: _ => pl_type q | [] => Payload_Type_NONE end in
              ret (m_payloads m ++ [mkPayload false (B_SK body next)])
          end ;;
    let first := match ps with q :: _ => pl_type q | [] => Payload_Type_NONE end in
    header <- pack fmt_Message_to_bytes_0
                [VB (m_spi_i m); VB (m_spi_r m); VN first; VN (hdr_version_byte (m_major m) (m_minor m));
                 VN (m_exchange m); VN (hdr_flags_byte (m_is_response m) (m_higher m) (m_is_initiator m));
                 VN (m_id m); VN hdr_initial_length] ;;
    pd <- payloads_to_bytes ps ;;
    let data := header ++ pd in
    data <- pack_into fmt_Message_to_bytes_1 data hdr_length_offset [VN (N.of_nat (length data))] ;;
    match c with
    | None => ret data
    | Some cr =>
        let checksum := mac (c_sk_a cr) (slice_to_neg data (c_icv cr)) in
        if (length data <? length checksum)%nat then raise StructError
        else pack_into (fmt_Message_to_bytes_2 (length checksum)) data (length data - length checksum) [VB checksum]
    end.

  Definition decode (c : option crypto) (header_only : bool) (data : bytes) : res message :=
    fst (decode_m c header_only data).
  Definition iterations (c : option crypto) (header_only : bool) (data : bytes) : N :=
    snd (decode_m c header_only data).
  Definition encode (c : option crypto) (m : message) : res bytes := fst (encode_m c m).
End WithPrimitives.
