(** RFC 7296 section 3 - the wire layout of IKEv2 messages, written from the RFC's figures.
    Independent of the model's encoder: no struct formats, no generated tables; IANA numbers are literals.
    The abstract content is the [message] type of the model (data only). *)
From Coq Require Import List NArith Arith Bool.
From VLib Require Import Bytes.
From Codec Require Import Codec.
Import ListNotations.
Open Scope N_scope.

(** network byte order fields *)
Definition u8 (n : N) : bytes := [n mod 256].
Definition u16 (n : N) : bytes := [n / 256 mod 256; n mod 256].
Definition u32 (n : N) : bytes := [n / 16777216 mod 256; n / 65536 mod 256; n / 256 mod 256; n mod 256].
Definition len_of (b : bytes) : N := N.of_nat (length b).
Definition bit (b : bool) : N := if b then 1 else 0.

(** 3.3.2 Transform substructure; 3.3.5 the Key Length attribute (type 14, AF = 1, TV format) *)
Definition rfc_attributes (t : transform) : bytes :=
  match t_keylen t with
  | Some k => u16 (32768 + 14) ++ u16 k
  | None => []
  end.
Definition rfc_transform_body (t : transform) : bytes :=
  u8 (t_type t) ++ u8 0 ++ u16 (t_id t) ++ rfc_attributes t.
Fixpoint rfc_transforms (ts : list transform) : bytes :=
  match ts with
  | [] => []
  | t :: rest =>
      let body := rfc_transform_body t in
      u8 (match rest with [] => 0 | _ => 3 end) ++ u8 0 ++ u16 (4 + len_of body) ++ body ++ rfc_transforms rest
  end.

(** 3.3.1 Proposal substructure *)
Definition rfc_proposal_body (p : proposal) : bytes :=
  u8 (p_num p) ++ u8 (p_protocol p) ++ u8 (len_of (p_spi p)) ++ u8 (N.of_nat (length (p_transforms p)))
  ++ p_spi p ++ rfc_transforms (p_transforms p).
Fixpoint rfc_proposals (ps : list proposal) : bytes :=
  match ps with
  | [] => []
  | p :: rest =>
      let body := rfc_proposal_body p in
      u8 (match rest with [] => 0 | _ => 2 end) ++ u8 0 ++ u16 (4 + len_of body) ++ body ++ rfc_proposals rest
  end.

(** 3.13.1 Traffic Selector *)
Definition rfc_selector (s : tsel) : bytes :=
  u8 (ts_type s) ++ u8 (ts_proto s) ++ u16 (8 + len_of (ts_saddr s) + len_of (ts_eaddr s))
  ++ u16 (ts_sport s) ++ u16 (ts_eport s) ++ ts_saddr s ++ ts_eaddr s.

(** payload bodies: 3.3 SA, 3.4 KE, 3.5 IDi/IDr, 3.8 AUTH, 3.9 Nonce, 3.10 Notify, 3.11 Delete, 3.12 Vendor ID,
    3.13 TSi/TSr, 3.14 Encrypted *)
Definition rfc_body (b : pbody) : bytes :=
  match b with
  | B_SA ps => rfc_proposals ps
  | B_KE g d => u16 g ++ u16 0 ++ d
  | B_ID _ t d => u8 t ++ [0; 0; 0] ++ d
  | B_AUTH m d => u8 m ++ [0; 0; 0] ++ d
  | B_NONCE n => n
  | B_NOTIFY p t spi d => u8 p ++ u8 (len_of spi) ++ u16 t ++ spi ++ d
  | B_DELETE p spis =>
      u8 p ++ u8 (match spis with s :: _ => len_of s | [] => 0 end) ++ u16 (N.of_nat (length spis)) ++ concat spis
  | B_VENDOR v => v
  | B_TS _ sels => u8 (N.of_nat (length sels)) ++ [0; 0; 0] ++ concat (map rfc_selector sels)
  | B_SK c _ => c
  end.

(** IANA "IKEv2 Payload Types" *)
Definition rfc_payload_type (b : pbody) : N :=
  match b with
  | B_SA _ => 33 | B_KE _ _ => 34
  | B_ID true _ _ => 35 | B_ID false _ _ => 36
  | B_AUTH _ _ => 39 | B_NONCE _ => 40 | B_NOTIFY _ _ _ _ => 41 | B_DELETE _ _ => 42 | B_VENDOR _ => 43
  | B_TS true _ => 44 | B_TS false _ => 45
  | B_SK _ _ => 46
  end.

(** 3.2 generic payload header: Next Payload, C (0 for every payload defined in the RFC) + RESERVED, Length.
    The Next Payload of the Encrypted payload is the type of the first embedded payload. *)
Fixpoint rfc_chain (ps : list payload) : bytes :=
  match ps with
  | [] => []
  | p :: rest =>
      let body := rfc_body (pl_body p) in
      let next := match rest with
                  | q :: _ => rfc_payload_type (pl_body q)
                  | [] => match pl_body p with B_SK _ n => n | _ => 0 end
                  end in
      u8 next ++ u8 0 ++ u16 (4 + len_of body) ++ body ++ rfc_chain rest
  end.

(** 3.1 IKE header: SPIs, Next Payload, MjVer|MnVer, Exchange Type, Flags (R = 0x20, V = 0x10, I = 0x08),
    Message ID, Length of the whole message *)
Definition rfc_header (m : message) (first total : N) : bytes :=
  m_spi_i m ++ m_spi_r m ++ u8 first ++ u8 (16 * m_major m + m_minor m) ++ u8 (m_exchange m)
  ++ u8 (32 * bit (m_is_response m) + 16 * bit (m_higher m) + 8 * bit (m_is_initiator m))
  ++ u32 (m_id m) ++ u32 total.

Definition rfc_first (ps : list payload) : N :=
  match ps with q :: _ => rfc_payload_type (pl_body q) | [] => 0 end.

(** a message whose payloads are all in the clear *)
Definition rfc_encode (m : message) : bytes :=
  let chain := rfc_chain (m_payloads m) in
  rfc_header m (rfc_first (m_payloads m)) (28 + len_of chain) ++ chain.

(* ------------------------------------------------------------------------------------------ *)
(** * Well-formed abstract content: every field fits the width the RFC gives it *)

Definition wf_transform (t : transform) : Prop :=
  t_type t < 256 /\ t_id t < 65536 /\ match t_keylen t with Some k => 0 < k < 65536 | None => True end.

Definition wf_proposal (p : proposal) : Prop :=
  p_num p < 256 /\ p_protocol p < 256 /\ len_of (p_spi p) < 256
  /\ p_transforms p <> [] /\ N.of_nat (length (p_transforms p)) < 256
  /\ Forall wf_transform (p_transforms p)
  /\ 4 + len_of (rfc_proposal_body p) < 65536.

(** the address width goes with the selector type: 7 = TS_IPV4_ADDR_RANGE (4 octets), otherwise 16 octets *)
Definition wf_selector (s : tsel) : Prop :=
  ts_type s < 256 /\ ts_proto s < 256 /\ ts_sport s < 65536 /\ ts_eport s < 65536
  /\ (if N.eqb (ts_type s) 7 then (length (ts_saddr s) = 4 /\ length (ts_eaddr s) = 4)%nat
      else (length (ts_saddr s) = 16 /\ length (ts_eaddr s) = 16)%nat).

Definition wf_body (b : pbody) : Prop :=
  match b with
  | B_SA ps => ps <> [] /\ Forall wf_proposal ps
  | B_KE g d => g < 65536
  | B_ID _ t d => t < 256
  | B_AUTH m d => m < 256
  | B_NONCE n => (16 <= length n <= 256)%nat
  | B_NOTIFY p t spi d => p < 256 /\ t < 65536 /\ len_of spi < 256
  | B_DELETE p spis =>
      p < 256 /\ N.of_nat (length spis) < 65536
      /\ match spis with
         | s :: _ => len_of s < 256 /\ Forall (fun x => length x = length s) spis
         | [] => True
         end
  | B_VENDOR v => v <> []
  | B_TS _ sels => N.of_nat (length sels) < 256 /\ Forall wf_selector sels
  | B_SK c n => n < 256
  end.

Definition is_sk (p : payload) : bool := match pl_body p with B_SK _ _ => true | _ => false end.

(** a payload chain: C = 0 everywhere (RFC 7296 3.2: senders clear it for every payload defined there), the body
    fits the 16-bit length, and an Encrypted payload can only be the last one (3.14) *)
Fixpoint wf_chain (ps : list payload) : Prop :=
  match ps with
  | [] => True
  | p :: rest =>
      pl_critical p = false /\ wf_body (pl_body p) /\ 4 + len_of (rfc_body (pl_body p)) < 65536
      /\ (is_sk p = true -> rest = []) /\ wf_chain rest
  end.

Definition wf_msg (m : message) : Prop :=
  length (m_spi_i m) = 8%nat /\ length (m_spi_r m) = 8%nat
  /\ m_major m < 16 /\ m_minor m < 16 /\ m_exchange m < 256 /\ m_id m < 4294967296
  /\ wf_chain (m_payloads m) /\ 28 + len_of (rfc_chain (m_payloads m)) < 4294967296
  /\ m_enc_payloads m = [] /\ m_iv m = None /\ m_authenticated m = false.

(* ------------------------------------------------------------------------------------------ *)
(** * IANA "Internet Key Exchange Version 2 (IKEv2) Parameters" (literal registry excerpts) *)
From Coq Require Import String.
Open Scope string_scope.

Definition iana_payload_types : list (N * string) :=
  [(0, "NONE"); (33, "SA"); (34, "KE"); (35, "IDi"); (36, "IDr"); (37, "CERT"); (38, "CERTREQ"); (39, "AUTH");
   (40, "NONCE"); (41, "NOTIFY"); (42, "DELETE"); (43, "VENDOR"); (44, "TSi"); (45, "TSr"); (46, "SK"); (47, "CP");
   (48, "EAP")].
Definition iana_exchange_types : list (N * string) :=
  [(34, "IKE_SA_INIT"); (35, "IKE_AUTH"); (36, "CREATE_CHILD_SA"); (37, "INFORMATIONAL")].
Definition iana_transform_types : list (N * string) :=
  [(1, "ENCR"); (2, "PRF"); (3, "INTEG"); (4, "DH"); (5, "ESN")].
Definition iana_protocol_ids : list (N * string) := [(0, "NONE"); (1, "IKE"); (2, "AH"); (3, "ESP")].
Definition iana_ts_types : list (N * string) := [(7, "TS_IPV4_ADDR_RANGE"); (8, "TS_IPV6_ADDR_RANGE")].
Definition iana_notify_types : list (N * string) :=
  [(1, "UNSUPPORTED_CRITICAL_PAYLOAD"); (4, "INVALID_IKE_SPI"); (5, "INVALID_MAJOR_VERSION"); (7, "INVALID_SYNTAX");
   (9, "INVALID_MESSAGE_ID"); (11, "INVALID_SPI"); (14, "NO_PROPOSAL_CHOSEN"); (17, "INVALID_KE_PAYLOAD");
   (24, "AUTHENTICATION_FAILED"); (34, "SINGLE_PAIR_REQUIRED"); (35, "NO_ADDITIONAL_SAS");
   (36, "INTERNAL_ADDRESS_FAILURE"); (37, "FAILED_CP_REQUIRED"); (38, "TS_UNACCEPTABLE"); (39, "INVALID_SELECTORS");
   (43, "TEMPORARY_FAILURE"); (44, "CHILD_SA_NOT_FOUND"); (16384, "INITIAL_CONTACT"); (16385, "SET_WINDOW_SIZE");
   (16386, "ADDITIONAL_TS_POSSIBLE"); (16387, "IPCOMP_SUPPORTED"); (16388, "NAT_DETECTION_SOURCE_IP");
   (16389, "NAT_DETECTION_DESTINATION_IP"); (16390, "COOKIE"); (16391, "USE_TRANSPORT_MODE");
   (16392, "HTTP_CERT_LOOKUP_SUPPORTED"); (16393, "REKEY_SA"); (16394, "ESP_TFC_PADDING_NOT_SUPPORTED");
   (16395, "NON_FIRST_FRAGMENTS_ALSO")].
Definition iana_id_types : list (N * string) :=
  [(1, "ID_IPV4_ADDR"); (2, "ID_FQDN"); (3, "ID_RFC822_ADDR"); (5, "ID_IPV6_ADDR"); (9, "ID_DER_ASN1_DN");
   (10, "ID_DER_ASN1_GN"); (11, "ID_KEY_ID")].
Definition iana_auth_methods : list (N * string) := [(1, "RSA"); (2, "PSK"); (3, "DSS")].
(** Transform Attribute Types: 14 = Key Length, sent in TV format (AF bit 0x8000) *)
Definition iana_attr_key_length : N := 14.
Definition rfc_af_bit : N := 32768.
(** last substructure markers: 0 = last, 2 = more proposals, 3 = more transforms *)
Definition rfc_more_proposal : N := 2.
Definition rfc_more_transform : N := 3.
(** header flag bits and version nibbles *)
Definition rfc_flag_response : N := 32.
Definition rfc_flag_version : N := 16.
Definition rfc_flag_initiator : N := 8.
