(** C07: round trip of protected messages, the exact acceptance condition of Message.parse, and
    "any change is a MAC forgery".  All primitives are Section variables with explicit hypotheses. *)
From Coq Require Import List NArith Arith Bool PeanoNat Lia ZifyBool ZifyNat ZifyN.
From VLib Require Import Bytes.
From Codec Require Import Gen.MessageTables Struct Codec Toy MonadLemmas Rfc7296Layout C05Proofs C07Proofs.
Import ListNotations.
Open Scope m_scope.

(* ------------------------------------------------------------------------------------------ *)
(** * Small helpers *)

Lemma bytes_eqb_eq a b : bytes_eqb a b = true <-> a = b.
Proof.
  revert b. induction a as [|x a IH]; intros [|y b]; cbn [bytes_eqb]; split; intros H; try reflexivity; try discriminate.
  - apply andb_true_iff in H as [Hx Hr]. apply N.eqb_eq in Hx. apply IH in Hr. subst. reflexivity.
  - inversion H; subst. rewrite N.eqb_refl. cbn [andb]. apply IH. reflexivity.
Qed.

Lemma fst_ret_inv {A} (a b : A) : fst (ret a) = Ok b -> a = b.
Proof. cbn [ret fst]. intros H; inversion H; reflexivity. Qed.

(** a successful struct.pack means every integer fitted (the 'Ns' fields have to be stated: pack pads them) *)
Fixpoint fits_fs (f : list fld) (vs : list val) : Prop :=
  match f, vs with
  | FU _ :: f', VN _ :: vs' => fits_fs f' vs'
  | FS w :: f', VB b :: vs' => length b = w /\ fits_fs f' vs'
  | _, _ => True
  end.

Lemma pack_ok_fits f vs b : fits_fs f vs -> fst (pack f vs) = Ok b -> fits f vs.
Proof.
  revert vs b. induction f as [|[w|w] f IH]; intros [|[n|x] vs] b; cbn [fits_fs pack fits]; intros Hfs H;
    try exact I; try (cbn in H; discriminate).
  - destruct (n <? 256 ^ N.of_nat w)%N eqn:E; [| cbn in H; discriminate].
    apply fst_bind_ok in H as (r & Hr & _). split; [apply N.ltb_lt; exact E | exact (IH _ _ Hfs Hr)].
  - destruct Hfs as [Hl Hfs]. apply fst_bind_ok in H as (r & Hr & _). split; [exact Hl | exact (IH _ _ Hfs Hr)].
Qed.

Lemma split_last_snoc {A} (l : list A) (x : A) : split_last (l ++ [x]) = Some (l, x).
Proof. unfold split_last. rewrite rev_app_distr. cbn [rev app]. rewrite rev_involutive. reflexivity. Qed.

Lemma split_last_inv {A} (l init : list A) (x : A) : split_last l = Some (init, x) -> l = init ++ [x].
Proof.
  unfold split_last. destruct (rev l) as [|y r] eqn:E; [discriminate|]. intros H; inversion H; subst.
  rewrite <- (rev_involutive l), E. reflexivity.
Qed.

Lemma neg_split (d : bytes) n : (0 < n)%nat -> slice_to_neg d n ++ slice_from_neg d n = d.
Proof. intros Hn. rewrite slice_to_neg_pos, slice_from_neg_pos by exact Hn. apply firstn_skipn. Qed.

(* ------------------------------------------------------------------------------------------ *)
(** * Well-formed protected messages *)

Definition wf_hdr (m : message) : Prop :=
  length (m_spi_i m) = 8%nat /\ length (m_spi_r m) = 8%nat
  /\ (m_major m < 16)%N /\ (m_minor m < 16)%N /\ (m_exchange m < 256)%N /\ (m_id m < 4294967296)%N.

Definition no_sk (ps : list payload) : Prop := Forall (fun p => is_sk p = false) ps.

(** the IV Message.to_bytes uses: the message's own, or the one generate_iv() drew in the constructor *)
Definition sent_iv (cr : crypto) (m : message) : bytes :=
  match m_iv m with Some iv => iv | None => c_new_iv cr end.

(** what the sender must hold: header fields fit, the cleartext payloads are a well-formed chain without an
    Encrypted payload (to_bytes appends its own), the payloads to encrypt are a well-formed chain whose encoding
    consists of octets (the cipher is only specified on octet strings), the IV is one cipher block *)
Definition wf_protected (cr : crypto) (m : message) : Prop :=
  wf_hdr m /\ wf_chain (m_payloads m) /\ no_sk (m_payloads m)
  /\ wf_chain (m_enc_payloads m) /\ wf_bytes (rfc_chain (m_enc_payloads m))
  /\ length (sent_iv cr m) = c_bs cr.

(** the cleartext view of a datagram: header fields of [m], payload list [ps], nothing else *)
Definition with_payloads (m : message) (ps : list payload) : message :=
  mkMessage (m_spi_i m) (m_spi_r m) (m_major m) (m_minor m) (m_exchange m) (m_is_response m) (m_higher m)
            (m_is_initiator m) (m_id m) ps [] None false.

(** what Message.parse returns for a protected datagram built from [m]: the same header fields, the same
    cleartext payloads (the Encrypted payload is popped), the same inner payloads; iv is the IV read from the
    wire and is_authenticated is True - whatever [m_iv] / [m_authenticated] were at the sender *)
Definition received (cr : crypto) (m : message) : message :=
  mkMessage (m_spi_i m) (m_spi_r m) (m_major m) (m_minor m) (m_exchange m) (m_is_response m) (m_higher m)
            (m_is_initiator m) (m_id m) (m_payloads m) (m_enc_payloads m) (Some (sent_iv cr m)) true.

Definition sk_payload (body : bytes) (next : N) : payload := mkPayload false (B_SK body next).

(* ------------------------------------------------------------------------------------------ *)
(** * Chains ending with the Encrypted payload *)

Lemma rfc_chain_snoc_sk ps0 (c c' : bytes) n : length c = length c' ->
  exists A, rfc_chain (ps0 ++ [sk_payload c n]) = A ++ c /\ rfc_chain (ps0 ++ [sk_payload c' n]) = A ++ c'.
Proof.
  intros Hl. induction ps0 as [|p rest IH].
  - exists (u8 n ++ u8 0 ++ u16 (4 + len_of c)). cbn [app rfc_chain sk_payload pl_body rfc_body].
    unfold len_of. rewrite <- Hl. rewrite !app_nil_r, <- !app_assoc. split; reflexivity.
  - destruct IH as (A & E1 & E2).
    assert (Hn : forall x, match rest ++ [sk_payload x n] with
                           | q :: _ => rfc_payload_type (pl_body q)
                           | [] => match pl_body p with B_SK _ k => k | _ => 0%N end
                           end = match rest with q :: _ => rfc_payload_type (pl_body q) | [] => 46%N end).
    { intros x. destruct rest; reflexivity. }
    exists (u8 (match rest with q :: _ => rfc_payload_type (pl_body q) | [] => 46%N end) ++ u8 0
            ++ u16 (4 + len_of (rfc_body (pl_body p))) ++ rfc_body (pl_body p) ++ A).
    rewrite <- !app_comm_cons. cbn [rfc_chain]. rewrite !Hn, E1, E2, <- !app_assoc. split; reflexivity.
Qed.

Lemma rfc_first_snoc_sk ps0 c c' n : rfc_first (ps0 ++ [sk_payload c n]) = rfc_first (ps0 ++ [sk_payload c' n]).
Proof. destruct ps0; reflexivity. Qed.

Lemma wf_chain_snoc_sk ps0 c n : wf_chain ps0 -> no_sk ps0 -> (n < 256)%N -> (4 + len_of c < 65536)%N ->
  wf_chain (ps0 ++ [sk_payload c n]).
Proof.
  intros Hwf Hno Hn Hc. induction ps0 as [|p rest IH].
  - cbn. repeat split; auto.
  - destruct Hwf as (H1 & H2 & H3 & H4 & H5). inversion Hno as [|? ? Hp Hr]; subst.
    rewrite <- app_comm_cons. cbn [wf_chain]. repeat split; auto.
    intros Hsk. rewrite Hp in Hsk. discriminate.
Qed.

(** a successful Message._payloads_to_bytes on [ps0 ++ [SK]] means the SK body fitted its 16-bit length *)
Lemma payloads_to_bytes_snoc_ok ps0 c n pd :
  fst (payloads_to_bytes (ps0 ++ [sk_payload c n])) = Ok pd -> (4 + len_of c < 65536)%N.
Proof.
  revert pd. induction ps0 as [|p rest IH]; intros pd H.
  - cbn [app payloads_to_bytes sk_payload pl_body body_to_bytes] in H. rewrite bind_ret_l in H.
    apply fst_bind_ok in H as (nx & _ & H). apply fst_bind_ok in H as (h & Hh & _).
    apply pack_ok_fits in Hh; [| exact I].
    cbn [fits fmt_Message_payloads_to_bytes_0] in Hh. rewrite pow2 in Hh. unfold payload_length_field, len_of in *. lia.
  - rewrite <- app_comm_cons in H. cbn [payloads_to_bytes] in H.
    apply fst_bind_ok in H as (bd & _ & H). apply fst_bind_ok in H as (nx & _ & H).
    apply fst_bind_ok in H as (h & _ & H). apply fst_bind_ok in H as (r & Hr & _). exact (IH _ Hr).
Qed.

(* ------------------------------------------------------------------------------------------ *)
Section SkDecrypt.
  Variable dec : bytes -> bytes -> bytes -> bytes.

  (** ** PayloadSK.decrypt undoes PayloadSK.generate (with the checksum in place of the zero octets) *)
  Lemma sk_decrypt_generated cr (iv ct tag clr : bytes) (p : N) :
    let pt := clr ++ repeat 0%N (N.to_nat p) ++ [p] in
    (0 < c_bs cr)%nat -> (0 < c_icv cr)%nat ->
    length iv = c_bs cr -> length tag = c_icv cr -> length ct = length pt ->
    (length pt mod c_bs cr = 0)%nat -> dec (c_sk_e cr) iv ct = pt ->
    fst (sk_decrypt dec cr (iv ++ ct ++ tag)) = Ok (iv, clr).
  Proof.
    intros pt Hbs Hicv Hiv Htag Hct Hmod Hdec. unfold sk_decrypt.
    assert (Hptl : length pt = (length clr + N.to_nat p + 1)%nat).
    { unfold pt. rewrite !app_length, repeat_length. cbn [length]. lia. }
    replace (firstn (c_bs cr) (iv ++ ct ++ tag)) with iv by (rewrite <- Hiv, firstn_app_exact; reflexivity).
    replace (skipn (c_bs cr) (iv ++ ct ++ tag)) with (ct ++ tag) by (rewrite <- Hiv, skipn_app_exact; reflexivity).
    replace (slice_to_neg (ct ++ tag) (c_icv cr)) with ct.
    2:{ rewrite slice_to_neg_pos by exact Hicv. rewrite app_length, Htag.
        replace (length ct + c_icv cr - c_icv cr)%nat with (length ct) by lia. rewrite firstn_app_exact. reflexivity. }
    replace (negb (length iv =? c_bs cr)%nat || (length ct =? 0)%nat) with false
      by (symmetry; apply orb_false_iff; split; [apply negb_false_iff, Nat.eqb_eq; exact Hiv | apply Nat.eqb_neq; lia]).
    replace (c_bs cr =? 0)%nat with false by (symmetry; apply Nat.eqb_neq; lia).
    rewrite Hct, Hmod. cbn [Nat.eqb negb]. rewrite Hdec.
    unfold pt at 1. rewrite app_assoc, rev_app_distr. cbn [rev app].
    replace (N.of_nat (length pt) <? p + 1)%N with false by (symmetry; apply N.ltb_ge; lia).
    cbn [ret fst]. f_equal. f_equal.
    replace (length pt - 1 - N.to_nat p)%nat with (length clr) by lia.
    unfold pt. apply firstn_app_exact.
  Qed.

End SkDecrypt.

Section Layout.
  Variable enc : bytes -> bytes -> bytes -> bytes.
  Variable mac : bytes -> bytes -> bytes.

  (** ** Message.to_bytes with crypto: the datagram is the RFC layout whose last payload is
      SK(iv ++ E(payloads ++ padding) ++ checksum) *)
  Lemma encode_protected_layout cr m d :
    (forall k x, length (mac k x) = c_icv cr) -> (0 < c_icv cr)%nat -> (0 < c_bs cr <= 256)%nat ->
    (forall k iv p, length (enc k iv p) = length p) ->
    wf_protected cr m ->
    encode enc mac (Some cr) m = Ok d ->
    exists (p : N) (tag : bytes),
      let clr := rfc_chain (m_enc_payloads m) in
      let pt := clr ++ repeat 0%N (N.to_nat p) ++ [p] in
      let iv := sent_iv cr m in
      let m1 := with_payloads m (m_payloads m ++
                   [sk_payload (iv ++ enc (c_sk_e cr) iv pt ++ tag) (rfc_first (m_enc_payloads m))]) in
      (p < N.of_nat (c_bs cr))%N /\ (length pt mod c_bs cr = 0)%nat /\ length tag = c_icv cr
      /\ wf_msg m1 /\ d = rfc_encode m1.
  Proof.
    intros Hmac Hicv Hbs Henc (Hhdr & Hch & Hno & Hech & Hbytes & Hivl) H.
    pose proof Hhdr as (Hi & Hr & Hma & Hmi & Hex & Hid).
    unfold encode, encode_m in H.
    apply fst_bind_ok in H as (ps & Hps & H).
    (* the Encrypted payload *)
    apply fst_bind_ok in Hps as (clr & Hclr & Hps). cbv zeta in Hps.
    apply fst_bind_ok in Hps as (body & Hbody & Hps). apply fst_ret_inv in Hps.
    rewrite (chain_layout _ Hech (body_ok_chain _ Hech)) in Hclr. apply fst_ret_inv in Hclr. subst clr.
    unfold sk_generate in Hbody. apply fst_bind_ok in Hbody as (pt & Hpt & Hbody). apply fst_ret_inv in Hbody.
    destruct (sk_plaintext_spec cr (rfc_chain (m_enc_payloads m)) Hbs) as (p & Hpt' & Hp & Hmod).
    rewrite Hpt' in Hpt. inversion Hpt as [Hpt'']. clear Hpt. subst pt.
    fold (sent_iv cr m) in Hbody. rewrite first_type_rfc in Hps.
    set (iv := sent_iv cr m) in *. set (clr := rfc_chain (m_enc_payloads m)) in *.
    set (ptx := clr ++ repeat 0%N (N.to_nat p) ++ [p]) in *.
    set (ct := enc (c_sk_e cr) iv ptx) in *. set (next := rfc_first (m_enc_payloads m)) in *.
    assert (Hnext : (next < 256)%N) by apply rfc_first_lt.
    change (mkPayload false (B_SK body next)) with (sk_payload body next) in Hps.
    (* the rest is to_bytes of the cleartext message [m0] whose last payload is that SK *)
    apply fst_bind_ok in H as (header & Hheader & H).
    apply fst_bind_ok in H as (pd & Hpd & H).
    apply fst_bind_ok in H as (data & Hdata & H).
    subst ps.
    pose proof (payloads_to_bytes_snoc_ok _ _ _ _ Hpd) as Hsklen.
    set (ps0 := m_payloads m ++ [sk_payload body next]) in *.
    assert (Hwfps : wf_chain ps0) by (apply wf_chain_snoc_sk; assumption).
    pose proof (body_ok_chain _ Hwfps) as Hokps.
    rewrite (chain_layout _ Hwfps Hokps) in Hpd. apply fst_ret_inv in Hpd. subst pd.
    rewrite first_type_rfc in Hheader.
    set (mh := with_payloads m []).
    assert (Hwfh : wf_msg mh) by (unfold wf_msg, mh, with_payloads; cbn; repeat split; auto; lia).
    change (pack fmt_Message_to_bytes_0 _) with (pack fmt_Message_to_bytes_0 (hdr_vals mh (rfc_first ps0) hdr_initial_length))
      in Hheader.
    assert (Hhf : fits fmt_Message_to_bytes_0 (hdr_vals mh (rfc_first ps0) hdr_initial_length))
      by (apply hdr_fits; [exact Hwfh | apply rfc_first_lt | unfold hdr_initial_length; lia]).
    pose proof Hheader as Hheader'. rewrite (pack_fits _ _ Hhf) in Hheader'. apply fst_ret_inv in Hheader'.
    assert (Hhl : length header = 28%nat) by (subst header; rewrite (pack_bytes_length _ _ Hhf); reflexivity).
    assert (Htot : (28 + len_of (rfc_chain ps0) < 4294967296)%N).
    { unfold pack_into in Hdata. apply fst_bind_ok in Hdata as (x & Hx & _).
      apply pack_ok_fits in Hx; [| exact I]. cbn [fits fmt_Message_to_bytes_1] in Hx. rewrite pow4 in Hx.
      rewrite app_length, Hhl in Hx. unfold len_of. lia. }
    set (m0 := with_payloads m ps0).
    assert (Hwf0 : wf_msg m0) by (unfold wf_msg, m0, with_payloads; cbn; repeat split; auto).
    assert (Hdata0 : data = rfc_encode m0).
    { pose proof (encode_clear_layout enc enc mac m0 Hwf0 Hokps) as E. apply (f_equal fst) in E.
      unfold encode_m in E. rewrite bind_ret_l in E.
      cbn [m0 with_payloads m_payloads m_spi_i m_spi_r m_major m_minor m_exchange m_is_response m_higher
           m_is_initiator m_id] in E.
      rewrite first_type_rfc in E.
      change (pack fmt_Message_to_bytes_0 _) with (pack fmt_Message_to_bytes_0 (hdr_vals mh (rfc_first ps0) hdr_initial_length)) in E.
      rewrite fst_bind, Hheader in E. rewrite (chain_layout _ Hwfps Hokps), bind_ret_l in E.
      rewrite fst_bind, Hdata in E. apply fst_ret_inv in E. exact E. }
    (* the checksum overwrites the trailing zero octets of the SK body *)
    set (tag := mac (c_sk_a cr) (slice_to_neg data (c_icv cr))) in *.
    assert (Htl : length tag = c_icv cr) by apply Hmac.
    destruct (length data <? length tag)%nat eqn:Elt; [discriminate|]. apply Nat.ltb_ge in Elt.
    assert (Hf2 : fits (fmt_Message_to_bytes_2 (length tag)) [VB tag]) by (cbn; auto).
    apply (pack_into_ok _ _ _ _ _ Hf2) in H as [_ Hd].
    cbn [fmt_Message_to_bytes_2 fmt_size pack_bytes] in Hd. rewrite app_nil_r in Hd.
    replace (length data - length tag + (length tag + 0))%nat with (length data) in Hd by lia.
    rewrite skipn_all, app_nil_r in Hd.
    exists p, tag. cbv zeta. fold iv clr ptx ct next.
    set (body1 := iv ++ ct ++ tag).
    set (ps1 := m_payloads m ++ [sk_payload body1 next]).
    assert (Hbl : length body = length body1).
    { subst body. unfold body1. rewrite !app_length, repeat_length, Htl. reflexivity. }
    assert (Hwfps1 : wf_chain ps1) by (apply wf_chain_snoc_sk; try assumption; unfold len_of in *; rewrite <- Hbl; exact Hsklen).
    destruct (rfc_chain_snoc_sk (m_payloads m) body body1 next Hbl) as (A & EA0 & EA1).
    fold ps0 in EA0. fold ps1 in EA1.
    assert (Hlen01 : len_of (rfc_chain ps1) = len_of (rfc_chain ps0))
      by (unfold len_of; rewrite EA0, EA1, !app_length, Hbl; reflexivity).
    assert (Hptl : length ptx = (length clr + N.to_nat p + 1)%nat).
    { unfold ptx. rewrite !app_length, repeat_length. cbn [length]. lia. }
    split; [exact Hp|]. split; [rewrite Hptl; exact Hmod|]. split; [exact Htl|]. split.
    - unfold wf_msg, with_payloads; cbn. fold ps1. rewrite Hlen01. repeat split; auto.
    - assert (Hfirst : rfc_first ps1 = rfc_first ps0) by (symmetry; apply rfc_first_snoc_sk).
      rewrite Hd, Hdata0. unfold rfc_encode. fold ps1. cbn [m0 with_payloads m_payloads].
      rewrite Hlen01, Hfirst.
      assert (Hh01 : forall f t, rfc_header (with_payloads m ps1) f t = rfc_header m0 f t) by reflexivity.
      rewrite ?Hh01.
      set (Hd' := rfc_header m0 (rfc_first ps0) (28 + len_of (rfc_chain ps0))).
      rewrite EA0, EA1. subst body. unfold body1.
      replace (Hd' ++ A ++ (iv ++ ct ++ repeat 0%N (c_icv cr))) with ((Hd' ++ A ++ iv ++ ct) ++ repeat 0%N (c_icv cr))
        by (rewrite <- !app_assoc; reflexivity).
      rewrite app_length, repeat_length, Htl.
      replace (length (Hd' ++ A ++ iv ++ ct) + c_icv cr - c_icv cr)%nat with (length (Hd' ++ A ++ iv ++ ct)) by lia.
      rewrite firstn_app_exact, <- !app_assoc. reflexivity.
  Qed.

End Layout.

Section DecodeProtected.
  Variable dec : bytes -> bytes -> bytes -> bytes.
  Variable mac : bytes -> bytes -> bytes.

  (** ** Message.parse with crypto on an RFC-layout datagram whose last cleartext payload is SK *)
  Lemma decode_protected_rfc cr m1 ps0 c n iv clr eps :
    wf_msg m1 -> m_payloads m1 = ps0 ++ [sk_payload c n] ->
    mac (c_sk_a cr) (slice_to_neg (rfc_encode m1) (c_icv cr)) = slice_from_neg (rfc_encode m1) (c_icv cr) ->
    fst (sk_decrypt dec cr c) = Ok (iv, clr) -> fst (parse_payloads clr n) = Ok eps ->
    decode dec mac (Some cr) false (rfc_encode m1) =
      Ok (mkMessage (m_spi_i m1) (m_spi_r m1) (m_major m1) (m_minor m1) (m_exchange m1) (m_is_response m1)
                    (m_higher m1) (m_is_initiator m1) (m_id m1) ps0 eps (Some iv) true).
  Proof.
    intros Hwf Hps Hmacok Hdecr Heps.
    pose proof Hwf as (Hi & Hr & Hma & Hmi & Hex & Hid & Hch & Htot & Henc & Hiv & Hau).
    pose proof (body_ok_chain _ Hch) as Hok.
    set (d := rfc_encode m1) in *.
    set (first := rfc_first (m_payloads m1)). set (chain := rfc_chain (m_payloads m1)) in *.
    assert (Hf : fits fmt_Message_to_bytes_0 (hdr_vals m1 first (28 + len_of chain)))
      by (apply hdr_fits; [exact Hwf | apply rfc_first_lt | exact Htot]).
    assert (Ed : d = [] ++ pack_bytes fmt_Message_to_bytes_0 (hdr_vals m1 first (28 + len_of chain)) ++ chain).
    { unfold d, rfc_encode. fold first chain. rewrite <- (hdr_rfc m1 first (28 + len_of chain) Hwf). reflexivity. }
    unfold decode, decode_m.
    change fmt_Message_parse_0 with fmt_Message_to_bytes_0.
    rewrite (bind_unpack_gen _ _ _ _ _ _ _ Hf eq_refl Ed).
    unfold hdr_vals at 1. cbv beta iota.
    replace (slice_from d hdr_size) with chain.
    2:{ rewrite Ed. cbn [app]. unfold slice_from, hdr_size. change 28%nat with (fmt_size fmt_Message_to_bytes_0).
        rewrite <- (pack_bytes_length _ _ Hf), skipn_app_exact. reflexivity. }
    rewrite fst_bind. unfold parse_payloads at 1.
    pose proof (payloads_loop_rfc (m_payloads m1) (length chain + 2) [] Hch Hok) as Hl.
    cbn [app length] in Hl. fold chain first in Hl.
    rewrite Hl by (pose proof (rfc_chain_length_ge (m_payloads m1)) as Hge; fold chain in Hge; lia).
    rewrite Hps, split_last_snoc.
    change (N.eqb (pl_type (sk_payload c n)) Payload_Type_SK) with true. cbv iota.
    rewrite Hmacok. rewrite (proj2 (bytes_eqb_eq _ _) eq_refl). cbn [negb pl_body sk_payload].
    rewrite fst_bind, Hdecr. cbn [fst snd]. rewrite fst_bind, Heps. cbn [ret fst].
    destruct (version_ok _ _ Hma Hmi) as (Hv & Hpma & Hpmi).
    destruct (flags_ok (m_is_response m1) (m_higher m1) (m_is_initiator m1)) as (_ & Hf1 & Hf2 & Hf3).
    rewrite Hv, Hpma, Hpmi, Hf1, Hf2, Hf3. reflexivity.
  Qed.

End DecodeProtected.

Section Protected.
  Variables enc dec : bytes -> bytes -> bytes -> bytes.
  Variable mac : bytes -> bytes -> bytes.

  (** ** C07_roundtrip *)
  Theorem roundtrip_protected cr m d :
    (0 < c_bs cr <= 256)%nat -> (0 < c_icv cr)%nat ->
    (forall k x, length (mac k x) = c_icv cr) ->
    (forall k iv p, length (enc k iv p) = length p) ->
    (forall k iv p, wf_bytes p -> (length p mod c_bs cr = 0)%nat -> dec k iv (enc k iv p) = p) ->
    wf_protected cr m ->
    encode enc mac (Some cr) m = Ok d ->
    decode dec mac (Some cr) false d = Ok (received cr m).
  Proof.
    intros Hbs Hicv Hmac Henc Hdec Hwf H.
    destruct (encode_protected_layout enc mac cr m d Hmac Hicv Hbs Henc Hwf H)
      as (p & tag & Hp & Hmod & Htl & Hwf1 & Hd).
    destruct (encode_icv enc mac cr m d Hmac Hicv H) as [Hicvok _].
    destruct Hwf as (Hhdr & Hch & Hno & Hech & Hbytes & Hivl).
    set (clr := rfc_chain (m_enc_payloads m)) in *. set (iv := sent_iv cr m) in *.
    set (pt := clr ++ repeat 0%N (N.to_nat p) ++ [p]) in *.
    set (ct := enc (c_sk_e cr) iv pt) in *.
    set (m1 := with_payloads m _) in *.
    assert (Hptb : wf_bytes pt).
    { unfold pt. apply Forall_app. split; [exact Hbytes|]. apply Forall_app. split.
      - apply Forall_forall. intros x Hx. apply repeat_spec in Hx. subst x. unfold is_byte. lia.
      - repeat constructor. unfold is_byte. lia. }
    rewrite Hd in *.
    rewrite (decode_protected_rfc dec mac cr m1 (m_payloads m) (iv ++ ct ++ tag) (rfc_first (m_enc_payloads m)) iv clr
               (m_enc_payloads m) Hwf1 eq_refl (eq_sym Hicvok)).
    - reflexivity.
    - apply (sk_decrypt_generated dec cr iv ct tag clr p); fold pt; try assumption; try lia.
      + unfold ct. apply Henc.
      + unfold ct. apply Hdec; assumption.
    - unfold parse_payloads.
      pose proof (payloads_loop_rfc (m_enc_payloads m) (length clr + 2) [] Hech (body_ok_chain _ Hech)) as Hl.
      cbn [app length] in Hl. apply Hl.
      pose proof (rfc_chain_length_ge (m_enc_payloads m)) as Hge. fold clr in Hge. lia.
  Qed.
End Protected.

(* ------------------------------------------------------------------------------------------ *)
(** * Message.to_bytes succeeds on every well-formed protected message that fits the length fields *)

Lemma rfc_chain_snoc_sk_length ps0 c n :
  length (rfc_chain (ps0 ++ [sk_payload c n])) = (length (rfc_chain ps0) + 4 + length c)%nat.
Proof.
  induction ps0 as [|p rest IH].
  - cbn [app]. rewrite rfc_chain_unfold. cbn [rfc_chain sk_payload pl_body rfc_body].
    rewrite !app_length. cbn [pack_bytes fmt_Message_payloads_to_bytes_0]. rewrite !app_length, !be_encode_length.
    cbn [length]. lia.
  - rewrite <- app_comm_cons. rewrite !rfc_chain_unfold, !app_length, IH.
    cbn [pack_bytes fmt_Message_payloads_to_bytes_0]. rewrite !app_length, !be_encode_length. cbn [length]. lia.
Qed.

Section EncodeOk.
  Variable enc : bytes -> bytes -> bytes -> bytes.
  Variable mac : bytes -> bytes -> bytes.

  (** sufficient size conditions (the padding adds at most one block): the SK payload fits its 16-bit length and the
      datagram its 32-bit length *)
  Lemma encode_protected_ok cr m :
    (0 < c_bs cr <= 256)%nat ->
    (forall k x, length (mac k x) = c_icv cr) ->
    (forall k iv p, length (enc k iv p) = length p) ->
    wf_protected cr m ->
    let sk_max := (c_bs cr + (length (rfc_chain (m_enc_payloads m)) + c_bs cr) + c_icv cr)%nat in
    (4 + N.of_nat sk_max < 65536)%N ->
    (28 + len_of (rfc_chain (m_payloads m)) + 4 + N.of_nat sk_max < 4294967296)%N ->
    exists d, encode enc mac (Some cr) m = Ok d.
  Proof.
    intros Hbs Hmac Henc (Hhdr & Hch & Hno & Hech & Hbytes & Hivl) sk_max Hsk Htotal.
    pose proof Hhdr as (Hi & Hr & Hma & Hmi & Hex & Hid).
    destruct (sk_plaintext_spec cr (rfc_chain (m_enc_payloads m)) Hbs) as (p & Hpt & Hp & Hmod).
    set (iv := sent_iv cr m) in *. set (clr := rfc_chain (m_enc_payloads m)) in *.
    set (pt := clr ++ repeat 0%N (N.to_nat p) ++ [p]) in *.
    set (body := iv ++ enc (c_sk_e cr) iv pt ++ repeat 0%N (c_icv cr)).
    set (next := rfc_first (m_enc_payloads m)).
    set (ps0 := m_payloads m ++ [sk_payload body next]).
    assert (Hptl : length pt = (length clr + N.to_nat p + 1)%nat).
    { unfold pt. rewrite !app_length, repeat_length. cbn [length]. lia. }
    assert (Hbl : (length body <= sk_max)%nat).
    { unfold body, sk_max. rewrite !app_length, Henc, repeat_length, Hptl, Hivl. fold clr. lia. }
    assert (Hwfps : wf_chain ps0).
    { apply wf_chain_snoc_sk; try assumption; [apply rfc_first_lt | unfold len_of; lia]. }
    pose proof (body_ok_chain _ Hwfps) as Hokps.
    assert (Hcl : length (rfc_chain ps0) = (length (rfc_chain (m_payloads m)) + 4 + length body)%nat)
      by apply rfc_chain_snoc_sk_length.
    unfold encode, encode_m.
    set (PS := bind (payloads_to_bytes (m_enc_payloads m)) _).
    assert (HPS : fst PS = Ok ps0).
    { unfold PS. rewrite (chain_layout _ Hech (body_ok_chain _ Hech)), bind_ret_l. cbv zeta.
      rewrite fst_bind. unfold sk_generate. rewrite fst_bind. fold clr. rewrite Hpt. cbn [ret fst].
      rewrite first_type_rfc. reflexivity. }
    rewrite fst_bind, HPS. rewrite first_type_rfc.
    set (mh := with_payloads m []).
    assert (Hwfh : wf_msg mh) by (unfold wf_msg, mh, with_payloads; cbn; repeat split; auto; lia).
    change (pack fmt_Message_to_bytes_0 _) with (pack fmt_Message_to_bytes_0 (hdr_vals mh (rfc_first ps0) hdr_initial_length)).
    assert (Hhf : fits fmt_Message_to_bytes_0 (hdr_vals mh (rfc_first ps0) hdr_initial_length))
      by (apply hdr_fits; [exact Hwfh | apply rfc_first_lt | unfold hdr_initial_length; lia]).
    rewrite (pack_fits _ _ Hhf), bind_ret_l. rewrite (chain_layout _ Hwfps Hokps), bind_ret_l.
    set (header := pack_bytes _ _).
    assert (Hhl : length header = 28%nat) by (unfold header; rewrite (pack_bytes_length _ _ Hhf); reflexivity).
    set (data := header ++ rfc_chain ps0).
    assert (Hdl : length data = (28 + length (rfc_chain ps0))%nat) by (unfold data; rewrite app_length, Hhl; reflexivity).
    unfold pack_into at 1.
    rewrite pack_fits by (unfold fmt_Message_to_bytes_1, len_of in *; fits_tac).
    rewrite bind_ret_l. cbn [pack_bytes fmt_Message_to_bytes_1]. rewrite app_nil_r, be_encode_length.
    replace (hdr_length_offset + 4 <=? length data)%nat with true
      by (symmetry; apply Nat.leb_le; unfold hdr_length_offset; lia).
    rewrite bind_ret_l.
    set (data' := firstn hdr_length_offset data ++ _ ++ _).
    assert (Hdl' : length data' = length data).
    { unfold data'. rewrite !app_length, firstn_length, skipn_length, be_encode_length. unfold hdr_length_offset. lia. }
    set (tag := mac (c_sk_a cr) (slice_to_neg data' (c_icv cr))).
    assert (Htl : length tag = c_icv cr) by apply Hmac.
    assert (Hbicv : (c_icv cr <= length body)%nat) by (unfold body; rewrite !app_length, repeat_length; lia).
    replace (length data' <? length tag)%nat with false by (symmetry; apply Nat.ltb_ge; lia).
    unfold pack_into. rewrite pack_fits by (cbn; auto). rewrite bind_ret_l.
    cbn [pack_bytes fmt_Message_to_bytes_2]. rewrite app_nil_r.
    replace (length data' - length tag + length tag <=? length data')%nat with true
      by (symmetry; apply Nat.leb_le; lia).
    eexists. reflexivity.
  Qed.
End EncodeOk.

(** the round trip in the form of C05: to_bytes succeeds and parse gives the message back *)
Theorem roundtrip_protected_exists enc dec mac cr m :
  (0 < c_bs cr <= 256)%nat -> (0 < c_icv cr)%nat ->
  (forall k x, length (mac k x) = c_icv cr) ->
  (forall k iv p, length (enc k iv p) = length p) ->
  (forall k iv p, wf_bytes p -> (length p mod c_bs cr = 0)%nat -> dec k iv (enc k iv p) = p) ->
  wf_protected cr m ->
  let sk_max := (c_bs cr + (length (rfc_chain (m_enc_payloads m)) + c_bs cr) + c_icv cr)%nat in
  (4 + N.of_nat sk_max < 65536)%N ->
  (28 + len_of (rfc_chain (m_payloads m)) + 4 + N.of_nat sk_max < 4294967296)%N ->
  exists d, encode enc mac (Some cr) m = Ok d /\ decode dec mac (Some cr) false d = Ok (received cr m).
Proof.
  intros Hbs Hicv Hmac Henc Hdec Hwf sk_max H1 H2.
  destruct (encode_protected_ok enc mac cr m Hbs Hmac Henc Hwf H1 H2) as (d & Hd).
  exists d. split; [exact Hd|]. exact (roundtrip_protected enc dec mac cr m d Hbs Hicv Hmac Henc Hdec Hwf Hd).
Qed.

(* ------------------------------------------------------------------------------------------ *)
(** * What Message.parse accepts: every byte string *)

(** the Next Payload octet of the IKE header (offset 16) *)
Definition hdr_first (d : bytes) : N := be_decode (firstn 1 (skipn 8 (skipn 8 d))).

(** the cleartext chain is empty or its last payload is not an Encrypted payload *)
Definition last_not_sk (ps : list payload) : Prop :=
  match split_last ps with
  | Some (_, l) => N.eqb (pl_type l) Payload_Type_SK = false
  | None => True
  end.

Section Accept.
  Variable dec : bytes -> bytes -> bytes -> bytes.
  Variable mac : bytes -> bytes -> bytes.

  (** Exhaustive description of a successful Message.parse(d, crypto=cr), for ANY d.  Either
      - the message is flagged authenticated: then the cleartext chain announced by the header ends with an
        Encrypted payload, the last hash_size octets of d are integrity.compute(sk_a, all octets before them),
        the SK body decrypts and its content parses as the inner payloads; or
      - the message is NOT flagged authenticated: the cleartext chain announced by the header is empty or does
        not end with an Encrypted payload; the message carries that chain, no inner payloads and the fresh IV
        of the constructor.  Nothing was verified (F17: callers must look at is_authenticated). *)
  Theorem decode_cases cr d m' :
    decode dec mac (Some cr) false d = Ok m' ->
    (hdr_size <= length d)%nat /\
    exists ps, fst (parse_payloads (slice_from d hdr_size) (hdr_first d)) = Ok ps /\
      ((m_authenticated m' = true
        /\ slice_from_neg d (c_icv cr) = mac (c_sk_a cr) (slice_to_neg d (c_icv cr))
        /\ exists crit c next iv clr,
             ps = m_payloads m' ++ [mkPayload crit (B_SK c next)]
             /\ fst (sk_decrypt dec cr c) = Ok (iv, clr) /\ m_iv m' = Some iv
             /\ fst (parse_payloads clr next) = Ok (m_enc_payloads m'))
       \/ (m_authenticated m' = false /\ last_not_sk ps
           /\ m_payloads m' = ps /\ m_enc_payloads m' = [] /\ m_iv m' = Some (c_new_iv cr))).
  Proof.
    unfold decode, decode_m. rewrite bind_unpack.
    destruct (0 + fmt_size fmt_Message_parse_0 <=? length d)%nat eqn:Elen; [| cbn; discriminate].
    apply Nat.leb_le in Elen.
    cbn [unpack_fields fmt_Message_parse_0 skipn]. fold (hdr_first d).
    intros H. split; [exact Elen|]. apply fst_bind_ok in H as (ps & Hps & H). exists ps. split; [exact Hps|].
    unfold last_not_sk.
    destruct (split_last ps) as [[init last]|] eqn:Esl.
    - destruct (N.eqb (pl_type last) Payload_Type_SK) eqn:Esk.
      + left.
        destruct (bytes_eqb _ _) eqn:Eeq; cbn [negb] in H; [| cbn in H; discriminate].
        apply bytes_eqb_eq in Eeq.
        destruct last as [crit [| | | | | | | | |c next]]; cbn [pl_body] in H; try (cbn in H; discriminate).
        apply fst_bind_ok in H as ([iv clr] & Hdecr & H). cbn [fst snd] in H.
        apply fst_bind_ok in H as (eps & Heps & H). apply fst_ret_inv in H. subst m'. cbn.
        split; [reflexivity|]. split; [symmetry; exact Eeq|].
        exists crit, c, next, iv, clr. split; [apply split_last_inv; exact Esl|]. auto.
      + right. apply fst_ret_inv in H. subst m'. cbn. auto.
    - right. apply fst_ret_inv in H. subst m'. cbn. auto.
  Qed.

  (** ** C07_accept_iff (the direction that matters, for all byte strings) *)
  Theorem accepted_has_valid_mac cr d m' :
    decode dec mac (Some cr) false d = Ok m' -> m_authenticated m' = true ->
    slice_from_neg d (c_icv cr) = mac (c_sk_a cr) (slice_to_neg d (c_icv cr)).
  Proof.
    intros H Ha. destruct (decode_cases cr d m' H) as (_ & ps & _ & [(_ & Hm & _) | (Hf & _)]); [exact Hm|].
    rewrite Hf in Ha. discriminate.
  Qed.

  (** ** C07_accept_iff: Message.parse(d, crypto=cr) returns a message flagged authenticated exactly when d holds a
      whole IKE header, the payload chain announced by the header ends with an Encrypted payload, the last hash_size
      octets of d are integrity.compute(sk_a, all octets before them), PayloadSK.decrypt succeeds on the SK body and
      the decrypted content parses as a payload chain. *)
  Theorem accept_iff cr d :
    (exists m', decode dec mac (Some cr) false d = Ok m' /\ m_authenticated m' = true)
    <-> ((hdr_size <= length d)%nat
         /\ slice_from_neg d (c_icv cr) = mac (c_sk_a cr) (slice_to_neg d (c_icv cr))
         /\ exists ps0 crit c next iv clr eps,
              fst (parse_payloads (slice_from d hdr_size) (hdr_first d)) = Ok (ps0 ++ [mkPayload crit (B_SK c next)])
              /\ fst (sk_decrypt dec cr c) = Ok (iv, clr)
              /\ fst (parse_payloads clr next) = Ok eps).
  Proof.
    split.
    - intros (m' & H & Ha). destruct (decode_cases cr d m' H) as (Hlen & ps & Hps & [(_ & Hm & Hx) | (Hf & _)]).
      + destruct Hx as (crit & c & next & iv & clr & Hpe & Hd & _ & He). subst ps.
        split; [exact Hlen|]. split; [exact Hm|]. exists (m_payloads m'), crit, c, next, iv, clr, (m_enc_payloads m'). auto.
      + rewrite Hf in Ha. discriminate.
    - intros (Hlen & Hm & ps0 & crit & c & next & iv & clr & eps & Hps & Hd & He).
      unfold decode, decode_m. rewrite bind_unpack.
      replace (0 + fmt_size fmt_Message_parse_0 <=? length d)%nat with true by (symmetry; apply Nat.leb_le; exact Hlen).
      cbn [unpack_fields fmt_Message_parse_0 skipn].
      unfold hdr_first in Hps. cbn [skipn] in Hps. rewrite fst_bind, Hps, split_last_snoc.
      change (N.eqb (pl_type (mkPayload crit (B_SK c next))) Payload_Type_SK) with true. cbv iota.
      rewrite <- Hm, (proj2 (bytes_eqb_eq _ _) eq_refl). cbn [negb pl_body].
      rewrite fst_bind, Hd. cbn [fst snd]. rewrite fst_bind, He. cbn [ret fst].
      eexists. split; reflexivity.
  Qed.

  (** the converse, as far as the checksum decides: with a chain ending in SK and a wrong checksum parse raises *)
  Theorem bad_mac_rejected cr d ps0 crit c next :
    fst (parse_payloads (slice_from d hdr_size) (hdr_first d)) = Ok (ps0 ++ [mkPayload crit (B_SK c next)]) ->
    slice_from_neg d (c_icv cr) <> mac (c_sk_a cr) (slice_to_neg d (c_icv cr)) ->
    (fmt_size fmt_Message_parse_0 <= length d)%nat ->
    decode dec mac (Some cr) false d = Raise InvalidSyntax.
  Proof.
    intros Hps Hne Hlen. unfold decode, decode_m. rewrite bind_unpack.
    replace (0 + fmt_size fmt_Message_parse_0 <=? length d)%nat with true by (symmetry; apply Nat.leb_le; lia).
    cbn [unpack_fields fmt_Message_parse_0 skipn]. fold (hdr_first d).
    unfold hdr_first in Hps. cbn [skipn] in Hps. rewrite fst_bind, Hps, split_last_snoc.
    change (N.eqb (pl_type (mkPayload crit (B_SK c next))) Payload_Type_SK) with true. cbv iota.
    destruct (bytes_eqb _ _) eqn:Eeq; [| reflexivity].
    apply bytes_eqb_eq in Eeq. congruence.
  Qed.
End Accept.

(* ------------------------------------------------------------------------------------------ *)
(** * Any change of a protected datagram that is still accepted is a MAC forgery *)

Section Forgery.
  Variables enc dec : bytes -> bytes -> bytes -> bytes.
  Variable mac : bytes -> bytes -> bytes.

  (** [d] was sent under [cr]; the receiver (context [cr'], same or different sk_a, same checksum length)
      accepts [d' <> d] as authenticated.  Then the last octets of d' are a valid checksum, under the receiver's
      key, of the octets before them, and this (message, checksum) pair is not the pair the sender produced:
      whoever made d' exhibited a new valid MAC pair. *)
  Theorem any_change_is_forgery cr cr' m d d' m' :
    (forall k x, length (mac k x) = c_icv cr) -> (0 < c_icv cr)%nat -> c_icv cr' = c_icv cr ->
    encode enc mac (Some cr) m = Ok d ->
    d' <> d ->
    decode dec mac (Some cr') false d' = Ok m' -> m_authenticated m' = true ->
    let n := c_icv cr in
    slice_from_neg d n = mac (c_sk_a cr) (slice_to_neg d n)
    /\ slice_from_neg d' n = mac (c_sk_a cr') (slice_to_neg d' n)
    /\ (slice_to_neg d' n, slice_from_neg d' n) <> (slice_to_neg d n, slice_from_neg d n).
  Proof.
    intros Hmac Hicv Hn Henc Hne Hdec Hauth n.
    destruct (encode_icv enc mac cr m d Hmac Hicv Henc) as [Hd _].
    pose proof (accepted_has_valid_mac dec mac cr' d' m' Hdec Hauth) as Hd'. rewrite Hn in Hd'.
    split; [exact Hd|]. split; [exact Hd'|].
    intros E. inversion E as [[E1 E2]]. apply Hne.
    rewrite <- (neg_split d' n Hicv), <- (neg_split d n Hicv), E1, E2. reflexivity.
  Qed.

  (** sub-case: the octets before the checksum are unchanged (only the checksum differs, or d' is d with octets
      appended/removed so that the MACed prefix is the same) and the receiver uses the sender's sk_a: never
      accepted as authenticated. *)
  Theorem same_prefix_other_tag_not_accepted cr cr' m d d' m' :
    (forall k x, length (mac k x) = c_icv cr) -> (0 < c_icv cr)%nat -> c_icv cr' = c_icv cr ->
    c_sk_a cr' = c_sk_a cr ->
    encode enc mac (Some cr) m = Ok d ->
    d' <> d -> slice_to_neg d' (c_icv cr) = slice_to_neg d (c_icv cr) ->
    decode dec mac (Some cr') false d' = Ok m' -> m_authenticated m' = false.
  Proof.
    intros Hmac Hicv Hn Hk Henc Hne Hpre Hdec.
    destruct (m_authenticated m') eqn:Ea; [| reflexivity]. exfalso.
    destruct (any_change_is_forgery cr cr' m d d' m' Hmac Hicv Hn Henc Hne Hdec Ea) as (H1 & H2 & H3).
    apply H3. rewrite Hpre. f_equal. rewrite H1, H2, Hpre, Hk. reflexivity.
  Qed.

  (** what can happen to a modified protected datagram at all: rejected with an exception, or accepted as
      authenticated (then a forgery, above), or RETURNED UNAUTHENTICATED - the last only when the cleartext chain
      announced by the (modified) header no longer ends with an Encrypted payload; such a message has no inner
      payloads.  This third case exists (F17), see [modified_returned_unauthenticated] below. *)
  Theorem modified_datagram_cases cr cr' m d d' m' :
    (forall k x, length (mac k x) = c_icv cr) -> (0 < c_icv cr)%nat -> c_icv cr' = c_icv cr ->
    encode enc mac (Some cr) m = Ok d -> d' <> d ->
    decode dec mac (Some cr') false d' = Ok m' ->
    (m_authenticated m' = true
     /\ slice_from_neg d' (c_icv cr) = mac (c_sk_a cr') (slice_to_neg d' (c_icv cr))
     /\ (slice_to_neg d' (c_icv cr), slice_from_neg d' (c_icv cr)) <> (slice_to_neg d (c_icv cr), slice_from_neg d (c_icv cr)))
    \/ (m_authenticated m' = false /\ m_enc_payloads m' = []
        /\ fst (parse_payloads (slice_from d' hdr_size) (hdr_first d')) = Ok (m_payloads m')
        /\ last_not_sk (m_payloads m')).
  Proof.
    intros Hmac Hicv Hn Henc Hne Hdec.
    destruct (m_authenticated m') eqn:Ea.
    - left. destruct (any_change_is_forgery cr cr' m d d' m' Hmac Hicv Hn Henc Hne Hdec Ea) as (_ & H2 & H3). auto.
    - right. destruct (decode_cases dec mac cr' d' m' Hdec) as (_ & ps & Hps & [(Ht & _) | (_ & Hl & Hp & He & _)]).
      + rewrite Ht in Ea. discriminate.
      + subst ps. auto.
  Qed.
End Forgery.

Lemma hdr_first_nth d : (16 < length d)%nat -> hdr_first d = nth 16 d 0%N.
Proof.
  intros H. unfold hdr_first. do 16 (destruct d as [|? d]; [cbn in H; lia|]). destruct d as [|x d]; [cbn in H; lia|].
  cbn [skipn firstn nth]. unfold be_decode. cbn [fold_left]. lia.
Qed.

(* ------------------------------------------------------------------------------------------ *)
(** * Non-vacuity: the toy primitives of the correspondence runs satisfy the hypotheses *)

Lemma toy_out_length acc j n : length (toy_out acc j n) = n.
Proof. revert j. induction n as [|n IH]; intros j; cbn [toy_out length]; [reflexivity | rewrite IH; reflexivity]. Qed.

Lemma toy_mac_length n k x : length (toy_mac n k x) = n.
Proof. unfold toy_mac. rewrite firstn_length, app_length, be_encode_length, toy_out_length. lia. Qed.

Lemma toy_byte_inv b s : (b < 256)%N -> (s < 256)%N -> (((b + s) mod 256 + 256 - s) mod 256 = b)%N.
Proof.
  intros Hb Hs. destruct (N.lt_ge_cases (b + s) 256) as [Hlt | Hge].
  - rewrite (N.mod_small (b + s)) by exact Hlt. replace (b + s + 256 - s)%N with (b + 1 * 256)%N by lia.
    rewrite N.mod_add by discriminate. apply N.mod_small. exact Hb.
  - assert (E : ((b + s) mod 256 = b + s - 256)%N).
    { symmetry. apply (N.mod_unique _ 256 1); lia. }
    rewrite E. replace (b + s - 256 + 256 - s)%N with b by lia. apply N.mod_small. exact Hb.
Qed.

Lemma toy_dec_enc_from k iv p : wf_bytes p -> forall i, toy_dec_from k iv i (toy_enc_from k iv i p) = p.
Proof.
  induction 1 as [|b p Hb Hp IH]; intros i; cbn [toy_enc_from toy_dec_from]; [reflexivity|].
  rewrite IH. f_equal. apply toy_byte_inv; [exact Hb |]. unfold toy_stream. apply N.mod_lt. discriminate.
Qed.

Lemma toy_dec_enc k iv p : wf_bytes p -> toy_dec k iv (toy_enc k iv p) = p.
Proof. intros H. apply toy_dec_enc_from. exact H. Qed.

(** an IKE_AUTH-like request: one cleartext NOTIFY, inner IDi, AUTH, SA (ESP proposal with SPI), NONCE, and the
    payload kinds the earlier restricted statement excluded: DELETE (two 4-octet SPIs), TSi (an IPv4 and an IPv6
    selector), TSr *)
Definition ex_cr : crypto :=
  mkCrypto 8 12 [1;2;3;4;5;6;7;8]%N [9;8;7;6;5]%N [10;20;30;40;50;60;70;80]%N.
Definition ex_cr' : crypto :=
  mkCrypto 8 12 [1;2;3;4;5;6;7;8]%N [42;42]%N [1;1;1;1;1;1;1;1]%N.
Definition ex_m : message :=
  mkMessage [1;2;3;4;5;6;7;8]%N [8;7;6;5;4;3;2;1]%N 2 0 35 false false true 1
    [mkPayload false (B_NOTIFY 0 16388 [] [1; 2; 3]%N)]
    [mkPayload false (B_ID true 2 [97;98;99]%N);
     mkPayload false (B_AUTH 2 [1;2;3;4;5;6;7;8;9;10;11;12]%N);
     mkPayload false (B_SA [mkProposal 1 3 [1;2;3;4]%N
                              [mkTransform 1 12 (Some 256%N); mkTransform 3 12 None; mkTransform 5 0 None]]);
     mkPayload false (B_NONCE (repeat 7%N 16));
     mkPayload false (B_DELETE 3 [[1; 2; 3; 4]; [5; 6; 7; 8]]%N);
     mkPayload false (B_TS true [mkTsel 7 6 0 65535 [10; 0; 0; 0]%N [10; 0; 0; 255]%N;
                                 mkTsel 8 0 0 65535 (repeat 0%N 16) (repeat 255%N 16)]);
     mkPayload false (B_TS false [mkTsel 7 17 500 500 [192; 168; 1; 1]%N [192; 168; 1; 1]%N])] None false.
(** an INFORMATIONAL request without inner payloads *)
Definition ex_m_empty : message :=
  mkMessage [1;2;3;4;5;6;7;8]%N [8;7;6;5;4;3;2;1]%N 2 0 37 false false true 2 [] [] None false.

Definition ex_encode (cr : crypto) (m : message) : bytes :=
  match encode toy_enc (toy_mac (c_icv cr)) (Some cr) m with Ok d => d | _ => [] end.
Definition set_octet (d : bytes) (i : nat) (v : N) : bytes := firstn i d ++ [v] ++ skipn (S i) d.

Lemma ex_wf : wf_protected ex_cr ex_m.
Proof.
  unfold wf_protected, wf_hdr, no_sk, ex_m, ex_cr, sent_iv. cbn -[N.lt N.le wf_bytes rfc_chain].
  repeat split; try reflexivity; try lia; try discriminate;
    try (apply wf_bytesb_spec; vm_compute; reflexivity);
    repeat constructor; cbn; try lia; try discriminate.
Qed.

(** the inner chain of the example does contain the payload kinds [simple_chain] (C05's earlier restriction) excludes *)
Lemma ex_m_not_simple : ~ simple_chain (m_enc_payloads ex_m).
Proof.
  unfold simple_chain, ex_m. cbn [m_enc_payloads]. intros H.
  repeat match goal with H : Forall _ (_ :: _) |- _ => inversion H; clear H; subst end.
  cbn in *. assumption.
Qed.

(** every hypothesis of [roundtrip_protected] holds for the toy instance, encode succeeds, and the conclusion
    evaluates to true *)
Example roundtrip_protected_nonvacuous :
  let cr := ex_cr in let mac := toy_mac (c_icv cr) in
  ((0 < c_bs cr <= 256)%nat /\ (0 < c_icv cr)%nat
   /\ (forall k x, length (mac k x) = c_icv cr)
   /\ (forall k iv p, length (toy_enc k iv p) = length p)
   /\ (forall k iv p, wf_bytes p -> (length p mod c_bs cr = 0)%nat -> toy_dec k iv (toy_enc k iv p) = p)
   /\ wf_protected cr ex_m)
  /\ ~ simple_chain (m_enc_payloads ex_m)
  /\ encode toy_enc mac (Some cr) ex_m = Ok (ex_encode cr ex_m)
  /\ (length (ex_encode cr ex_m) = 263)%nat
  /\ decode toy_dec mac (Some cr) false (ex_encode cr ex_m) = Ok (received cr ex_m).
Proof.
  cbv zeta. split; [| split; [| split; [| split]]].
  - split; [cbn; lia|]. split; [cbn; lia|]. split; [intros; apply toy_mac_length|].
    split; [intros; apply toy_enc_length|]. split; [intros; apply toy_dec_enc; assumption|]. exact ex_wf.
  - exact ex_m_not_simple.
  - vm_compute. reflexivity.
  - vm_compute. reflexivity.
  - vm_compute. reflexivity.
Qed.

(** the same, obtained from the theorem *)
Example roundtrip_protected_instance :
  decode toy_dec (toy_mac 12) (Some ex_cr) false (ex_encode ex_cr ex_m) = Ok (received ex_cr ex_m).
Proof.
  destruct roundtrip_protected_nonvacuous as ((H1 & H2 & H3 & H4 & H5 & H6) & _ & He & _).
  exact (roundtrip_protected toy_enc toy_dec (toy_mac 12) ex_cr ex_m _ H1 H2 H3 H4 H5 H6 He).
Qed.

(** [accepted_has_valid_mac]: an accepted datagram exists; its checksum equation evaluates to true *)
Example accepted_nonvacuous :
  let d := ex_encode ex_cr ex_m in
  exists m', decode toy_dec (toy_mac 12) (Some ex_cr) false d = Ok m' /\ m_authenticated m' = true
             /\ slice_from_neg d 12 = toy_mac 12 (c_sk_a ex_cr) (slice_to_neg d 12).
Proof. eexists. vm_compute. repeat split; reflexivity. Qed.

(** [any_change_is_forgery]: the hypotheses are jointly satisfiable - d' is another datagram that the holder of
    the key made (a different message under the same key, or the same message under the receiver's other key) *)
Example any_change_nonvacuous_same_key :
  let d := ex_encode ex_cr ex_m in let d' := ex_encode ex_cr ex_m_empty in
  encode toy_enc (toy_mac 12) (Some ex_cr) ex_m = Ok d /\ d' <> d
  /\ exists m', decode toy_dec (toy_mac 12) (Some ex_cr) false d' = Ok m' /\ m_authenticated m' = true.
Proof. cbv zeta. split; [vm_compute; reflexivity|]. split; [vm_compute; discriminate|]. eexists. vm_compute. split; reflexivity. Qed.

Example any_change_nonvacuous_other_key :
  let d := ex_encode ex_cr ex_m in let d' := ex_encode ex_cr' ex_m in
  encode toy_enc (toy_mac 12) (Some ex_cr) ex_m = Ok d /\ d' <> d /\ c_icv ex_cr' = c_icv ex_cr
  /\ exists m', decode toy_dec (toy_mac 12) (Some ex_cr') false d' = Ok m' /\ m_authenticated m' = true.
Proof.
  cbv zeta. split; [vm_compute; reflexivity|]. split; [vm_compute; discriminate|]. split; [reflexivity|].
  eexists. vm_compute. split; reflexivity.
Qed.

(** every single-octet change (+1 mod 256) of the example datagram, every truncation and a one-octet extension:
    none is accepted as authenticated; only changes of the header's Next Payload octet can be returned at all *)
Definition ex_outcome (d' : bytes) : N :=
  match decode toy_dec (toy_mac 12) (Some ex_cr) false d' with
  | Ok m' => if m_authenticated m' then 2%N else 1%N
  | _ => 0%N
  end.
Example ex_all_single_changes_rejected :
  let d := ex_encode ex_cr ex_m in
  forallb (fun i => N.eqb (ex_outcome (set_octet d i ((nth i d 0 + 1) mod 256)%N)) 0) (seq 0 (length d)) = true
  /\ forallb (fun i => N.eqb (ex_outcome (firstn i d)) 0) (seq 0 (length d)) = true
  /\ ex_outcome (d ++ [0%N]) = 0%N /\ ex_outcome d = 2%N.
Proof. vm_compute. repeat split; reflexivity. Qed.

(** F17, the third case of [modified_datagram_cases] is inhabited: a protected datagram WITHOUT inner payloads
    whose header Next Payload octet is changed from 46 (SK) to 43 (VENDOR) or to an unassigned non-critical type
    is RETURNED by parse - not rejected - with is_authenticated = False (the SK body is taken for a Vendor ID, or
    skipped).  So "every modification raises" is false of the codec; what holds is "no modification is accepted as
    authenticated without a forgery". *)
Theorem modified_returned_unauthenticated_refuted :
  exists cr m d d' m',
    encode toy_enc (toy_mac (c_icv cr)) (Some cr) m = Ok d /\ d' <> d /\ length d' = length d
    /\ decode toy_dec (toy_mac (c_icv cr)) (Some cr) false d' = Ok m'
    /\ m_authenticated m' = false /\ m_enc_payloads m' = [] /\ m_payloads m' <> [].
Proof.
  exists ex_cr, ex_m_empty, (ex_encode ex_cr ex_m_empty), (set_octet (ex_encode ex_cr ex_m_empty) 16 43%N).
  eexists. vm_compute. repeat split; try reflexivity; discriminate.
Qed.

Example modified_returned_unauthenticated_unknown_type :
  let d := ex_encode ex_cr ex_m_empty in
  exists m', decode toy_dec (toy_mac 12) (Some ex_cr) false (set_octet d 16 99%N) = Ok m'
             /\ m_authenticated m' = false /\ m_payloads m' = [] /\ m_enc_payloads m' = [].
Proof. eexists. vm_compute. repeat split; reflexivity. Qed.

(** with inner payloads the same change is rejected (the chain then runs past the end of the datagram) *)
Example modified_header_with_inner_payloads_rejected :
  let d := ex_encode ex_cr ex_m in
  forallb (fun v => N.eqb (ex_outcome (set_octet d 16 (N.of_nat v))) (if Nat.eqb v 41 then 2 else 0)) (seq 0 256) = true.
Proof. vm_compute. reflexivity. Qed.
