(** C05: the codec round-trips and produces the RFC 7296 layout. *)
From Coq Require Import List NArith Arith Bool PeanoNat Lia ZifyBool ZifyNat ZifyN.
From VLib Require Import Bytes.
From Codec Require Import Gen.MessageTables Struct Codec MonadLemmas Rfc7296Layout.
Import ListNotations.
Open Scope m_scope.

(* ------------------------------------------------------------------------------------------ *)
(** * struct.pack as a pure function when the values fit *)

Fixpoint fits (f : list fld) (vs : list val) : Prop :=
  match f, vs with
  | [], [] => True
  | FU w :: f', VN n :: vs' => (n < 256 ^ N.of_nat w)%N /\ fits f' vs'
  | FS w :: f', VB b :: vs' => length b = w /\ fits f' vs'
  | _, _ => False
  end.

Fixpoint pack_bytes (f : list fld) (vs : list val) : bytes :=
  match f, vs with
  | FU w :: f', VN n :: vs' => be_encode w n ++ pack_bytes f' vs'
  | FS w :: f', VB b :: vs' => b ++ pack_bytes f' vs'
  | _, _ => []
  end.

Lemma pad_to_exact w b : length b = w -> pad_to w b = b.
Proof.
  intros H. unfold pad_to. subst w. rewrite firstn_all, Nat.sub_diag. cbn. apply app_nil_r.
Qed.

Lemma pack_fits f vs : fits f vs -> pack f vs = ret (pack_bytes f vs).
Proof.
  revert vs. induction f as [|[w|w] f IH]; intros [|[n|b] vs]; cbn [fits pack pack_bytes]; try tauto.
  - intros [Hn Hf]. apply N.ltb_lt in Hn. rewrite Hn, (IH _ Hf), bind_ret_l. reflexivity.
  - intros [Hn Hf]. rewrite (IH _ Hf), bind_ret_l, pad_to_exact by assumption. reflexivity.
Qed.

Lemma pack_bytes_length f vs : fits f vs -> length (pack_bytes f vs) = fmt_size f.
Proof.
  revert vs. induction f as [|[w|w] f IH]; intros [|[n|b] vs]; cbn [fits pack_bytes fmt_size]; try tauto.
  - intros [_ Hf]. rewrite app_length, be_encode_length, (IH _ Hf). reflexivity.
  - intros [Hb Hf]. rewrite app_length, (IH _ Hf), Hb. reflexivity.
Qed.

Lemma unpack_pack f vs rest : fits f vs -> unpack_fields f (pack_bytes f vs ++ rest) = vs.
Proof.
  revert vs. induction f as [|[w|w] f IH]; intros [|[n|b] vs]; cbn [fits pack_bytes unpack_fields]; try tauto.
  - intros [Hn Hf]. rewrite <- app_assoc.
    rewrite <- (be_encode_length w n) at 1 3. rewrite firstn_app_exact, skipn_app_exact.
    rewrite be_decode_encode by exact Hn. rewrite (IH _ Hf). reflexivity.
  - intros [Hb Hf]. rewrite <- app_assoc. subst w. rewrite firstn_app_exact, skipn_app_exact, (IH _ Hf). reflexivity.
Qed.

(** reading back at an offset what pack wrote there *)
Lemma bind_unpack_at {B} f vs (pre rest : bytes) (k : list val -> M B) :
  fits f vs ->
  bind (except_raise (unpack_from f (pre ++ pack_bytes f vs ++ rest) (length pre)) StructError InvalidSyntax) k = k vs.
Proof.
  intros Hf. rewrite bind_unpack.
  replace (length pre + fmt_size f <=? length (pre ++ pack_bytes f vs ++ rest))%nat with true.
  - rewrite skipn_app_exact, unpack_pack by exact Hf. reflexivity.
  - symmetry. apply Nat.leb_le. rewrite !app_length, (pack_bytes_length _ _ Hf). lia.
Qed.

Lemma bind_unpack_at0 {B} f vs (rest : bytes) (k : list val -> M B) :
  fits f vs ->
  bind (except_raise (unpack_from f (pack_bytes f vs ++ rest) 0) StructError InvalidSyntax) k = k vs.
Proof. intros Hf. apply (bind_unpack_at f vs [] rest k Hf). Qed.

Lemma pow1 : (256 ^ N.of_nat 1 = 256)%N. Proof. reflexivity. Qed.
Lemma pow2 : (256 ^ N.of_nat 2 = 65536)%N. Proof. reflexivity. Qed.
Lemma pow4 : (256 ^ N.of_nat 4 = 4294967296)%N. Proof. reflexivity. Qed.

Ltac fits_tac := cbn [fits]; rewrite ?pow1, ?pow2, ?pow4; repeat split; try lia; try reflexivity; try assumption.

(* ------------------------------------------------------------------------------------------ *)
(** * Transform *)

Definition enc_transform (t : transform) : bytes :=
  pack_bytes fmt_Transform_to_bytes_0 [VN (t_type t); VN 0; VN (t_id t)]
  ++ match t_keylen t with
     | Some k => pack_bytes fmt_Transform_to_bytes_1 [VN transform_keylen_attr; VN k]
     | None => []
     end.

Lemma transform_to_bytes_ok t : wf_transform t -> transform_to_bytes t = ret (enc_transform t).
Proof.
  intros (Ht & Hi & Hk). unfold transform_to_bytes, enc_transform.
  rewrite pack_fits by (unfold fmt_Transform_to_bytes_0; fits_tac). rewrite bind_ret_l.
  destruct (t_keylen t) as [k|]; cbn [truthy].
  - replace (negb (k =? 0)%N) with true by (symmetry; apply negb_true_iff, N.eqb_neq; lia).
    rewrite pack_fits by (unfold fmt_Transform_to_bytes_1, transform_keylen_attr; cbn [N.lor]; fits_tac).
    rewrite bind_ret_l. reflexivity.
  - rewrite app_nil_r. reflexivity.
Qed.

Lemma enc_transform_length t : (length (enc_transform t) = match t_keylen t with Some _ => 8 | None => 4 end)%nat.
Proof. unfold enc_transform. destruct (t_keylen t); reflexivity. Qed.

Lemma bind_unpack_gen {B} f vs (pre rest data : bytes) o (k : list val -> M B) :
  fits f vs -> o = length pre -> data = pre ++ pack_bytes f vs ++ rest ->
  bind (except_raise (unpack_from f data o) StructError InvalidSyntax) k = k vs.
Proof. intros Hf -> ->. apply bind_unpack_at; exact Hf. Qed.

Lemma keylen_attr_is_keylen : transform_attr_is_keylen transform_keylen_attr = true.
Proof. reflexivity. Qed.

Lemma parse_transform_enc t : wf_transform t -> fst (parse_transform (enc_transform t)) = Ok t.
Proof.
  intros (Ht & Hi & Hk). unfold parse_transform, enc_transform.
  set (h := pack_bytes fmt_Transform_to_bytes_0 _).
  assert (Hh : fits fmt_Transform_to_bytes_0 [VN (t_type t); VN 0%N; VN (t_id t)])
    by (unfold fmt_Transform_to_bytes_0; fits_tac).
  assert (Hhl : length h = 4%nat) by (unfold h; rewrite pack_bytes_length by exact Hh; reflexivity).
  change fmt_Transform_parse_0 with fmt_Transform_to_bytes_0.
  unfold h at 1. rewrite bind_unpack_at0 by exact Hh. fold h.
  destruct t as [ty id [k|]]; cbn [t_type t_id t_keylen] in *.
  - set (a := pack_bytes fmt_Transform_to_bytes_1 _).
    assert (Ha : fits fmt_Transform_to_bytes_1 [VN transform_keylen_attr; VN k])
      by (unfold fmt_Transform_to_bytes_1, transform_keylen_attr; cbn [N.lor]; fits_tac).
    assert (Hal : length a = 4%nat) by (unfold a; rewrite pack_bytes_length by exact Ha; reflexivity).
    cbn [attr_loop]. replace (4 <? length (h ++ a))%nat with true by (rewrite app_length; symmetry; apply Nat.ltb_lt; lia).
    rewrite fst_bind. cbn [tick fst].
    change fmt_Transform_parse_1 with fmt_Transform_to_bytes_1.
    rewrite (bind_unpack_gen fmt_Transform_to_bytes_1 [VN transform_keylen_attr; VN k] h [] (h ++ a) 4);
      [| exact Ha | lia | rewrite app_nil_r; reflexivity].
    rewrite keylen_attr_is_keylen. reflexivity.
  - rewrite app_nil_r. cbn [attr_loop]. rewrite Hhl. reflexivity.
Qed.

Fixpoint enc_transforms (ts : list transform) (index count : nat) : bytes :=
  match ts with
  | [] => []
  | t :: rest =>
      pack_bytes fmt_Proposal_to_bytes_1
        [VN (transform_more (N.of_nat index) (N.of_nat count)); VN transform_reserved;
         VN (transform_length_field (N.of_nat (length (enc_transform t))))]
      ++ enc_transform t ++ enc_transforms rest (S index) count
  end.

Lemma transform_hdr_fits t index count :
  fits fmt_Proposal_to_bytes_1
    [VN (transform_more (N.of_nat index) (N.of_nat count)); VN transform_reserved;
     VN (transform_length_field (N.of_nat (length (enc_transform t))))].
Proof.
  unfold fmt_Proposal_to_bytes_1, transform_more, transform_reserved, transform_length_field.
  rewrite enc_transform_length. fits_tac; destruct (t_keylen t); split_ifs; lia.
Qed.

Lemma transforms_to_bytes_ok ts index count :
  Forall wf_transform ts -> transforms_to_bytes ts index count = ret (enc_transforms ts index count).
Proof.
  revert index. induction ts as [|t rest IH]; intros index Hwf; [reflexivity|].
  inversion Hwf as [|? ? Ht Hrest]; subst. cbn [transforms_to_bytes enc_transforms].
  rewrite (transform_to_bytes_ok t Ht), bind_ret_l.
  rewrite pack_fits by apply transform_hdr_fits. rewrite bind_ret_l.
  rewrite (IH (S index) Hrest), bind_ret_l. reflexivity.
Qed.

Lemma sub_slice (pre h body rest : bytes) (len : N) :
  length h = 4%nat -> len = (N.of_nat (length body) + 4)%N ->
  slice (pre ++ h ++ body ++ rest) (length pre + 4) (length pre + N.to_nat len) = body.
Proof.
  intros Hh ->. rewrite <- Hh.
  replace (N.to_nat (N.of_nat (length body) + 4)) with (length body + length h)%nat by lia.
  apply slice_mid.
Qed.

Lemma transforms_loop_enc ts : forall fuel pre index count,
  Forall wf_transform ts -> (length ts < fuel)%nat ->
  fst (transforms_loop fuel (pre ++ enc_transforms ts index count) (length pre)) = Ok ts.
Proof.
  induction ts as [|t rest IH]; intros fuel pre index count Hwf Hfuel.
  - destruct fuel; [lia|]. cbn [transforms_loop enc_transforms]. rewrite app_nil_r, Nat.ltb_irrefl. reflexivity.
  - inversion Hwf as [|? ? Ht Hrest]; subst. destruct fuel as [|f]; [lia|].
    cbn [transforms_loop enc_transforms].
    set (h := pack_bytes fmt_Proposal_to_bytes_1 _).
    pose proof (transform_hdr_fits t index count) as Hh. fold h in Hh.
    assert (Hhl : length h = 4%nat) by (unfold h; rewrite pack_bytes_length by exact Hh; reflexivity).
    set (td := enc_transform t). set (tail := enc_transforms rest (S index) count).
    replace (length pre <? length (pre ++ h ++ td ++ tail))%nat with true
      by (symmetry; apply Nat.ltb_lt; rewrite !app_length; lia).
    rewrite fst_bind. cbn [tick fst].
    change fmt_Proposal_parse_1 with fmt_Proposal_to_bytes_1.
    unfold h at 1. rewrite bind_unpack_at by exact Hh. fold h.
    unfold transform_length_field. fold td.
    rewrite (sub_slice pre h td tail) by (try exact Hhl; lia).
    rewrite fst_bind. unfold td at 1. rewrite (parse_transform_enc t Ht).
    rewrite fst_bind.
    replace (length pre + N.to_nat (N.of_nat (length td) + 4))%nat with (length (pre ++ h ++ td))
      by (rewrite !app_length; lia).
    replace (pre ++ h ++ td ++ tail) with ((pre ++ h ++ td) ++ tail) by (rewrite <- !app_assoc; reflexivity).
    unfold tail. rewrite (IH f (pre ++ h ++ td) (S index) count Hrest) by (cbn in Hfuel; lia).
    reflexivity.
Qed.

(* ------------------------------------------------------------------------------------------ *)
(** * Layout: the pure encoders are the RFC figures *)

Lemma be1 n : be_encode 1 n = u8 n. Proof. reflexivity. Qed.
Lemma be2 n : be_encode 2 n = u16 n. Proof. reflexivity. Qed.
Lemma be4 n : be_encode 4 n = u32 n.
Proof.
  cbn [be_encode app]. unfold u32.
  rewrite !N.div_div by discriminate. reflexivity.
Qed.

Lemma enc_transform_rfc t : enc_transform t = rfc_transform_body t.
Proof.
  unfold enc_transform, rfc_transform_body, rfc_attributes.
  cbn [pack_bytes fmt_Transform_to_bytes_0 fmt_Transform_to_bytes_1]. rewrite !be1, !be2.
  destruct (t_keylen t); cbn [app]; rewrite ?app_nil_r, <- ?app_assoc; reflexivity.
Qed.

Lemma enc_transforms_rfc ts index count :
  count = (index + length ts)%nat -> enc_transforms ts index count = rfc_transforms ts.
Proof.
  revert index. induction ts as [|t rest IH]; intros index Hc; [reflexivity|].
  cbn [enc_transforms rfc_transforms]. rewrite (IH (S index)) by (cbn in Hc; lia).
  rewrite enc_transform_rfc.
  cbn [pack_bytes fmt_Proposal_to_bytes_1]. rewrite !be1, !be2.
  unfold transform_more, transform_reserved, transform_length_field, len_of.
  replace (N.of_nat index =? N.of_nat count - 1)%N with (match rest with [] => true | _ => false end).
  - rewrite (N.add_comm _ 4). destruct rest; rewrite <- ?app_assoc; reflexivity.
  - destruct rest; cbn in Hc; symmetry; [apply N.eqb_eq | apply N.eqb_neq]; lia.
Qed.

(* ------------------------------------------------------------------------------------------ *)
(** * Proposal and SA *)

Definition enc_proposal (p : proposal) : bytes :=
  pack_bytes fmt_Proposal_to_bytes_0
    [VN (p_num p); VN (p_protocol p); VN (N.of_nat (length (p_spi p))); VN (N.of_nat (length (p_transforms p)))]
  ++ p_spi p ++ enc_transforms (p_transforms p) 0 (length (p_transforms p)).

Lemma enc_proposal_rfc p : enc_proposal p = rfc_proposal_body p.
Proof.
  unfold enc_proposal, rfc_proposal_body. rewrite enc_transforms_rfc by reflexivity.
  cbn [pack_bytes fmt_Proposal_to_bytes_0]. rewrite !be1. unfold len_of. rewrite <- !app_assoc. reflexivity.
Qed.

Lemma proposal_hdr_fits p : wf_proposal p ->
  fits fmt_Proposal_to_bytes_0
    [VN (p_num p); VN (p_protocol p); VN (N.of_nat (length (p_spi p))); VN (N.of_nat (length (p_transforms p)))].
Proof. intros (? & ? & ? & ? & ? & ? & ?). unfold fmt_Proposal_to_bytes_0, len_of in *. fits_tac. Qed.

Lemma proposal_to_bytes_ok p : wf_proposal p -> proposal_to_bytes p = ret (enc_proposal p).
Proof.
  intros Hwf. pose proof (proposal_hdr_fits p Hwf) as Hh. destruct Hwf as (_ & _ & _ & _ & _ & Hts & _).
  unfold proposal_to_bytes, enc_proposal. rewrite pack_fits by exact Hh. rewrite bind_ret_l.
  rewrite transforms_to_bytes_ok by exact Hts. rewrite bind_ret_l. reflexivity.
Qed.

Lemma enc_transforms_length_ge ts index count : (length ts <= length (enc_transforms ts index count))%nat.
Proof.
  revert index. induction ts as [|t rest IH]; intros index; cbn [enc_transforms length]; [lia|].
  rewrite !app_length. specialize (IH (S index)). rewrite enc_transform_length. destruct (t_keylen t); lia.
Qed.

Lemma parse_proposal_enc p : wf_proposal p -> fst (parse_proposal (enc_proposal p)) = Ok p.
Proof.
  intros Hwf. pose proof (proposal_hdr_fits p Hwf) as Hh.
  destruct Hwf as (Hnum & Hproto & Hspi & Hne & Hcnt & Hts & Hlen).
  unfold parse_proposal, enc_proposal.
  set (h := pack_bytes fmt_Proposal_to_bytes_0 _) in *.
  assert (Hhl : length h = 4%nat) by (unfold h; rewrite pack_bytes_length by exact Hh; reflexivity).
  change fmt_Proposal_parse_0 with fmt_Proposal_to_bytes_0.
  unfold h at 1. rewrite bind_unpack_at0 by exact Hh. fold h.
  set (tail := enc_transforms _ _ _).
  rewrite fst_bind. rewrite Nat2N.id.
  replace (h ++ p_spi p ++ tail) with ((h ++ p_spi p) ++ tail) by (rewrite <- app_assoc; reflexivity).
  replace (4 + length (p_spi p))%nat with (length (h ++ p_spi p)) by (rewrite app_length; lia).
  unfold tail. rewrite transforms_loop_enc; [| exact Hts |].
  2:{ rewrite !app_length. pose proof (enc_transforms_length_ge (p_transforms p) 0 (length (p_transforms p))). lia. }
  rewrite N.eqb_refl. cbn [negb]. unfold new_proposal.
  assert (Hsl : (if (0 <? N.of_nat (length (p_spi p)))%N
                 then slice ((h ++ p_spi p) ++ tail) 4 (length (h ++ p_spi p)) else []) = p_spi p).
  { destruct (p_spi p) as [|b spi'] eqn:Es; [reflexivity|].
    replace (0 <? N.of_nat (length (b :: spi')))%N with true by (symmetry; apply N.ltb_lt; cbn [length]; lia).
    rewrite <- app_assoc, app_length. rewrite <- Hhl. unfold slice.
    replace (length h + length (b :: spi') - length h)%nat with (length (b :: spi')) by lia.
    rewrite skipn_app_exact, firstn_app_exact. reflexivity. }
  fold tail. rewrite Hsl.
  replace (length (p_transforms p) =? 0)%nat with false
    by (symmetry; apply Nat.eqb_neq; destruct (p_transforms p); [congruence | discriminate]).
  destruct p; reflexivity.
Qed.

Fixpoint enc_proposals (ps : list proposal) (index count : nat) : bytes :=
  match ps with
  | [] => []
  | p :: rest =>
      pack_bytes fmt_PayloadSA_to_bytes_0
        [VN (proposal_more (N.of_nat index) (N.of_nat count)); VN proposal_reserved;
         VN (proposal_length_field (N.of_nat (length (enc_proposal p))))]
      ++ enc_proposal p ++ enc_proposals rest (S index) count
  end.

Lemma proposal_sub_fits p index count : wf_proposal p ->
  fits fmt_PayloadSA_to_bytes_0
    [VN (proposal_more (N.of_nat index) (N.of_nat count)); VN proposal_reserved;
     VN (proposal_length_field (N.of_nat (length (enc_proposal p))))].
Proof.
  intros (_ & _ & _ & _ & _ & _ & Hlen). rewrite enc_proposal_rfc.
  unfold fmt_PayloadSA_to_bytes_0, proposal_more, proposal_reserved, proposal_length_field, len_of in *.
  fits_tac; split_ifs; lia.
Qed.

Lemma proposals_to_bytes_ok ps index count :
  Forall wf_proposal ps -> proposals_to_bytes ps index count = ret (enc_proposals ps index count).
Proof.
  revert index. induction ps as [|p rest IH]; intros index Hwf; [reflexivity|].
  inversion Hwf as [|? ? Hp Hrest]; subst. cbn [proposals_to_bytes enc_proposals].
  rewrite (proposal_to_bytes_ok p Hp), bind_ret_l.
  rewrite pack_fits by (apply proposal_sub_fits; exact Hp). rewrite bind_ret_l.
  rewrite (IH (S index) Hrest), bind_ret_l. reflexivity.
Qed.

Lemma enc_proposals_rfc ps index count :
  count = (index + length ps)%nat -> enc_proposals ps index count = rfc_proposals ps.
Proof.
  revert index. induction ps as [|p rest IH]; intros index Hc; [reflexivity|].
  cbn [enc_proposals rfc_proposals]. rewrite (IH (S index)) by (cbn in Hc; lia).
  rewrite enc_proposal_rfc.
  cbn [pack_bytes fmt_PayloadSA_to_bytes_0]. rewrite !be1, !be2.
  unfold proposal_more, proposal_reserved, proposal_length_field, len_of.
  replace (N.of_nat index =? N.of_nat count - 1)%N with (match rest with [] => true | _ => false end).
  - rewrite (N.add_comm _ 4). destruct rest; rewrite <- ?app_assoc; reflexivity.
  - destruct rest; cbn in Hc; symmetry; [apply N.eqb_eq | apply N.eqb_neq]; lia.
Qed.

Lemma proposals_loop_enc ps : forall fuel pre index count,
  Forall wf_proposal ps -> (length ps < fuel)%nat ->
  fst (proposals_loop fuel (pre ++ enc_proposals ps index count) (length pre)) = Ok ps.
Proof.
  induction ps as [|p rest IH]; intros fuel pre index count Hwf Hfuel.
  - destruct fuel; [lia|]. cbn [proposals_loop enc_proposals]. rewrite app_nil_r, Nat.ltb_irrefl. reflexivity.
  - inversion Hwf as [|? ? Hp Hrest]; subst. destruct fuel as [|f]; [lia|].
    cbn [proposals_loop enc_proposals].
    set (h := pack_bytes fmt_PayloadSA_to_bytes_0 _).
    pose proof (proposal_sub_fits p index count Hp) as Hh. fold h in Hh.
    assert (Hhl : length h = 4%nat) by (unfold h; rewrite pack_bytes_length by exact Hh; reflexivity).
    set (td := enc_proposal p). set (tail := enc_proposals rest (S index) count).
    replace (length pre <? length (pre ++ h ++ td ++ tail))%nat with true
      by (symmetry; apply Nat.ltb_lt; rewrite !app_length; lia).
    rewrite fst_bind. cbn [tick fst].
    change fmt_PayloadSA_parse_0 with fmt_PayloadSA_to_bytes_0.
    unfold h at 1. rewrite bind_unpack_at by exact Hh. fold h.
    unfold proposal_length_field. fold td.
    rewrite (sub_slice pre h td tail) by (try exact Hhl; lia).
    rewrite fst_bind. unfold td at 1. rewrite (parse_proposal_enc p Hp).
    rewrite fst_bind.
    replace (length pre + N.to_nat (N.of_nat (length td) + 4))%nat with (length (pre ++ h ++ td))
      by (rewrite !app_length; lia).
    replace (pre ++ h ++ td ++ tail) with ((pre ++ h ++ td) ++ tail) by (rewrite <- !app_assoc; reflexivity).
    unfold tail. rewrite (IH f (pre ++ h ++ td) (S index) count Hrest) by (cbn in Hfuel; lia).
    reflexivity.
Qed.

Lemma enc_proposals_length_ge ps index count : (length ps <= length (enc_proposals ps index count))%nat.
Proof.
  revert index. induction ps as [|t rest IH]; intros index; cbn [enc_proposals length]; [lia|].
  rewrite !app_length. specialize (IH (S index)).
  cbn [pack_bytes fmt_PayloadSA_to_bytes_0 length app be_encode]. lia.
Qed.

(* ------------------------------------------------------------------------------------------ *)
(** * The generated tables are the IANA registries *)
From Coq Require Import String.
Import List.

Definition gen_tables_agree : Prop :=
  Payload_Type_names = iana_payload_types
  /\ Message_Exchange_names = iana_exchange_types
  /\ Transform_Type_names = iana_transform_types
  /\ Proposal_Protocol_names = iana_protocol_ids
  /\ TrafficSelector_Type_names = iana_ts_types
  /\ PayloadNOTIFY_Type_names = iana_notify_types
  /\ PayloadID_Type_names = iana_id_types
  /\ PayloadAUTH_Method_names = iana_auth_methods
  /\ (forall b, class_type (body_class b) = rfc_payload_type b)
  /\ (forall c, lookup (class_type c) type_2_payload = Some c)
  /\ Payload_Type_NONE = 0%N /\ Payload_Type_SK = 46%N
  /\ transform_keylen_attr = (rfc_af_bit + iana_attr_key_length)%N
  /\ (forall i n, transform_more i n = if N.eqb i (n - 1) then 0%N else rfc_more_transform)
  /\ (forall i n, proposal_more i n = if N.eqb i (n - 1) then 0%N else rfc_more_proposal)
  /\ (forall r v i, hdr_flags_byte r v i = (rfc_flag_response * bit r + rfc_flag_version * bit v + rfc_flag_initiator * bit i)%N)
  /\ (forall r v i, let f := hdr_flags_byte r v i in
                    hdr_parse_is_response f = r /\ hdr_parse_can_use_higher_version f = v /\ hdr_parse_is_initiator f = i)
  /\ (forall ty, ts_addr_len_parse ty = if N.eqb ty 7 then 4%N else 16%N)
  /\ (forall ty, ts_addr_len_to_bytes ty = if N.eqb ty 7 then 4%N else 16%N)
  /\ hdr_size = 28%nat /\ hdr_length_offset = 24%nat.

Lemma gen_tables_agree_proof : gen_tables_agree.
Proof.
  unfold gen_tables_agree. repeat split; try reflexivity.
  - intros b. destruct b as [| | i ? ?| | | | | | i ?|]; try destruct i; reflexivity.
  - intros c. destruct c; reflexivity.
  - destruct r, v, i; reflexivity.
  - destruct r, v, i; reflexivity.
  - destruct r, v, i; reflexivity.
  - destruct r, v, i; reflexivity.
Qed.

(* ------------------------------------------------------------------------------------------ *)
(** * Payload bodies *)

Lemma sa_layout ps : Forall wf_proposal ps -> body_to_bytes (B_SA ps) = ret (rfc_proposals ps).
Proof.
  intros H. cbn [body_to_bytes]. rewrite proposals_to_bytes_ok by exact H.
  rewrite enc_proposals_rfc by reflexivity. reflexivity.
Qed.

Lemma sa_roundtrip ps : ps <> [] -> Forall wf_proposal ps -> fst (parse_sa (rfc_proposals ps)) = Ok (B_SA ps).
Proof.
  intros Hne H. unfold parse_sa. rewrite <- (enc_proposals_rfc ps 0 (length ps)) by reflexivity.
  rewrite fst_bind.
  pose proof (proposals_loop_enc ps (S (length (enc_proposals ps 0 (length ps)))) [] 0 (length ps) H) as Hl.
  cbn [app length] in Hl. rewrite Hl by (pose proof (enc_proposals_length_ge ps 0 (length ps)); lia).
  unfold new_sa. destruct ps; [congruence | reflexivity].
Qed.

(** the bodies whose parser has no loop of its own *)
Lemma simple_hdr_eq t : (t < 256)%N ->
  pack_bytes fmt_PayloadID_to_bytes_0 [VN t; VN 0%N; VN 0%N] = pack_bytes fmt_PayloadID_parse_0 [VN t; VB [0; 0; 0]%N].
Proof. reflexivity. Qed.

Definition simple_body (b : pbody) : Prop :=
  match b with B_DELETE _ _ | B_TS _ _ => False | _ => True end.

Lemma body_layout_simple b : simple_body b -> wf_body b -> body_to_bytes b = ret (rfc_body b).
Proof.
  destruct b as [ps|g d|i t d|m d|n|p t spi d|p spis|v|i sels|c n]; cbn [simple_body wf_body rfc_body]; intros Hs Hwf;
    try contradiction.
  - apply sa_layout. tauto.
  - cbn [body_to_bytes]. rewrite pack_fits by (unfold fmt_PayloadKE_to_bytes_0; fits_tac). rewrite bind_ret_l. reflexivity.
  - cbn [body_to_bytes]. rewrite pack_fits by (unfold fmt_PayloadID_to_bytes_0; fits_tac). rewrite bind_ret_l. reflexivity.
  - cbn [body_to_bytes]. rewrite pack_fits by (unfold fmt_PayloadAUTH_to_bytes_0; fits_tac). rewrite bind_ret_l. reflexivity.
  - reflexivity.
  - cbn [body_to_bytes]. destruct Hwf as (? & ? & ?). unfold len_of in *.
    rewrite pack_fits by (unfold fmt_PayloadNOTIFY_to_bytes_0; fits_tac). rewrite bind_ret_l. reflexivity.
  - reflexivity.
  - reflexivity.
Qed.

Lemma body_roundtrip_simple b : simple_body b -> wf_body b ->
  fst (parse_body (body_class b) (rfc_body b)) = Ok (set_next b 0).
Proof.
  destruct b as [ps|g d|i t d|m d|n|p t spi d|p spis|v|i sels|c n]; cbn [simple_body wf_body rfc_body body_class set_next];
    intros Hs Hwf; try contradiction.
  - cbn [parse_body]. apply sa_roundtrip; tauto.
  - cbn [parse_body]. unfold parse_ke.
    change (u16 g ++ u16 0 ++ d) with (pack_bytes fmt_PayloadKE_parse_0 [VN g; VN 0%N] ++ d).
    rewrite bind_unpack_at0 by (unfold fmt_PayloadKE_parse_0; fits_tac). reflexivity.
  - assert (E : forall ini, fst (parse_id ini (u8 t ++ [0; 0; 0]%N ++ d)) = Ok (B_ID ini t d)).
    { intros ini. unfold parse_id.
      change (u8 t ++ [0; 0; 0]%N ++ d) with (pack_bytes fmt_PayloadID_parse_0 [VN t; VB [0; 0; 0]%N] ++ d).
      rewrite bind_unpack_at0 by (unfold fmt_PayloadID_parse_0; fits_tac). reflexivity. }
    destruct i; cbn [parse_body]; apply E.
  - cbn [parse_body]. unfold parse_auth.
    change (u8 m ++ [0; 0; 0]%N ++ d) with (pack_bytes fmt_PayloadAUTH_parse_0 [VN m; VB [0; 0; 0]%N] ++ d).
    rewrite bind_unpack_at0 by (unfold fmt_PayloadAUTH_parse_0; fits_tac). reflexivity.
  - cbn [parse_body]. unfold new_nonce, nonce_length_bad.
    replace (_ || _) with false; [reflexivity|]. symmetry. apply orb_false_iff. split; apply N.ltb_ge; lia.
  - cbn [parse_body]. destruct Hwf as (Hp & Ht & Hspi). unfold len_of in *. unfold parse_notify.
    change (u8 p ++ u8 (N.of_nat (length spi)) ++ u16 t ++ spi ++ d)
      with (pack_bytes fmt_PayloadNOTIFY_parse_0 [VN p; VN (N.of_nat (length spi)); VN t] ++ spi ++ d).
    rewrite bind_unpack_at0 by (unfold fmt_PayloadNOTIFY_parse_0; fits_tac).
    cbn [ret fst]. rewrite Nat2N.id. f_equal. f_equal.
    + destruct spi as [|b spi']; [reflexivity|].
      replace (0 <? N.of_nat (length (b :: spi')))%N with true by (symmetry; apply N.ltb_lt; cbn [length]; lia).
      set (h := pack_bytes _ _). change 4%nat with (length h). unfold slice.
      replace (length h + length (b :: spi') - length h)%nat with (length (b :: spi')) by lia.
      rewrite skipn_app_exact, firstn_app_exact. reflexivity.
    + set (h := pack_bytes _ _). change 4%nat with (length h). unfold slice_from.
      rewrite <- app_length, app_assoc, skipn_app_exact. reflexivity.
  - cbn [parse_body]. unfold new_vendor. destruct v; [congruence | reflexivity].
  - reflexivity.
Qed.

(* ------------------------------------------------------------------------------------------ *)
(** * DELETE: the SPI loop *)

Definition delete_spi_size (spis : list bytes) : N :=
  match spis with s :: _ => N.of_nat (length s) | [] => 0%N end.

Lemma delete_hdr_fits p spis : wf_body (B_DELETE p spis) ->
  fits fmt_PayloadDELETE_to_bytes_0 [VN p; VN (delete_spi_size spis); VN (N.of_nat (length spis))].
Proof.
  cbn [wf_body]. intros (Hp & Hn & Hs). unfold fmt_PayloadDELETE_to_bytes_0, delete_spi_size.
  destruct spis as [|s rest]; [| destruct Hs as [Hs _]; unfold len_of in Hs]; fits_tac.
Qed.

Lemma delete_layout p spis : wf_body (B_DELETE p spis) -> body_to_bytes (B_DELETE p spis) = ret (rfc_body (B_DELETE p spis)).
Proof.
  intros Hwf. cbn [body_to_bytes rfc_body]. fold (delete_spi_size spis).
  rewrite pack_fits by (apply delete_hdr_fits; exact Hwf). rewrite bind_ret_l.
  unfold delete_spi_size, len_of. reflexivity.
Qed.

Lemma slice_N_at (pre s tail : bytes) :
  slice_N (pre ++ s ++ tail) (N.of_nat (length pre)) (N.of_nat (length s)) = s.
Proof.
  unfold slice_N. destruct (N.of_nat (length (pre ++ s ++ tail)) <=? N.of_nat (length pre))%N eqn:E.
  - apply N.leb_le in E. rewrite !app_length in E. destruct s; [reflexivity | cbn [length] in E; lia].
  - rewrite Nat2N.id. replace (N.to_nat (N.of_nat (length pre) + N.of_nat (length s))) with (length pre + length s)%nat by lia.
    unfold slice. replace (length pre + length s - length pre)%nat with (length s) by lia.
    rewrite skipn_app_exact, firstn_app_exact. reflexivity.
Qed.

Lemma delete_spis_enc sz (spis : list bytes) : forall pre,
  Forall (fun x => length x = sz) spis ->
  fst (delete_spis (length spis) (pre ++ concat spis) (N.of_nat (length pre)) (N.of_nat sz)) = Ok spis.
Proof.
  induction spis as [|s rest IH]; intros pre Hall; [reflexivity|].
  inversion Hall as [|? ? Hs Hrest]; subst. cbn [length delete_spis concat].
  rewrite fst_bind. cbn [tick fst]. rewrite fst_bind.
  replace (N.of_nat (length pre) + N.of_nat (length s))%N with (N.of_nat (length (pre ++ s))) by (rewrite app_length; lia).
  replace (pre ++ s ++ concat rest) with ((pre ++ s) ++ concat rest) at 1 by (rewrite <- app_assoc; reflexivity).
  rewrite (IH (pre ++ s) Hrest). cbn [ret fst]. rewrite slice_N_at. reflexivity.
Qed.

Lemma delete_roundtrip p spis : wf_body (B_DELETE p spis) ->
  fst (parse_delete (rfc_body (B_DELETE p spis))) = Ok (B_DELETE p spis).
Proof.
  intros Hwf. pose proof (delete_hdr_fits p spis Hwf) as Hh. cbn [wf_body] in Hwf. destruct Hwf as (Hp & Hn & Hs).
  unfold parse_delete. cbn [rfc_body].
  change (u8 p ++ u8 (match spis with s :: _ => len_of s | [] => 0%N end) ++ u16 (N.of_nat (length spis)) ++ concat spis)
    with (pack_bytes fmt_PayloadDELETE_to_bytes_0 [VN p; VN (delete_spi_size spis); VN (N.of_nat (length spis))] ++ concat spis).
  change fmt_PayloadDELETE_parse_0 with fmt_PayloadDELETE_to_bytes_0.
  rewrite bind_unpack_at0 by exact Hh.
  set (h := pack_bytes _ _).
  assert (Hhl : length h = 4%nat) by (unfold h; rewrite pack_bytes_length by exact Hh; reflexivity).
  rewrite fst_bind, Nat2N.id. change 4%N with (N.of_nat 4). rewrite <- Hhl.
  assert (Hall : Forall (fun x => length x = N.to_nat (delete_spi_size spis)) spis).
  { unfold delete_spi_size. destruct spis as [|s rest]; [constructor|]. destruct Hs as [_ Hs]. rewrite Nat2N.id. exact Hs. }
  rewrite <- (N2Nat.id (delete_spi_size spis)).
  rewrite (delete_spis_enc _ spis h Hall). reflexivity.
Qed.

(* ------------------------------------------------------------------------------------------ *)
(** * TSi / TSr: the selector loop *)

Definition tsel_addr_len (t : tsel) : nat := if N.eqb (ts_type t) 7 then 4%nat else 16%nat.

Lemma wf_selector_addr t : wf_selector t ->
  length (ts_saddr t) = tsel_addr_len t /\ length (ts_eaddr t) = tsel_addr_len t
  /\ N.to_nat (ts_addr_len_to_bytes (ts_type t)) = tsel_addr_len t
  /\ N.to_nat (ts_addr_len_parse (ts_type t)) = tsel_addr_len t
  /\ ts_length_field (ts_addr_len_to_bytes (ts_type t)) = (8 + len_of (ts_saddr t) + len_of (ts_eaddr t))%N.
Proof.
  intros (_ & _ & _ & _ & Ha).
  unfold tsel_addr_len, ts_addr_len_to_bytes, ts_addr_len_parse, ts_length_field, len_of,
    TrafficSelector_Type_TS_IPV4_ADDR_RANGE.
  destruct (N.eqb (ts_type t) 7); destruct Ha as [Hs He]; rewrite Hs, He; repeat split; reflexivity.
Qed.

Definition tsel_vals (t : tsel) : list val :=
  [VN (ts_type t); VN (ts_proto t); VN (8 + len_of (ts_saddr t) + len_of (ts_eaddr t))%N;
   VN (ts_sport t); VN (ts_eport t)].

Lemma tsel_vals_fits t : wf_selector t -> fits fmt_TrafficSelector_parse_0 (tsel_vals t).
Proof.
  intros Hwf. destruct (wf_selector_addr t Hwf) as (Hs & He & _). destruct Hwf as (Hty & Hpr & Hsp & Hep & _).
  unfold fmt_TrafficSelector_parse_0, tsel_vals, len_of. rewrite Hs, He. unfold tsel_addr_len.
  fits_tac; split_ifs; lia.
Qed.

Lemma rfc_selector_split t :
  rfc_selector t = pack_bytes fmt_TrafficSelector_parse_0 (tsel_vals t) ++ ts_saddr t ++ ts_eaddr t.
Proof. reflexivity. Qed.

Lemma rfc_selector_length t : length (rfc_selector t) = (8 + length (ts_saddr t) + length (ts_eaddr t))%nat.
Proof. unfold rfc_selector. rewrite !app_length. cbn [u8 u16 length]. lia. Qed.

Lemma tsel_to_bytes_ok t : wf_selector t -> tsel_to_bytes t = ret (rfc_selector t).
Proof.
  intros Hwf. destruct (wf_selector_addr t Hwf) as (Hs & He & Hal & _ & Hlf).
  pose proof (tsel_vals_fits t Hwf) as Hf.
  unfold tsel_to_bytes. rewrite Hal, Hlf.
  rewrite pack_fits.
  - rewrite rfc_selector_split. unfold tsel_vals, fmt_TrafficSelector_to_bytes_0, fmt_TrafficSelector_parse_0.
    cbn [pack_bytes]. rewrite app_nil_r, <- !app_assoc. reflexivity.
  - unfold fmt_TrafficSelector_to_bytes_0. unfold fmt_TrafficSelector_parse_0, tsel_vals in Hf.
    cbn [fits] in *. tauto.
Qed.

Lemma tsels_to_bytes_ok sels : Forall wf_selector sels -> tsels_to_bytes sels = ret (concat (map rfc_selector sels)).
Proof.
  induction sels as [|t rest IH]; intros Hwf; [reflexivity|].
  inversion Hwf as [|? ? Ht Hrest]; subst. cbn [tsels_to_bytes map concat].
  rewrite (tsel_to_bytes_ok t Ht), bind_ret_l, (IH Hrest), bind_ret_l. reflexivity.
Qed.

Lemma ts_layout i sels : wf_body (B_TS i sels) -> body_to_bytes (B_TS i sels) = ret (rfc_body (B_TS i sels)).
Proof.
  cbn [wf_body]. intros (Hn & Hall). cbn [body_to_bytes rfc_body].
  rewrite pack_fits by (unfold fmt_PayloadTS_to_bytes_0; fits_tac). rewrite bind_ret_l.
  rewrite (tsels_to_bytes_ok sels Hall), bind_ret_l. reflexivity.
Qed.

Lemma except_raise_ret {A} (a : A) cls e : except_raise (ret a) cls e = ret a.
Proof. reflexivity. Qed.

Lemma parse_tsel_enc t : wf_selector t -> fst (parse_tsel (rfc_selector t)) = Ok t.
Proof.
  intros Hwf. destruct (wf_selector_addr t Hwf) as (Hs & He & _ & Hal & _).
  pose proof (tsel_vals_fits t Hwf) as Hf.
  unfold parse_tsel. rewrite rfc_selector_split.
  set (h := pack_bytes fmt_TrafficSelector_parse_0 (tsel_vals t)).
  assert (Hhl : length h = 8%nat) by (unfold h; rewrite pack_bytes_length by exact Hf; reflexivity).
  rewrite bind_unpack_plain.
  replace (0 + fmt_size fmt_TrafficSelector_parse_0 <=? length (h ++ ts_saddr t ++ ts_eaddr t))%nat with true
    by (symmetry; apply Nat.leb_le; rewrite app_length, Hhl; cbn; lia).
  cbn [skipn]. unfold h at 1. rewrite unpack_pack by exact Hf. unfold tsel_vals at 1. cbv beta iota.
  rewrite Hal. rewrite bind_unpack_plain.
  replace (ts_addr_offset + fmt_size (fmt_TrafficSelector_parse_1 (tsel_addr_len t)) <=? length (h ++ ts_saddr t ++ ts_eaddr t))%nat
    with true
    by (symmetry; apply Nat.leb_le; rewrite !app_length, Hhl, Hs, He; unfold ts_addr_offset; cbn [fmt_size fmt_TrafficSelector_parse_1]; lia).
  unfold ts_addr_offset. rewrite <- Hhl at 1. rewrite skipn_app_exact.
  replace (ts_saddr t ++ ts_eaddr t)
    with (pack_bytes (fmt_TrafficSelector_parse_1 (tsel_addr_len t)) [VB (ts_saddr t); VB (ts_eaddr t)] ++ [])
    by (cbn [pack_bytes fmt_TrafficSelector_parse_1]; rewrite !app_nil_r; reflexivity).
  rewrite unpack_pack by (unfold fmt_TrafficSelector_parse_1; cbn [fits]; tauto).
  rewrite except_raise_ret, bind_ret_l. cbn [ts_saddr ts_eaddr ts_type ts_proto ts_sport ts_eport].
  unfold ip_address. rewrite Hs, He.
  replace ((tsel_addr_len t =? 4)%nat || (tsel_addr_len t =? 16)%nat) with true
    by (unfold tsel_addr_len; destruct (N.eqb (ts_type t) 7); reflexivity).
  destruct t; reflexivity.
Qed.

Lemma unpack_ts_len (a rest : bytes) len : length a = 2%nat -> (len < 65536)%N ->
  unpack_fields fmt_PayloadTS_parse_1 (a ++ be_encode 2 len ++ rest) = [VN (be_decode a); VN len].
Proof.
  intros Ha Hlen. unfold fmt_PayloadTS_parse_1.
  assert (Hd : be_decode (be_encode 2 len) = len) by (apply be_decode_encode; rewrite pow2; exact Hlen).
  pose proof (be_encode_length 2 len) as Hel. set (e := be_encode 2 len) in *.
  cbn [unpack_fields]. rewrite <- Ha. rewrite firstn_app_exact, skipn_app_exact.
  rewrite Ha, <- Hel. rewrite firstn_app_exact, Hd. reflexivity.
Qed.

Lemma slice_at (pre s tail : bytes) : slice (pre ++ s ++ tail) (length pre) (length pre + length s) = s.
Proof.
  unfold slice. replace (length pre + length s - length pre)%nat with (length s) by lia.
  rewrite skipn_app_exact, firstn_app_exact. reflexivity.
Qed.

Lemma tsels_loop_enc sels : forall fuel pre,
  Forall wf_selector sels -> (length sels < fuel)%nat ->
  fst (tsels_loop fuel (pre ++ concat (map rfc_selector sels)) (length pre)) = Ok sels.
Proof.
  induction sels as [|t rest IH]; intros fuel pre Hwf Hfuel.
  - destruct fuel; [lia|]. cbn [tsels_loop map concat]. rewrite app_nil_r, Nat.ltb_irrefl. reflexivity.
  - inversion Hwf as [|? ? Ht Hrest]; subst. destruct fuel as [|f]; [lia|].
    cbn [tsels_loop map concat].
    set (sel := rfc_selector t). set (tail := concat (map rfc_selector rest)).
    pose proof (rfc_selector_length t) as Hsl. fold sel in Hsl.
    destruct (wf_selector_addr t Ht) as (Hs & He & _).
    replace (length pre <? length (pre ++ sel ++ tail))%nat with true
      by (symmetry; apply Nat.ltb_lt; rewrite !app_length; lia).
    rewrite fst_bind. cbn [tick fst]. rewrite bind_unpack.
    replace (length pre + fmt_size fmt_PayloadTS_parse_1 <=? length (pre ++ sel ++ tail))%nat with true
      by (symmetry; apply Nat.leb_le; rewrite !app_length; cbn [fmt_size fmt_PayloadTS_parse_1]; lia).
    rewrite skipn_app_exact.
    assert (Hu : unpack_fields fmt_PayloadTS_parse_1 (sel ++ tail)
                 = [VN (be_decode (u8 (ts_type t) ++ u8 (ts_proto t))); VN (8 + len_of (ts_saddr t) + len_of (ts_eaddr t))%N]).
    { unfold sel, rfc_selector. rewrite <- !app_assoc. rewrite (app_assoc (u8 (ts_type t))).
      rewrite <- be2. apply unpack_ts_len; [reflexivity|].
      unfold len_of. rewrite Hs, He. unfold tsel_addr_len. split_ifs; lia. }
    rewrite Hu.
    replace (N.to_nat (8 + len_of (ts_saddr t) + len_of (ts_eaddr t))) with (length sel) by (unfold len_of; lia).
    rewrite slice_at. rewrite fst_bind. unfold sel at 1. rewrite (parse_tsel_enc t Ht).
    rewrite fst_bind. rewrite <- app_length, app_assoc.
    unfold tail. rewrite (IH f (pre ++ sel) Hrest) by (cbn in Hfuel; lia).
    reflexivity.
Qed.

Lemma selectors_length_ge sels : (length sels <= length (concat (map rfc_selector sels)))%nat.
Proof.
  induction sels as [|t rest IH]; [cbn; lia|]. cbn [map concat length]. rewrite app_length, rfc_selector_length. lia.
Qed.

Lemma ts_roundtrip i sels : wf_body (B_TS i sels) ->
  fst (parse_ts i (rfc_body (B_TS i sels))) = Ok (B_TS i sels).
Proof.
  cbn [wf_body]. intros (Hn & Hall). unfold parse_ts. cbn [rfc_body].
  set (body := concat (map rfc_selector sels)).
  change (u8 (N.of_nat (length sels)) ++ [0; 0; 0]%N ++ body)
    with (pack_bytes fmt_PayloadTS_parse_0 [VN (N.of_nat (length sels)); VB [0; 0; 0]%N] ++ body).
  assert (Hh : fits fmt_PayloadTS_parse_0 [VN (N.of_nat (length sels)); VB [0; 0; 0]%N])
    by (unfold fmt_PayloadTS_parse_0; fits_tac).
  rewrite bind_unpack_at0 by exact Hh.
  set (h := pack_bytes _ _).
  assert (Hhl : length h = 4%nat) by (unfold h; rewrite pack_bytes_length by exact Hh; reflexivity).
  rewrite fst_bind. rewrite <- Hhl. unfold body.
  rewrite (tsels_loop_enc sels _ h Hall).
  - rewrite N.eqb_refl. reflexivity.
  - rewrite app_length. pose proof (selectors_length_ge sels). lia.
Qed.

(* ------------------------------------------------------------------------------------------ *)
(** * The generic payload chain *)

Definition body_ok (b : pbody) : Prop :=
  body_to_bytes b = ret (rfc_body b) /\ fst (parse_body (body_class b) (rfc_body b)) = Ok (set_next b 0).

Lemma pl_type_rfc p : pl_type p = rfc_payload_type (pl_body p).
Proof. unfold pl_type. destruct (pl_body p) as [| | i ? ?| | | | | | i ?|]; try destruct i; reflexivity. Qed.

Lemma rfc_payload_type_lt b : (rfc_payload_type b < 256)%N.
Proof. destruct b as [| | i ? ?| | | | | | i ?|]; try destruct i; cbn; lia. Qed.

Lemma rfc_payload_type_nz b : N.eqb (rfc_payload_type b) Payload_Type_NONE = false.
Proof. destruct b as [| | i ? ?| | | | | | i ?|]; try destruct i; reflexivity. Qed.

Definition chain_next (p : payload) (rest : list payload) : N :=
  match rest with
  | q :: _ => rfc_payload_type (pl_body q)
  | [] => match pl_body p with B_SK _ n => n | _ => 0%N end
  end.

Lemma chain_next_ok p rest : wf_body (pl_body p) ->
  match rest with
  | q :: _ => ret (pl_type q)
  | [] => if N.eqb (pl_type p) Payload_Type_SK then sk_next p else ret Payload_Type_NONE
  end = ret (chain_next p rest) /\ (chain_next p rest < 256)%N.
Proof.
  intros Hwf. unfold chain_next. destruct rest as [|q rest'].
  - unfold sk_next. rewrite pl_type_rfc.
    destruct (pl_body p) as [| | i ? ?| | | | | | i ?|c n]; try destruct i; cbn; split; try reflexivity; try lia.
    cbn in Hwf. exact Hwf.
  - rewrite pl_type_rfc. split; [reflexivity | apply rfc_payload_type_lt].
Qed.

Lemma chain_hdr_fits p rest : wf_body (pl_body p) -> (4 + len_of (rfc_body (pl_body p)) < 65536)%N ->
  fits fmt_Message_payloads_to_bytes_0
    [VN (chain_next p rest); VN payload_critical_byte; VN (payload_length_field (N.of_nat (length (rfc_body (pl_body p)))))].
Proof.
  intros Hwf Hlen. destruct (chain_next_ok p rest Hwf) as [_ Hn].
  unfold fmt_Message_payloads_to_bytes_0, payload_critical_byte, payload_length_field, len_of in *. fits_tac.
Qed.

Lemma rfc_chain_unfold p rest :
  rfc_chain (p :: rest) =
  pack_bytes fmt_Message_payloads_to_bytes_0
    [VN (chain_next p rest); VN payload_critical_byte; VN (payload_length_field (N.of_nat (length (rfc_body (pl_body p)))))]
  ++ rfc_body (pl_body p) ++ rfc_chain rest.
Proof.
  cbn [rfc_chain pack_bytes fmt_Message_payloads_to_bytes_0].
  unfold payload_critical_byte, payload_length_field, len_of, chain_next. rewrite (N.add_comm (N.of_nat _) 4).
  rewrite <- !app_assoc. reflexivity.
Qed.

Lemma chain_layout ps : wf_chain ps -> Forall (fun p => body_ok (pl_body p)) ps ->
  payloads_to_bytes ps = ret (rfc_chain ps).
Proof.
  induction ps as [|p rest IH]; intros Hwf Hok; [reflexivity|].
  destruct Hwf as (Hc & Hb & Hlen & Hsk & Hrest). inversion Hok as [|? ? [Henc _] Hokr]; subst.
  rewrite rfc_chain_unfold. cbn [payloads_to_bytes]. rewrite Henc, bind_ret_l.
  destruct (chain_next_ok p rest Hb) as [Hn _]. rewrite Hn, bind_ret_l.
  rewrite pack_fits by (apply chain_hdr_fits; assumption). rewrite bind_ret_l.
  rewrite (IH Hrest Hokr), bind_ret_l. reflexivity.
Qed.

Lemma rfc_chain_length_ge ps : (length ps <= length (rfc_chain ps))%nat.
Proof.
  induction ps as [|p rest IH]; [cbn; lia|]. rewrite rfc_chain_unfold, !app_length.
  cbn [pack_bytes fmt_Message_payloads_to_bytes_0 length app be_encode]. cbn [length]. lia.
Qed.

Lemma critical_of_zero : payload_critical_of payload_critical_byte = false.
Proof. reflexivity. Qed.

Lemma payloads_loop_rfc ps : forall fuel pre,
  wf_chain ps -> Forall (fun p => body_ok (pl_body p)) ps -> (length ps < fuel)%nat ->
  fst (payloads_loop fuel (pre ++ rfc_chain ps) (length pre) (rfc_first ps)) = Ok ps.
Proof.
  induction ps as [|p rest IH]; intros fuel pre Hwf Hok Hfuel.
  - destruct fuel; [lia|]. cbn [payloads_loop rfc_first rfc_chain]. rewrite app_nil_r.
    cbn [N.eqb Payload_Type_NONE negb]. rewrite Nat.eqb_refl. reflexivity.
  - destruct Hwf as (Hc & Hb & Hlen & Hsk & Hrest). inversion Hok as [|? ? [_ Hdec] Hokr]; subst.
    destruct fuel as [|f]; [lia|].
    cbn [payloads_loop rfc_first]. rewrite rfc_payload_type_nz. cbn [negb].
    rewrite rfc_chain_unfold.
    set (h := pack_bytes fmt_Message_payloads_to_bytes_0 _).
    pose proof (chain_hdr_fits p rest Hb Hlen) as Hh. fold h in Hh.
    assert (Hhl : length h = 4%nat) by (unfold h; rewrite pack_bytes_length by exact Hh; reflexivity).
    set (bd := rfc_body (pl_body p)) in *. set (tail := rfc_chain rest).
    rewrite fst_bind. cbn [tick fst].
    change fmt_Message_parse_payloads_0 with fmt_Message_payloads_to_bytes_0.
    unfold h at 1. rewrite bind_unpack_at by exact Hh. fold h.
    rewrite critical_of_zero. unfold payload_length_field, payload_length_bad.
    replace (N.of_nat (length bd) + 4 <? 4)%N with false by (symmetry; apply N.ltb_ge; lia).
    rewrite (sub_slice pre h bd tail) by (try exact Hhl; lia).
    unfold parse_one.
    assert (Hlk : lookup (rfc_payload_type (pl_body p)) type_2_payload = Some (body_class (pl_body p))).
    { destruct (pl_body p) as [| | i ? ?| | | | | | i ?|]; try destruct i; reflexivity. }
    rewrite Hlk. rewrite Hdec.
    rewrite fst_bind, Hdec, fst_bind.
    replace (length pre + N.to_nat (N.of_nat (length bd) + 4))%nat with (length (pre ++ h ++ bd))
      by (rewrite !app_length; lia).
    replace (pre ++ h ++ bd ++ tail) with ((pre ++ h ++ bd) ++ tail) by (rewrite <- !app_assoc; reflexivity).
    assert (Hp : mkPayload false
                   (if N.eqb (rfc_payload_type (pl_body p)) Payload_Type_SK
                    then set_next (set_next (pl_body p) 0) (chain_next p rest) else set_next (pl_body p) 0) = p).
    { destruct p as [crit body]. cbn [pl_critical pl_body] in *. subst crit. f_equal.
      destruct body as [| | i ? ?| | | | | | i ?|c n]; try destruct i; try reflexivity.
      cbn [rfc_payload_type N.eqb Payload_Type_SK set_next]. unfold chain_next. cbn [pl_body].
      rewrite (Hsk eq_refl). reflexivity. }
    destruct (N.eqb (rfc_payload_type (pl_body p)) Payload_Type_SK) eqn:Esk.
    + (* an Encrypted payload ends the chain *)
      assert (Hr : rest = []).
      { apply Hsk. unfold is_sk. destruct (pl_body p) as [| | i ? ?| | | | | | i ?|]; try destruct i; try discriminate; reflexivity. }
      subst rest. unfold tail. cbn [rfc_chain]. rewrite app_nil_r.
      destruct f as [|f']; [cbn in Hfuel; lia|]. cbn [payloads_loop N.eqb Payload_Type_NONE negb].
      rewrite Nat.eqb_refl. cbn [negb ret fst]. rewrite Hp. reflexivity.
    + replace (chain_next p rest) with (rfc_first rest).
      * unfold tail. rewrite (IH f (pre ++ h ++ bd) Hrest Hokr) by (cbn in Hfuel; lia).
        cbn [ret fst]. rewrite Hp. reflexivity.
      * unfold chain_next, rfc_first. destruct rest; [| reflexivity].
        destruct (pl_body p) as [| | i ? ?| | | | | | i ?|]; try destruct i; try reflexivity; discriminate.
Qed.

(* ------------------------------------------------------------------------------------------ *)
(** * The message *)

Definition nibbles : list N := map N.of_nat (seq 0 16).
Lemma in_nibbles a : (a < 16)%N -> In a nibbles.
Proof.
  intros H. unfold nibbles. rewrite <- (N2Nat.id a). apply in_map, in_seq. lia.
Qed.

Lemma version_table :
  forallb (fun a => forallb (fun b =>
    N.eqb (hdr_version_byte a b) (16 * a + b) && N.eqb (hdr_parse_major (16 * a + b)) a
    && N.eqb (hdr_parse_minor (16 * a + b)) b) nibbles) nibbles = true.
Proof. vm_compute. reflexivity. Qed.

Lemma version_ok a b : (a < 16)%N -> (b < 16)%N ->
  hdr_version_byte a b = (16 * a + b)%N /\ hdr_parse_major (16 * a + b) = a /\ hdr_parse_minor (16 * a + b) = b.
Proof.
  intros Ha Hb. pose proof version_table as T. rewrite forallb_forall in T.
  specialize (T a (in_nibbles a Ha)). rewrite forallb_forall in T. specialize (T b (in_nibbles b Hb)).
  apply andb_true_iff in T as [T T3]. apply andb_true_iff in T as [T1 T2].
  apply N.eqb_eq in T1, T2, T3. auto.
Qed.

Lemma flags_ok r v i :
  hdr_flags_byte r v i = (32 * bit r + 16 * bit v + 8 * bit i)%N
  /\ hdr_parse_is_response (hdr_flags_byte r v i) = r
  /\ hdr_parse_can_use_higher_version (hdr_flags_byte r v i) = v
  /\ hdr_parse_is_initiator (hdr_flags_byte r v i) = i.
Proof. destruct r, v, i; repeat split; reflexivity. Qed.

Definition hdr_vals (m : message) (first total : N) : list val :=
  [VB (m_spi_i m); VB (m_spi_r m); VN first; VN (hdr_version_byte (m_major m) (m_minor m)); VN (m_exchange m);
   VN (hdr_flags_byte (m_is_response m) (m_higher m) (m_is_initiator m)); VN (m_id m); VN total].

Lemma hdr_fits m first total : wf_msg m -> (first < 256)%N -> (total < 4294967296)%N ->
  fits fmt_Message_to_bytes_0 (hdr_vals m first total).
Proof.
  intros (Hi & Hr & Hma & Hmi & Hex & Hid & _) Hf Ht.
  destruct (version_ok _ _ Hma Hmi) as [Hv _]. destruct (flags_ok (m_is_response m) (m_higher m) (m_is_initiator m)) as [Hfl _].
  unfold hdr_vals, fmt_Message_to_bytes_0. rewrite Hv, Hfl. fits_tac;
    destruct (m_is_response m), (m_higher m), (m_is_initiator m); cbn [bit]; lia.
Qed.

Lemma hdr_rfc m first total : wf_msg m ->
  pack_bytes fmt_Message_to_bytes_0 (hdr_vals m first total) = rfc_header m first total.
Proof.
  intros (Hi & Hr & Hma & Hmi & _).
  destruct (version_ok _ _ Hma Hmi) as [Hv _]. destruct (flags_ok (m_is_response m) (m_higher m) (m_is_initiator m)) as [Hfl _].
  unfold hdr_vals, rfc_header. cbn [pack_bytes fmt_Message_to_bytes_0]. rewrite Hv, Hfl, !be4.
  rewrite app_nil_r. reflexivity.
Qed.

Lemma rfc_first_lt ps : (rfc_first ps < 256)%N.
Proof. destruct ps; cbn; [lia | apply rfc_payload_type_lt]. Qed.

Lemma first_type_rfc ps : match ps with q :: _ => pl_type q | [] => Payload_Type_NONE end = rfc_first ps.
Proof. destruct ps; [reflexivity | apply pl_type_rfc]. Qed.

Section Clear.
  Variables enc dec : bytes -> bytes -> bytes -> bytes.
  Variable mac : bytes -> bytes -> bytes.

  Lemma encode_clear_layout m : wf_msg m -> Forall (fun p => body_ok (pl_body p)) (m_payloads m) ->
    encode_m enc mac None m = ret (rfc_encode m).
  Proof.
    intros Hwf Hok. pose proof Hwf as (Hi & Hr & Hma & Hmi & Hex & Hid & Hch & Htot & _).
    unfold encode_m. rewrite bind_ret_l. rewrite first_type_rfc.
    fold (hdr_vals m (rfc_first (m_payloads m)) hdr_initial_length).
    rewrite pack_fits by (apply hdr_fits; [exact Hwf | apply rfc_first_lt | unfold hdr_initial_length; lia]).
    rewrite bind_ret_l. rewrite (chain_layout _ Hch Hok), bind_ret_l.
    set (first := rfc_first (m_payloads m)). set (chain := rfc_chain (m_payloads m)) in *.
    unfold pack_into.
    set (data := pack_bytes _ _ ++ chain).
    assert (Hdl : length data = (28 + length chain)%nat).
    { unfold data. rewrite app_length, pack_bytes_length by (apply hdr_fits; [exact Hwf | apply rfc_first_lt | unfold hdr_initial_length; lia]).
      reflexivity. }
    rewrite pack_fits by (unfold fmt_Message_to_bytes_1; unfold len_of in Htot; fits_tac).
    rewrite bind_ret_l. cbn [pack_bytes fmt_Message_to_bytes_1]. rewrite app_nil_r, be_encode_length.
    replace (hdr_length_offset + 4 <=? length data)%nat with true by (symmetry; apply Nat.leb_le; unfold hdr_length_offset; lia).
    unfold rfc_encode. fold first chain. f_equal.
    rewrite <- (hdr_rfc m first (28 + len_of chain) Hwf).
    unfold data, hdr_vals. cbn [pack_bytes fmt_Message_to_bytes_0].
    set (A := m_spi_i m ++ m_spi_r m ++ be_encode 1 first ++ be_encode 1 (hdr_version_byte (m_major m) (m_minor m))
              ++ be_encode 1 (m_exchange m) ++ be_encode 1 (hdr_flags_byte (m_is_response m) (m_higher m) (m_is_initiator m))
              ++ be_encode 4 (m_id m)).
    assert (HA : length A = 24%nat) by (unfold A; rewrite !app_length, !be_encode_length, Hi, Hr; reflexivity).
    replace (m_spi_i m ++ m_spi_r m ++ be_encode 1 first ++ be_encode 1 (hdr_version_byte (m_major m) (m_minor m))
             ++ be_encode 1 (m_exchange m) ++ be_encode 1 (hdr_flags_byte (m_is_response m) (m_higher m) (m_is_initiator m))
             ++ be_encode 4 (m_id m) ++ be_encode 4 hdr_initial_length ++ [])
      with (A ++ be_encode 4 hdr_initial_length) by (unfold A; rewrite <- !app_assoc, app_nil_r; reflexivity).
    replace (m_spi_i m ++ m_spi_r m ++ be_encode 1 first ++ be_encode 1 (hdr_version_byte (m_major m) (m_minor m))
             ++ be_encode 1 (m_exchange m) ++ be_encode 1 (hdr_flags_byte (m_is_response m) (m_higher m) (m_is_initiator m))
             ++ be_encode 4 (m_id m) ++ be_encode 4 (28 + len_of chain) ++ [])
      with (A ++ be_encode 4 (28 + len_of chain)) by (unfold A; rewrite <- !app_assoc, app_nil_r; reflexivity).
    unfold hdr_length_offset. rewrite <- HA at 1. rewrite <- app_assoc, firstn_app_exact.
    replace (24 + 4)%nat with (length (A ++ be_encode 4 hdr_initial_length)) by (rewrite app_length, be_encode_length; lia).
    rewrite bind_ret_l.
    replace (A ++ be_encode 4 hdr_initial_length ++ chain) with ((A ++ be_encode 4 hdr_initial_length) ++ chain)
      by (rewrite <- app_assoc; reflexivity).
    rewrite skipn_app_exact.
    replace (N.of_nat (length ((A ++ be_encode 4 hdr_initial_length) ++ chain))) with (28 + len_of chain)%N
      by (unfold len_of; rewrite !app_length, be_encode_length; lia).
    rewrite <- app_assoc. reflexivity.
  Qed.

  Lemma decode_clear_rfc m : wf_msg m -> Forall (fun p => body_ok (pl_body p)) (m_payloads m) ->
    decode dec mac None false (rfc_encode m) = Ok m.
  Proof.
    intros Hwf Hok. pose proof Hwf as (Hi & Hr & Hma & Hmi & Hex & Hid & Hch & Htot & Henc & Hiv & Hau).
    unfold decode, decode_m, rfc_encode.
    set (first := rfc_first (m_payloads m)). set (chain := rfc_chain (m_payloads m)) in *.
    rewrite <- (hdr_rfc m first (28 + len_of chain) Hwf).
    assert (Hf : fits fmt_Message_to_bytes_0 (hdr_vals m first (28 + len_of chain)))
      by (apply hdr_fits; [exact Hwf | apply rfc_first_lt | exact Htot]).
    change fmt_Message_parse_0 with fmt_Message_to_bytes_0.
    rewrite bind_unpack_at0 by exact Hf.
    unfold hdr_vals at 1. cbv beta iota.
    rewrite fst_bind.
    replace (slice_from (pack_bytes fmt_Message_to_bytes_0 (hdr_vals m first (28 + len_of chain)) ++ chain) hdr_size)
      with chain.
    2:{ unfold slice_from, hdr_size. change 28%nat with (fmt_size fmt_Message_to_bytes_0).
        rewrite <- (pack_bytes_length _ _ Hf), skipn_app_exact. reflexivity. }
    unfold parse_payloads.
    pose proof (payloads_loop_rfc (m_payloads m) (length chain + 2) [] Hch Hok) as Hl.
    cbn [app length] in Hl. fold chain first in Hl.
    rewrite Hl by (pose proof (rfc_chain_length_ge (m_payloads m)); fold chain in H; lia).
    destruct (version_ok _ _ Hma Hmi) as (Hv & Hpma & Hpmi).
    destruct (flags_ok (m_is_response m) (m_higher m) (m_is_initiator m)) as (_ & Hf1 & Hf2 & Hf3).
    rewrite Hv, Hpma, Hpmi, Hf1, Hf2, Hf3.
    destruct (split_last (m_payloads m)) as [[? ?]|]; cbn [ret fst];
      destruct m; cbn in *; subst; reflexivity.
  Qed.
End Clear.

Definition simple_chain (ps : list payload) : Prop := Forall (fun p => simple_body (pl_body p)) ps.

Lemma body_ok_simple ps : wf_chain ps -> simple_chain ps -> Forall (fun p => body_ok (pl_body p)) ps.
Proof.
  induction ps as [|p rest IH]; intros Hwf Hs; [constructor|].
  destruct Hwf as (_ & Hb & _ & _ & Hrest). inversion Hs as [|? ? Hp Hr]; subst.
  constructor; [| apply IH; assumption].
  split; [apply body_layout_simple | apply body_roundtrip_simple]; assumption.
Qed.

Theorem layout_partial enc mac m : wf_msg m -> simple_chain (m_payloads m) ->
  encode enc mac None m = Ok (rfc_encode m).
Proof.
  intros Hwf Hs. unfold encode. rewrite (encode_clear_layout enc enc mac m Hwf); [reflexivity |].
  apply body_ok_simple; [apply Hwf | exact Hs].
Qed.

Theorem roundtrip_partial enc dec mac m : wf_msg m -> simple_chain (m_payloads m) ->
  exists b, encode enc mac None m = Ok b /\ decode dec mac None false b = Ok m.
Proof.
  intros Hwf Hs. exists (rfc_encode m). split; [apply layout_partial; assumption|].
  apply (decode_clear_rfc dec dec mac m Hwf). apply body_ok_simple; [apply Hwf | exact Hs].
Qed.

(* ------------------------------------------------------------------------------------------ *)
(** * The unrestricted statements: every well-formed body, DELETE and TSi/TSr included *)

Lemma body_ok_wf b : wf_body b -> body_ok b.
Proof.
  intros Hwf. destruct b as [ps|g d|i t d|m d|n|p t spi d|p spis|v|i sels|c n].
  7:{ split; [apply delete_layout; exact Hwf | cbn [body_class parse_body set_next]; apply delete_roundtrip; exact Hwf]. }
  8:{ split; [apply ts_layout; exact Hwf |].
      cbn [body_class set_next]. destruct i; cbn [parse_body]; apply ts_roundtrip; exact Hwf. }
  all: split; [apply body_layout_simple | apply body_roundtrip_simple]; try exact Hwf; exact I.
Qed.

Lemma body_ok_chain ps : wf_chain ps -> Forall (fun p => body_ok (pl_body p)) ps.
Proof.
  induction ps as [|p rest IH]; intros Hwf; [constructor|].
  destruct Hwf as (_ & Hb & _ & _ & Hrest).
  constructor; [apply body_ok_wf; exact Hb | apply IH; exact Hrest].
Qed.

Theorem layout_full enc mac m : wf_msg m -> encode enc mac None m = Ok (rfc_encode m).
Proof.
  intros Hwf. unfold encode. rewrite (encode_clear_layout enc enc mac m Hwf); [reflexivity |].
  apply body_ok_chain, Hwf.
Qed.

Theorem roundtrip_full enc dec mac m : wf_msg m ->
  exists b, encode enc mac None m = Ok b /\ decode dec mac None false b = Ok m.
Proof.
  intros Hwf. exists (rfc_encode m). split; [apply layout_full; exact Hwf|].
  apply (decode_clear_rfc dec dec mac m Hwf). apply body_ok_chain, Hwf.
Qed.

(** non-vacuity of the partial statements: an IKE_SA_INIT-like message without DELETE / TS payloads *)
Definition example_msg_simple : message :=
  mkMessage [1;2;3;4;5;6;7;8]%N [0;0;0;0;0;0;0;0]%N 2 0 34 false false true 0
    [mkPayload false (B_SA [mkProposal 1 1 [] [mkTransform 1 12 (Some 256%N); mkTransform 2 5 None;
                                               mkTransform 3 12 None; mkTransform 4 14 None]]);
     mkPayload false (B_KE 14 [9; 9; 9; 9]%N);
     mkPayload false (B_NONCE (repeat 7%N 16));
     mkPayload false (B_NOTIFY 0 16388 [] [1; 2; 3]%N);
     mkPayload false (B_VENDOR [112; 121]%N)]
    [] None false.

Lemma example_msg_simple_wf : wf_msg example_msg_simple /\ simple_chain (m_payloads example_msg_simple).
Proof.
  split.
  - unfold wf_msg, example_msg_simple; cbn -[N.lt N.le]. repeat split; try reflexivity; try lia; try discriminate;
      repeat constructor; cbn; try lia; try discriminate.
  - unfold simple_chain, example_msg_simple; cbn. repeat constructor.
Qed.

(** non-vacuity of the full statements: the same message with a DELETE (two 4-octet SPIs), a TSi (an IPv4 and an
    IPv6 selector) and a TSr payload added *)
Definition example_msg : message :=
  mkMessage [1;2;3;4;5;6;7;8]%N [0;0;0;0;0;0;0;0]%N 2 0 34 false false true 0
    [mkPayload false (B_SA [mkProposal 1 1 [] [mkTransform 1 12 (Some 256%N); mkTransform 2 5 None;
                                               mkTransform 3 12 None; mkTransform 4 14 None]]);
     mkPayload false (B_KE 14 [9; 9; 9; 9]%N);
     mkPayload false (B_NONCE (repeat 7%N 16));
     mkPayload false (B_NOTIFY 0 16388 [] [1; 2; 3]%N);
     mkPayload false (B_DELETE 3 [[1; 2; 3; 4]; [5; 6; 7; 8]]%N);
     mkPayload false (B_TS true [mkTsel 7 6 0 65535 [10; 0; 0; 0]%N [10; 0; 0; 255]%N;
                                 mkTsel 8 0 0 65535 (repeat 0%N 16) (repeat 255%N 16)]);
     mkPayload false (B_TS false [mkTsel 7 17 500 500 [192; 168; 1; 1]%N [192; 168; 1; 1]%N]);
     mkPayload false (B_VENDOR [112; 121]%N)]
    [] None false.

Lemma example_msg_wf : wf_msg example_msg.
Proof.
  unfold wf_msg, example_msg; cbn -[N.lt N.le]. repeat split; try reflexivity; try lia; try discriminate;
    repeat constructor; cbn; try lia; try discriminate.
Qed.

(** the example does contain the two kinds of payload the partial statements exclude *)
Lemma example_msg_not_simple : ~ simple_chain (m_payloads example_msg).
Proof.
  unfold simple_chain, example_msg. cbn [m_payloads]. intros H.
  repeat match goal with H : Forall _ (_ :: _) |- _ => inversion H; clear H; subst end.
  cbn in *. assumption.
Qed.
