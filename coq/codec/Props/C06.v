(** C06 property theorems (nothing else lives here).  [decode dec mac c header_only data] is the model of
    Message.parse(data, header_only, crypto=c) with cipher.decrypt = dec and integrity.compute = mac;
    [iterations] counts the executions of every loop body of the parser. *)
From Coq Require Import List NArith.
From VLib Require Import Bytes.
From Codec Require Import Struct Codec MonadLemmas C06Proofs Toy.
Import ListNotations.

(** Parsing never runs out of the model's fuel: for ALL byte strings, both header_only values, with and without a
    crypto context (block size > 0), for any MAC and any cipher that does not decrypt a non-empty ciphertext to
    the empty string. *)
Theorem C06_terminates :
  forall (dec : bytes -> bytes -> bytes -> bytes) (mac : bytes -> bytes -> bytes),
    (forall k iv c, c <> [] -> dec k iv c <> []) ->
    forall c header_only data, crypto_ok c -> decode dec mac c header_only data <> Diverged.
Proof. exact decode_terminates. Qed.
Print Assumptions C06_terminates.

(** ... and the outcome is a message, InvalidSyntax or UnsupportedCriticalPayload - nothing else. *)
Theorem C06_protocol_errors_only :
  forall (dec : bytes -> bytes -> bytes -> bytes) (mac : bytes -> bytes -> bytes),
    (forall k iv c, c <> [] -> dec k iv c <> []) ->
    forall c header_only data, crypto_ok c ->
      (exists m, decode dec mac c header_only data = Ok m)
      \/ decode dec mac c header_only data = Raise InvalidSyntax
      \/ decode dec mac c header_only data = Raise UnsupportedCriticalPayload.
Proof. exact decode_protocol_errors_only. Qed.
Print Assumptions C06_protocol_errors_only.

(** Loop iterations are linear in the datagram length (octets below 256; decryption yields octets and does not
    lengthen the data). *)
Theorem C06_linear :
  forall (dec : bytes -> bytes -> bytes -> bytes) (mac : bytes -> bytes -> bytes),
    (forall k iv c, c <> [] -> dec k iv c <> []) ->
    forall c header_only data, crypto_ok c -> wf_bytes data -> dec_sane dec ->
      (iterations dec mac c header_only data <= 32770 * (N.of_nat (length data) + 1))%N.
Proof. exact decode_linear. Qed.
Print Assumptions C06_linear.

(** Without a crypto context no hypothesis on the primitives is needed at all. *)
Theorem C06_clear_terminates : forall dec mac header_only data, decode dec mac None header_only data <> Diverged.
Proof. exact decode_clear_terminates. Qed.
Print Assumptions C06_clear_terminates.

Theorem C06_clear_protocol_errors_only : forall dec mac header_only data,
  (exists m, decode dec mac None header_only data = Ok m)
  \/ decode dec mac None header_only data = Raise InvalidSyntax
  \/ decode dec mac None header_only data = Raise UnsupportedCriticalPayload.
Proof. exact decode_clear_protocol_errors_only. Qed.
Print Assumptions C06_clear_protocol_errors_only.

Theorem C06_clear_linear : forall dec mac header_only data, wf_bytes data ->
  (iterations dec mac None header_only data <= 16385 * (N.of_nat (length data) + 1))%N.
Proof. exact decode_clear_linear. Qed.
Print Assumptions C06_clear_linear.

(** Non-vacuity: the toy cipher of the correspondence runs satisfies the hypotheses. *)
Theorem C06_hypotheses_satisfiable :
  (forall k iv c, c <> [] -> toy_dec k iv c <> []) /\ dec_sane toy_dec.
Proof. exact toy_dec_ok. Qed.
Print Assumptions C06_hypotheses_satisfiable.
