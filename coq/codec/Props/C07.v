(** C07 property theorems (nothing else lives here). *)
From Coq Require Import List NArith Arith.
From VLib Require Import Bytes.
From Codec Require Import Gen.MessageTables Struct Codec Toy Rfc7296Layout C05Proofs C07Proofs C07Roundtrip.
Import ListNotations.

(** For every payload length, what PayloadSK.generate hands to the cipher is the payload bytes, then p zero
    octets, then the octet p, with 0 <= p < block size and a total that is a multiple of the block size. *)
Theorem C07_padding : forall c cleartext, (0 < c_bs c <= 256)%nat ->
  exists p : N,
    fst (sk_plaintext c cleartext) = Ok (cleartext ++ repeat 0%N (N.to_nat p) ++ [p])
    /\ (p < N.of_nat (c_bs c))%N
    /\ ((length cleartext + N.to_nat p + 1) mod c_bs c = 0)%nat.
Proof. exact sk_plaintext_spec. Qed.
Print Assumptions C07_padding.

(** The checksum of a protected datagram is integrity.compute(sk_a, .) over ALL octets before it (IKE header
    through the end of the ciphertext), and the header's length field - inside that MACed prefix - is the total
    length of the datagram.  ([28 + icv <= length d] always holds: header and checksum are part of d.) *)
Theorem C07_icv_is_mac_over_prefix : forall enc mac cr m d,
  (forall k x, length (mac k x) = c_icv cr) -> (0 < c_icv cr)%nat ->
  encode enc mac (Some cr) m = Ok d ->
  slice_from_neg d (c_icv cr) = mac (c_sk_a cr) (slice_to_neg d (c_icv cr))
  /\ ((28 + c_icv cr <= length d)%nat -> be_decode (slice d 24 28) = N.of_nat (length d)).
Proof. exact encode_icv. Qed.
Print Assumptions C07_icv_is_mac_over_prefix.

(** Round trip of protected messages.  [encode enc mac (Some cr) m] is Message.to_bytes() of a message whose crypto
    is [cr], [decode dec mac (Some cr) false d] is Message.parse(d, crypto=cr).  For every message whose header
    fields fit, whose cleartext payloads are a well-formed chain without an Encrypted payload, whose payloads to
    encrypt are a well-formed chain that encodes to octets, with a one-block IV ([wf_protected]) - both chains made
    of ANY payload bodies of the model (SA/KE/IDi/IDr/AUTH/NONCE/NOTIFY/DELETE/VENDOR/TSi/TSr), no further
    restriction - and for every cipher/MAC with the stated length and inversion properties: whatever to_bytes
    produces, parse gives back [received cr m] = the same nine header fields, the same cleartext payloads (the SK
    payload is popped), the same inner payloads; it differs from [m] exactly in iv := Some (the IV that was sent) and
    is_authenticated := True. *)
Theorem C07_roundtrip : forall enc dec mac cr m d,
  (0 < c_bs cr <= 256)%nat -> (0 < c_icv cr)%nat ->
  (forall k x, length (mac k x) = c_icv cr) ->
  (forall k iv p, length (enc k iv p) = length p) ->
  (forall k iv p, wf_bytes p -> (length p mod c_bs cr = 0)%nat -> dec k iv (enc k iv p) = p) ->
  wf_protected cr m ->
  encode enc mac (Some cr) m = Ok d ->
  decode dec mac (Some cr) false d =
    Ok (mkMessage (m_spi_i m) (m_spi_r m) (m_major m) (m_minor m) (m_exchange m) (m_is_response m) (m_higher m)
                  (m_is_initiator m) (m_id m) (m_payloads m) (m_enc_payloads m)
                  (Some (match m_iv m with Some iv => iv | None => c_new_iv cr end)) true).
Proof. exact roundtrip_protected. Qed.
Print Assumptions C07_roundtrip.

(** ... and to_bytes does succeed whenever the SK payload fits its 16-bit and the datagram its 32-bit length field
    (sufficient bounds: the padding adds at most one block), so, as in C05: *)
Theorem C07_roundtrip_exists : forall enc dec mac cr m,
  (0 < c_bs cr <= 256)%nat -> (0 < c_icv cr)%nat ->
  (forall k x, length (mac k x) = c_icv cr) ->
  (forall k iv p, length (enc k iv p) = length p) ->
  (forall k iv p, wf_bytes p -> (length p mod c_bs cr = 0)%nat -> dec k iv (enc k iv p) = p) ->
  wf_protected cr m ->
  let sk_max := (c_bs cr + (length (rfc_chain (m_enc_payloads m)) + c_bs cr) + c_icv cr)%nat in
  (4 + N.of_nat sk_max < 65536)%N ->
  (28 + len_of (rfc_chain (m_payloads m)) + 4 + N.of_nat sk_max < 4294967296)%N ->
  exists d, encode enc mac (Some cr) m = Ok d /\ decode dec mac (Some cr) false d = Ok (received cr m).
Proof. exact roundtrip_protected_exists. Qed.
Print Assumptions C07_roundtrip_exists.

(** The wire layout of a protected datagram: the RFC 7296 layout (C05's independent [rfc_encode]) of the cleartext
    message whose last payload is SK(iv ++ E(inner chain ++ p zero octets ++ octet p) ++ checksum). *)
Theorem C07_layout : forall enc mac cr m d,
  (forall k x, length (mac k x) = c_icv cr) -> (0 < c_icv cr)%nat -> (0 < c_bs cr <= 256)%nat ->
  (forall k iv p, length (enc k iv p) = length p) ->
  wf_protected cr m ->
  encode enc mac (Some cr) m = Ok d ->
  exists (p : N) (tag : bytes),
    let clr := rfc_chain (m_enc_payloads m) in
    let pt := clr ++ repeat 0%N (N.to_nat p) ++ [p] in
    let iv := sent_iv cr m in
    let m1 := with_payloads m (m_payloads m ++
                 [sk_payload (iv ++ enc (c_sk_e cr) iv pt ++ tag) (rfc_first (m_enc_payloads m))]) in
    (p < N.of_nat (c_bs cr))%N /\ (length pt mod c_bs cr = 0)%nat /\ length tag = c_icv cr
    /\ wf_msg m1 /\ d = rfc_encode m1.
Proof. exact encode_protected_layout. Qed.
Print Assumptions C07_layout.

(** Acceptance condition, for ALL byte strings d: whatever d is, if Message.parse(d, crypto=cr) returns a message
    flagged is_authenticated then the last hash_size octets of d are integrity.compute(sk_a, all octets before them). *)
Theorem C07_accept_only_with_valid_mac : forall dec mac cr d m',
  decode dec mac (Some cr) false d = Ok m' -> m_authenticated m' = true ->
  slice_from_neg d (c_icv cr) = mac (c_sk_a cr) (slice_to_neg d (c_icv cr)).
Proof. exact accepted_has_valid_mac. Qed.
Print Assumptions C07_accept_only_with_valid_mac.

(** ... and exactly: d is accepted as authenticated iff it holds a whole header, the payload chain announced by the
    header's Next Payload octet ends with an Encrypted payload, the checksum is valid, PayloadSK.decrypt succeeds and
    the decrypted content parses as a payload chain. *)
Theorem C07_accept_iff : forall dec mac cr d,
  (exists m', decode dec mac (Some cr) false d = Ok m' /\ m_authenticated m' = true)
  <-> ((hdr_size <= length d)%nat
       /\ slice_from_neg d (c_icv cr) = mac (c_sk_a cr) (slice_to_neg d (c_icv cr))
       /\ exists ps0 crit c next iv clr eps,
            fst (parse_payloads (slice_from d hdr_size) (hdr_first d)) = Ok (ps0 ++ [mkPayload crit (B_SK c next)])
            /\ fst (sk_decrypt dec cr c) = Ok (iv, clr)
            /\ fst (parse_payloads clr next) = Ok eps).
Proof. exact accept_iff. Qed.
Print Assumptions C07_accept_iff.

(** Every successful parse with crypto, exhaustively: flagged authenticated (then as above), or NOT flagged - the
    chain announced by the header is empty or does not end with an Encrypted payload, nothing was verified, the
    message carries that chain and no inner payloads (F17: parse RETURNS such messages; callers must test
    is_authenticated). *)
Theorem C07_parse_cases : forall dec mac cr d m',
  decode dec mac (Some cr) false d = Ok m' ->
  (hdr_size <= length d)%nat /\
  exists ps, fst (parse_payloads (slice_from d hdr_size) (hdr_first d)) = Ok ps /\
    ((m_authenticated m' = true
      /\ slice_from_neg d (c_icv cr) = mac (c_sk_a cr) (slice_to_neg d (c_icv cr))
      /\ exists crit c next iv clr,
           ps = m_payloads m' ++ [mkPayload crit (B_SK c next)]
           /\ fst (sk_decrypt dec cr c) = Ok (iv, clr) /\ m_iv m' = Some iv
           /\ fst (parse_payloads clr next) = Ok (m_enc_payloads m'))
     \/ (m_authenticated m' = false /\ last_not_sk ps
         /\ m_payloads m' = ps /\ m_enc_payloads m' = [] /\ m_iv m' = Some (c_new_iv cr))).
Proof. exact decode_cases. Qed.
Print Assumptions C07_parse_cases.

(** Any change is detected or is a forgery.  d was sent under cr; d' is ANY other byte string (octets changed,
    truncated, extended); the receiver's context cr' has the same or another sk_a and the same checksum length.  If
    parse accepts d' as authenticated, then the last octets of d' are a valid checksum under the receiver's key of the
    octets before them, and that (message, checksum) pair is not the one the sender produced. *)
Theorem C07_any_change_detected : forall enc dec mac cr cr' m d d' m',
  (forall k x, length (mac k x) = c_icv cr) -> (0 < c_icv cr)%nat -> c_icv cr' = c_icv cr ->
  encode enc mac (Some cr) m = Ok d ->
  d' <> d ->
  decode dec mac (Some cr') false d' = Ok m' -> m_authenticated m' = true ->
  let n := c_icv cr in
  slice_from_neg d n = mac (c_sk_a cr) (slice_to_neg d n)
  /\ slice_from_neg d' n = mac (c_sk_a cr') (slice_to_neg d' n)
  /\ (slice_to_neg d' n, slice_from_neg d' n) <> (slice_to_neg d n, slice_from_neg d n).
Proof. exact any_change_is_forgery. Qed.
Print Assumptions C07_any_change_detected.

(** Sub-case: same octets before the checksum, same sk_a, anything else different: never accepted as authenticated. *)
Theorem C07_same_prefix_other_tag_not_accepted : forall enc dec mac cr cr' m d d' m',
  (forall k x, length (mac k x) = c_icv cr) -> (0 < c_icv cr)%nat -> c_icv cr' = c_icv cr ->
  c_sk_a cr' = c_sk_a cr ->
  encode enc mac (Some cr) m = Ok d ->
  d' <> d -> slice_to_neg d' (c_icv cr) = slice_to_neg d (c_icv cr) ->
  decode dec mac (Some cr') false d' = Ok m' -> m_authenticated m' = false.
Proof. exact same_prefix_other_tag_not_accepted. Qed.
Print Assumptions C07_same_prefix_other_tag_not_accepted.

(** All outcomes for a modified protected datagram that parse does not reject: accepted as authenticated (forgery),
    or returned NOT authenticated, without inner payloads, because the modified header announces a chain that does
    not end with an Encrypted payload. *)
Theorem C07_modified_datagram_cases : forall enc dec mac cr cr' m d d' m',
  (forall k x, length (mac k x) = c_icv cr) -> (0 < c_icv cr)%nat -> c_icv cr' = c_icv cr ->
  encode enc mac (Some cr) m = Ok d -> d' <> d ->
  decode dec mac (Some cr') false d' = Ok m' ->
  (m_authenticated m' = true
   /\ slice_from_neg d' (c_icv cr) = mac (c_sk_a cr') (slice_to_neg d' (c_icv cr))
   /\ (slice_to_neg d' (c_icv cr), slice_from_neg d' (c_icv cr)) <> (slice_to_neg d (c_icv cr), slice_from_neg d (c_icv cr)))
  \/ (m_authenticated m' = false /\ m_enc_payloads m' = []
      /\ fst (parse_payloads (slice_from d' hdr_size) (hdr_first d')) = Ok (m_payloads m')
      /\ last_not_sk (m_payloads m')).
Proof. exact modified_datagram_cases. Qed.
Print Assumptions C07_modified_datagram_cases.

(** "Every modification of a protected datagram makes parse raise" is FALSE of the codec (F17): with the toy
    primitives, the protected INFORMATIONAL datagram without inner payloads whose header Next Payload octet is changed
    from 46 to 43 is returned by parse, unauthenticated, with the SK body as a Vendor ID payload. *)
Theorem C07_modified_returned_unauthenticated_refuted :
  exists cr m d d' m',
    encode toy_enc (toy_mac (c_icv cr)) (Some cr) m = Ok d /\ d' <> d /\ length d' = length d
    /\ decode toy_dec (toy_mac (c_icv cr)) (Some cr) false d' = Ok m'
    /\ m_authenticated m' = false /\ m_enc_payloads m' = [] /\ m_payloads m' <> [].
Proof. exact modified_returned_unauthenticated_refuted. Qed.
Print Assumptions C07_modified_returned_unauthenticated_refuted.

(** Non-vacuity: the toy primitives and a concrete IKE_AUTH-like message, whose encrypted payloads include a DELETE, a
    TSi (IPv4 and IPv6 selector) and a TSr payload (so the inner chain is outside C05's earlier [simple_chain]
    restriction), satisfy every hypothesis of C07_roundtrip, to_bytes succeeds (263 octets) and the conclusion
    evaluates to true. *)
Theorem C07_hypotheses_satisfiable :
  let cr := ex_cr in let mac := toy_mac (c_icv cr) in
  ((0 < c_bs cr <= 256)%nat /\ (0 < c_icv cr)%nat
   /\ (forall k x, length (mac k x) = c_icv cr)
   /\ (forall k iv p, length (toy_enc k iv p) = length p)
   /\ (forall k iv p, wf_bytes p -> (length p mod c_bs cr = 0)%nat -> toy_dec k iv (toy_enc k iv p) = p)
   /\ wf_protected cr ex_m)
  /\ ~ simple_chain (m_enc_payloads ex_m)
  /\ encode toy_enc mac (Some cr) ex_m = Ok (ex_encode cr ex_m)
  /\ (length (ex_encode cr ex_m) = 263)%nat
  /\ decode toy_dec mac (Some cr) false (ex_encode cr ex_m) = Ok (received cr ex_m).
Proof. exact roundtrip_protected_nonvacuous. Qed.
Print Assumptions C07_hypotheses_satisfiable.

(* Coverage: the protected round trip, its existence form and the protected layout hold for every well-formed
   message whose cleartext and encrypted chains contain any payload bodies, DELETE and TSi/TSr included (via C05's
   [body_ok_chain]); no [simple_chain] restriction remains.  Not covered by a theorem: the real AES-CBC/HMAC
   primitives (Section variables here, with the stated length/inversion hypotheses); they are exercised by the
   correspondence (toy primitives) and by the oracle on the real AES-CBC/HMAC classes. *)
