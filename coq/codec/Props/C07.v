(** C07 property theorems (nothing else lives here). *)
From Coq Require Import List NArith Arith.
From VLib Require Import Bytes.
From Codec Require Import Struct Codec C07Proofs.
Import ListNotations.

(** For every payload length, what PayloadSK.generate hands to the cipher is the payload bytes, then p zero
    octets, then the octet p, with 0 <= p < block size and a total that is a multiple of the block size. *)
Theorem C07_padding : forall c cleartext, (0 < c_bs c <= 256)%nat ->
  exists p : N,
    fst (sk_plaintext c cleartext) = Ok (cleartext ++ repeat 0%N (N.to_nat p) ++ [p])
    /\ (p < N.of_nat (c_bs c))%N
    /\ ((length cleartext + N.to_nat p + 1) mod c_bs c = 0)%nat.
Proof. exact sk_plaintext_spec. Qed.
Print Assumptions C07_padding.

(** The checksum of a protected datagram is integrity.compute(sk_a, .) over ALL octets before it (IKE header
    through the end of the ciphertext), and the header's length field - inside that MACed prefix - is the total
    length of the datagram.  ([28 + icv <= length d] always holds: header and checksum are part of d.) *)
Theorem C07_icv_is_mac_over_prefix : forall enc mac cr m d,
  (forall k x, length (mac k x) = c_icv cr) -> (0 < c_icv cr)%nat ->
  encode enc mac (Some cr) m = Ok d ->
  slice_from_neg d (c_icv cr) = mac (c_sk_a cr) (slice_to_neg d (c_icv cr))
  /\ ((28 + c_icv cr <= length d)%nat -> be_decode (slice d 24 28) = N.of_nat (length d)).
Proof. exact encode_icv. Qed.
Print Assumptions C07_icv_is_mac_over_prefix.

(* Not reached (DESIGN section 6): C07_roundtrip, C07_accept_iff / C07_any_change_is_forgery as theorems; they
   are covered by the correspondence (toy primitives) and by the oracle on the real AES-CBC/HMAC classes. *)
