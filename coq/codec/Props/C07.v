(** C07 property theorems (nothing else lives here). *)
From Coq Require Import List NArith Arith.
From VLib Require Import Bytes.
From Codec Require Import Struct Codec C07Proofs.
Import ListNotations.

(** For every payload length, what PayloadSK.generate hands to the cipher is the payload bytes, then p zero
    octets, then the octet p, with 0 <= p < block size and a total that is a multiple of the block size. *)
Theorem C07_padding : forall c cleartext, (0 < c_bs c <= 256)%nat ->
  exists p : N,
    fst (sk_plaintext c cleartext) = Ok (cleartext ++ repeat 0%N (N.to_nat p) ++ [p])
    /\ (p < N.of_nat (c_bs c))%N
    /\ ((length cleartext + N.to_nat p + 1) mod c_bs c = 0)%nat.
Proof. exact sk_plaintext_spec. Qed.
Print Assumptions C07_padding.
