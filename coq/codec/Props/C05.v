(** C05 property theorems (nothing else lives here).
    [encode enc mac None m] models Message.to_bytes() of a message without crypto, [decode dec mac None false b]
    models Message.parse(b); [rfc_encode] is the independent RFC 7296 section 3 layout (Rfc7296Layout.v). *)
From Coq Require Import List NArith.
From VLib Require Import Bytes.
From Codec Require Import Gen.MessageTables Struct Codec MonadLemmas Rfc7296Layout C05Proofs.
Import ListNotations.

(** The regenerated tables (payload/exchange/transform/protocol/TS/notify/ID/AUTH numbers, the dispatch table,
    attribute 14|AF, "more" markers 2/3, flag masks 0x20/0x10/0x08, address widths, header size) are the IANA /
    RFC 7296 values written literally in Rfc7296Layout.v. *)
Theorem C05_gen_tables : gen_tables_agree.
Proof. exact gen_tables_agree_proof. Qed.
Print Assumptions C05_gen_tables.

(** Full statements (DESIGN section 6): every well-formed message in the clear - payloads SA (nested proposals,
    transforms with/without key length, any SPI size), KE, IDi, IDr, AUTH, NONCE, NOTIFY, DELETE (any number of
    equally sized SPIs), VENDOR, TSi, TSr (any number of IPv4/IPv6 selectors) and a trailing SK - unbounded in the
    number of payloads, proposals, transforms, SPIs and selectors. *)
Theorem C05_layout : forall enc mac m, wf_msg m -> encode enc mac None m = Ok (rfc_encode m).
Proof. exact layout_full. Qed.
Print Assumptions C05_layout.

Theorem C05_roundtrip : forall enc dec mac m, wf_msg m ->
  exists b, encode enc mac None m = Ok b /\ decode dec mac None false b = Ok m.
Proof. exact roundtrip_full. Qed.
Print Assumptions C05_roundtrip.

(** The earlier restricted statements ([simple_chain] excludes DELETE and TSi/TSr); kept, implied by the full ones. *)
Theorem C05_layout_partial : forall enc mac m, wf_msg m -> simple_chain (m_payloads m) ->
  encode enc mac None m = Ok (rfc_encode m).
Proof. exact layout_partial. Qed.
Print Assumptions C05_layout_partial.

Theorem C05_roundtrip_partial : forall enc dec mac m, wf_msg m -> simple_chain (m_payloads m) ->
  exists b, encode enc mac None m = Ok b /\ decode dec mac None false b = Ok m.
Proof. exact roundtrip_partial. Qed.
Print Assumptions C05_roundtrip_partial.

(** SA payloads of any shape: layout and round trip of the nested proposal / transform / attribute structure. *)
Theorem C05_sa_layout : forall ps, Forall wf_proposal ps -> fst (body_to_bytes (B_SA ps)) = Ok (rfc_proposals ps).
Proof. intros ps H. rewrite (sa_layout ps H). reflexivity. Qed.
Print Assumptions C05_sa_layout.

Theorem C05_sa_roundtrip : forall ps, ps <> [] -> Forall wf_proposal ps ->
  fst (parse_sa (rfc_proposals ps)) = Ok (B_SA ps).
Proof. exact sa_roundtrip. Qed.
Print Assumptions C05_sa_roundtrip.

(** Non-vacuity of the hypotheses: [example_msg] carries SA, KE, NONCE, NOTIFY, DELETE, TSi, TSr and VENDOR payloads
    (so it is outside [simple_chain]); [example_msg_simple] is the DELETE/TS-free message of the partial statements. *)
Theorem C05_full_hypotheses_satisfiable : wf_msg example_msg /\ ~ simple_chain (m_payloads example_msg).
Proof. exact (conj example_msg_wf example_msg_not_simple). Qed.
Print Assumptions C05_full_hypotheses_satisfiable.

Theorem C05_hypotheses_satisfiable : wf_msg example_msg_simple /\ simple_chain (m_payloads example_msg_simple).
Proof. exact example_msg_simple_wf. Qed.
Print Assumptions C05_hypotheses_satisfiable.
