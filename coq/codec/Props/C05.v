(** C05 property theorems (nothing else lives here). *)
From Coq Require Import List NArith.
From VLib Require Import Bytes.
From Codec Require Import Gen.MessageTables Struct Codec MonadLemmas Rfc7296Layout C05Proofs.
Import ListNotations.

(** The regenerated tables (payload/exchange/transform/protocol/TS/notify/ID/AUTH numbers, the dispatch table,
    attribute 14|AF, "more" markers 2/3, flag masks 0x20/0x10/0x08, address widths, header size) are the IANA /
    RFC 7296 values written literally in Rfc7296Layout.v. *)
Theorem C05_gen_tables : gen_tables_agree.
Proof. exact gen_tables_agree_proof. Qed.
Print Assumptions C05_gen_tables.
