(** C06: Message.parse terminates, raises protocol errors only, and runs a linear number of loop iterations. *)
From Coq Require Import List NArith Arith Bool PeanoNat Lia ZifyBool ZifyNat ZifyN.
From VLib Require Import Bytes.
From Codec Require Import Gen.MessageTables Struct Codec MonadLemmas.
Import ListNotations.
Open Scope m_scope.

Local Ltac unpack_step :=
  rewrite ?bind_unpack;
  cbv [fmt_size fmt_Transform_parse_0 fmt_Transform_parse_1 fmt_Proposal_parse_0 fmt_Proposal_parse_1
       fmt_PayloadSA_parse_0 fmt_PayloadKE_parse_0 fmt_PayloadID_parse_0 fmt_PayloadAUTH_parse_0
       fmt_PayloadNOTIFY_parse_0 fmt_PayloadDELETE_parse_0 fmt_PayloadTS_parse_0 fmt_PayloadTS_parse_1
       fmt_TrafficSelector_parse_0 fmt_Message_parse_payloads_0 fmt_Message_parse_0 unpack_fields].

Lemma attr_loop_good fuel data ty id off :
  (length data - off < fuel)%nat ->
  good (N.of_nat (length data - off)) (attr_loop fuel data ty id off).
Proof.
  revert off. induction fuel as [|f IH]; intros off Hf; [lia|].
  cbn [attr_loop]. destruct (off <? length data)%nat eqn:Hlt; [| apply good_ret].
  eapply good_le; [apply good_tick_bind|].
  - unpack_step. destruct (off + _ <=? length data)%nat eqn:Hsz; [| apply good_raise_is].
    destruct (transform_attr_is_keylen _); [apply good_ret|].
    apply IH. lia.
  - lia.
Qed.

Lemma parse_transform_good data : good (N.of_nat (length data)) (parse_transform data).
Proof.
  unfold parse_transform. unpack_step. destruct (_ <=? _)%nat; [| apply good_raise_is].
  eapply good_le; [apply attr_loop_good; lia | lia].
Qed.

Lemma parse_transform_ok_len data t : fst (parse_transform data) = Ok t -> (4 <= length data)%nat.
Proof.
  unfold parse_transform. unpack_step. destruct (_ <=? _)%nat eqn:E; [lia | discriminate].
Qed.

Lemma transforms_loop_good fuel data off :
  (length data - off < fuel)%nat ->
  good (N.of_nat (length data - off)) (transforms_loop fuel data off).
Proof.
  revert off. induction fuel as [|f IH]; intros off Hf; [lia|].
  cbn [transforms_loop]. destruct (off <? length data)%nat eqn:Hlt; [| apply good_ret].
  apply good_tick_le with (b := (N.of_nat (length data - off) - 1)%N); [| lia].
  unpack_step. destruct (off + _ <=? length data)%nat eqn:Hsz; [| apply good_raise_is].
  cbn [fmt_size] in Hsz.
  set (len := N.to_nat _).
  pose proof (slice_len_le data (off + 4) (off + len)) as Hs1.
  pose proof (slice_len_le2 data (off + 4) (off + len)) as Hs2.
  apply good_bind_le with (a := N.of_nat (length (slice data (off + 4) (off + len))))
                          (b := (N.of_nat (length data - off) - 1 - N.of_nat (length (slice data (off + 4) (off + len))))%N);
    [apply parse_transform_good | | lia].
  intros t Ht. apply parse_transform_ok_len in Ht.
  apply good_bind_ret. eapply good_le; [apply IH; lia | lia].
Qed.

Lemma new_proposal_good num proto spi ts : good 0 (new_proposal num proto spi ts).
Proof. unfold new_proposal. destruct (_ =? _)%nat; [apply good_raise_is | apply good_ret]. Qed.

Lemma parse_proposal_good data : good (N.of_nat (length data)) (parse_proposal data).
Proof.
  unfold parse_proposal. unpack_step. destruct (_ <=? _)%nat eqn:Hsz; [| apply good_raise_is].
  cbn [fmt_size] in Hsz.
  set (off := (4 + _)%nat).
  apply good_bind_le with (a := N.of_nat (length data - off)) (b := 0%N); [apply transforms_loop_good; lia | | lia].
  intros ts _. destruct (negb _); [apply good_raise_is | apply new_proposal_good].
Qed.

Lemma parse_proposal_ok_len data p : fst (parse_proposal data) = Ok p -> (4 <= length data)%nat.
Proof.
  unfold parse_proposal. unpack_step. destruct (_ <=? _)%nat eqn:E; [cbn [fmt_size] in E; lia | discriminate].
Qed.

Lemma proposals_loop_good fuel data off :
  (length data - off < fuel)%nat ->
  good (N.of_nat (length data - off)) (proposals_loop fuel data off).
Proof.
  revert off. induction fuel as [|f IH]; intros off Hf; [lia|].
  cbn [proposals_loop]. destruct (off <? length data)%nat eqn:Hlt; [| apply good_ret].
  apply good_tick_le with (b := (N.of_nat (length data - off) - 1)%N); [| lia].
  unpack_step. destruct (off + _ <=? length data)%nat eqn:Hsz; [| apply good_raise_is].
  cbn [fmt_size] in Hsz.
  set (len := N.to_nat _).
  pose proof (slice_len_le data (off + 4) (off + len)) as Hs1.
  pose proof (slice_len_le2 data (off + 4) (off + len)) as Hs2.
  apply good_bind_le with (a := N.of_nat (length (slice data (off + 4) (off + len))))
                          (b := (N.of_nat (length data - off) - 1 - N.of_nat (length (slice data (off + 4) (off + len))))%N);
    [apply parse_proposal_good | | lia].
  intros t Ht. apply parse_proposal_ok_len in Ht.
  apply good_bind_ret. eapply good_le; [apply IH; lia | lia].
Qed.

Lemma parse_sa_good data : good (N.of_nat (length data)) (parse_sa data).
Proof.
  unfold parse_sa.
  apply good_bind_le with (a := N.of_nat (length data - 0)) (b := 0%N); [apply proposals_loop_good; lia | | lia].
  intros ps _. unfold new_sa. destruct (_ =? _)%nat; [apply good_raise_is | apply good_ret].
Qed.

(** the payloads without loops *)
Lemma parse_ke_good data : good 0 (parse_ke data).
Proof. unfold parse_ke. unpack_step. destruct (_ <=? _)%nat; [apply good_ret | apply good_raise_is]. Qed.
Lemma parse_id_good i data : good 0 (parse_id i data).
Proof. unfold parse_id. unpack_step. destruct (_ <=? _)%nat; [apply good_ret | apply good_raise_is]. Qed.
Lemma parse_auth_good data : good 0 (parse_auth data).
Proof. unfold parse_auth. unpack_step. destruct (_ <=? _)%nat; [apply good_ret | apply good_raise_is]. Qed.
Lemma parse_notify_good data : good 0 (parse_notify data).
Proof. unfold parse_notify. unpack_step. destruct (_ <=? _)%nat; [apply good_ret | apply good_raise_is]. Qed.
Lemma new_nonce_good data : good 0 (new_nonce data).
Proof. unfold new_nonce. destruct (nonce_length_bad _); [apply good_raise_is | apply good_ret]. Qed.
Lemma new_vendor_good data : good 0 (new_vendor data).
Proof. unfold new_vendor. destruct (_ =? _)%nat; [apply good_raise_is | apply good_ret]. Qed.

Lemma delete_spis_good n data off size : good (N.of_nat n) (delete_spis n data off size).
Proof.
  revert off. induction n as [|n IH]; intros off; [apply good_ret|].
  cbn [delete_spis]. apply good_tick_le with (b := N.of_nat n); [| lia].
  apply good_bind_ret. apply IH.
Qed.

Lemma wf_firstn n (l : bytes) : wf_bytes l -> wf_bytes (firstn n l).
Proof.
  unfold wf_bytes. revert l. induction n as [|n IH]; intros l H; [constructor|].
  destruct l; [constructor|]. inversion H; subst. cbn. constructor; auto.
Qed.
Lemma wf_skipn n (l : bytes) : wf_bytes l -> wf_bytes (skipn n l).
Proof.
  unfold wf_bytes. revert l. induction n as [|n IH]; intros l H; [exact H|].
  destruct l; [constructor|]. inversion H; subst. cbn. auto.
Qed.
Lemma wf_slice (l : bytes) a b : wf_bytes l -> wf_bytes (slice l a b).
Proof. intros. unfold slice. apply wf_firstn, wf_skipn. assumption. Qed.

Lemma be_decode_2_bound (l : bytes) : wf_bytes l -> (be_decode (firstn 2 l) < 65536)%N.
Proof.
  intros Hwf. pose proof (be_decode_bound _ (wf_firstn 2 l Hwf)) as Hb. rewrite firstn_length in Hb.
  assert (256 ^ N.of_nat (Nat.min 2 (length l)) <= 65536)%N.
  { destruct (Nat.min 2 (length l)) as [|[|[|k]]] eqn:E; try (cbn; lia). }
  lia.
Qed.

Lemma parse_delete_good data : goodP (wf_bytes data) 65535 (parse_delete data).
Proof.
  unfold parse_delete. unpack_step. destruct (_ <=? _)%nat; [| apply goodP_of_good, good_raise_is].
  set (n := be_decode _).
  apply goodP_bind_ret. split; [apply delete_spis_good|].
  intros Hwf. pose proof (delete_spis_good (N.to_nat n) data 4 (be_decode (firstn 1 (skipn 1 (skipn 0 data))))) as [_ Hb].
  assert (n < 65536)%N by (apply be_decode_2_bound; repeat apply wf_skipn; exact Hwf).
  lia.
Qed.

(** TrafficSelector.parse: InvalidSyntax, or a selector; ip_address never sees a length other than 4 or 16 *)
Lemma ts_addr_len_cases ty : ts_addr_len_parse ty = 4%N \/ ts_addr_len_parse ty = 16%N.
Proof. unfold ts_addr_len_parse. destruct (N.eqb _ _); auto. Qed.

Lemma ip_address_ok b : (length b = 4 \/ length b = 16)%nat -> ip_address b = ret b.
Proof. unfold ip_address. intros [H|H]; rewrite H; reflexivity. Qed.

Lemma parse_tsel_good data : good 0 (parse_tsel data).
Proof.
  unfold parse_tsel.
  rewrite bind_unpack_plain.
  cbv [fmt_TrafficSelector_parse_0 unpack_fields].
  destruct (0 + fmt_size _ <=? length data)%nat eqn:H1; [| apply good_raise_is].
  cbn [fmt_size] in H1.
  rewrite bind_unpack_plain.
  set (ty := be_decode (firstn 1 (skipn 0 data))).
  set (n := N.to_nat (ts_addr_len_parse ty)).
  assert (Hn : n = 4%nat \/ n = 16%nat) by (destruct (ts_addr_len_cases ty) as [E|E]; unfold n; rewrite E; [left | right]; reflexivity).
  cbv [fmt_TrafficSelector_parse_1 unpack_fields].
  destruct (ts_addr_offset + fmt_size _ <=? length data)%nat eqn:H2; [| apply good_raise_is].
  cbv [ts_addr_offset] in *. cbn [fmt_size] in H2.
  unfold except_raise. cbn [ret fst snd]. rewrite bind_ret_l. cbn [ts_saddr ts_eaddr ts_type ts_proto ts_sport ts_eport].
  rewrite !ip_address_ok.
  - rewrite !bind_ret_l. apply good_ret.
  - rewrite firstn_length, !skipn_length. lia.
  - rewrite firstn_length, !skipn_length. lia.
Qed.

Lemma parse_tsel_ok_len data t : fst (parse_tsel data) = Ok t -> (1 <= length data)%nat.
Proof.
  unfold parse_tsel. rewrite bind_unpack_plain.
  destruct (0 + fmt_size _ <=? length data)%nat eqn:H1; [cbn [fmt_size fmt_TrafficSelector_parse_0] in H1; lia | discriminate].
Qed.

Lemma tsels_loop_good fuel data off :
  (length data - off < fuel)%nat ->
  good (N.of_nat (length data - off)) (tsels_loop fuel data off).
Proof.
  revert off. induction fuel as [|f IH]; intros off Hf; [lia|].
  cbn [tsels_loop]. destruct (off <? length data)%nat eqn:Hlt; [| apply good_ret].
  apply good_tick_le with (b := (N.of_nat (length data - off) - 1)%N); [| lia].
  unpack_step. destruct (off + _ <=? length data)%nat eqn:Hsz; [| apply good_raise_is].
  cbn [fmt_size] in Hsz.
  set (len := N.to_nat _).
  pose proof (slice_len_le data off (off + len)) as Hs1.
  apply good_bind_le with (a := 0%N) (b := (N.of_nat (length data - off) - 1)%N); [apply parse_tsel_good | | lia].
  intros t Ht. apply parse_tsel_ok_len in Ht.
  apply good_bind_ret. eapply good_le; [apply IH; lia | lia].
Qed.

Lemma parse_ts_good i data : good (N.of_nat (length data)) (parse_ts i data).
Proof.
  unfold parse_ts. unpack_step. destruct (_ <=? _)%nat eqn:Hsz; [| apply good_raise_is].
  apply good_bind_le with (a := N.of_nat (length data - 4)) (b := 0%N); [apply tsels_loop_good; lia | | lia].
  intros ts _. destruct (negb _); [apply good_raise_is | apply good_ret].
Qed.

Lemma parse_body_good c data : goodP (wf_bytes data) (N.of_nat (length data) + 65535) (parse_body c data).
Proof.
  destruct c; cbn [parse_body].
  - apply goodP_of_good; eapply good_le; [apply parse_sa_good | lia].
  - apply goodP_of_good; eapply good_le; [apply parse_ke_good | lia].
  - apply goodP_of_good; eapply good_le; [apply parse_id_good | lia].
  - apply goodP_of_good; eapply good_le; [apply parse_id_good | lia].
  - apply goodP_of_good; eapply good_le; [apply parse_auth_good | lia].
  - apply goodP_of_good; eapply good_le; [apply new_nonce_good | lia].
  - apply goodP_of_good; eapply good_le; [apply new_vendor_good | lia].
  - apply goodP_of_good; eapply good_le; [apply parse_notify_good | lia].
  - apply goodP_of_good; eapply good_le; [apply parse_ts_good | lia].
  - apply goodP_of_good; eapply good_le; [apply parse_ts_good | lia].
  - apply goodP_of_good, good_ret.
  - eapply goodP_le; [apply parse_delete_good | lia].
Qed.

Definition chain_bound (data : bytes) (off : nat) : N :=
  if (off <=? length data)%nat then 16385 * N.of_nat (length data - off) + 1 else 1.

Lemma payloads_loop_good fuel data off pt :
  (1 <= fuel)%nat -> ((off <= length data)%nat -> (length data + 2 <= fuel + off)%nat) ->
  goodP (wf_bytes data) (chain_bound data off) (payloads_loop fuel data off pt).
Proof.
  revert off pt. induction fuel as [|f IH]; intros off pt Hf1 Hf2; [lia|].
  cbn [payloads_loop]. destruct (negb (N.eqb pt Payload_Type_NONE)).
  2:{ apply goodP_of_good. destruct (negb _); [apply good_raise_is | apply good_ret]. }
  apply goodP_tick_le with (b := (chain_bound data off - 1)%N); [| unfold chain_bound; intros; split_ifs; lia].
  unpack_step. destruct (off + _ <=? length data)%nat eqn:Hsz; [| apply goodP_of_good, good_raise_is].
  cbn [fmt_size] in Hsz.
  set (len := be_decode (firstn 2 _)).
  destruct (payload_length_bad len) eqn:Hlen; [apply goodP_of_good, good_raise_is|].
  unfold payload_length_bad in Hlen.
  set (sl := slice data (off + 4) (off + N.to_nat len)).
  pose proof (slice_len_le data (off + 4) (off + N.to_nat len)) as Hs1.
  pose proof (slice_len_le2 data (off + 4) (off + N.to_nat len)) as Hs2.
  fold sl in Hs1, Hs2.
  assert (Hrec : forall pt', goodP (wf_bytes data) (chain_bound data (off + N.to_nat len))
                                   (payloads_loop f data (off + N.to_nat len) pt')).
  { intros pt'. apply IH; lia. }
  assert (Hbound : (N.of_nat (length sl) + 65535 + chain_bound data (off + N.to_nat len)
                    <= chain_bound data off - 1)%N).
  { unfold chain_bound. split_ifs; lia. }
  unfold parse_one. destruct (lookup pt type_2_payload) as [cls|].
  - pose proof (parse_body_good cls sl) as Hb.
    destruct Hb as [Hsafe Hticks].
    assert (Hb : goodP (wf_bytes data) (N.of_nat (length sl) + 65535) (parse_body cls sl)).
    { split; [exact Hsafe | intros Hwf; apply Hticks, wf_slice, Hwf]. }
    destruct (fst (parse_body cls sl)) as [b|e|] eqn:Eb; [| destruct e; try destruct Hsafe |destruct Hsafe].
    + apply goodP_bind_le with (a := (N.of_nat (length sl) + 65535)%N) (b := chain_bound data (off + N.to_nat len));
        [exact Hb | | intros; exact Hbound].
      intros x _. apply goodP_bind_ret. apply Hrec.
    + apply goodP_bind_le with (a := (N.of_nat (length sl) + 65535)%N) (b := chain_bound data (off + N.to_nat len));
        [exact Hb | rewrite Eb; discriminate | intros; exact Hbound].
    + apply goodP_bind_le with (a := (N.of_nat (length sl) + 65535)%N) (b := chain_bound data (off + N.to_nat len));
        [exact Hb | rewrite Eb; discriminate | intros; exact Hbound].
  - cbn [raise fst snd].
    apply goodP_bind_le with (a := 0%N) (b := chain_bound data (off + N.to_nat len)).
    + split; cbn; [exact I | lia].
    + intros _ _. destruct (payload_critical_of _); [apply goodP_of_good, good_raise_ucp | apply Hrec].
    + intros; lia.
Qed.

Lemma parse_payloads_good data first :
  goodP (wf_bytes data) (16385 * N.of_nat (length data) + 1) (parse_payloads data first).
Proof.
  unfold parse_payloads. eapply goodP_le; [apply payloads_loop_good; lia|].
  unfold chain_bound. cbn. rewrite Nat.sub_0_r. lia.
Qed.

(** every SK payload returned by the chain parser carries a slice of the parsed data *)
Definition sk_within (data : bytes) (p : payload) : Prop :=
  match pl_body p with
  | B_SK c _ => (length c <= length data)%nat /\ (wf_bytes data -> wf_bytes c)
  | _ => True
  end.

Lemma parse_body_sk_within cls data b : fst (parse_body cls data) = Ok b ->
  match b with B_SK c _ => c = data | _ => True end.
Proof.
  destruct cls; cbn [parse_body]; intros H.
  - unfold parse_sa in H. rewrite fst_bind in H. destruct (fst (proposals_loop _ _ _)); try discriminate.
    unfold new_sa in H. destruct (_ =? _)%nat; inversion H; exact I.
  - unfold parse_ke in H. revert H. unpack_step. destruct (_ <=? _)%nat; intros H; inversion H; exact I.
  - unfold parse_id in H. revert H. unpack_step. destruct (_ <=? _)%nat; intros H; inversion H; exact I.
  - unfold parse_id in H. revert H. unpack_step. destruct (_ <=? _)%nat; intros H; inversion H; exact I.
  - unfold parse_auth in H. revert H. unpack_step. destruct (_ <=? _)%nat; intros H; inversion H; exact I.
  - unfold new_nonce in H. destruct (nonce_length_bad _); inversion H; exact I.
  - unfold new_vendor in H. destruct (_ =? _)%nat; inversion H; exact I.
  - unfold parse_notify in H. revert H. unpack_step. destruct (_ <=? _)%nat; intros H; inversion H; exact I.
  - unfold parse_ts in H. revert H. unpack_step. destruct (_ <=? _)%nat; [| intros H; inversion H].
    rewrite fst_bind. destruct (fst (tsels_loop _ _ _)); try discriminate.
    destruct (negb _); intros H; inversion H; exact I.
  - unfold parse_ts in H. revert H. unpack_step. destruct (_ <=? _)%nat; [| intros H; inversion H].
    rewrite fst_bind. destruct (fst (tsels_loop _ _ _)); try discriminate.
    destruct (negb _); intros H; inversion H; exact I.
  - inversion H. reflexivity.
  - unfold parse_delete in H. revert H. unpack_step. destruct (_ <=? _)%nat; [| intros H; inversion H].
    rewrite fst_bind. destruct (fst (delete_spis _ _ _ _)); try discriminate.
    intros H; inversion H; exact I.
Qed.

Lemma payloads_loop_sk_within fuel data off pt ps :
  fst (payloads_loop fuel data off pt) = Ok ps -> Forall (sk_within data) ps.
Proof.
  revert off pt ps. induction fuel as [|f IH]; intros off pt ps; [discriminate|].
  cbn [payloads_loop]. destruct (negb (N.eqb pt Payload_Type_NONE)).
  2:{ destruct (negb _); intros H; inversion H. constructor. }
  rewrite fst_bind. cbn [tick fst]. unpack_step. destruct (off + _ <=? length data)%nat; [| discriminate].
  set (len := be_decode (firstn 2 _)).
  destruct (payload_length_bad len); [discriminate|].
  set (sl := slice data (off + 4) (off + N.to_nat len)).
  unfold parse_one. destruct (lookup pt type_2_payload) as [cls|].
  - pose proof (parse_body_sk_within cls sl) as Hsk.
    assert (Hk : fst (parse_body cls sl) <> Raise KeyError).
    { pose proof (parse_body_good cls sl) as [Hs _]. intros E; rewrite E in Hs; exact Hs. }
    destruct (fst (parse_body cls sl)) as [b|e|] eqn:Eb.
    + rewrite fst_bind, Eb, fst_bind.
      destruct (fst (payloads_loop f data _ _)) as [rest| |] eqn:Er; try discriminate.
      cbn [ret fst]. intros H; inversion H; subst. constructor; [| eapply IH; exact Er].
      specialize (Hsk b eq_refl). unfold sk_within. cbn [pl_body].
      assert (Hsl : (length sl <= length data)%nat /\ (wf_bytes data -> wf_bytes sl)).
      { split; [unfold sl; rewrite slice_length; lia | intros; apply wf_slice; assumption]. }
      destruct b as [| | | | | | | | |ct nx]; try (destruct (N.eqb pt Payload_Type_SK); exact I).
      subst ct; destruct (N.eqb pt Payload_Type_SK); cbn [set_next]; exact Hsl.
    + destruct e; try (rewrite fst_bind, Eb; discriminate). congruence.
    + rewrite fst_bind, Eb; discriminate.
  - cbn [raise fst snd]. rewrite fst_bind. cbn [fst].
    destruct (payload_critical_of _); [discriminate|]. apply IH.
Qed.

Lemma split_last_in {A} (l init : list A) (x : A) : split_last l = Some (init, x) -> In x l.
Proof.
  unfold split_last. destruct (rev l) as [|y r] eqn:E; [discriminate|]. intros H; inversion H; subst.
  apply in_rev. rewrite E. left; reflexivity.
Qed.

Lemma pl_type_sk_body p : N.eqb (pl_type p) Payload_Type_SK = true -> exists c n, pl_body p = B_SK c n.
Proof.
  unfold pl_type. destruct (pl_body p) as [| | i ? ?| | | | | | i ?|c n]; try destruct i; cbn; try discriminate.
  intros _. eauto.
Qed.

Section Decode.
  Variable dec : bytes -> bytes -> bytes -> bytes.
  Variable mac : bytes -> bytes -> bytes.
  (** the one contract of cipher.decrypt the parser relies on: a non-empty ciphertext does not decrypt to nothing *)
  Hypothesis dec_nonempty : forall k iv c, c <> [] -> dec k iv c <> [].

  (** additionally, for the iteration bound: decrypting does not lengthen the data and yields octets *)
  Definition dec_sane : Prop :=
    (forall k iv c, (length (dec k iv c) <= length c)%nat) /\ (forall k iv c, wf_bytes c -> wf_bytes (dec k iv c)).

  Lemma sk_decrypt_good cr ct : (0 < c_bs cr)%nat -> good 0 (sk_decrypt dec cr ct).
  Proof.
    intros Hbs. unfold sk_decrypt.
    destruct (_ || _) eqn:E1; [apply good_raise_is|].
    destruct (c_bs cr =? 0)%nat eqn:E2; [apply Nat.eqb_eq in E2; lia|].
    destruct (negb (_ mod _ =? 0)%nat) eqn:E3; [apply good_raise_is|].
    set (ctx := slice_to_neg _ _) in *.
    assert (Hne : ctx <> []).
    { rewrite Bool.orb_false_iff in E1. destruct E1 as [_ E1]. intros Hc. rewrite Hc in E1. discriminate. }
    specialize (dec_nonempty (c_sk_e cr) (firstn (c_bs cr) ct) ctx Hne).
    destruct (rev (dec _ _ ctx)) as [|padlen r] eqn:Er.
    { exfalso. apply dec_nonempty. apply (f_equal (@rev N)) in Er. rewrite rev_involutive in Er. exact Er. }
    destruct (_ <? _)%N; [apply good_raise_is | apply good_ret].
  Qed.

  Lemma slice_to_neg_len (d : bytes) n : (length (slice_to_neg d n) <= length d)%nat.
  Proof. unfold slice_to_neg. destruct n; [cbn; lia|]. rewrite firstn_length. lia. Qed.
  Lemma wf_slice_to_neg (d : bytes) n : wf_bytes d -> wf_bytes (slice_to_neg d n).
  Proof. unfold slice_to_neg. destruct n; [constructor|]. apply wf_firstn. Qed.

  Lemma sk_decrypt_ok cr ct r : fst (sk_decrypt dec cr ct) = Ok r -> dec_sane ->
    (length (snd r) <= length ct)%nat /\ (wf_bytes ct -> wf_bytes (snd r)).
  Proof.
    unfold sk_decrypt. intros H [Hlen Hwf].
    destruct (_ || _); [discriminate|]. destruct (c_bs cr =? 0)%nat; [discriminate|].
    destruct (negb (_ mod _ =? 0)%nat); [discriminate|].
    set (ctx := slice_to_neg _ _) in *. set (iv := firstn _ _) in *.
    destruct (rev (dec _ iv ctx)); [discriminate|].
    destruct (_ <? _)%N; [discriminate|]. inversion H; subst r. cbn [snd]. split.
    - rewrite firstn_length. specialize (Hlen (c_sk_e cr) iv ctx).
      pose proof (slice_to_neg_len (skipn (c_bs cr) ct) (c_icv cr)) as H1. fold ctx in H1.
      rewrite skipn_length in H1. lia.
    - intros Hct. apply wf_firstn, Hwf. unfold ctx. apply wf_slice_to_neg, wf_skipn, Hct.
  Qed.

  Definition crypto_ok (c : option crypto) : Prop :=
    match c with Some cr => (0 < c_bs cr)%nat | None => True end.

  Lemma decode_good c h data : crypto_ok c ->
    goodP (wf_bytes data /\ dec_sane) (32770 * (N.of_nat (length data) + 1)) (decode_m dec mac c h data).
  Proof.
    intros Hc. unfold decode_m. unpack_step.
    destruct (0 + _ <=? length data)%nat eqn:Hsz; [| apply goodP_of_good, good_raise_is].
    cbn [fmt_size] in Hsz.
    destruct h; [apply goodP_of_good, good_ret|].
    set (rest := slice_from data hdr_size).
    assert (Hrl : length rest = (length data - 28)%nat) by (unfold rest, slice_from, hdr_size; apply skipn_length).
    assert (Hrw : wf_bytes data -> wf_bytes rest) by (intros; unfold rest, slice_from; apply wf_skipn; assumption).
    apply goodP_bind_le with (a := (16385 * N.of_nat (length rest) + 1)%N)
                             (b := (16385 * N.of_nat (length rest) + 1)%N); [| | intros; lia].
    { eapply goodP_weaken; [| apply parse_payloads_good]. intros [? _]; auto. }
    intros ps Hps.
    destruct c as [cr|]; [| apply goodP_of_good; destruct (split_last ps) as [[? ?]|]; apply good_ret].
    destruct (split_last ps) as [[init last]|] eqn:Esl; [| apply goodP_of_good, good_ret].
    destruct (N.eqb (pl_type last) Payload_Type_SK) eqn:Et; [| apply goodP_of_good, good_ret].
    destruct (negb (bytes_eqb _ _)); [apply goodP_of_good, good_raise_is|].
    destruct (pl_type_sk_body _ Et) as (ct & nx & Eb). rewrite Eb.
    assert (Hin : sk_within rest last).
    { unfold parse_payloads in Hps. apply payloads_loop_sk_within in Hps.
      rewrite Forall_forall in Hps. apply Hps. eapply split_last_in; exact Esl. }
    unfold sk_within in Hin. rewrite Eb in Hin. destruct Hin as [Hctl Hctw].
    apply goodP_bind_le with (a := 0%N) (b := (16385 * N.of_nat (length rest) + 1)%N);
      [apply goodP_of_good, sk_decrypt_good; exact Hc | | intros; lia].
    intros r Hr.
    apply goodP_bind_ret.
    split; [apply parse_payloads_good|].
    intros [Hwf Hsane]. destruct (sk_decrypt_ok _ _ _ Hr Hsane) as [Hl Hw].
    pose proof (parse_payloads_good (snd r) nx) as [_ Hb]. specialize (Hb (Hw (Hctw (Hrw Hwf)))). lia.
  Qed.

  Theorem decode_terminates c h data : crypto_ok c -> decode dec mac c h data <> Diverged.
  Proof.
    intros Hc. destruct (decode_good c h data Hc) as [Hs _]. unfold decode. intros E. rewrite E in Hs. exact Hs.
  Qed.

  Theorem decode_protocol_errors_only c h data : crypto_ok c ->
    (exists m, decode dec mac c h data = Ok m)
    \/ decode dec mac c h data = Raise InvalidSyntax
    \/ decode dec mac c h data = Raise UnsupportedCriticalPayload.
  Proof.
    intros Hc. destruct (decode_good c h data Hc) as [Hs _]. unfold decode.
    destruct (fst (decode_m dec mac c h data)) as [m|e|]; [left; eauto | | destruct Hs].
    destruct e; try destruct Hs; auto.
  Qed.

  Theorem decode_linear c h data : crypto_ok c -> wf_bytes data -> dec_sane ->
    (iterations dec mac c h data <= 32770 * (N.of_nat (length data) + 1))%N.
  Proof.
    intros Hc Hwf Hsane. destruct (decode_good c h data Hc) as [_ Hb]. apply Hb. split; assumption.
  Qed.
End Decode.

(** without a crypto context the primitives are never called *)
Lemma decode_m_clear_indep dec mac dec' mac' h d : decode_m dec mac None h d = decode_m dec' mac' None h d.
Proof. reflexivity. Qed.

Definition id_dec (k iv c : bytes) : bytes := c.
Lemma id_dec_nonempty : forall k iv c, c <> [] -> id_dec k iv c <> [].
Proof. intros; assumption. Qed.
Lemma id_dec_sane : dec_sane id_dec.
Proof. split; intros; unfold id_dec; [lia | assumption]. Qed.

Theorem decode_clear_terminates dec mac h data : decode dec mac None h data <> Diverged.
Proof.
  unfold decode. rewrite (decode_m_clear_indep dec mac id_dec mac).
  apply (decode_terminates id_dec mac id_dec_nonempty None h data I).
Qed.

Theorem decode_clear_protocol_errors_only dec mac h data :
  (exists m, decode dec mac None h data = Ok m)
  \/ decode dec mac None h data = Raise InvalidSyntax
  \/ decode dec mac None h data = Raise UnsupportedCriticalPayload.
Proof.
  unfold decode. rewrite (decode_m_clear_indep dec mac id_dec mac).
  apply (decode_protocol_errors_only id_dec mac id_dec_nonempty None h data I).
Qed.

Theorem decode_clear_linear dec mac h data : wf_bytes data ->
  (iterations dec mac None h data <= 16385 * (N.of_nat (length data) + 1))%N.
Proof.
  intros Hwf. unfold iterations. rewrite (decode_m_clear_indep dec mac id_dec mac).
  unfold decode_m. unpack_step.
  destruct (0 + _ <=? length data)%nat eqn:Hsz; [| cbn [raise snd]; lia].
  cbn [fmt_size] in Hsz. destruct h; [cbn [ret snd]; lia|].
  set (rest := slice_from data hdr_size).
  assert (Hrl : length rest = (length data - 28)%nat) by (unfold rest, slice_from, hdr_size; apply skipn_length).
  assert (Hrw : wf_bytes rest) by (unfold rest, slice_from; apply wf_skipn; assumption).
  pose proof (parse_payloads_good rest (be_decode (firstn 1 (skipn 8 (skipn 8 (skipn 0 data)))))) as [_ Hb].
  specialize (Hb Hrw). unfold bind.
  destruct (fst (parse_payloads rest _)); cbn [fst snd]; [| lia | lia].
  destruct (split_last a) as [[? ?]|]; cbn [ret snd]; lia.
Qed.

From Codec Require Import Toy.
Lemma toy_dec_wf_from k iv i c : wf_bytes (toy_dec_from k iv i c).
Proof.
  revert i; induction c as [|b c IH]; intros i; cbn; [constructor|].
  constructor; [unfold is_byte; apply N.mod_lt; discriminate | apply IH].
Qed.
Lemma toy_dec_ok : (forall k iv c, c <> [] -> toy_dec k iv c <> []) /\ dec_sane toy_dec.
Proof.
  split; [| split].
  - intros k iv c Hc E. apply (f_equal (@length N)) in E. rewrite toy_dec_length in E.
    destruct c; [congruence | discriminate].
  - intros. rewrite toy_dec_length. lia.
  - intros. apply toy_dec_wf_from.
Qed.
