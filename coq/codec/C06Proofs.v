(** C06: Message.parse terminates, raises protocol errors only, and runs a linear number of loop iterations. *)
From Coq Require Import List NArith Arith Bool PeanoNat Lia ZifyBool ZifyNat ZifyN.
From VLib Require Import Bytes.
From Codec Require Import Gen.MessageTables Struct Codec MonadLemmas.
Import ListNotations.
Open Scope m_scope.

Local Ltac unpack_step :=
  rewrite ?bind_unpack;
  cbv [fmt_size fmt_Transform_parse_0 fmt_Transform_parse_1 fmt_Proposal_parse_0 fmt_Proposal_parse_1
       fmt_PayloadSA_parse_0 fmt_PayloadKE_parse_0 fmt_PayloadID_parse_0 fmt_PayloadAUTH_parse_0
       fmt_PayloadNOTIFY_parse_0 fmt_PayloadDELETE_parse_0 fmt_PayloadTS_parse_0 fmt_PayloadTS_parse_1
       fmt_TrafficSelector_parse_0 fmt_Message_parse_payloads_0 fmt_Message_parse_0 unpack_fields].

Lemma attr_loop_good fuel data ty id off :
  (length data - off < fuel)%nat ->
  good (N.of_nat (length data - off)) (attr_loop fuel data ty id off).
Proof.
  revert off. induction fuel as [|f IH]; intros off Hf; [lia|].
  cbn [attr_loop]. destruct (off <? length data)%nat eqn:Hlt; [| apply good_ret].
  eapply good_le; [apply good_tick_bind|].
  - unpack_step. destruct (off + _ <=? length data)%nat eqn:Hsz; [| apply good_raise_is].
    destruct (transform_attr_is_keylen _); [apply good_ret|].
    apply IH. lia.
  - lia.
Qed.

Lemma parse_transform_good data : good (N.of_nat (length data)) (parse_transform data).
Proof.
  unfold parse_transform. unpack_step. destruct (_ <=? _)%nat; [| apply good_raise_is].
  eapply good_le; [apply attr_loop_good; lia | lia].
Qed.

Lemma parse_transform_ok_len data t : fst (parse_transform data) = Ok t -> (4 <= length data)%nat.
Proof.
  unfold parse_transform. unpack_step. destruct (_ <=? _)%nat eqn:E; [lia | discriminate].
Qed.

Lemma transforms_loop_good fuel data off :
  (length data - off < fuel)%nat ->
  good (N.of_nat (length data - off)) (transforms_loop fuel data off).
Proof.
  revert off. induction fuel as [|f IH]; intros off Hf; [lia|].
  cbn [transforms_loop]. destruct (off <? length data)%nat eqn:Hlt; [| apply good_ret].
  apply good_tick_le with (b := (N.of_nat (length data - off) - 1)%N); [| lia].
  unpack_step. destruct (off + _ <=? length data)%nat eqn:Hsz; [| apply good_raise_is].
  cbn [fmt_size] in Hsz.
  set (len := N.to_nat _).
  pose proof (slice_len_le data (off + 4) (off + len)) as Hs1.
  pose proof (slice_len_le2 data (off + 4) (off + len)) as Hs2.
  apply good_bind_le with (a := N.of_nat (length (slice data (off + 4) (off + len))))
                          (b := (N.of_nat (length data - off) - 1 - N.of_nat (length (slice data (off + 4) (off + len))))%N);
    [apply parse_transform_good | | lia].
  intros t Ht. apply parse_transform_ok_len in Ht.
  apply good_bind_ret. eapply good_le; [apply IH; lia | lia].
Qed.

Lemma new_proposal_good num proto spi ts : good 0 (new_proposal num proto spi ts).
Proof. unfold new_proposal. destruct (_ =? _)%nat; [apply good_raise_is | apply good_ret]. Qed.

Lemma parse_proposal_good data : good (N.of_nat (length data)) (parse_proposal data).
Proof.
  unfold parse_proposal. unpack_step. destruct (_ <=? _)%nat eqn:Hsz; [| apply good_raise_is].
  cbn [fmt_size] in Hsz.
  set (off := (4 + _)%nat).
  apply good_bind_le with (a := N.of_nat (length data - off)) (b := 0%N); [apply transforms_loop_good; lia | | lia].
  intros ts _. destruct (negb _); [apply good_raise_is | apply new_proposal_good].
Qed.

Lemma parse_proposal_ok_len data p : fst (parse_proposal data) = Ok p -> (4 <= length data)%nat.
Proof.
  unfold parse_proposal. unpack_step. destruct (_ <=? _)%nat eqn:E; [cbn [fmt_size] in E; lia | discriminate].
Qed.

Lemma proposals_loop_good fuel data off :
  (length data - off < fuel)%nat ->
  good (N.of_nat (length data - off)) (proposals_loop fuel data off).
Proof.
  revert off. induction fuel as [|f IH]; intros off Hf; [lia|].
  cbn [proposals_loop]. destruct (off <? length data)%nat eqn:Hlt; [| apply good_ret].
  apply good_tick_le with (b := (N.of_nat (length data - off) - 1)%N); [| lia].
  unpack_step. destruct (off + _ <=? length data)%nat eqn:Hsz; [| apply good_raise_is].
  cbn [fmt_size] in Hsz.
  set (len := N.to_nat _).
  pose proof (slice_len_le data (off + 4) (off + len)) as Hs1.
  pose proof (slice_len_le2 data (off + 4) (off + len)) as Hs2.
  apply good_bind_le with (a := N.of_nat (length (slice data (off + 4) (off + len))))
                          (b := (N.of_nat (length data - off) - 1 - N.of_nat (length (slice data (off + 4) (off + len))))%N);
    [apply parse_proposal_good | | lia].
  intros t Ht. apply parse_proposal_ok_len in Ht.
  apply good_bind_ret. eapply good_le; [apply IH; lia | lia].
Qed.

Lemma parse_sa_good data : good (N.of_nat (length data)) (parse_sa data).
Proof.
  unfold parse_sa.
  apply good_bind_le with (a := N.of_nat (length data - 0)) (b := 0%N); [apply proposals_loop_good; lia | | lia].
  intros ps _. unfold new_sa. destruct (_ =? _)%nat; [apply good_raise_is | apply good_ret].
Qed.

(** the payloads without loops *)
Lemma parse_ke_good data : good 0 (parse_ke data).
Proof. unfold parse_ke. unpack_step. destruct (_ <=? _)%nat; [apply good_ret | apply good_raise_is]. Qed.
Lemma parse_id_good i data : good 0 (parse_id i data).
Proof. unfold parse_id. unpack_step. destruct (_ <=? _)%nat; [apply good_ret | apply good_raise_is]. Qed.
Lemma parse_auth_good data : good 0 (parse_auth data).
Proof. unfold parse_auth. unpack_step. destruct (_ <=? _)%nat; [apply good_ret | apply good_raise_is]. Qed.
Lemma parse_notify_good data : good 0 (parse_notify data).
Proof. unfold parse_notify. unpack_step. destruct (_ <=? _)%nat; [apply good_ret | apply good_raise_is]. Qed.
Lemma new_nonce_good data : good 0 (new_nonce data).
Proof. unfold new_nonce. destruct (nonce_length_bad _); [apply good_raise_is | apply good_ret]. Qed.
Lemma new_vendor_good data : good 0 (new_vendor data).
Proof. unfold new_vendor. destruct (_ =? _)%nat; [apply good_raise_is | apply good_ret]. Qed.

Lemma delete_spis_good n data off size : good (N.of_nat n) (delete_spis n data off size).
Proof.
  revert off. induction n as [|n IH]; intros off; [apply good_ret|].
  cbn [delete_spis]. apply good_tick_le with (b := N.of_nat n); [| lia].
  apply good_bind_ret. apply IH.
Qed.

Lemma wf_firstn n (l : bytes) : wf_bytes l -> wf_bytes (firstn n l).
Proof.
  unfold wf_bytes. revert l. induction n as [|n IH]; intros l H; [constructor|].
  destruct l; [constructor|]. inversion H; subst. cbn. constructor; auto.
Qed.
Lemma wf_skipn n (l : bytes) : wf_bytes l -> wf_bytes (skipn n l).
Proof.
  unfold wf_bytes. revert l. induction n as [|n IH]; intros l H; [exact H|].
  destruct l; [constructor|]. inversion H; subst. cbn. auto.
Qed.
Lemma wf_slice (l : bytes) a b : wf_bytes l -> wf_bytes (slice l a b).
Proof. intros. unfold slice. apply wf_firstn, wf_skipn. assumption. Qed.

Lemma be_decode_2_bound (l : bytes) : wf_bytes l -> (be_decode (firstn 2 l) < 65536)%N.
Proof.
  intros Hwf. pose proof (be_decode_bound _ (wf_firstn 2 l Hwf)) as Hb. rewrite firstn_length in Hb.
  assert (256 ^ N.of_nat (Nat.min 2 (length l)) <= 65536)%N.
  { destruct (Nat.min 2 (length l)) as [|[|[|k]]] eqn:E; try (cbn; lia). }
  lia.
Qed.

Lemma parse_delete_good data : goodP (wf_bytes data) 65535 (parse_delete data).
Proof.
  unfold parse_delete. unpack_step. destruct (_ <=? _)%nat; [| apply goodP_of_good, good_raise_is].
  set (n := be_decode _).
  apply goodP_bind_ret. split; [apply delete_spis_good|].
  intros Hwf. pose proof (delete_spis_good (N.to_nat n) data 4 (be_decode (firstn 1 (skipn 1 (skipn 0 data))))) as [_ Hb].
  assert (n < 65536)%N by (apply be_decode_2_bound; repeat apply wf_skipn; exact Hwf).
  lia.
Qed.

Lemma ip_address_good b : good 0 (ip_address b).
Proof. unfold ip_address. destruct (_ || _). apply good_ret. Abort.

(** TrafficSelector.parse: InvalidSyntax, or a selector; ip_address never sees a length other than 4 or 16 *)
Lemma ts_addr_len_cases ty : ts_addr_len_parse ty = 4%N \/ ts_addr_len_parse ty = 16%N.
Proof. unfold ts_addr_len_parse. destruct (N.eqb _ _); auto. Qed.

Lemma ip_address_ok b : (length b = 4 \/ length b = 16)%nat -> ip_address b = ret b.
Proof. unfold ip_address. intros [H|H]; rewrite H; reflexivity. Qed.

Lemma parse_tsel_good data : good 0 (parse_tsel data).
Proof.
  unfold parse_tsel.
  rewrite bind_unpack_plain.
  cbv [fmt_TrafficSelector_parse_0 unpack_fields].
  destruct (0 + fmt_size _ <=? length data)%nat eqn:H1; [| apply good_raise_is].
  cbn [fmt_size] in H1.
  rewrite bind_unpack_plain.
  set (ty := be_decode (firstn 1 (skipn 0 data))).
  set (n := N.to_nat (ts_addr_len_parse ty)).
  assert (Hn : n = 4%nat \/ n = 16%nat) by (destruct (ts_addr_len_cases ty) as [E|E]; unfold n; rewrite E; [left | right]; reflexivity).
  cbv [fmt_TrafficSelector_parse_1 unpack_fields].
  destruct (ts_addr_offset + fmt_size _ <=? length data)%nat eqn:H2; [| apply good_raise_is].
  cbv [ts_addr_offset] in *. cbn [fmt_size] in H2.
  unfold except_raise. cbn [ret fst snd]. rewrite bind_ret_l. cbn [ts_saddr ts_eaddr ts_type ts_proto ts_sport ts_eport].
  rewrite !ip_address_ok.
  - rewrite !bind_ret_l. apply good_ret.
  - rewrite firstn_length, !skipn_length. lia.
  - rewrite firstn_length, !skipn_length. lia.
Qed.

Lemma parse_tsel_ok_len data t : fst (parse_tsel data) = Ok t -> (1 <= length data)%nat.
Proof.
  unfold parse_tsel. rewrite bind_unpack_plain.
  destruct (0 + fmt_size _ <=? length data)%nat eqn:H1; [cbn [fmt_size fmt_TrafficSelector_parse_0] in H1; lia | discriminate].
Qed.

Lemma tsels_loop_good fuel data off :
  (length data - off < fuel)%nat ->
  good (N.of_nat (length data - off)) (tsels_loop fuel data off).
Proof.
  revert off. induction fuel as [|f IH]; intros off Hf; [lia|].
  cbn [tsels_loop]. destruct (off <? length data)%nat eqn:Hlt; [| apply good_ret].
  apply good_tick_le with (b := (N.of_nat (length data - off) - 1)%N); [| lia].
  unpack_step. destruct (off + _ <=? length data)%nat eqn:Hsz; [| apply good_raise_is].
  cbn [fmt_size] in Hsz.
  set (len := N.to_nat _).
  pose proof (slice_len_le data off (off + len)) as Hs1.
  apply good_bind_le with (a := 0%N) (b := (N.of_nat (length data - off) - 1)%N); [apply parse_tsel_good | | lia].
  intros t Ht. apply parse_tsel_ok_len in Ht.
  apply good_bind_ret. eapply good_le; [apply IH; lia | lia].
Qed.

Lemma parse_ts_good i data : good (N.of_nat (length data)) (parse_ts i data).
Proof.
  unfold parse_ts. unpack_step. destruct (_ <=? _)%nat eqn:Hsz; [| apply good_raise_is].
  apply good_bind_le with (a := N.of_nat (length data - 4)) (b := 0%N); [apply tsels_loop_good; lia | | lia].
  intros ts _. destruct (negb _); [apply good_raise_is | apply good_ret].
Qed.

Lemma parse_body_good c data : goodP (wf_bytes data) (N.of_nat (length data) + 65535) (parse_body c data).
Proof.
  destruct c; cbn [parse_body];
    try (apply goodP_of_good; eapply good_le;
         [first [apply parse_sa_good | apply parse_ke_good | apply parse_id_good | apply parse_auth_good
                | apply new_nonce_good | apply new_vendor_good | apply parse_notify_good | apply parse_ts_good
                | apply good_ret] | lia]).
  eapply goodP_le; [apply parse_delete_good | lia].
Qed.
