(** C06: Message.parse terminates, raises protocol errors only, and runs a linear number of loop iterations. *)
From Coq Require Import List NArith Arith Bool PeanoNat Lia ZifyBool ZifyNat ZifyN.
From VLib Require Import Bytes.
From Codec Require Import Gen.MessageTables Struct Codec MonadLemmas.
Import ListNotations.
Open Scope m_scope.

Local Ltac unpack_step :=
  rewrite ?bind_unpack;
  cbv [fmt_size fmt_Transform_parse_0 fmt_Transform_parse_1 fmt_Proposal_parse_0 fmt_Proposal_parse_1
       fmt_PayloadSA_parse_0 fmt_PayloadKE_parse_0 fmt_PayloadID_parse_0 fmt_PayloadAUTH_parse_0
       fmt_PayloadNOTIFY_parse_0 fmt_PayloadDELETE_parse_0 fmt_PayloadTS_parse_0 fmt_PayloadTS_parse_1
       fmt_TrafficSelector_parse_0 fmt_Message_parse_payloads_0 fmt_Message_parse_0 unpack_fields].

Lemma attr_loop_good fuel data ty id off :
  (length data - off < fuel)%nat ->
  good (N.of_nat (length data - off)) (attr_loop fuel data ty id off).
Proof.
  revert off. induction fuel as [|f IH]; intros off Hf; [lia|].
  cbn [attr_loop]. destruct (off <? length data)%nat eqn:Hlt; [| apply good_ret].
  eapply good_le; [apply good_tick_bind|].
  - unpack_step. destruct (off + _ <=? length data)%nat eqn:Hsz; [| apply good_raise_is].
    destruct (transform_attr_is_keylen _); [apply good_ret|].
    apply IH. lia.
  - lia.
Qed.

Lemma parse_transform_good data : good (N.of_nat (length data)) (parse_transform data).
Proof.
  unfold parse_transform. unpack_step. destruct (_ <=? _)%nat; [| apply good_raise_is].
  eapply good_le; [apply attr_loop_good; lia | lia].
Qed.

Lemma parse_transform_ok_len data t : fst (parse_transform data) = Ok t -> (4 <= length data)%nat.
Proof.
  unfold parse_transform. unpack_step. destruct (_ <=? _)%nat eqn:E; [lia | discriminate].
Qed.

Lemma transforms_loop_good fuel data off :
  (length data - off < fuel)%nat ->
  good (N.of_nat (length data - off)) (transforms_loop fuel data off).
Proof.
  revert off. induction fuel as [|f IH]; intros off Hf; [lia|].
  cbn [transforms_loop]. destruct (off <? length data)%nat eqn:Hlt; [| apply good_ret].
  apply good_tick_le with (b := (N.of_nat (length data - off) - 1)%N); [| lia].
  unpack_step. destruct (off + _ <=? length data)%nat eqn:Hsz; [| apply good_raise_is].
  cbn [fmt_size] in Hsz.
  set (len := N.to_nat _).
  pose proof (slice_len_le data (off + 4) (off + len)) as Hs1.
  pose proof (slice_len_le2 data (off + 4) (off + len)) as Hs2.
  apply good_bind_le with (a := N.of_nat (length (slice data (off + 4) (off + len))))
                          (b := (N.of_nat (length data - off) - 1 - N.of_nat (length (slice data (off + 4) (off + len))))%N);
    [apply parse_transform_good | | lia].
  intros t Ht. apply parse_transform_ok_len in Ht.
  apply good_bind_ret. eapply good_le; [apply IH; lia | lia].
Qed.
