(** C07: the encrypted payload - padding, checksum placement, round trip, exact acceptance condition. *)
From Coq Require Import List NArith Arith Bool PeanoNat Lia ZifyBool ZifyNat ZifyN.
From VLib Require Import Bytes.
From Codec Require Import Gen.MessageTables Struct Codec MonadLemmas Rfc7296Layout C05Proofs.
Import ListNotations.
Open Scope m_scope.

(** PayloadSK.generate: what is handed to cipher.encrypt *)
Lemma sk_plaintext_spec c cleartext :
  (0 < c_bs c <= 256)%nat ->
  exists p : N,
    fst (sk_plaintext c cleartext) = Ok (cleartext ++ repeat 0%N (N.to_nat p) ++ [p])
    /\ (p < N.of_nat (c_bs c))%N
    /\ ((length cleartext + N.to_nat p + 1) mod c_bs c = 0)%nat.
Proof.
  intros Hbs. unfold sk_plaintext.
  destruct (c_bs c =? 0)%nat eqn:E; [apply Nat.eqb_eq in E; lia|].
  remember (N.of_nat (c_bs c)) as bs eqn:Ebs. remember (N.of_nat (length cleartext)) as len eqn:Elen.
  assert (Hbs2 : (0 < bs <= 256)%N) by lia.
  assert (Hmod : (len mod bs < bs)%N) by (apply N.mod_lt; lia).
  exists (sk_padlen bs len). unfold sk_padlen. split; [| split].
  - set (p := (bs - len mod bs - 1)%N). assert (Hp : (p < 256)%N) by (unfold p; lia).
    rewrite pack_fits by (unfold fmt_PayloadSK_generate_0; fits_tac).
    rewrite bind_ret_l. cbn [ret fst pack_bytes fmt_PayloadSK_generate_0 be_encode app].
    rewrite N.mod_small by lia. reflexivity.
  - lia.
  - pose proof (N.div_mod len bs ltac:(lia)) as Hdm.
    assert (Hq : (N.of_nat (length cleartext + N.to_nat (bs - len mod bs - 1) + 1) = (len / bs + 1) * bs)%N) by lia.
    apply (f_equal N.to_nat) in Hq. rewrite Nat2N.id in Hq. rewrite Hq.
    replace (N.to_nat ((len / bs + 1) * bs)) with (N.to_nat (len / bs + 1) * c_bs c)%nat by lia.
    apply Nat.mod_mul. lia.
Qed.

Lemma fst_bind_ok {A B} (m : M A) (f : A -> M B) b :
  fst (bind m f) = Ok b -> exists a, fst m = Ok a /\ fst (f a) = Ok b.
Proof. rewrite fst_bind. destruct (fst m) as [a| |]; try discriminate. eauto. Qed.

Lemma pack_into_ok f buf off vs d : fits f vs -> fst (pack_into f buf off vs) = Ok d ->
  (off + fmt_size f <= length buf)%nat
  /\ d = firstn off buf ++ pack_bytes f vs ++ skipn (off + fmt_size f) buf.
Proof.
  intros Hf. unfold pack_into. rewrite (pack_fits _ _ Hf), bind_ret_l, (pack_bytes_length _ _ Hf).
  destruct (off + fmt_size f <=? length buf)%nat eqn:E; [| discriminate].
  cbn [ret fst]. intros H; inversion H. split; [apply Nat.leb_le; exact E | reflexivity].
Qed.

Lemma slice_to_neg_pos (d : bytes) n : (0 < n)%nat -> slice_to_neg d n = firstn (length d - n) d.
Proof. destruct n; [lia | reflexivity]. Qed.
Lemma slice_from_neg_pos (d : bytes) n : (0 < n)%nat -> slice_from_neg d n = skipn (length d - n) d.
Proof. destruct n; [lia | reflexivity]. Qed.

Section Icv.
  Variable enc : bytes -> bytes -> bytes -> bytes.
  Variable mac : bytes -> bytes -> bytes.

  (** The last hash_size octets of a protected datagram are integrity.compute(sk_a, everything before them), and
      the header's length field (octets 24..27), which lies inside that MACed prefix, is the total length. *)
  Lemma encode_icv cr m d :
    (forall k x, length (mac k x) = c_icv cr) -> (0 < c_icv cr)%nat ->
    encode enc mac (Some cr) m = Ok d ->
    slice_from_neg d (c_icv cr) = mac (c_sk_a cr) (slice_to_neg d (c_icv cr))
    /\ ((28 + c_icv cr <= length d)%nat -> be_decode (slice d 24 28) = N.of_nat (length d)).
  Proof.
    intros Hmac Hicv. unfold encode, encode_m. intros H.
    apply fst_bind_ok in H as (ps & _ & H).
    apply fst_bind_ok in H as (header & _ & H).
    apply fst_bind_ok in H as (pd & _ & H).
    apply fst_bind_ok in H as (data' & Hd' & H).
    set (data := header ++ pd) in *.
    set (checksum := mac (c_sk_a cr) (slice_to_neg data' (c_icv cr))) in *.
    assert (Hcl : length checksum = c_icv cr) by apply Hmac.
    destruct (length data' <? length checksum)%nat eqn:Elt; [discriminate|]. apply Nat.ltb_ge in Elt.
    assert (Hf2 : fits (fmt_Message_to_bytes_2 (length checksum)) [VB checksum]) by (cbn; auto).
    apply (pack_into_ok _ _ _ _ _ Hf2) in H as [_ Hd].
    cbn [fmt_Message_to_bytes_2 fmt_size pack_bytes] in Hd. rewrite app_nil_r in Hd.
    replace (length data' - length checksum + (length checksum + 0))%nat with (length data') in Hd by lia.
    rewrite skipn_all, app_nil_r in Hd.
    set (pre := firstn (length data' - length checksum) data') in *.
    assert (Hpl : length pre = (length data' - length checksum)%nat) by (unfold pre; rewrite firstn_length; lia).
    assert (Hdl : length d = length data') by (rewrite Hd, app_length; lia).
    assert (Hto : slice_to_neg d (c_icv cr) = pre).
    { rewrite slice_to_neg_pos by exact Hicv. rewrite Hdl, <- Hcl, <- Hpl, Hd. apply firstn_app_exact. }
    assert (Hto' : slice_to_neg data' (c_icv cr) = pre).
    { rewrite slice_to_neg_pos by exact Hicv. rewrite <- Hcl. reflexivity. }
    split.
    - rewrite Hto. rewrite slice_from_neg_pos by exact Hicv. rewrite Hdl, <- Hcl, <- Hpl, Hd.
      rewrite skipn_app_exact. unfold checksum. rewrite Hto'. reflexivity.
    - intros Hlen.
      assert (Hf1 : fits fmt_Message_to_bytes_1 [VN (N.of_nat (length data))]).
      { unfold pack_into in Hd'. cbn [fits fmt_Message_to_bytes_1]. rewrite pow4. split; [| exact I].
        cbn [pack fmt_Message_to_bytes_1] in Hd'. rewrite pow4 in Hd'.
        destruct (N.of_nat (length data) <? 4294967296)%N eqn:E; [apply N.ltb_lt; exact E | discriminate]. }
      apply (pack_into_ok _ _ _ _ _ Hf1) in Hd' as [Hle Hd'].
      cbn [fmt_Message_to_bytes_1 fmt_size pack_bytes] in Hd', Hle. rewrite app_nil_r in Hd'.
      unfold hdr_length_offset in *.
      assert (Hdatal : length data' = length data).
      { rewrite Hd', !app_length, firstn_length, skipn_length, be_encode_length. lia. }
      assert (Hs : slice d 24 28 = be_encode 4 (N.of_nat (length data))).
      { unfold slice. rewrite Hd. unfold pre. rewrite Hd'.
        set (A := firstn 24 data). assert (HA : length A = 24%nat) by (unfold A; rewrite firstn_length; lia).
        set (B := be_encode 4 _). set (C := skipn (24 + (4 + 0)) data).
        assert (HB : length B = 4%nat) by apply be_encode_length.
        assert (Hn : (28 <= length (A ++ B ++ C) - length checksum)%nat).
        { assert (HX : length (A ++ B ++ C) = length data) by (rewrite !app_length, HA, HB; unfold C; rewrite skipn_length; lia).
          rewrite HX. rewrite Hdl, Hdatal in Hlen. lia. }
        set (k := (length (A ++ B ++ C) - length checksum)%nat) in *.
        rewrite (firstn_app k A), (firstn_all2 A) by lia.
        rewrite (firstn_app (k - length A) B), (firstn_all2 B) by lia.
        rewrite <- !app_assoc. rewrite <- HA. rewrite skipn_app_exact.
        match goal with |- firstn ?n _ = _ => replace n with (length B) by lia end. apply firstn_app_exact. }
      rewrite Hs, be_decode_encode by (destruct Hf1 as [Hf1 _]; rewrite pow4 in Hf1; exact Hf1).
      rewrite Hdl, Hdatal. reflexivity.
  Qed.
End Icv.
