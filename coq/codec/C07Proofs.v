(** C07: the encrypted payload - padding, checksum placement, round trip, exact acceptance condition. *)
From Coq Require Import List NArith Arith Bool PeanoNat Lia ZifyBool ZifyNat ZifyN.
From VLib Require Import Bytes.
From Codec Require Import Gen.MessageTables Struct Codec MonadLemmas Rfc7296Layout C05Proofs.
Import ListNotations.
Open Scope m_scope.

(** PayloadSK.generate: what is handed to cipher.encrypt *)
Lemma sk_plaintext_spec c cleartext :
  (0 < c_bs c <= 256)%nat ->
  exists p : N,
    fst (sk_plaintext c cleartext) = Ok (cleartext ++ repeat 0%N (N.to_nat p) ++ [p])
    /\ (p < N.of_nat (c_bs c))%N
    /\ ((length cleartext + N.to_nat p + 1) mod c_bs c = 0)%nat.
Proof.
  intros Hbs. unfold sk_plaintext.
  destruct (c_bs c =? 0)%nat eqn:E; [apply Nat.eqb_eq in E; lia|].
  remember (N.of_nat (c_bs c)) as bs eqn:Ebs. remember (N.of_nat (length cleartext)) as len eqn:Elen.
  assert (Hbs2 : (0 < bs <= 256)%N) by lia.
  assert (Hmod : (len mod bs < bs)%N) by (apply N.mod_lt; lia).
  exists (sk_padlen bs len). unfold sk_padlen. split; [| split].
  - set (p := (bs - len mod bs - 1)%N). assert (Hp : (p < 256)%N) by (unfold p; lia).
    rewrite pack_fits by (unfold fmt_PayloadSK_generate_0; fits_tac).
    rewrite bind_ret_l. cbn [ret fst pack_bytes fmt_PayloadSK_generate_0 be_encode app].
    rewrite N.mod_small by lia. reflexivity.
  - lia.
  - pose proof (N.div_mod len bs ltac:(lia)) as Hdm.
    assert (Hq : (N.of_nat (length cleartext + N.to_nat (bs - len mod bs - 1) + 1) = (len / bs + 1) * bs)%N) by lia.
    apply (f_equal N.to_nat) in Hq. rewrite Nat2N.id in Hq. rewrite Hq.
    replace (N.to_nat ((len / bs + 1) * bs)) with (N.to_nat (len / bs + 1) * c_bs c)%nat by lia.
    apply Nat.mod_mul. lia.
Qed.
