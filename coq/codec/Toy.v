(** Toy primitives for byte-exact correspondence runs (NOT cryptography): the same functions are implemented
    by the duck-typed fake Crypto object of py/props/c05.py. *)
From Coq Require Import List NArith Arith PeanoNat.
From VLib Require Import Bytes.
Import ListNotations.
Open Scope N_scope.

Definition toy_stream (k iv : bytes) (i : nat) : N :=
  (nth (i mod length k) k 0 + nth (i mod length iv) iv 0 + N.of_nat i) mod 256.

Fixpoint toy_enc_from (k iv : bytes) (i : nat) (p : bytes) : bytes :=
  match p with
  | [] => []
  | b :: r => ((b + toy_stream k iv i) mod 256) :: toy_enc_from k iv (S i) r
  end.
Fixpoint toy_dec_from (k iv : bytes) (i : nat) (c : bytes) : bytes :=
  match c with
  | [] => []
  | b :: r => ((b + 256 - toy_stream k iv i) mod 256) :: toy_dec_from k iv (S i) r
  end.
Definition toy_enc (k iv p : bytes) : bytes := toy_enc_from k iv 0 p.
Definition toy_dec (k iv c : bytes) : bytes := toy_dec_from k iv 0 c.

Definition toy_acc (k d : bytes) : N :=
  fold_left (fun acc b => (acc * 31 + b + 7) mod 4294967296) (k ++ [N.of_nat (length k) mod 256] ++ d) 5381.

Fixpoint toy_out (acc : N) (j : nat) (n : nat) : bytes :=
  match n with
  | O => []
  | S n' => (((acc * (N.of_nat j + 1) + N.of_nat j * N.of_nat j) mod 4294967296) / 256 mod 256) :: toy_out acc (S j) n'
  end.

(** integrity.compute(key, data) for a toy integrity object with hash_size = n *)
Definition toy_mac (n : nat) (k d : bytes) : bytes :=
  let acc := toy_acc k d in
  firstn n (be_encode 4 acc ++ toy_out acc 0 (n - 4)).

Lemma toy_dec_from_length k iv i c : length (toy_dec_from k iv i c) = length c.
Proof. revert i; induction c as [|b c IH]; intros i; cbn; [reflexivity | rewrite IH; reflexivity]. Qed.
Lemma toy_enc_from_length k iv i c : length (toy_enc_from k iv i c) = length c.
Proof. revert i; induction c as [|b c IH]; intros i; cbn; [reflexivity | rewrite IH; reflexivity]. Qed.
Lemma toy_dec_length k iv c : length (toy_dec k iv c) = length c.
Proof. apply toy_dec_from_length. Qed.
Lemma toy_enc_length k iv c : length (toy_enc k iv c) = length c.
Proof. apply toy_enc_from_length. Qed.
