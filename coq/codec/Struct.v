(** Python run-time pieces the codec model is written with: results with exceptions, an iteration
    counter (writer monad), struct.pack / struct.unpack_from over the generated format lists, slicing. *)
From Coq Require Import List NArith Arith Bool PeanoNat.
From VLib Require Import Bytes.
From Codec Require Import Gen.MessageTables.
Import ListNotations.

(** Exception classes that can be named anywhere in message.py (and the built-ins its operations raise). *)
Inductive exn : Set :=
| InvalidSyntax | UnsupportedCriticalPayload
| StructError | KeyError | IndexError | ValueError | ZeroDivisionError | AttributeError.

Inductive res (A : Type) : Type :=
| Ok (a : A)
| Raise (e : exn)
| Diverged.
Arguments Ok {A} a.
Arguments Raise {A} e.
Arguments Diverged {A}.

(** A computation: its result and the number of loop iterations it executed. *)
Definition M (A : Type) : Type := (res A * N)%type.

Definition ret {A} (a : A) : M A := (Ok a, 0%N).
Definition raise {A} (e : exn) : M A := (Raise e, 0%N).
Definition diverged {A} : M A := (Diverged, 0%N).
Definition tick : M unit := (Ok tt, 1%N).

Definition bind {A B} (m : M A) (f : A -> M B) : M B :=
  match fst m with
  | Ok a => let r := f a in (fst r, (snd m + snd r)%N)
  | Raise e => (Raise e, snd m)
  | Diverged => (Diverged, snd m)
  end.

(** try: m except [cls]: raise [e']   (the only shape of handler message.py uses around struct calls) *)
Definition exn_eqb (a b : exn) : bool :=
  match a, b with
  | InvalidSyntax, InvalidSyntax | UnsupportedCriticalPayload, UnsupportedCriticalPayload
  | StructError, StructError | KeyError, KeyError | IndexError, IndexError | ValueError, ValueError
  | ZeroDivisionError, ZeroDivisionError | AttributeError, AttributeError => true
  | _, _ => false
  end.

Definition except_raise {A} (m : M A) (cls e' : exn) : M A :=
  match fst m with
  | Raise e => if exn_eqb e cls then (Raise e', snd m) else m
  | _ => m
  end.

Declare Scope m_scope.
Notation "x <- m ;; k" := (bind m (fun x => k)) (at level 61, m at next level, right associativity) : m_scope.
Notation "m ;;; k" := (bind m (fun _ => k)) (at level 61, right associativity) : m_scope.

(** Values handled by struct: integers for B/H/L fields, byte strings for Ns fields. *)
Inductive val : Set := VN (n : N) | VB (b : bytes).

Fixpoint fmt_size (f : list fld) : nat :=
  match f with
  | [] => O
  | FU w :: r => (w + fmt_size r)%nat
  | FS w :: r => (w + fmt_size r)%nat
  end.

Fixpoint unpack_fields (f : list fld) (d : bytes) : list val :=
  match f with
  | [] => []
  | FU w :: r => VN (be_decode (firstn w d)) :: unpack_fields r (skipn w d)
  | FS w :: r => VB (firstn w d) :: unpack_fields r (skipn w d)
  end.

(** struct.unpack_from(fmt, data, off): struct.error unless off + size <= len(data). *)
Definition unpack_from (f : list fld) (d : bytes) (off : nat) : M (list val) :=
  if (off + fmt_size f <=? length d)%nat then ret (unpack_fields f (skipn off d)) else raise StructError.

(** 'Ns' packs exactly N bytes: truncates or pads with zero bytes. *)
Definition pad_to (w : nat) (b : bytes) : bytes := firstn w b ++ repeat 0%N (w - length b).

(** struct.pack(fmt, *vals): struct.error when a value does not fit or the argument count/kind is wrong. *)
Fixpoint pack (f : list fld) (vs : list val) : M bytes :=
  match f, vs with
  | [], [] => ret []
  | FU w :: f', VN n :: vs' =>
      if (n <? 256 ^ N.of_nat w)%N
      then bind (pack f' vs') (fun r => ret (be_encode w n ++ r))
      else raise StructError
  | FS w :: f', VB b :: vs' => bind (pack f' vs') (fun r => ret (pad_to w b ++ r))
  | _, _ => raise StructError
  end.

(** struct.pack_into(fmt, buf, off, *vals) with a non-negative offset. *)
Definition pack_into (f : list fld) (buf : bytes) (off : nat) (vs : list val) : M bytes :=
  bind (pack f vs) (fun p =>
    if (off + length p <=? length buf)%nat
    then ret (firstn off buf ++ p ++ skipn (off + length p) buf)
    else raise StructError).

(** Python slices with a negative bound: d[:-n], d[-n:], d[-1]. *)
Definition slice_to_neg (d : bytes) (n : nat) : bytes :=
  match n with O => [] | _ => firstn (length d - n) d end.
Definition slice_from_neg (d : bytes) (n : nat) : bytes :=
  match n with O => d | _ => skipn (length d - n) d end.
Definition slice_from (d : bytes) (a : nat) : bytes := skipn a d.

Fixpoint bytes_eqb (a b : bytes) : bool :=
  match a, b with
  | [], [] => true
  | x :: a', y :: b' => N.eqb x y && bytes_eqb a' b'
  | _, _ => false
  end.

Fixpoint lookup {A} (k : N) (l : list (N * A)) : option A :=
  match l with
  | [] => None
  | (k', v) :: r => if N.eqb k k' then Some v else lookup k r
  end.
