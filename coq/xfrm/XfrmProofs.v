(** Round trips: what the kernel-side decoders (KernelSpec) read from the bytes the model emits. *)
From Coq Require Import List String ZArith NArith Arith Lia Bool.
From VLib Require Import Bytes.
From Xfrm Require Import Layout Params Gen.XfrmLayout Gen.KernelUapi Gen.XfrmBuild Pairs XfrmModel KernelSpec
  Intent BytesLemmas.
Import ListNotations.
Open Scope string_scope.
Open Scope nat_scope.
Open Scope list_scope.

(** the two values ever stored in dport_mask / sport_mask read the same in either byte order *)
Lemma mask_order_free port :
  let m := (if Z.eqb port 0 then 0 else 65535)%Z in enc LE 2 (trunc 2 m) = enc BE 2 (trunc 2 m).
Proof. cbv zeta. destruct (Z.eqb port 0); vm_compute; reflexivity. Qed.

(** A kernel scalar read of an encoded ctypes image: same offset, width and byte order. *)
Lemma kint_encoded kt pt kp pp fs pre post base z kl pl :
  find_leaf kp (layout kt) = Some kl -> find_leaf pp (layout pt) = Some pl -> wf_layout pt = true ->
  base + lf_off kl = List.length pre + lf_off pl -> lf_w kl = lf_w pl ->
  (lf_end kl = lf_end pl \/ enc LE (lf_w pl) (trunc (lf_w pl) z) = enc BE (lf_w pl) (trunc (lf_w pl) z)) ->
  lf_n pl = 1 ->
  lookup fs (lf_path pl) = Some (VInt z) ->
  kint kt kp (pre ++ encode_struct pt fs ++ post) base = trunc (lf_w pl) z.
Proof.
  intros Hk Hp Hwf Ho Hw He Hn Hv. unfold kint, kleaf. rewrite Hk. unfold leaf_int.
  rewrite Ho, Hw.
  assert (He' : enc (lf_end pl) (lf_w pl) (trunc (lf_w pl) z) = enc (lf_end kl) (lf_w pl) (trunc (lf_w pl) z)).
  { destruct He as [He|He]; [now rewrite He|]. destruct (lf_end pl), (lf_end kl); auto. }
  rewrite (read_encoded pt fs pre post pp pl (lf_off pl) 0 (lf_w pl) Hwf Hp) by (unfold leaf_len; lia).
  rewrite Hv. cbn [leaf_bytes]. unfold leaf_len. rewrite Hn, Nat.mul_1_l.
  rewrite fit_exact by apply enc_length.
  rewrite sub_all_len by apply enc_length. rewrite He'. apply dec_enc, trunc_bound.
Qed.

(** An unset field reads 0. *)
Lemma kint_unset kt pt kp pp fs pre post base kl pl :
  find_leaf kp (layout kt) = Some kl -> find_leaf pp (layout pt) = Some pl -> wf_layout pt = true ->
  base + lf_off kl = List.length pre + lf_off pl -> lf_w kl = lf_w pl -> lf_n pl = 1 ->
  lookup fs (lf_path pl) = None ->
  kint kt kp (pre ++ encode_struct pt fs ++ post) base = 0%N.
Proof.
  intros Hk Hp Hwf Ho Hw Hn Hv. unfold kint, kleaf. rewrite Hk. unfold leaf_int.
  rewrite Ho, Hw.
  rewrite (read_encoded pt fs pre post pp pl (lf_off pl) 0 (lf_w pl) Hwf Hp) by (unfold leaf_len; lia).
  rewrite Hv. cbn [leaf_bytes]. unfold leaf_len. rewrite Hn, Nat.mul_1_l.
  rewrite sub_all_len by apply zeros_length.
  apply dec_zeros.
Qed.

(** Raw bytes of a kernel member that lies inside one ctypes leaf. *)
Lemma kraw_encoded kt pt kp pp fs pre post base kl pl :
  find_leaf kp (layout kt) = Some kl -> find_leaf pp (layout pt) = Some pl -> wf_layout pt = true ->
  base + lf_off kl = List.length pre + lf_off pl -> leaf_len kl = leaf_len pl ->
  kraw kt kp (pre ++ encode_struct pt fs ++ post) base = leaf_bytes pl (lookup fs (lf_path pl)).
Proof.
  intros Hk Hp Hwf Ho Hl. unfold kraw, kleaf. rewrite Hk. rewrite Ho, Hl.
  rewrite (read_encoded pt fs pre post pp pl (lf_off pl) 0 (leaf_len pl) Hwf Hp) by lia.
  apply sub_all_len, leaf_bytes_length.
Qed.

(** a big-endian kernel scalar over a ctypes byte array (the SPI) *)
Lemma kint_bytes kt pt kp pp fs pre post base kl pl :
  find_leaf kp (layout kt) = Some kl -> find_leaf pp (layout pt) = Some pl -> wf_layout pt = true ->
  base + lf_off kl = List.length pre + lf_off pl -> lf_w kl = leaf_len pl ->
  kint kt kp (pre ++ encode_struct pt fs ++ post) base = dec (lf_end kl) (leaf_bytes pl (lookup fs (lf_path pl))).
Proof.
  intros Hk Hp Hwf Ho Hl. unfold kint, kleaf. rewrite Hk. unfold leaf_int. rewrite Ho, Hl.
  rewrite (read_encoded pt fs pre post pp pl (lf_off pl) 0 (leaf_len pl) Hwf Hp) by lia.
  now rewrite sub_all_len by apply leaf_bytes_length.
Qed.

Ltac closed := vm_compute; reflexivity.

Ltac pow_lia :=
  repeat match goal with
         | |- context [(2 ^ (8 * Z.of_nat ?w))%Z] =>
             let v := eval vm_compute in (2 ^ (8 * Z.of_nat w))%Z in change (2 ^ (8 * Z.of_nat w))%Z with v
         end; lia.

(** ---- header *)

Lemma header_bytes_length len ty fl seq pid : List.length (header_bytes len ty fl seq pid) = 16.
Proof. unfold header_bytes. rewrite encode_struct_length by closed. closed. Qed.

Ltac side :=
  lazymatch goal with
  | |- lookup _ _ = _ => cbn [lf_path]; reflexivity
  | |- _ \/ _ => first [left; closed | right; apply mask_order_free]
  | |- _ = List.length (header_bytes _ _ _ _ _) + _ => rewrite header_bytes_length; reflexivity
  | |- _ => closed
  end.

Lemma k_header_emitted len ty fl seq pid data :
  wf32 len -> (0 <= ty < 2 ^ 16)%Z -> (0 <= fl < 2 ^ 16)%Z -> wf32 seq -> wf32 pid ->
  k_header (header_bytes len ty fl seq pid ++ data)
  = mk_khdr (Z.to_N len) (Z.to_N ty) (Z.to_N fl) (Z.to_N seq) (Z.to_N pid).
Proof.
  intros Hl Ht Hf Hs Hp. unfold k_header, header_bytes.
  change (encode_struct Py.NetlinkHeader (header_fields len ty fl seq pid) ++ data)
    with ([] ++ encode_struct Py.NetlinkHeader (header_fields len ty fl seq pid) ++ data).
  erewrite (kint_encoded K.nlmsghdr Py.NetlinkHeader "nlmsg_len" "length" _ [] data 0 len) by side.
  erewrite (kint_encoded K.nlmsghdr Py.NetlinkHeader "nlmsg_type" "type" _ [] data 0 ty) by side.
  erewrite (kint_encoded K.nlmsghdr Py.NetlinkHeader "nlmsg_flags" "flags" _ [] data 0 fl) by side.
  erewrite (kint_encoded K.nlmsghdr Py.NetlinkHeader "nlmsg_seq" "seq" _ [] data 0 seq) by side.
  erewrite (kint_encoded K.nlmsghdr Py.NetlinkHeader "nlmsg_pid" "pid" _ [] data 0 pid) by side.
  cbn [lf_w]. unfold wf32 in *. rewrite !trunc_small by (cbn; lia). reflexivity.
Qed.



Lemma message_length r seq pid :
  List.length (message_bytes r seq pid) = 16 + List.length (request_data r).
Proof. unfold message_bytes. cbv zeta. now rewrite app_length, header_bytes_length. Qed.


(** ---- flush *)
Lemma flush_roundtrip r ty seq pid :
  (r = flush_policies /\ ty = K.XFRM_MSG_FLUSHPOLICY) \/ (r = flush_sas /\ ty = K.XFRM_MSG_FLUSHSA) ->
  wf32 seq -> wf32 pid ->
  emit_request r seq pid = Ok (message_bytes r seq pid) /\
  kernel_decode_flush (message_bytes r seq pid)
  = Some (mk_kflush (mk_khdr 17 (Z.to_N ty) flags_request_ack (Z.to_N seq) (Z.to_N pid)) 0).
Proof.
  intros Hr Hs Hp. split; [destruct Hr as [[-> _]|[-> _]]; reflexivity|].
  assert (Hlen : List.length (message_bytes r seq pid) = 17).
  { rewrite message_length. destruct Hr as [[-> _]|[-> _]]; unfold request_data; cbn [rq_attrs flush_policies flush_sas flat_map];
      rewrite app_nil_r, encode_struct_length by closed; closed. }
  assert (Hd : List.length (request_data r) = 1) by (rewrite message_length in Hlen; lia).
  assert (Hh : k_header (message_bytes r seq pid)
               = mk_khdr 17 (Z.to_N ty) flags_request_ack (Z.to_N seq) (Z.to_N pid)).
  { unfold message_bytes. cbv zeta. rewrite Hd. rewrite k_header_emitted; try assumption.
    - destruct Hr as [[-> ->]|[-> ->]]; reflexivity.
    - unfold wf32. cbn. lia.
    - destruct Hr as [[-> _]|[-> _]]; cbn; lia.
    - destruct Hr as [[-> _]|[-> _]]; cbn; lia. }
  unfold kernel_decode_flush, framed. rewrite Hh, Hlen. cbn [kh_len].
  replace (Nat.leb (NLMSG_HDRLEN + c_size K.xfrm_usersa_flush) 17 && N.eqb 17 (N.of_nat 17)) with true by closed.
  f_equal. f_equal.
  unfold message_bytes, request_data. cbv zeta.
  destruct Hr as [[-> _]|[-> _]]; cbn [rq_ptype rq_payload rq_attrs flush_policies flush_sas flat_map];
    (erewrite (kint_encoded K.xfrm_usersa_flush Py.XfrmUserSaFlush "proto" "proto") by side); reflexivity.
Qed.

(** ---- addresses *)


Lemma word_roundtrip (b0 b1 b2 b3 : N) :
  wf_bytes [b0; b1; b2; b3] ->
  enc BE 4 (trunc 4 (Z.of_N (be_decode [b0; b1; b2; b3]))) = [b0; b1; b2; b3].
Proof.
  intros Hwf. pose proof (be_decode_bound _ Hwf) as Hb. cbn [List.length] in Hb.
  rewrite trunc_small, N2Z.id.
  - cbn [enc]. apply (be_encode_decode [b0; b1; b2; b3] Hwf).
  - split; [lia|]. change (2 ^ (8 * Z.of_nat 4))%Z with (Z.of_N (256 ^ N.of_nat 4)). lia.
Qed.

Lemma addr_image a :
  wf_ip a ->
  fit 16 0%N (flat_map (fun z => enc BE 4 (trunc 4 z)) (addr_words a))
  = ip_packed a ++ zeros (16 - List.length (ip_packed a)).
Proof.
  intros [Hwf [[Hv Hl]|[Hv Hl]]]; unfold addr_words; rewrite Hv; cbn [Z.eqb Pos.eqb];
    destruct a as [v p]; cbn [ip_packed ip_version] in *.
  - do 5 (destruct p as [|? p]; try discriminate). unfold word_at. cbn [flat_map slice skipn firstn Nat.mul Nat.add Nat.sub app].
    rewrite word_roundtrip by exact Hwf. reflexivity.
  - do 17 (destruct p as [|? p]; try discriminate).
    unfold word_at. cbn [flat_map slice skipn firstn Nat.mul Nat.add Nat.sub app].
    unfold wf_bytes in Hwf.
    repeat match goal with H : Forall is_byte (_ :: _) |- _ => inversion H; subst; clear H end.
    rewrite !word_roundtrip by (unfold wf_bytes; repeat (constructor; [assumption|]); constructor). reflexivity.
Qed.

Lemma kaddr_image a : wf_ip a ->
  kaddr (family_of a) (ip_packed a ++ zeros (16 - List.length (ip_packed a))) = ip_packed a.
Proof.
  intros [_ [[Hv Hl]|[Hv Hl]]]; unfold kaddr, family_of; rewrite Hv, Hl; cbn [Z.eqb Pos.eqb N.eqb AF_INET AF_INET6].
  - rewrite <- Hl. apply firstn_app_exact.
  - cbn. apply app_nil_r.
Qed.

Lemma family_value a : wf_ip a ->
  Z.to_N (if Z.eqb (ip_version a) 4 then 2 else 10)%Z = family_of a.
Proof. intros _. unfold family_of. destruct (Z.eqb (ip_version a) 4); reflexivity. Qed.

Lemma addr_words_length a : List.length (addr_words a) <= 4.
Proof. unfold addr_words. destruct (Z.eqb (ip_version a) 6); cbn; lia. Qed.

(** ---- delete_sa *)
Lemma delsa_roundtrip daddr proto spi seq pid :
  wf_ip daddr -> (0 <= proto < 256)%Z -> List.length spi = 4 -> wf32 seq -> wf32 pid ->
  let r := delete_sa daddr proto spi in
  emit_request r seq pid = Ok (message_bytes r seq pid) /\
  kernel_decode_delsa (message_bytes r seq pid)
  = Some (mk_ksaid (mk_khdr 40 (Z.to_N K.XFRM_MSG_DELSA) flags_request_ack (Z.to_N seq) (Z.to_N pid))
                   (family_of daddr) (ip_packed daddr) (be_decode spi) (Z.to_N proto)).
Proof.
  intros Hd Hpr Hspi Hs Hp r.
  split.
  { unfold emit_request, check_request, check_struct. subst r. cbn [rq_ptype rq_payload rq_attrs delete_sa check_attrs].
    replace (layout Py.XfrmUserSaId) with
      [mkleaf "daddr.addr" 0 4 4 BE false false; mkleaf "spi" 16 4 1 LE false false;
       mkleaf "family" 20 1 2 LE false false; mkleaf "proto" 22 1 1 LE false false] by closed.
    cbn [check_leaves lookup lf_path String.eqb Ascii.eqb Bool.eqb leaf_check lf_n lf_w Nat.eqb andb].
    rewrite Hspi. cbn [Nat.eqb].
    pose proof (addr_words_length daddr) as Hw. apply Nat.leb_le in Hw. rewrite Hw. reflexivity. }
  assert (Hdata : List.length (request_data r) = 24).
  { unfold request_data. subst r. cbn [rq_attrs delete_sa flat_map]. rewrite app_nil_r, encode_struct_length by closed. closed. }
  assert (Hlen : List.length (message_bytes r seq pid) = 40) by (rewrite message_length; lia).
  assert (Hh : k_header (message_bytes r seq pid)
               = mk_khdr 40 (Z.to_N K.XFRM_MSG_DELSA) flags_request_ack (Z.to_N seq) (Z.to_N pid)).
  { unfold message_bytes. cbv zeta. rewrite Hdata. rewrite k_header_emitted; try assumption; try (subst r; cbn; lia).
    - reflexivity.
    - unfold wf32; cbn; lia. }
  unfold kernel_decode_delsa, framed. rewrite Hh, Hlen. cbn [kh_len].
  replace (Nat.leb (NLMSG_HDRLEN + c_size K.xfrm_usersa_id) 40 && N.eqb 40 (N.of_nat 40)
           && Nat.eqb 40 (NLMSG_HDRLEN + c_size K.xfrm_usersa_id)) with true by closed.
  cbv zeta. f_equal.
  unfold message_bytes, request_data. cbv zeta. subst r. cbn [rq_ptype rq_payload rq_attrs delete_sa flat_map].
  set (fs := [("daddr.addr", VWords (addr_words daddr)); _; _; _]).
  erewrite (kint_encoded K.xfrm_usersa_id Py.XfrmUserSaId "family" "family") by side.
  erewrite (kint_encoded K.xfrm_usersa_id Py.XfrmUserSaId "proto" "proto") by side.
  erewrite (kraw_encoded K.xfrm_usersa_id Py.XfrmUserSaId "daddr.a6" "daddr.addr") by side.
  erewrite (kint_bytes K.xfrm_usersa_id Py.XfrmUserSaId "spi" "spi") by side.
  subst fs. cbn [lookup lf_path String.eqb Ascii.eqb Bool.eqb leaf_bytes leaf_len lf_n lf_w lf_end Nat.mul Nat.add dec].
  rewrite addr_image by assumption.
  rewrite !trunc_small by (destruct (Z.eqb (ip_version daddr) 4); pow_lia).
  rewrite family_value by assumption. rewrite kaddr_image by assumption.
  rewrite fit_exact by assumption. reflexivity.
Qed.
