(** Round trips: what the kernel-side decoders (KernelSpec) read from the bytes the model emits. *)
From Coq Require Import List String ZArith NArith Arith Lia Bool.
From VLib Require Import Bytes.
From Xfrm Require Import Layout Params Gen.XfrmLayout Gen.KernelUapi Gen.XfrmBuild Pairs XfrmModel KernelSpec
  BytesLemmas.
Import ListNotations.
Open Scope string_scope.
Open Scope nat_scope.
Open Scope list_scope.

(** the two values ever stored in dport_mask / sport_mask read the same in either byte order *)
Lemma mask_order_free port :
  let m := (if Z.eqb port 0 then 0 else 65535)%Z in enc LE 2 (trunc 2 m) = enc BE 2 (trunc 2 m).
Proof. cbv zeta. destruct (Z.eqb port 0); vm_compute; reflexivity. Qed.

(** A kernel scalar read of an encoded ctypes image: same offset, width and byte order. *)
Lemma kint_encoded kt pt kp pp fs pre post base z kl pl :
  find_leaf kp (layout kt) = Some kl -> find_leaf pp (layout pt) = Some pl -> wf_layout pt = true ->
  base = List.length pre ->
  lf_off kl = lf_off pl -> lf_w kl = lf_w pl -> lf_end kl = lf_end pl -> lf_n pl = 1 ->
  lookup fs (lf_path pl) = Some (VInt z) ->
  kint kt kp (pre ++ encode_struct pt fs ++ post) base = trunc (lf_w pl) z.
Proof.
  intros Hk Hp Hwf Hb Ho Hw He Hn Hv. unfold kint, kleaf. rewrite Hk. unfold leaf_int. subst base.
  rewrite Ho, Hw, He.
  rewrite (read_encoded pt fs pre post pp pl (lf_off pl) 0 (lf_w pl) Hwf Hp) by (unfold leaf_len; lia).
  rewrite Hv. cbn [leaf_bytes]. unfold leaf_len. rewrite Hn, Nat.mul_1_l.
  rewrite fit_exact by apply enc_length.
  rewrite sub_all_len by apply enc_length. apply dec_enc, trunc_bound.
Qed.

(** An unset field reads 0. *)
Lemma kint_unset kt pt kp pp fs pre post base kl pl :
  find_leaf kp (layout kt) = Some kl -> find_leaf pp (layout pt) = Some pl -> wf_layout pt = true ->
  base = List.length pre ->
  lf_off kl = lf_off pl -> lf_w kl = lf_w pl -> lf_n pl = 1 ->
  lookup fs (lf_path pl) = None ->
  kint kt kp (pre ++ encode_struct pt fs ++ post) base = 0%N.
Proof.
  intros Hk Hp Hwf Hb Ho Hw Hn Hv. unfold kint, kleaf. rewrite Hk. unfold leaf_int. subst base.
  rewrite Ho, Hw.
  rewrite (read_encoded pt fs pre post pp pl (lf_off pl) 0 (lf_w pl) Hwf Hp) by (unfold leaf_len; lia).
  rewrite Hv. cbn [leaf_bytes]. unfold leaf_len. rewrite Hn, Nat.mul_1_l.
  rewrite sub_all_len by apply zeros_length.
  apply dec_zeros.
Qed.

(** Raw bytes of a kernel member that lies inside one ctypes leaf. *)
Lemma kraw_encoded kt pt kp pp fs pre post base kl pl :
  find_leaf kp (layout kt) = Some kl -> find_leaf pp (layout pt) = Some pl -> wf_layout pt = true ->
  base = List.length pre ->
  lf_off kl = lf_off pl -> leaf_len kl = leaf_len pl ->
  kraw kt kp (pre ++ encode_struct pt fs ++ post) base = leaf_bytes pl (lookup fs (lf_path pl)).
Proof.
  intros Hk Hp Hwf Hb Ho Hl. unfold kraw, kleaf. rewrite Hk. subst base. rewrite Ho, Hl.
  rewrite (read_encoded pt fs pre post pp pl (lf_off pl) 0 (leaf_len pl) Hwf Hp) by lia.
  apply sub_all_len, leaf_bytes_length.
Qed.

(** a big-endian kernel scalar over a ctypes byte array (the SPI) *)
Lemma kint_bytes kt pt kp pp fs pre post base kl pl :
  find_leaf kp (layout kt) = Some kl -> find_leaf pp (layout pt) = Some pl -> wf_layout pt = true ->
  base = List.length pre ->
  lf_off kl = lf_off pl -> lf_w kl = leaf_len pl ->
  kint kt kp (pre ++ encode_struct pt fs ++ post) base = dec (lf_end kl) (leaf_bytes pl (lookup fs (lf_path pl))).
Proof.
  intros Hk Hp Hwf Hb Ho Hl. unfold kint, kleaf. rewrite Hk. unfold leaf_int. subst base. rewrite Ho, Hl.
  rewrite (read_encoded pt fs pre post pp pl (lf_off pl) 0 (leaf_len pl) Hwf Hp) by lia.
  now rewrite sub_all_len by apply leaf_bytes_length.
Qed.

Ltac closed := vm_compute; reflexivity.

(** ---- header *)
Definition wf32 (z : Z) : Prop := (0 <= z < 2 ^ 32)%Z.

Lemma header_bytes_length len ty fl seq pid : List.length (header_bytes len ty fl seq pid) = 16.
Proof. unfold header_bytes. rewrite encode_struct_length by closed. closed. Qed.

Lemma k_header_emitted len ty fl seq pid data :
  wf32 len -> (0 <= ty < 2 ^ 16)%Z -> (0 <= fl < 2 ^ 16)%Z -> wf32 seq -> wf32 pid ->
  k_header (header_bytes len ty fl seq pid ++ data)
  = mk_khdr (Z.to_N len) (Z.to_N ty) (Z.to_N fl) (Z.to_N seq) (Z.to_N pid).
Proof.
  intros Hl Ht Hf Hs Hp. unfold k_header, header_bytes.
  change (encode_struct Py.NetlinkHeader (header_fields len ty fl seq pid) ++ data)
    with ([] ++ encode_struct Py.NetlinkHeader (header_fields len ty fl seq pid) ++ data).
  rewrite (kint_encoded K.nlmsghdr Py.NetlinkHeader "nlmsg_len" "length" _ [] data 0 len) by closed.
  rewrite (kint_encoded K.nlmsghdr Py.NetlinkHeader "nlmsg_type" "type" _ [] data 0 ty) by closed.
  rewrite (kint_encoded K.nlmsghdr Py.NetlinkHeader "nlmsg_flags" "flags" _ [] data 0 fl) by closed.
  rewrite (kint_encoded K.nlmsghdr Py.NetlinkHeader "nlmsg_seq" "seq" _ [] data 0 seq) by closed.
  rewrite (kint_encoded K.nlmsghdr Py.NetlinkHeader "nlmsg_pid" "pid" _ [] data 0 pid) by closed.
  cbn [lf_w]. unfold wf32 in *. rewrite !trunc_small by (cbn; lia). reflexivity.
Qed.
