(** SPEC: what a request is meant to say, in the kernel's terms (independent of the code's shape). *)
From Coq Require Import List String ZArith NArith Arith Bool.
From VLib Require Import Bytes.
From Xfrm Require Import Layout Params Gen.KernelUapi Gen.XfrmBuild KernelSpec.
Import ListNotations.
Open Scope string_scope.
Open Scope nat_scope.
Open Scope list_scope.

Definition wf_ip (a : ip) : Prop :=
  wf_bytes (ip_packed a) /\
  ((ip_version a = 4%Z /\ List.length (ip_packed a) = 4) \/ (ip_version a = 6%Z /\ List.length (ip_packed a) = 16)).

Definition family_of (a : ip) : N := if Z.eqb (ip_version a) 4 then AF_INET else AF_INET6.

Definition wf32 (z : Z) : Prop := (0 <= z < 2 ^ 32)%Z.
Definition wf_port (z : Z) : Prop := (0 <= z < 65536)%Z.
Definition wf_u8 (z : Z) : Prop := (0 <= z < 256)%Z.

(** algorithm name: NUL-terminated inside char[64] *)
Definition wf_name (n : bytes) : Prop := List.length n < 64 /\ Forall (fun b => b <> 0%N) n.

Definition flags_request_ack : N := Z.to_N (Z.lor K.NLM_F_REQUEST K.NLM_F_ACK).

Record sa_args := mk_sa_args {
  a_src_sel : net; a_dst_sel : net; a_sport : Z; a_dport : Z; a_spi : bytes; a_ip_proto : Z; a_ipsec_proto : Z;
  a_mode : Z; a_src : ip; a_dst : ip; a_enc : bytes; a_ske : bytes; a_auth : bytes; a_ska : bytes; a_lifetime : Z }.

Definition emit_newsa (a : sa_args) : request :=
  create_sa (a_src_sel a) (a_dst_sel a) (a_sport a) (a_dport a) (a_spi a) (a_ip_proto a) (a_ipsec_proto a) (a_mode a)
            (a_src a) (a_dst a) (a_enc a) (a_ske a) (a_auth a) (a_ska a) (a_lifetime a).

Definition wf_sa (a : sa_args) : Prop :=
  wf_ip (net_addr (a_src_sel a)) /\ wf_ip (net_addr (a_dst_sel a)) /\
  ip_version (net_addr (a_src_sel a)) = ip_version (net_addr (a_dst_sel a)) /\
  wf_u8 (net_prefixlen (a_src_sel a)) /\ wf_u8 (net_prefixlen (a_dst_sel a)) /\
  wf_port (a_sport a) /\ wf_port (a_dport a) /\ List.length (a_spi a) = 4 /\ wf_u8 (a_ip_proto a) /\
  (a_ipsec_proto a = 50%Z \/ a_ipsec_proto a = 51%Z) /\ wf_u8 (a_mode a) /\
  wf_ip (a_src a) /\ wf_ip (a_dst a) /\ ip_version (a_src a) = ip_version (a_dst a) /\
  (a_ipsec_proto a = 50%Z -> wf_name (a_enc a) /\ List.length (a_ske a) <= 64) /\
  wf_name (a_auth a) /\ List.length (a_ska a) <= 64 /\
  (-1 <= a_lifetime a < 2 ^ 64 - 10)%Z.

Definition port_mask (port : Z) : N := if Z.eqb port 0 then 0%N else 65535%N.

Definition intended_sel (src dst : net) (sport dport proto : Z) : k_sel :=
  mk_ksel (family_of (net_addr src)) (ip_packed (net_addr dst)) (ip_packed (net_addr src))
          (Z.to_N dport) (port_mask dport) (Z.to_N sport) (port_mask sport)
          (Z.to_N (net_prefixlen dst)) (Z.to_N (net_prefixlen src)) (Z.to_N proto) 0 0.

Definition INF : N := Z.to_N K.XFRM_INF.

(** lifetime -1: no expiry; otherwise soft expiry after [lifetime] seconds and hard expiry 10 seconds later *)
Definition intended_lft (lifetime : Z) : k_lft :=
  mk_klft INF INF INF INF (if Z.ltb lifetime 0 then 0%N else Z.to_N lifetime)
          (if Z.ltb lifetime 0 then 0%N else Z.to_N (lifetime + 10)) 0 0.

Definition intended_algo (name key : bytes) : k_algo := mk_kalgo name (8 * N.of_nat (List.length key)) key.

Definition newsa_length (a : sa_args) : nat :=
  16 + 224 + (if Z.eqb (a_ipsec_proto a) 50 then 136 else 0) + 136.

Definition intended_newsa (a : sa_args) (seq pid : Z) : k_sa :=
  let esp := Z.eqb (a_ipsec_proto a) 50 in
  mk_ksa (mk_khdr (N.of_nat (newsa_length a)) (Z.to_N K.XFRM_MSG_NEWSA) flags_request_ack (Z.to_N seq) (Z.to_N pid))
         (intended_sel (a_src_sel a) (a_dst_sel a) (a_sport a) (a_dport a) (a_ip_proto a))
         (ip_packed (a_dst a)) (be_decode (a_spi a)) (Z.to_N (a_ipsec_proto a)) (ip_packed (a_src a))
         (intended_lft (a_lifetime a)) (family_of (a_src a)) (Z.to_N (a_mode a)) 0 0 0 0
         (if esp then Some (intended_algo (a_enc a) (a_ske a)) else None)
         (Some (intended_algo (a_auth a) (a_ska a)))
         (if esp then 2 else 1).
