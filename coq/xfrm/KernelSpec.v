(** SPEC: how the kernel reads a request and writes an event, written from the C field lists of
    Gen/KernelUapi.v (never from the Python).  A decoder is a guard (framing the kernel insists on) plus a
    record of field reads at the offsets the C layout gives. *)
From Coq Require Import List String ZArith NArith Arith Bool.
From VLib Require Import Bytes.
From Xfrm Require Import Layout Gen.KernelUapi.
Import ListNotations.
Open Scope nat_scope.
Open Scope list_scope.
Open Scope string_scope.

(** <linux/socket.h>, <linux/in.h> (not among the translated headers). *)
Definition AF_INET : N := 2.
Definition AF_INET6 : N := 10.
Definition IPPROTO_ESP : N := 50.
Definition IPPROTO_AH : N := 51.

Definition kleaf (t : ctype) (p : string) : leaf :=
  match find_leaf p (layout t) with Some l => l | None => mkleaf p 0 0 0 LE false false end.

(** scalar member [p] of the [t] image that starts at [base] *)
Definition kint (t : ctype) (p : string) (d : bytes) (base : nat) : N := leaf_int (kleaf t p) d base.

(** raw bytes of member [p] (arrays, addresses) *)
Definition kraw (t : ctype) (p : string) (d : bytes) (base : nat) : bytes :=
  sub d (base + lf_off (kleaf t p)) (leaf_len (kleaf t p)).

Definition align4 (n : nat) : nat := round_up n (Z.to_nat K.NLMSG_ALIGNTO).
Definition NLMSG_HDRLEN : nat := align4 (c_size K.nlmsghdr).
Definition NLA_HDRLEN : nat := round_up (c_size K.nlattr) (Z.to_nat K.NLA_ALIGNTO).

Record k_hdr := mk_khdr { kh_len : N; kh_type : N; kh_flags : N; kh_seq : N; kh_pid : N }.

Definition k_header (msg : bytes) : k_hdr :=
  mk_khdr (kint K.nlmsghdr "nlmsg_len" msg 0) (kint K.nlmsghdr "nlmsg_type" msg 0)
          (kint K.nlmsghdr "nlmsg_flags" msg 0) (kint K.nlmsghdr "nlmsg_seq" msg 0)
          (kint K.nlmsghdr "nlmsg_pid" msg 0).

(** The datagram is exactly one message whose header length is the total length and that is long enough for
    the fixed payload of its type. *)
Definition framed (msg : bytes) (payload : ctype) : bool :=
  Nat.leb (NLMSG_HDRLEN + c_size payload) (List.length msg)
  && N.eqb (kh_len (k_header msg)) (N.of_nat (List.length msg)).

(** an xfrm_address_t read for a family: a4 (the first word) or a6 *)
Definition kaddr (family : N) (raw : bytes) : bytes := if N.eqb family AF_INET then firstn 4 raw else raw.

(** ---- XFRM_MSG_FLUSHSA / XFRM_MSG_FLUSHPOLICY : struct xfrm_usersa_flush *)
Record k_flush := mk_kflush { kf_hdr : k_hdr; kf_proto : N }.

Definition kernel_decode_flush (msg : bytes) : option k_flush :=
  if framed msg K.xfrm_usersa_flush
  then Some (mk_kflush (k_header msg) (kint K.xfrm_usersa_flush "proto" msg NLMSG_HDRLEN))
  else None.

(** ---- XFRM_MSG_DELSA : struct xfrm_usersa_id *)
Record k_said := mk_ksaid { ki_hdr : k_hdr; ki_family : N; ki_daddr : bytes; ki_spi : N; ki_proto : N }.

Definition kernel_decode_delsa (msg : bytes) : option k_said :=
  if framed msg K.xfrm_usersa_id && Nat.eqb (List.length msg) (NLMSG_HDRLEN + c_size K.xfrm_usersa_id)
  then
    let t := K.xfrm_usersa_id in
    let fam := kint t "family" msg NLMSG_HDRLEN in
    Some (mk_ksaid (k_header msg) fam (kaddr fam (kraw t "daddr.a6" msg NLMSG_HDRLEN))
                   (kint t "spi" msg NLMSG_HDRLEN) (kint t "proto" msg NLMSG_HDRLEN))
  else None.

(** ---- selector and lifetime configuration (shared by NEWSA and NEWPOLICY) *)
Record k_sel := mk_ksel { ks_family : N; ks_daddr : bytes; ks_saddr : bytes; ks_dport : N; ks_dport_mask : N;
                          ks_sport : N; ks_sport_mask : N; ks_prefixlen_d : N; ks_prefixlen_s : N; ks_proto : N;
                          ks_ifindex : N; ks_user : N }.

Definition k_selector (t : ctype) (pre : string) (msg : bytes) (base : nat) : k_sel :=
  let f := fun n => kint t (pre ++ n) msg base in
  let fam := f "family" in
  mk_ksel fam (kaddr fam (kraw t (pre ++ "daddr.a6") msg base)) (kaddr fam (kraw t (pre ++ "saddr.a6") msg base))
          (f "dport") (f "dport_mask") (f "sport") (f "sport_mask") (f "prefixlen_d") (f "prefixlen_s")
          (f "proto") (f "ifindex") (f "user").

Record k_lft := mk_klft { kl_soft_byte : N; kl_hard_byte : N; kl_soft_packet : N; kl_hard_packet : N;
                          kl_soft_add : N; kl_hard_add : N; kl_soft_use : N; kl_hard_use : N }.

Definition k_lifetime (t : ctype) (pre : string) (msg : bytes) (base : nat) : k_lft :=
  let f := fun n => kint t (pre ++ n) msg base in
  mk_klft (f "soft_byte_limit") (f "hard_byte_limit") (f "soft_packet_limit") (f "hard_packet_limit")
          (f "soft_add_expires_seconds") (f "hard_add_expires_seconds") (f "soft_use_expires_seconds")
          (f "hard_use_expires_seconds").

(** ---- attributes: nla_parse, strict (every attribute nla_len >= 4, inside the buffer, next one at
    NLA_ALIGN(nla_len), nothing left over) *)
Fixpoint nla_parse (fuel : nat) (d : bytes) : option (list (N * (nat * bytes))) :=
  match fuel with
  | O => None
  | S fuel' =>
      match d with
      | [] => Some []
      | _ =>
          if Nat.ltb (List.length d) NLA_HDRLEN then None
          else
            let len := N.to_nat (kint K.nlattr "nla_len" d 0) in
            let ty := kint K.nlattr "nla_type" d 0 in
            if Nat.ltb len NLA_HDRLEN || Nat.ltb (List.length d) len then None
            else match nla_parse fuel' (skipn (round_up len (Z.to_nat K.NLA_ALIGNTO)) d) with
                 | Some r => Some ((ty, (len, sub d NLA_HDRLEN (len - NLA_HDRLEN))) :: r)
                 | None => None
                 end
      end
  end.

Fixpoint nla_find (l : list (N * (nat * bytes))) (ty : N) : option (nat * bytes) :=
  match l with
  | [] => None
  | (t, v) :: r => if N.eqb t ty then Some v else nla_find r ty
  end.

(** struct xfrm_algo inside an attribute: NUL-terminated name (the kernel forces alg_name[63] = 0), key length in
    bits, (bits+7)/8 key bytes after the fixed part. *)
Fixpoint until_nul (l : bytes) : bytes :=
  match l with
  | [] => []
  | b :: r => if N.eqb b 0 then [] else b :: until_nul r
  end.

Record k_algo := mk_kalgo { ka_name : bytes; ka_bits : N; ka_key : bytes }.

Definition k_xfrm_algo (v : nat * bytes) : option k_algo :=
  let '(nla_len, p) := v in
  let t := K.xfrm_algo in
  let bits := kint t "alg_key_len" p 0 in
  let klen := N.to_nat ((bits + 7) / 8) in
  if Nat.leb (c_size t + klen) (List.length p) && Nat.eqb nla_len (NLA_HDRLEN + List.length p)
     && Nat.eqb (Nat.modulo nla_len 4) 0
  then Some (mk_kalgo (until_nul (firstn 63 (kraw t "alg_name" p 0))) bits (sub p (lf_off (kleaf t "alg_key")) klen))
  else None.

(** ---- XFRM_MSG_NEWSA : struct xfrm_usersa_info + XFRMA_ALG_CRYPT / XFRMA_ALG_AUTH *)
Record k_sa := mk_ksa { ka_hdr : k_hdr; ka_sel : k_sel; ka_id_daddr : bytes; ka_spi : N; ka_id_proto : N;
                        ka_saddr : bytes; ka_lft : k_lft; ka_family : N; ka_mode : N; ka_reqid : N;
                        ka_replay_window : N; ka_flags : N; ka_seq : N;
                        ka_crypt : option k_algo; ka_auth : option k_algo; ka_nattrs : nat }.

Definition opt_algo (o : option (nat * bytes)) : option (option k_algo) :=
  match o with
  | None => Some None
  | Some v => match k_xfrm_algo v with Some a => Some (Some a) | None => None end
  end.

Definition kernel_decode_newsa (msg : bytes) : option k_sa :=
  let t := K.xfrm_usersa_info in
  let b := NLMSG_HDRLEN in
  if framed msg t then
    match nla_parse (S (List.length msg)) (skipn (align4 (b + c_size t)) msg) with
    | None => None
    | Some attrs =>
        match opt_algo (nla_find attrs (Z.to_N K.XFRMA_ALG_CRYPT)), opt_algo (nla_find attrs (Z.to_N K.XFRMA_ALG_AUTH)) with
        | Some crypt, Some auth =>
            let fam := kint t "family" msg b in
            Some (mk_ksa (k_header msg) (k_selector t "sel." msg b)
                         (kaddr fam (kraw t "id.daddr.a6" msg b)) (kint t "id.spi" msg b) (kint t "id.proto" msg b)
                         (kaddr fam (kraw t "saddr.a6" msg b)) (k_lifetime t "lft." msg b) fam (kint t "mode" msg b)
                         (kint t "reqid" msg b) (kint t "replay_window" msg b) (kint t "flags" msg b)
                         (kint t "seq" msg b) crypt auth (List.length attrs))
        | _, _ => None
        end
    end
  else None.
