(** Hand-written executable model of the byte-level half of /repo/netlink.py + /repo/xfrm.py:
    NetlinkProtocol.send_recv (serialisation + reply loop), _attribute_factory, parse_message,
    _parse_attributes, NetlinkStructure.parse, XfrmAddress.to_ipaddr, and the control flow of
    Xfrm.delete_sa / create_child_sa around NetlinkError.  The request contents themselves are GENERATED
    (Gen/XfrmBuild.v).  Definitions only. *)
From Coq Require Import List String ZArith NArith Arith Bool.
From VLib Require Import Bytes.
From Xfrm Require Import Layout Params Gen.XfrmLayout Gen.XfrmBuild.
Import ListNotations.
Open Scope nat_scope.
Open Scope string_scope.

(** ---- serialisation (send_recv up to sock.send) *)

Definition prefixed (p : string) (fs : fields) : fields := map (fun kv => (join p (fst kv), snd kv)) fs.

(** _attribute_factory(code, data): _Internal(code=code, len=sizeof(_Internal), data=data) *)
Definition attr_fields (a : attr) : fields :=
  ("code", VInt (at_code a)) :: ("len", VInt (Z.of_nat (c_size (Py.Internal (at_type a)))))
  :: prefixed "data" (at_fields a).

Definition attr_bytes (a : attr) : bytes := encode_struct (Py.Internal (at_type a)) (attr_fields a).

Definition request_data (r : request) : bytes :=
  (encode_struct (rq_ptype r) (rq_payload r) ++ flat_map attr_bytes (rq_attrs r))%list.

Definition header_fields (len type flags seq pid : Z) : fields :=
  [("length", VInt len); ("type", VInt type); ("seq", VInt seq); ("pid", VInt pid); ("flags", VInt flags)].

Definition header_bytes (len type flags seq pid : Z) : bytes :=
  encode_struct Py.NetlinkHeader (header_fields len type flags seq pid).

(** What the structure constructors refuse (raised while the builder runs, before anything is sent). *)
Fixpoint check_attrs (l : list attr) : option exn :=
  match l with
  | [] => None
  | a :: r => match check_struct (at_type a) (at_fields a) with Some e => Some e | None => check_attrs r end
  end.

Definition check_request (r : request) : option exn :=
  match check_struct (rq_ptype r) (rq_payload r) with
  | Some e => Some e
  | None => check_attrs (rq_attrs r)
  end.

Definition message_bytes (r : request) (seq pid : Z) : bytes :=
  let data := request_data r in
  (header_bytes (Z.of_nat (c_size Py.NetlinkHeader) + Z.of_nat (List.length data)) (rq_type r) (rq_flags r) seq pid
   ++ data)%list.

Definition emit_request (r : request) (seq pid : Z) : result bytes :=
  match check_request r with
  | Some e => Raise e
  | None => Ok (message_bytes r seq pid)
  end.

(** ---- parsing *)

(** NetlinkStructure.parse: memmove(min(len(data), sizeof(cls))) into a zeroed instance -> the instance image. *)
Definition parse_struct (t : ctype) (data : bytes) : bytes :=
  firstn (c_size t) (data ++ zeros (c_size t))%list.

Definition img_int (t : ctype) (p : string) (img : bytes) : Z :=
  match find_leaf p (layout t) with
  | Some l => if lf_sg l then to_signed (lf_w l) (leaf_int l img 0) else Z.of_N (leaf_int l img 0)
  | None => 0%Z
  end.

Definition img_bytes (t : ctype) (p : string) (img : bytes) : bytes :=
  match read_bytes t p img 0 with Some b => b | None => [] end.

Fixpoint lookupZ {A} (l : list (Z * A)) (k : Z) : option A :=
  match l with
  | [] => None
  | (k', v) :: r => if Z.eqb k k' then Some v else lookupZ r k
  end.

(** dict assignment: replace the value of an existing key in place, else append. *)
Fixpoint dict_set {A} (l : list (Z * A)) (k : Z) (v : A) : list (Z * A) :=
  match l with
  | [] => [(k, v)]
  | (k', v') :: r => if Z.eqb k k' then (k, v) :: r else (k', v') :: dict_set r k v
  end.

(** _parse_attributes: native-endian 'HH' header, stop on length 0, advance by the UNALIGNED length. *)
Fixpoint parse_attributes (fuel : nat) (data : bytes) (acc : list (Z * bytes)) : list (Z * bytes) :=
  match fuel with
  | O => acc
  | S fuel' =>
      if Nat.ltb 4 (List.length data) then
        let len := N.to_nat (le_decode (sub data 0 2)) in
        let ty := Z.of_N (le_decode (sub data 2 2)) in
        if Nat.eqb len 0 then acc
        else
          let acc' := match lookupZ attribute_types ty with
                      | Some t => dict_set acc ty (parse_struct t (slice data 4 len))
                      | None => acc
                      end in
          parse_attributes fuel' (skipn len data) acc'
      else acc
  end.

Record message := mkmsg { m_header : bytes;                    (* NetlinkHeader image *)
                          m_payload : option (Z * bytes);      (* payload type code and image *)
                          m_attrs : list (Z * bytes) }.

Definition hdr_int (p : string) (img : bytes) : Z := img_int Py.NetlinkHeader p img.

Definition parse_message (data : bytes) : message :=
  let h := parse_struct Py.NetlinkHeader data in
  let ty := hdr_int "type" h in
  if Z.eqb ty Py.NLMSG_DONE then mkmsg h None []
  else
    match lookupZ payload_types ty with
    | Some t =>
        let hs := c_size Py.NetlinkHeader in
        let payload := parse_struct t (skipn hs data) in
        let adata := slice data (hs + c_size t) (Z.to_nat (hdr_int "length" h)) in
        mkmsg h (Some (ty, payload)) (parse_attributes (S (List.length adata)) adata [])
    | None => mkmsg h None []          (* KeyError caught: "Unknown Netlink payload type" *)
    end.

(** XfrmAddress.to_ipaddr(family) on the 16-byte image of the address. *)
Definition to_ipaddr (img : bytes) (family : Z) : ip :=
  if Z.eqb family Py.AF_INET then mkip 4 (firstn 4 img) else mkip 6 img.

(** ---- reply loop of send_recv (after the single sock.recv) *)
Inductive outcome := Done (responses : nat) | Raised (e : exn) | Diverged.

Fixpoint reply_loop (fuel : nat) (data : bytes) (n : nat) : outcome :=
  match fuel with
  | O => Diverged
  | S fuel' =>
      if Nat.ltb 0 (List.length data) then
        let m := parse_message data in
        let ty := hdr_int "type" (m_header m) in
        let err := match m_payload m with
                   | Some (_, img) => if Z.eqb ty Py.NLMSG_ERROR then img_int Py.NetlinkErrorMsg "error" img else 0%Z
                   | None => 0%Z
                   end in
        if Z.eqb ty Py.NLMSG_ERROR && negb (Z.eqb err 0) then Raised NetlinkError
        else if Z.eqb ty Py.NLMSG_DONE then Done n
        else reply_loop fuel' (skipn (Z.to_nat (hdr_int "length" (m_header m))) data) (S n)
      else Done n
  end.

Definition recv_outcome (reply : bytes) : outcome := reply_loop (S (List.length reply)) reply 0.

(** One send_recv call: the bytes written (if the builder did not raise first) and what happens after recv. *)
Definition send_recv (r : request) (seq pid : Z) (reply : bytes) : option bytes * outcome :=
  match emit_request r seq pid with
  | Raise e => (None, Raised e)
  | Ok b => (Some b, recv_outcome reply)
  end.

(** A builder that catches NetlinkError (Xfrm.delete_sa) reports success. *)
Definition run_request (r : request) (seq pid : Z) (reply : bytes) : option bytes * outcome :=
  match send_recv r seq pid reply with
  | (b, Raised NetlinkError) => (b, if rq_catch r then Done 0 else Raised NetlinkError)
  | x => x
  end.

Definition is_netlink_error (o : outcome) : bool :=
  match o with Raised NetlinkError => true | _ => false end.

Definition is_done (o : outcome) : bool := match o with Done _ => true | _ => false end.

(** Xfrm.create_child_sa: outbound SA, then inbound SA; when the kernel refuses the second one the first is
    deleted again and the error re-raised.  [replies]: what the socket answers to the successive requests. *)
Definition nth_reply (replies : list bytes) (i : nat) : bytes := nth i replies [].

Definition run_create_child_sa (t : request * request * request) (seq pid : Z) (replies : list bytes)
  : list (option bytes) * outcome :=
  let '(r1, r2, r3) := t in
  let '(b1, o1) := run_request r1 seq pid (nth_reply replies 0) in
  if negb (is_done o1) then ([b1], o1)
  else
    let '(b2, o2) := run_request r2 seq pid (nth_reply replies 1) in
    if is_netlink_error o2 then
      let '(b3, o3) := run_request r3 seq pid (nth_reply replies 2) in
      ([b1; b2; b3], if is_done o3 then o2 else o3)
    else ([b1; b2], o2).

(** A list of requests sent one after the other (create_policies, delete_child_sa, flushes): stops at the
    first one that raises. *)
Fixpoint run_requests (rs : list request) (seq pid : Z) (replies : list bytes) : list (option bytes) * outcome :=
  match rs with
  | [] => ([], Done 0)
  | r :: rest =>
      let '(b, o) := run_request r seq pid (hd [] replies) in
      if is_done o then
        let '(bs, o') := run_requests rest seq pid (tl replies) in (b :: bs, o')
      else ([b], o)
  end.
