(** Layout agreement between the ctypes mirrors and the UAPI structures: complete finite checks lifted from
    [forallb]. *)
From Coq Require Import List String ZArith Bool Lia.
From Xfrm Require Import Layout Gen.XfrmLayout Gen.KernelUapi Pairs.
Import ListNotations.
Open Scope string_scope.

Lemma all_pairs_ok : forallb pair_ok Py.structs = true.
Proof. vm_compute. reflexivity. Qed.

Lemma layouts_agree : forall name t, In (name, t) Py.structs ->
  exists cname ct, lookup struct_pairs name = Some cname /\ lookup K.structs cname = Some ct
                   /\ struct_agreeb t ct = true.
Proof.
  intros name t Hin. pose proof all_pairs_ok as H. rewrite forallb_forall in H.
  specialize (H _ Hin). unfold pair_ok in H. cbn [fst snd] in H.
  destruct (lookup struct_pairs name) as [cname|]; [|discriminate].
  destruct (lookup K.structs cname) as [ct|] eqn:E; [|discriminate].
  exists cname, ct. split; [reflexivity|]. split; [exact E|exact H].
Qed.

Lemma layout_sizes :
  c_size K.xfrm_usersa_info = 224 /\ c_size K.xfrm_user_tmpl = 64 /\ c_size K.xfrm_userpolicy_info = 168 /\
  c_size K.xfrm_selector = 56 /\ c_size K.xfrm_id = 24 /\ c_size K.xfrm_usersa_id = 24 /\
  c_size K.xfrm_user_acquire = 280 /\ c_size K.xfrm_user_expire = 232 /\ c_size K.xfrm_usersa_flush = 1 /\
  c_size K.nlmsghdr = 16 /\ c_size K.nlmsgerr = 20 /\ c_size K.nlattr = 4 /\
  c_size K.xfrm_algo = 68 /\ c_size Py.XfrmAlgo = 68 + 64.
Proof. vm_compute. repeat split. Qed.

Lemma attr_layouts :
  attr_ok Py.XfrmAlgo K.xfrm_algo = true /\ attr_ok Py.XfrmUserTmpl K.xfrm_user_tmpl = true.
Proof. vm_compute. split; reflexivity. Qed.

Lemma constants_agree : forall n v, In (n, v) Py.used_consts -> lookup K.consts n = Some v.
Proof.
  assert (H : forallb const_ok Py.used_consts = true) by (vm_compute; reflexivity).
  rewrite forallb_forall in H. intros n v Hin. specialize (H _ Hin). unfold const_ok in H. cbn [fst snd] in H.
  destruct (lookup K.consts n) as [v'|]; [|discriminate]. apply Z.eqb_eq in H. subst. reflexivity.
Qed.

(** Scalars whose signedness differs between the mirror and the header (not part of the agreement). *)
Lemma sign_differences :
  flat_map (fun '(n, t) => match lookup struct_pairs n with
                           | Some c => match lookup K.structs c with
                                       | Some ct => map (fun p => n ++ "." ++ p) (sign_diffs t (inst_flex (last_arr_len t) ct))
                                       | None => [] end
                           | None => [] end) Py.structs
  = ["XfrmSelector.ifindex"; "XfrmUserPolicyId.selector.ifindex"; "XfrmUserPolicyInfo.sel.ifindex";
     "XfrmUserSaInfo.sel.ifindex"; "XfrmAlgo.alg_name"; "XfrmAlgo.key"; "XfrmUserAcquire.sel.ifindex";
     "XfrmUserAcquire.policy.sel.ifindex"; "XfrmUserExpire.state.sel.ifindex"].
Proof. vm_compute. reflexivity. Qed.
