(** Value types shared by the generated builders (Gen/XfrmBuild.v), the hand model and the spec.
    Definitions only. *)
From Coq Require Import List String ZArith NArith Arith Bool.
From VLib Require Import Bytes.
From Xfrm Require Import Layout.
Import ListNotations.
Open Scope nat_scope.
Open Scope string_scope.

(** ipaddress.IPv4Address / IPv6Address: version and packed bytes (4 or 16). *)
Record ip := mkip { ip_version : Z; ip_packed : bytes }.

(** ipaddress.IPv4Network / IPv6Network: [net[0]] (network address) and prefixlen. *)
Record net := mknet { net_addr : ip; net_prefixlen : Z }.

Definition fields := list (string * fv).

(** One netlink attribute handed to send_recv: code, ctypes type of the value, its field values. *)
Record attr := mkattr { at_code : Z; at_type : ctype; at_fields : fields }.

(** The arguments of one [send_recv] call. [rq_catch]: the caller catches NetlinkError (delete_sa). *)
Record request := mkreq { rq_type : Z; rq_flags : Z; rq_ptype : ctype; rq_payload : fields;
                          rq_attrs : list attr; rq_catch : bool }.

(** XfrmAddress.from_ipaddr (pinned by the translator): addr[0] = first word of .packed; for version 6
    also addr[1..3]; the other words keep their initial 0. *)
Definition word_at (d : bytes) (i : nat) : Z := Z.of_N (be_decode (slice d (4 * i) (4 * i + 4))).

Definition addr_words (a : ip) : list Z :=
  if Z.eqb (ip_version a) 6
  then [word_at (ip_packed a) 0; word_at (ip_packed a) 1; word_at (ip_packed a) 2; word_at (ip_packed a) 3]
  else [word_at (ip_packed a) 0].

Definition blen (b : bytes) : Z := Z.of_nat (List.length b).

(** Configuration view used by create_policies / IkeSaController.__init__ (C15): what the real code reads
    from one [protect] entry and one connection. *)
Record entry := mkentry { e_my_net : net; e_peer_net : net; e_my_port : Z; e_peer_port : Z; e_ip_proto : Z;
                          e_is_esp : bool; e_mode : Z; e_index : Z }.

Record conn := mkconn { c_my_addr : ip; c_peer_addr : ip; c_protect : list entry }.

(** What Xfrm.create_child_sa / delete_child_sa read from a ChildSa (algorithm names already looked up in the
    _cipher_names / _auth_names tables). *)
Record child := mkchild { k_tsi_net : net; k_tsr_net : net; k_tsi_port : Z; k_tsr_port : Z; k_ip_proto : Z;
                          k_is_esp : bool; k_encr_alg : bytes; k_integ_alg : bytes; k_lifetime : Z; k_mode : Z;
                          k_outbound_spi : bytes; k_inbound_spi : bytes }.

(** Steps of IkeSaController.__init__ / close that touch the outside world, in program order. *)
Inductive ctl_step := StUrandom (n : Z) | StFlushPolicies | StFlushSas | StCreatePoliciesForEachConnection.
