(** C15 property theorems (nothing else lives here). *)
From Coq Require Import List ZArith.
From Xfrm Require Import Layout Params Gen.XfrmBuild PolicyModel PolicyProofs.
Import ListNotations.

(** Whatever SPD / SAD a previous incarnation left behind: after IkeSaController.__init__ the SAD is empty and
    the SPD holds exactly, for every protect entry of every connection (in order), the OUT policy with index
    entry.index*8+1, the IN and the FWD policy (index 0, selectors reversed, tunnel endpoints swapped), each as
    Xfrm.create_policy emits it.  [distinct_keys]: no two requested policies share selector and direction. *)
Theorem C15_startup : forall conf spd0 sad0,
  wf_conf conf -> distinct_keys (map policy_request (expected_policies conf)) = true ->
  controller_init conf (mk_kstate spd0 sad0)
  = Ok (mk_kstate (map policy_request (expected_policies conf)) []).
Proof. exact startup. Qed.
Print Assumptions C15_startup.

Theorem C15_close : forall conf st, controller_close conf st = Ok (mk_kstate [] []).
Proof. exact close. Qed.
Print Assumptions C15_close.

(** both expressions are generated from the source: `ipsec_conf.index << 3 | XFRM_POLICY_OUT` (xfrm.py) and
    `xfrm_acquire.policy.index >> 3` (ikesacontroller.py); the bound is the price of the 32-bit field *)
Theorem C15_index_roundtrip : forall i, (0 <= i < 2 ^ 29)%Z -> acquire_index (policy_out_index i mod 2 ^ 32) = i.
Proof. exact index_roundtrip. Qed.
Print Assumptions C15_index_roundtrip.

Theorem C15_index_bound_tight : acquire_index (policy_out_index (2 ^ 29) mod 2 ^ 32) = 0%Z.
Proof. exact index_roundtrip_bound_tight. Qed.
Print Assumptions C15_index_bound_tight.

(** an ACQUIRE whose index matches no protect entry: no request, no CHILD_SA *)
Theorem C15_unknown_index : forall protect index,
  (forall e, In e protect -> e_index e <> index) -> ikesa_process_acquire true protect index = AcqIgnored.
Proof. exact unknown_index. Qed.
Print Assumptions C15_unknown_index.

(** C15_acquire (partial: the lookup only): the ACQUIRE the kernel raises for the OUT policy of entry [e] is
    negotiated with entry [e].  Not covered by proof: the selectors / proposal / mode / lifetime of the request
    that is then built, and which IkeSa handles it (checked on the real code by correspondence and oracle). *)
Theorem C15_acquire_partial : forall protect e,
  In e protect -> NoDup (map e_index protect) -> (0 <= e_index e < 2 ^ 29)%Z ->
  ikesa_process_acquire true protect (acquire_index (kernel_index_of e)) = AcqNegotiate e.
Proof. exact acquire_maps_back. Qed.
Print Assumptions C15_acquire_partial.

(** Which IKE_SA handles an ACQUIRE for (my_addr, peer_addr) (lookup condition generated from
    IkeSaController._get_ike_sa_by_addrs): an existing table entry is re-used only if BOTH its addresses equal the
    pair; otherwise a new initiator for exactly that pair is created (F18: no re-use across connections that merely
    share the peer). *)
Theorem C15_acquire_ike_sa : forall table my peer,
  match pick_ike_sa table my peer with
  | PickExisting n => exists m p st, nth_error table n = Some (m, p, st) /\ ip_eqb m my = true /\ ip_eqb p peer = true /\
                                     ike_sa_usable st = true /\
                                     forall j y, j < n -> nth_error table j = Some y -> sa_fits my peer y = false
  | PickNewInitiator m p => m = my /\ p = peer /\ forall x, In x table -> sa_fits my peer x = false
  end.
Proof. exact acquire_ike_sa. Qed.
Print Assumptions C15_acquire_ike_sa.

(** the IKE_SAs that are passed over are exactly the ones being replaced or closed (F22) *)
Theorem C15_acquire_passes_over_closing_ike_sas : forall st,
  ike_sa_usable st = false <-> (st = 20 \/ st = 16 \/ st = 15 \/ st = 21)%Z.
Proof. exact usable_states. Qed.
Print Assumptions C15_acquire_passes_over_closing_ike_sas.
