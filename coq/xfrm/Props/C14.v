(** C14 property theorems (nothing else lives here). *)
From Coq Require Import List String ZArith.
From Xfrm Require Import Layout Gen.XfrmLayout Gen.KernelUapi Pairs LayoutProofs.
Import ListNotations.
Open Scope string_scope.

(** Every ctypes structure of netlink.py / xfrm.py mirrors a UAPI structure: same size and alignment, same members
    (offset, size, name up to [field_alias]) and the same leaves (offset, width, byte order; byte arrays and
    big-endian scalars identified; [order_free] members compared as bytes). *)
Theorem C14_layouts_agree : forall name t, In (name, t) Py.structs ->
  exists cname ct, lookup struct_pairs name = Some cname /\ lookup K.structs cname = Some ct
                   /\ struct_agreeb t ct = true.
Proof. exact layouts_agree. Qed.
Print Assumptions C14_layouts_agree.

Theorem C14_layout_sizes :
  c_size K.xfrm_usersa_info = 224 /\ c_size K.xfrm_user_tmpl = 64 /\ c_size K.xfrm_userpolicy_info = 168 /\
  c_size K.xfrm_selector = 56 /\ c_size K.xfrm_id = 24 /\ c_size K.xfrm_usersa_id = 24 /\
  c_size K.xfrm_user_acquire = 280 /\ c_size K.xfrm_user_expire = 232 /\ c_size K.xfrm_usersa_flush = 1 /\
  c_size K.nlmsghdr = 16 /\ c_size K.nlmsgerr = 20 /\ c_size K.nlattr = 4 /\
  c_size K.xfrm_algo = 68 /\ c_size Py.XfrmAlgo = 68 + 64.
Proof. exact layout_sizes. Qed.
Print Assumptions C14_layout_sizes.

(** The attribute wrapper of _attribute_factory = struct nlattr + payload at NLA_HDRLEN, total a multiple of 4. *)
Theorem C14_attr_layouts :
  attr_ok Py.XfrmAlgo K.xfrm_algo = true /\ attr_ok Py.XfrmUserTmpl K.xfrm_user_tmpl = true.
Proof. exact attr_layouts. Qed.
Print Assumptions C14_attr_layouts.

(** Every XFRM_*/XFRMA_*/NLM_*/NLMSG_* constant the daemon reads has the value the headers give it. *)
Theorem C14_constants_agree : forall n v, In (n, v) Py.used_consts -> lookup K.consts n = Some v.
Proof. exact constants_agree. Qed.
Print Assumptions C14_constants_agree.

From Coq Require Import NArith.
From VLib Require Import Bytes.
From Xfrm Require Import Params Gen.XfrmBuild XfrmModel KernelSpec Intent XfrmProofs.

(** FLUSHSA / FLUSHPOLICY: for every seq/pid the emitted bytes are one 17-byte message whose kernel-side reading
    (struct nlmsghdr + struct xfrm_usersa_flush at the C offsets) is: total length, the right type,
    REQUEST|ACK, seq, pid, proto 0. *)
Theorem C14_flush : forall r ty seq pid,
  (r = flush_policies /\ ty = K.XFRM_MSG_FLUSHPOLICY) \/ (r = flush_sas /\ ty = K.XFRM_MSG_FLUSHSA) ->
  wf32 seq -> wf32 pid ->
  emit_request r seq pid = Ok (message_bytes r seq pid) /\
  kernel_decode_flush (message_bytes r seq pid)
  = Some (mk_kflush (mk_khdr 17 (Z.to_N ty) flags_request_ack (Z.to_N seq) (Z.to_N pid)) 0).
Proof. exact flush_roundtrip. Qed.
Print Assumptions C14_flush.

(** DELSA: for ALL addresses (IPv4/IPv6), protocols, 4-byte SPIs, seq, pid: the kernel reads the family of the
    address, the address itself (a4 / a6), the SPI in network order and the protocol. *)
Theorem C14_delsa : forall daddr proto spi seq pid,
  wf_ip daddr -> (0 <= proto < 256)%Z -> List.length spi = 4 -> wf32 seq -> wf32 pid ->
  let r := delete_sa daddr proto spi in
  emit_request r seq pid = Ok (message_bytes r seq pid) /\
  kernel_decode_delsa (message_bytes r seq pid)
  = Some (mk_ksaid (mk_khdr 40 (Z.to_N K.XFRM_MSG_DELSA) flags_request_ack (Z.to_N seq) (Z.to_N pid))
                   (family_of daddr) (ip_packed daddr) (be_decode spi) (Z.to_N proto)).
Proof. exact delsa_roundtrip. Qed.
Print Assumptions C14_delsa.

From Xfrm Require Import NewsaProofs.

(** NEWSA, for ALL parameter values inside [wf_sa] (IPv4/IPv6 selectors and endpoints, every port, prefix length,
    protocol, 4-byte SPI, ESP/AH, mode, algorithm names below 64 bytes without NUL, keys up to 64 bytes, lifetime
    -1 or 0 .. 2^64-11) and all seq/pid: the builder does not raise, and the kernel-side decoder (struct nlmsghdr,
    struct xfrm_usersa_info, strict nla_parse, struct xfrm_algo - all at the C offsets of Gen/KernelUapi.v) reads
    exactly [intended_newsa]: header length = total length, type NEWSA, REQUEST|ACK, seq, pid; selector family,
    addresses of that family, network-order ports with masks 0/0xFFFF, prefix lengths, protocol; id.daddr, SPI,
    IPsec protocol, saddr, family, mode; byte/packet limits XFRM_INF, soft = lifetime / hard = lifetime + 10 (0/0
    for -1); every other field 0; XFRMA_ALG_CRYPT only for ESP and XFRMA_ALG_AUTH, each with nla_len = 4 + payload,
    4-aligned, NUL-terminated name, alg_key_len = 8 * len key, the key bytes; no other attribute. *)
Theorem C14_newsa : forall a seq pid,
  wf_sa a -> wf32 seq -> wf32 pid ->
  let r := emit_newsa a in
  emit_request r seq pid = Ok (message_bytes r seq pid) /\
  kernel_decode_newsa (message_bytes r seq pid) = Some (intended_newsa a seq pid).
Proof. exact newsa_roundtrip. Qed.
Print Assumptions C14_newsa.

(** The only byte-order disagreement between the ctypes mirror and the header (dport_mask / sport_mask are host
    order in XfrmSelector, __be16 in struct xfrm_selector) is immaterial for the two values the code stores. *)
Theorem C14_mask_order_free : forall port,
  let m := (if Z.eqb port 0 then 0 else 65535)%Z in enc LE 2 (trunc 2 m) = enc BE 2 (trunc 2 m).
Proof. exact mask_order_free. Qed.
Print Assumptions C14_mask_order_free.
