(** C14 property theorems (nothing else lives here). *)
From Coq Require Import List String ZArith.
From Xfrm Require Import Layout Gen.XfrmLayout Gen.KernelUapi Pairs LayoutProofs.
Import ListNotations.
Open Scope string_scope.

(** Every ctypes structure of netlink.py / xfrm.py mirrors a UAPI structure: same size and alignment, same members
    (offset, size, name up to [field_alias]) and the same leaves (offset, width, byte order; byte arrays and
    big-endian scalars identified; [order_free] members compared as bytes). *)
Theorem C14_layouts_agree : forall name t, In (name, t) Py.structs ->
  exists cname ct, lookup struct_pairs name = Some cname /\ lookup K.structs cname = Some ct
                   /\ struct_agreeb t ct = true.
Proof. exact layouts_agree. Qed.
Print Assumptions C14_layouts_agree.

Theorem C14_layout_sizes :
  c_size K.xfrm_usersa_info = 224 /\ c_size K.xfrm_user_tmpl = 64 /\ c_size K.xfrm_userpolicy_info = 168 /\
  c_size K.xfrm_selector = 56 /\ c_size K.xfrm_id = 24 /\ c_size K.xfrm_usersa_id = 24 /\
  c_size K.xfrm_user_acquire = 280 /\ c_size K.xfrm_user_expire = 232 /\ c_size K.xfrm_usersa_flush = 1 /\
  c_size K.nlmsghdr = 16 /\ c_size K.nlmsgerr = 20 /\ c_size K.nlattr = 4 /\
  c_size K.xfrm_algo = 68 /\ c_size Py.XfrmAlgo = 68 + 64.
Proof. exact layout_sizes. Qed.
Print Assumptions C14_layout_sizes.

(** The attribute wrapper of _attribute_factory = struct nlattr + payload at NLA_HDRLEN, total a multiple of 4. *)
Theorem C14_attr_layouts :
  attr_ok Py.XfrmAlgo K.xfrm_algo = true /\ attr_ok Py.XfrmUserTmpl K.xfrm_user_tmpl = true.
Proof. exact attr_layouts. Qed.
Print Assumptions C14_attr_layouts.

(** Every XFRM_*/XFRMA_*/NLM_*/NLMSG_* constant the daemon reads has the value the headers give it. *)
Theorem C14_constants_agree : forall n v, In (n, v) Py.used_consts -> lookup K.consts n = Some v.
Proof. exact constants_agree. Qed.
Print Assumptions C14_constants_agree.

From Coq Require Import NArith.
From VLib Require Import Bytes.
From Xfrm Require Import Params Gen.XfrmBuild XfrmModel KernelSpec Intent XfrmProofs.

(** FLUSHSA / FLUSHPOLICY: for every seq/pid the emitted bytes are one 17-byte message whose kernel-side reading
    (struct nlmsghdr + struct xfrm_usersa_flush at the C offsets) is: total length, the right type,
    REQUEST|ACK, seq, pid, proto 0. *)
Theorem C14_flush : forall r ty seq pid,
  (r = flush_policies /\ ty = K.XFRM_MSG_FLUSHPOLICY) \/ (r = flush_sas /\ ty = K.XFRM_MSG_FLUSHSA) ->
  wf32 seq -> wf32 pid ->
  emit_request r seq pid = Ok (message_bytes r seq pid) /\
  kernel_decode_flush (message_bytes r seq pid)
  = Some (mk_kflush (mk_khdr 17 (Z.to_N ty) flags_request_ack (Z.to_N seq) (Z.to_N pid)) 0).
Proof. exact flush_roundtrip. Qed.
Print Assumptions C14_flush.

(** DELSA: for ALL addresses (IPv4/IPv6), protocols, 4-byte SPIs, seq, pid: the kernel reads the family of the
    address, the address itself (a4 / a6), the SPI in network order and the protocol. *)
Theorem C14_delsa : forall daddr proto spi seq pid,
  wf_ip daddr -> (0 <= proto < 256)%Z -> List.length spi = 4 -> wf32 seq -> wf32 pid ->
  let r := delete_sa daddr proto spi in
  emit_request r seq pid = Ok (message_bytes r seq pid) /\
  kernel_decode_delsa (message_bytes r seq pid)
  = Some (mk_ksaid (mk_khdr 40 (Z.to_N K.XFRM_MSG_DELSA) flags_request_ack (Z.to_N seq) (Z.to_N pid))
                   (family_of daddr) (ip_packed daddr) (be_decode spi) (Z.to_N proto)).
Proof. exact delsa_roundtrip. Qed.
Print Assumptions C14_delsa.
