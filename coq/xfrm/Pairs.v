(** Which ctypes class mirrors which UAPI structure, and the member names that differ (spec-level table,
    written from the comments of <linux/xfrm.h>, not from the Python). *)
From Coq Require Import List String ZArith Bool.
From Xfrm Require Import Layout Gen.XfrmLayout Gen.KernelUapi.
Import ListNotations.
Open Scope string_scope.

Definition struct_pairs : list (string * string) := [
  ("NetlinkHeader", "nlmsghdr"); ("NetlinkErrorMsg", "nlmsgerr");
  ("XfrmAddress", "xfrm_address_t"); ("XfrmSelector", "xfrm_selector");
  ("XfrmUserPolicyId", "xfrm_userpolicy_id"); ("XfrmLifetimeCfg", "xfrm_lifetime_cfg");
  ("XfrmLifetimeCur", "xfrm_lifetime_cur"); ("XfrmUserPolicyInfo", "xfrm_userpolicy_info");
  ("XfrmUserSaFlush", "xfrm_usersa_flush"); ("XfrmId", "xfrm_id"); ("XfrmUserTmpl", "xfrm_user_tmpl");
  ("XfrmStats", "xfrm_stats"); ("XfrmUserSaInfo", "xfrm_usersa_info"); ("XfrmAlgo", "xfrm_algo");
  ("XfrmUserSaId", "xfrm_usersa_id"); ("XfrmUserAcquire", "xfrm_user_acquire");
  ("XfrmUserExpire", "xfrm_user_expire")].

(** (ctypes member, C member) pairs accepted although the spelling differs. *)
Definition field_alias : list (string * string) := [
  ("length", "nlmsg_len"); ("type", "nlmsg_type"); ("flags", "nlmsg_flags"); ("seq", "nlmsg_seq");
  ("pid", "nlmsg_pid"); ("addr", "a6"); ("selector", "sel"); ("soft_packed_limit", "soft_packet_limit");
  ("cur", "curlft"); ("key", "alg_key"); ("len", "nla_len"); ("code", "nla_type")].

(** Members whose declared byte order differs (ctypes: host order c_uint16; header: __be16) but is immaterial:
    the only values ever stored there are 0 and 0xFFFF, whose two bytes are equal (XfrmProofs.mask_order_free). *)
Definition order_free : list string := ["dport_mask"; "sport_mask"].

(** A union is compared through its first member of maximal size. *)
Definition view (t : ctype) : ctype :=
  match t with
  | TUnion fs =>
      match find (fun '(_, m) => Nat.eqb (c_size m) (union_max fs)) fs with
      | Some (n, m) => TStruct [(n, m)]
      | None => t
      end
  | _ => t
  end.

Definition last_arr_len (t : ctype) : nat :=
  match t with
  | TStruct fs => match last fs ("", TInt 0 LE false) with (_, TArr n _) => n | _ => 0 end
  | _ => 0
  end.

(** ctypes structure [a] mirrors C aggregate [b]; a trailing flexible array of [b] is instantiated with the
    length of the fixed array ctypes declares in its place (XfrmAlgo.key: 64 bytes). *)
Definition struct_agreeb (a b : ctype) : bool :=
  layouts_agreeb field_alias order_free a (view (inst_flex (last_arr_len a) b))
  && Nat.eqb (c_size b) (c_size (view b)) && Nat.eqb (c_align b) (c_align (view b)).

Definition pair_ok (nt : string * ctype) : bool :=
  match lookup struct_pairs (fst nt) with
  | Some cname => match lookup K.structs cname with
                  | Some ct => struct_agreeb (snd nt) ct
                  | None => false
                  end
  | None => false
  end.

(** The attribute wrapper of _attribute_factory against struct nlattr followed by the payload. *)
Definition nlattr_with (payload : ctype) : ctype :=
  match K.nlattr with
  | TStruct fs => TStruct (fs ++ [("data", payload)])
  | t => t
  end.

Definition attr_ok (py c : ctype) : bool :=
  layouts_agreeb field_alias order_free (Py.Internal py) (nlattr_with (inst_flex (last_arr_len py) c))
  && (match field_off (Py.Internal py) "data" with
      | Some o => Nat.eqb o (round_up (c_size K.nlattr) (Z.to_nat K.NLA_ALIGNTO))
      | None => match lookup (members (Py.Internal py)) "data" with
                | Some (o, _) => Nat.eqb o (round_up (c_size K.nlattr) (Z.to_nat K.NLA_ALIGNTO))
                | None => false
                end
      end)
  && Nat.eqb (Nat.modulo (c_size (Py.Internal py)) (Z.to_nat K.NLA_ALIGNTO)) 0.

Definition const_ok (nv : string * Z) : bool :=
  match lookup K.consts (fst nv) with Some v => Z.eqb v (snd nv) | None => false end.
