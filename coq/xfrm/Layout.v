(** Natural-alignment layout of C-like aggregate types, used for BOTH the ctypes [_fields_] lists of
    /repo/xfrm.py + /repo/netlink.py (Gen/XfrmLayout.v) and the struct/union definitions of
    <linux/xfrm.h> + <linux/netlink.h> (Gen/KernelUapi.v).  Definitions only (no proofs): the
    executable model must keep running when a proof breaks.  The layout algorithm itself is validated
    on every run against gcc (offsetof/sizeof of every field of every header struct) and against the
    real ctypes classes. *)
From Coq Require Import List String ZArith NArith Arith Bool.
From VLib Require Import Bytes.
Import ListNotations.
Open Scope nat_scope.
Open Scope string_scope.

Inductive endian := LE | BE.

Inductive ctype :=
| TInt (w : nat) (e : endian) (sg : bool)   (* scalar of [w] bytes; [sg] = signed *)
| TArr (n : nat) (t : ctype)
| TFlex (t : ctype)                          (* C flexible array member: size 0 *)
| TStruct (fs : list (string * ctype))
| TUnion (fs : list (string * ctype)).

Definition endian_eqb (a b : endian) : bool :=
  match a, b with LE, LE | BE, BE => true | _, _ => false end.

Definition round_up (n a : nat) : nat :=
  match a with O => n | _ => ((n + a - 1) / a) * a end.

Fixpoint c_align (t : ctype) : nat :=
  match t with
  | TInt w _ _ => w
  | TArr _ t => c_align t
  | TFlex t => c_align t
  | TStruct fs =>
      (fix go (fs : list (string * ctype)) : nat :=
         match fs with [] => 1 | (_, t) :: r => Nat.max (c_align t) (go r) end) fs
  | TUnion fs =>
      (fix go (fs : list (string * ctype)) : nat :=
         match fs with [] => 1 | (_, t) :: r => Nat.max (c_align t) (go r) end) fs
  end.

Fixpoint c_size (t : ctype) : nat :=
  match t with
  | TInt w _ _ => w
  | TArr n t => n * c_size t
  | TFlex _ => 0
  | TStruct fs =>
      round_up
        ((fix go (fs : list (string * ctype)) (cur : nat) : nat :=
            match fs with
            | [] => cur
            | (_, t) :: r => go r (round_up cur (c_align t) + c_size t)
            end) fs 0)
        (c_align (TStruct fs))
  | TUnion fs =>
      round_up
        ((fix go (fs : list (string * ctype)) : nat :=
            match fs with [] => 0 | (_, t) :: r => Nat.max (c_size t) (go r) end) fs)
        (c_align (TUnion fs))
  end.

(** Offsets and sizes of the direct members (what offsetof/sizeof and ctypes' field descriptors report). *)
Fixpoint members_from (fs : list (string * ctype)) (cur : nat) : list (string * (nat * nat)) :=
  match fs with
  | [] => []
  | (n, t) :: r =>
      let off := round_up cur (c_align t) in
      (n, (off, c_size t)) :: members_from r (off + c_size t)
  end.

Definition members (t : ctype) : list (string * (nat * nat)) :=
  match t with
  | TStruct fs => members_from fs 0
  | TUnion fs => map (fun '(n, t) => (n, (0, c_size t))) fs
  | _ => []
  end.

(** Leaves: the scalar (or array-of-scalar) members of the flattened type with their absolute offsets.
    A union is viewed through its first member of maximal size (xfrm_address_t -> a6[4]). *)
Record leaf := mkleaf { lf_path : string; lf_off : nat; lf_n : nat; lf_w : nat; lf_end : endian;
                        lf_sg : bool; lf_flex : bool }.

Definition join (p n : string) : string := if String.eqb p "" then n else p ++ "." ++ n.

Definition union_max (fs : list (string * ctype)) : nat :=
  fold_right (fun '(_, t) acc => Nat.max (c_size t) acc) 0 fs.

Fixpoint leaves (p : string) (base : nat) (t : ctype) : list leaf :=
  match t with
  | TInt w e s => [mkleaf p base 1 w e s false]
  | TArr n (TInt w e s) => [mkleaf p base n w e s false]
  | TArr _ _ => []
  | TFlex (TInt w e s) => [mkleaf p base 0 w e s true]
  | TFlex _ => []
  | TStruct fs =>
      (fix go (fs : list (string * ctype)) (cur : nat) : list leaf :=
         match fs with
         | [] => []
         | (n, t) :: r =>
             let off := round_up cur (c_align t) in
             (leaves (join p n) (base + off) t ++ go r (off + c_size t))%list
         end) fs 0
  | TUnion fs =>
      let m := union_max fs in
      (fix go (fs : list (string * ctype)) : list leaf :=
         match fs with
         | [] => []
         | (n, t) :: r => if Nat.eqb (c_size t) m then leaves (join p n) base t else go r
         end) fs
  end.

(** Types inside the subset the leaf view handles (arrays and flexible arrays of scalars only). *)
Fixpoint supported (t : ctype) : bool :=
  match t with
  | TInt w _ _ => Nat.ltb 0 w
  | TArr _ (TInt w _ _) => Nat.ltb 0 w
  | TArr _ _ => false
  | TFlex (TInt w _ _) => Nat.ltb 0 w
  | TFlex _ => false
  | TStruct fs =>
      (fix go (fs : list (string * ctype)) : bool :=
         match fs with [] => true | (_, t) :: r => supported t && go r end) fs
  | TUnion fs =>
      (fix go (fs : list (string * ctype)) : bool :=
         match fs with [] => true | (_, t) :: r => supported t && go r end) fs
  end.

(** A struct whose last member is a flexible array, instantiated with [k] elements
    (ctypes mirrors xfrm_algo with a fixed 64-byte key array). *)
Definition inst_flex (k : nat) (t : ctype) : ctype :=
  match t with
  | TStruct fs => TStruct (map (fun '(n, t) => match t with TFlex e => (n, TArr k e) | _ => (n, t) end) fs)
  | _ => t
  end.

Definition leaf_len (l : leaf) : nat := lf_n l * lf_w l.

Fixpoint find_leaf (p : string) (ls : list leaf) : option leaf :=
  match ls with
  | [] => None
  | l :: r => if String.eqb p (lf_path l) then Some l else find_leaf p r
  end.

Definition layout (t : ctype) : list leaf := leaves "" 0 t.

(** Well-formed leaf list: increasing, non-overlapping, inside [size]. *)
Fixpoint wf_leaves (ls : list leaf) (cur size : nat) : bool :=
  match ls with
  | [] => Nat.leb cur size
  | l :: r => Nat.leb cur (lf_off l) && wf_leaves r (lf_off l + leaf_len l) size
  end.

Definition wf_layout (t : ctype) : bool := supported t && wf_leaves (layout t) 0 (c_size t).

(** ------------------------------------------------------------------------------------------
    Comparing two layouts.  Normal form of a leaf list: little-endian scalars stay scalars; byte
    arrays and big-endian scalars are the same thing on the wire (a byte sequence in network order:
    [c_ubyte * 4] vs [__be32] for the SPI), so both are exploded into single bytes. *)
Inductive nleaf := NScalar (off w : nat) | NByte (off : nat).

Definition nleaf_eqb (a b : nleaf) : bool :=
  match a, b with
  | NScalar o w, NScalar o' w' => Nat.eqb o o' && Nat.eqb w w'
  | NByte o, NByte o' => Nat.eqb o o'
  | _, _ => false
  end.

Definition ends_with (suf s : string) : bool :=
  let n := String.length s in
  let m := String.length suf in
  Nat.leb m n && String.eqb (substring (n - m) m s) suf.

(** [free]: member names whose declared byte order is ignored (treated as plain bytes on both sides); the
    caller has to justify every entry (see [mask_order_free] in XfrmProofs). *)
Definition norm_leaf (free : list string) (l : leaf) : list nleaf :=
  if existsb (fun f => ends_with f (lf_path l)) free
  then map (fun i => NByte (lf_off l + i)) (seq 0 (leaf_len l))
  else
  match lf_end l, lf_w l with
  | LE, S (S _) => map (fun i => NScalar (lf_off l + i * lf_w l) (lf_w l)) (seq 0 (lf_n l))
  | _, _ => map (fun i => NByte (lf_off l + i)) (seq 0 (leaf_len l))
  end.

Definition norm_leaves (free : list string) (ls : list leaf) : list nleaf := flat_map (norm_leaf free) ls.

Fixpoint list_eqb {A} (eqb : A -> A -> bool) (a b : list A) : bool :=
  match a, b with
  | [], [] => true
  | x :: a', y :: b' => eqb x y && list_eqb eqb a' b'
  | _, _ => false
  end.

Definition name_ok (alias : list (string * string)) (a b : string) : bool :=
  String.eqb a b || existsb (fun '(x, y) => String.eqb a x && String.eqb b y) alias.

Definition member_eqb (alias : list (string * string)) (a b : string * (nat * nat)) : bool :=
  name_ok alias (fst a) (fst b) && Nat.eqb (fst (snd a)) (fst (snd b)) && Nat.eqb (snd (snd a)) (snd (snd b)).

(** [a] (ctypes) and [b] (C) agree: same size, same alignment, same direct members (name up to the alias
    table, offset, size), same normalised leaves.  Signedness is deliberately not compared (see
    [sign_diffs]). *)
Definition layouts_agreeb (alias : list (string * string)) (free : list string) (a b : ctype) : bool :=
  wf_layout a && wf_layout b &&
  Nat.eqb (c_size a) (c_size b) && Nat.eqb (c_align a) (c_align b) &&
  list_eqb (member_eqb alias) (members a) (members b) &&
  list_eqb nleaf_eqb (norm_leaves free (layout a)) (norm_leaves free (layout b)).

(** Scalars (same offset and width) whose signedness differs. *)
Definition sign_diffs (a b : ctype) : list string :=
  flat_map (fun la =>
    flat_map (fun lb =>
      if Nat.eqb (lf_off la) (lf_off lb) && Nat.eqb (lf_w la) (lf_w lb) && Nat.eqb (lf_n la) (lf_n lb)
         && negb (Bool.eqb (lf_sg la) (lf_sg lb))
      then [lf_path la] else []) (layout b)) (layout a).

(** ------------------------------------------------------------------------------------------
    Little-endian integers (VLib.Bytes has the big-endian ones). *)
Open Scope N_scope.

Fixpoint le_encode (w : nat) (n : N) : bytes :=
  match w with
  | O => []
  | S w' => (n mod 256) :: le_encode w' (n / 256)
  end.

Fixpoint le_decode (l : bytes) : N :=
  match l with
  | [] => 0
  | b :: r => b + 256 * le_decode r
  end.

Definition zeros (n : nat) : bytes := repeat 0 n.

Definition enc (e : endian) (w : nat) (n : N) : bytes :=
  match e with LE => le_encode w n | BE => be_encode w n end.

Definition dec (e : endian) (l : bytes) : N :=
  match e with LE => le_decode l | BE => be_decode l end.

(** ctypes stores an out-of-range Python int modulo 2^bits. *)
Definition trunc (w : nat) (z : Z) : N := Z.to_N (z mod (2 ^ (8 * Z.of_nat w)))%Z.

Definition to_signed (w : nat) (n : N) : Z :=
  let m := (2 ^ (8 * Z.of_nat w))%Z in
  if (Z.of_N n <? m / 2)%Z then Z.of_N n else (Z.of_N n - m)%Z.

Close Scope N_scope.
Open Scope nat_scope.
Open Scope string_scope.

(** ------------------------------------------------------------------------------------------
    Values given to fields and the byte image of a structure. *)
Inductive fv :=
| VInt (z : Z)                    (* Python int stored in a scalar field *)
| VWords (l : list Z)             (* element-wise stores into an array of scalars (XfrmAddress.addr) *)
| VArrExact (l : bytes)           (* create_byte_array(data): a (c_ubyte * len(data)) instance *)
| VArrPad (l : bytes) (n : nat).  (* create_byte_array(data, n): (c_ubyte * n)( *data ) *)

Inductive exn := TypeError | IndexError | KeyError | NetlinkError | StopIteration | ValueError.

Inductive result (A : Type) := Ok (a : A) | Raise (e : exn).
Arguments Ok {A} a.
Arguments Raise {A} e.

Definition fit {A} (n : nat) (d : A) (l : list A) : list A := (firstn n l ++ repeat d (n - List.length l))%list.

Definition leaf_bytes (l : leaf) (v : option fv) : bytes :=
  match v with
  | None => zeros (leaf_len l)
  | Some (VInt z) => fit (leaf_len l) 0%N (enc (lf_end l) (lf_w l) (trunc (lf_w l) z))
  | Some (VWords zs) =>
      fit (leaf_len l) 0%N (flat_map (fun z => enc (lf_end l) (lf_w l) (trunc (lf_w l) z)) zs)
  | Some (VArrExact bs) => fit (leaf_len l) 0%N bs
  | Some (VArrPad bs _) => fit (leaf_len l) 0%N bs
  end.

(** What ctypes refuses. *)
Definition leaf_check (l : leaf) (v : option fv) : option exn :=
  match v with
  | None => None
  | Some (VInt _) => if Nat.eqb (lf_n l) 1 then None else Some TypeError
  | Some (VWords zs) => if Nat.leb (List.length zs) (lf_n l) then None else Some IndexError
  | Some (VArrExact bs) =>
      if Nat.eqb (lf_w l) 1 && Nat.eqb (List.length bs) (lf_n l) then None else Some TypeError
  | Some (VArrPad bs n) =>
      if Nat.ltb n (List.length bs) then Some IndexError
      else if Nat.eqb (lf_w l) 1 && Nat.eqb n (lf_n l) then None else Some TypeError
  end.

Fixpoint lookup {A} (fields : list (string * A)) (p : string) : option A :=
  match fields with
  | [] => None
  | (k, v) :: r => if String.eqb p k then Some v else lookup r p
  end.

Fixpoint enc_leaves (ls : list leaf) (cur size : nat) (f : string -> option fv) : bytes :=
  match ls with
  | [] => zeros (size - cur)
  | l :: r => (zeros (lf_off l - cur) ++ leaf_bytes l (f (lf_path l))
              ++ enc_leaves r (lf_off l + leaf_len l) size f)%list
  end.

Definition encode_struct (t : ctype) (fields : list (string * fv)) : bytes :=
  enc_leaves (layout t) 0 (c_size t) (lookup fields).

Fixpoint check_leaves (ls : list leaf) (f : string -> option fv) : option exn :=
  match ls with
  | [] => None
  | l :: r => match leaf_check l (f (lf_path l)) with Some e => Some e | None => check_leaves r f end
  end.

Definition check_struct (t : ctype) (fields : list (string * fv)) : option exn :=
  check_leaves (layout t) (lookup fields).

(** Reading a field of a structure image that starts at [base] in [d]. *)
Definition sub (d : bytes) (off len : nat) : bytes := slice d off (off + len).

Definition leaf_int (l : leaf) (d : bytes) (base : nat) : N :=
  dec (lf_end l) (sub d (base + lf_off l) (lf_w l)).

Definition read_int (t : ctype) (p : string) (d : bytes) (base : nat) : option N :=
  match find_leaf p (layout t) with
  | Some l => Some (leaf_int l d base)
  | None => None
  end.

Definition read_bytes (t : ctype) (p : string) (d : bytes) (base : nat) : option bytes :=
  match find_leaf p (layout t) with
  | Some l => Some (sub d (base + lf_off l) (leaf_len l))
  | None => None
  end.

(** Offset of a field (for flexible members: where the trailing data starts). *)
Definition field_off (t : ctype) (p : string) : option nat :=
  match find_leaf p (layout t) with Some l => Some (lf_off l) | None => None end.
