(** Entry points evaluated by the correspondence checks (sx in, sx out). *)
From Coq Require Import List String ZArith NArith Bool.
From VLib Require Import Sx Bytes.
From Xfrm Require Import Layout Params Gen.XfrmLayout Gen.KernelUapi Gen.XfrmBuild Pairs.
Import ListNotations.
Open Scope string_scope.

(** Layout report of one aggregate: [size; align; [[member; offset; size]...]; [[leaf path; offset; count; width; big-endian]...]].
    input: L [S "K" | S "Py"; S name] *)
Definition layout_report (t : ctype) : sx :=
  SxL [sx_nat (c_size t); sx_nat (c_align t);
       SxL (map (fun '(n, (o, s)) => SxL [SxS n; sx_nat o; sx_nat s]) (members t));
       SxL (map (fun l => SxL [SxS (lf_path l); sx_nat (lf_off l); sx_nat (lf_n l); sx_nat (lf_w l);
                               sx_bool (match lf_end l with BE => true | LE => false end)]) (layout t))].

Definition run_layout (x : sx) : sx :=
  match x with
  | SxL [SxS "K"; SxS n] => match lookup K.structs n with Some t => layout_report t | None => bad_input end
  | SxL [SxS "Py"; SxS n] => match lookup Py.structs n with Some t => layout_report t | None => bad_input end
  | SxL [SxS "PyAttr"; SxS n] =>
      match lookup Py.structs n with Some t => layout_report (Py.Internal t) | None => bad_input end
  | _ => bad_input
  end.

(** ---- requests *)
From Xfrm Require Import XfrmModel PolicyModel.
Open Scope Z_scope.

Definition sx_ip (x : sx) : option ip :=
  match x with
  | SxL [SxZ v; SxH h] => match hex_to_bytes h with Some b => Some (mkip v b) | None => None end
  | _ => None
  end.

Definition sx_net (x : sx) : option net :=
  match x with
  | SxL [a; SxZ p] => match sx_ip a with Some a => Some (mknet a p) | None => None end
  | _ => None
  end.

Definition ob {A B} (o : option A) (f : A -> option B) : option B := match o with Some a => f a | None => None end.

Definition sx_entry (x : sx) : option entry :=
  match x with
  | SxL [mn; pn; SxZ mp; SxZ pp; SxZ proto; SxZ esp; SxZ mode; SxZ idx] =>
      ob (sx_net mn) (fun mn => ob (sx_net pn) (fun pn =>
        Some (mkentry mn pn mp pp proto (negb (Z.eqb esp 0)) mode idx)))
  | _ => None
  end.

Fixpoint opt_all {A} (l : list (option A)) : option (list A) :=
  match l with
  | [] => Some []
  | Some a :: r => match opt_all r with Some r => Some (a :: r) | None => None end
  | None :: _ => None
  end.

Definition sx_conn (x : sx) : option conn :=
  match x with
  | SxL [ma; pa; SxL es] =>
      ob (sx_ip ma) (fun ma => ob (sx_ip pa) (fun pa => ob (opt_all (map sx_entry es)) (fun es =>
        Some (mkconn ma pa es))))
  | _ => None
  end.

Definition sx_child (x : sx) : option child :=
  match x with
  | SxL [tn; rn; SxZ tp; SxZ rp; SxZ proto; SxZ esp; ea; ia; SxZ lt; SxZ mode; os; is_] =>
      ob (sx_net tn) (fun tn => ob (sx_net rn) (fun rn => ob (get_bytes ea) (fun ea => ob (get_bytes ia) (fun ia =>
      ob (get_bytes os) (fun os => ob (get_bytes is_) (fun is_ =>
        Some (mkchild tn rn tp rp proto (negb (Z.eqb esp 0)) ea ia lt mode os is_)))))))
  | _ => None
  end.

Definition exn_name (e : exn) : string :=
  match e with
  | TypeError => "TypeError" | IndexError => "IndexError" | KeyError => "KeyError"
  | NetlinkError => "NetlinkError" | StopIteration => "StopIteration" | ValueError => "ValueError"
  end.

Definition sx_outcome (o : outcome) : sx :=
  match o with
  | Done n => SxS "done"
  | Raised e => SxS (exn_name e)
  | Diverged => SxS "diverged"
  end.

Definition sx_sent (l : list (option bytes)) : sx :=
  SxL (flat_map (fun o => match o with Some b => [sx_bytes b] | None => [] end) l).

Definition sx_result (r : list (option bytes) * outcome) : sx := SxL [sx_sent (fst r); sx_outcome (snd r)].

Definition one (r : option bytes * outcome) : list (option bytes) * outcome := ([fst r], snd r).

(** input: L [call; seq; pid; L replies]; output: L [L sent; outcome] *)
Definition run_call_with (sx_result : list (option bytes) * outcome -> sx) (x : sx) : sx :=
  match x with
  | SxL [call; SxZ seq; SxZ pid; SxL replies] =>
      match opt_all (map get_bytes replies) with
      | None => bad_input
      | Some replies =>
          let r1 := hd [] replies in
          match call with
          | SxL [SxS "create_sa"; ss; ds; SxZ sp; SxZ dp; spi; SxZ ipp; SxZ ipsp; SxZ mode; src; dst; ea; ske; aa; ska;
                 SxZ lt] =>
              match sx_net ss, sx_net ds, get_bytes spi, sx_ip src, sx_ip dst, get_bytes ea, get_bytes ske,
                    get_bytes aa, get_bytes ska with
              | Some ss, Some ds, Some spi, Some src, Some dst, Some ea, Some ske, Some aa, Some ska =>
                  sx_result (one (run_request (create_sa ss ds sp dp spi ipp ipsp mode src dst ea ske aa ska lt)
                                              seq pid r1))
              | _, _, _, _, _, _, _, _, _ => bad_input
              end
          | SxL [SxS "create_policy"; ss; ds; SxZ sp; SxZ dp; SxZ ipp; SxZ dir; SxZ ipsp; SxZ mode; src; dst; SxZ idx] =>
              match sx_net ss, sx_net ds, sx_ip src, sx_ip dst with
              | Some ss, Some ds, Some src, Some dst =>
                  sx_result (one (run_request (create_policy ss ds sp dp ipp dir ipsp mode src dst idx) seq pid r1))
              | _, _, _, _ => bad_input
              end
          | SxL [SxS "delete_sa"; da; SxZ proto; spi] =>
              match sx_ip da, get_bytes spi with
              | Some da, Some spi => sx_result (one (run_request (delete_sa da proto spi) seq pid r1))
              | _, _ => bad_input
              end
          | SxL [SxS "flush_policies"] => sx_result (one (run_request flush_policies seq pid r1))
          | SxL [SxS "flush_sas"] => sx_result (one (run_request flush_sas seq pid r1))
          | SxL [SxS "create_policies"; c] =>
              match sx_conn c with
              | Some c => sx_result (run_requests (create_policies c) seq pid replies)
              | None => bad_input
              end
          | SxL [SxS "create_child_sa"; k; ma; pa; SxZ ini; a; b; c; d; SxZ jit] =>
              match sx_child k, sx_ip ma, sx_ip pa, get_bytes a, get_bytes b, get_bytes c, get_bytes d with
              | Some k, Some ma, Some pa, Some a, Some b, Some c, Some d =>
                  sx_result (run_create_child_sa (create_child_sa k ma pa (negb (Z.eqb ini 0)) a b c d jit)
                                                 seq pid replies)
              | _, _, _, _, _, _, _ => bad_input
              end
          | SxL [SxS "controller_init"; SxL cs] =>
              match opt_all (map sx_conn cs) with
              | Some cs => sx_result (run_requests (PolicyModel.controller_init_requests cs) seq pid replies)
              | None => bad_input
              end
          | SxL [SxS "controller_close"; SxL cs] =>
              match opt_all (map sx_conn cs) with
              | Some cs => sx_result (run_requests (PolicyModel.controller_close_requests cs) seq pid replies)
              | None => bad_input
              end
          | SxL [SxS "delete_child_sa"; k; ma; pa] =>
              match sx_child k, sx_ip ma, sx_ip pa with
              | Some k, Some ma, Some pa => sx_result (run_requests (delete_child_sa k ma pa) seq pid replies)
              | _, _, _ => bad_input
              end
          | _ => bad_input
          end
      end
  | _ => bad_input
  end.

(** ---- parsing.  input: H bytes; output:
    L [header image; None | L [type; payload image]; L [L [type; image]...]; derived]
    derived = what IkeSaController.process_acquire / process_expire read from the parsed objects. *)
Definition sx_ipval (a : ip) : sx := SxL [SxZ (ip_version a); sx_bytes (ip_packed a)].

Definition derived (m : message) : sx :=
  match m_payload m with
  | Some (ty, img) =>
      if Z.eqb ty Py.XFRM_MSG_ACQUIRE then
        match lookupZ (m_attrs m) Py.XFRMA_TMPL with
        | None => SxS "KeyError"
        | Some timg =>
            let t := Py.XfrmUserAcquire in
            let family := img_int Py.XfrmUserTmpl "family" timg in
            let sf := img_int t "sel.family" img in
            SxL [SxZ family;
                 sx_ipval (to_ipaddr (img_bytes t "id.daddr.addr" img) family);
                 sx_ipval (to_ipaddr (img_bytes t "saddr.addr" img) family);
                 SxZ sf;
                 sx_ipval (to_ipaddr (img_bytes t "sel.saddr.addr" img) sf);
                 sx_ipval (to_ipaddr (img_bytes t "sel.daddr.addr" img) sf);
                 SxZ (img_int t "sel.sport" img); SxZ (img_int t "sel.dport" img); SxZ (img_int t "sel.proto" img);
                 SxZ (img_int t "policy.index" img); SxZ (acquire_index (img_int t "policy.index" img))]
        end
      else if Z.eqb ty Py.XFRM_MSG_EXPIRE then
        SxL [sx_bytes (img_bytes Py.XfrmUserExpire "state.id.spi" img); SxZ (img_int Py.XfrmUserExpire "hard" img)]
      else SxNone
  | None => SxNone
  end.

Definition run_parse (x : sx) : sx :=
  match get_bytes x with
  | Some d =>
      let m := parse_message d in
      SxL [sx_bytes (m_header m);
           match m_payload m with Some (ty, img) => SxL [SxZ ty; sx_bytes img] | None => SxNone end;
           SxL (map (fun kv => SxL [SxZ (fst kv); sx_bytes (snd kv)]) (m_attrs m));
           derived m]
  | None => bad_input
  end.

(** reply loop alone.  input: H reply bytes; output: outcome *)
Definition run_reply (x : sx) : sx :=
  match get_bytes x with
  | Some d => match recv_outcome d with Done n => sx_nat n | o => sx_outcome o end
  | None => bad_input
  end.

(** Compact comparison of long byte strings: length and two polynomial fingerprints folded modulo 2^61-1
    (parsing hundreds of kilobytes of literals is what limits the case count, not evaluating the model).
    A sample of the cases of every run is compared byte for byte with [run_call]. *)
Definition fp_mask : N := 2305843009213693951%N.
Definition fp_step (base acc x : N) : N :=
  let y := (acc * base + x + 1)%N in (N.land y fp_mask + N.shiftr y 61)%N.
Definition fp (base : N) (b : bytes) : N := fold_left (fp_step base) b 0%N.
Definition sx_fp (b : bytes) : sx := SxL [sx_nat (List.length b); sx_N (fp 257 b); sx_N (fp 65599 b)].

Definition sx_result_fp (r : list (option bytes) * outcome) : sx :=
  SxL [SxL (flat_map (fun o => match o with Some b => [sx_fp b] | None => [] end) (fst r)); sx_outcome (snd r)].

Definition run_call (x : sx) : sx := run_call_with sx_result x.
Definition run_call_fp (x : sx) : sx := run_call_with sx_result_fp x.

(** ---- C15: the abstract kernel after start-up from a prior state that holds [n0] foreign policies and [m0] SAs
    (their content is irrelevant to the model: FLUSH removes them).  input: L [L conns]; output:
    L [number of SAs; L [fingerprint-free policy summaries]] or S "NetlinkError".
    summary of a policy = L [dir; index; sel.family; sel.sport; sel.dport; sel.proto; prefixlen_s; prefixlen_d] *)
Definition fv_Z (o : option fv) : Z := match o with Some (VInt z) => z | _ => (-1)%Z end.

Definition policy_summary (r : request) : sx :=
  let f := fun p => SxZ (fv_Z (lookup (rq_payload r) p)) in
  SxL [f "dir"; f "index"; f "sel.family"; f "sel.sport"; f "sel.dport"; f "sel.proto"; f "sel.prefixlen_s";
       f "sel.prefixlen_d"].

Definition run_startup (x : sx) : sx :=
  match x with
  | SxL [SxL cs] =>
      match opt_all (map sx_conn cs) with
      | Some cs =>
          match controller_init cs (mk_kstate [flush_sas; flush_sas] [flush_policies]) with
          | Ok st => SxL [sx_nat (List.length (sad st)); SxL (map policy_summary (spd st))]
          | Raise e => SxS (exn_name e)
          end
      | None => bad_input
      end
  | _ => bad_input
  end.

(** IkeSa.process_acquire's lookup.  input: L [L [entry index...]; policy index of the ACQUIRE]; output: the position
    of the entry that is negotiated, or -1 when the ACQUIRE is ignored *)
Fixpoint index_of (l : list Z) (i : Z) (n : Z) : Z :=
  match l with [] => (-1)%Z | x :: r => if protect_match x i then n else index_of r i (n + 1) end.

Definition run_acquire_lookup (x : sx) : sx :=
  match x with
  | SxL [SxL idx; SxZ kindex] =>
      match opt_all (map get_Z idx) with
      | Some idx => SxL [SxZ (acquire_index kindex); SxZ (index_of idx (acquire_index kindex) 0)]
      | None => bad_input
      end
  | _ => bad_input
  end.
