(** NEWSA round trip: payload (struct xfrm_usersa_info) and algorithm attributes. *)
From Coq Require Import List String ZArith NArith Arith Lia Bool.
From VLib Require Import Bytes.
From Xfrm Require Import Layout Params Gen.XfrmLayout Gen.KernelUapi Gen.XfrmBuild Pairs XfrmModel KernelSpec
  Intent BytesLemmas XfrmProofs.
Import ListNotations.
Open Scope string_scope.
Open Scope nat_scope.
Open Scope list_scope.

Ltac kf kp pp := erewrite (kint_encoded K.xfrm_usersa_info Py.XfrmUserSaInfo kp pp) by side.
Ltac k0 kp pp := erewrite (kint_unset K.xfrm_usersa_info Py.XfrmUserSaInfo kp pp) by side.
Ltac kr kp pp := erewrite (kraw_encoded K.xfrm_usersa_info Py.XfrmUserSaInfo kp pp) by side.

Lemma port_mask_value p : Z.to_N (if Z.eqb p 0 then 0 else 65535)%Z = port_mask p.
Proof. unfold port_mask. destruct (Z.eqb p 0); reflexivity. Qed.

Lemma family_value' a : Z.to_N (if Z.eqb (ip_version a) 4 then 2 else 10)%Z = family_of a.
Proof. unfold family_of. destruct (Z.eqb (ip_version a) 4); reflexivity. Qed.

Lemma family_same a b : ip_version a = ip_version b -> family_of a = family_of b.
Proof. unfold family_of. now intros ->. Qed.

Section Payload.
  Variable a : sa_args.
  Variables pre post : bytes.
  Hypothesis Hpre : List.length pre = 16.
  Hypothesis Hwf : wf_sa a.

  Let msg := pre ++ encode_struct Py.XfrmUserSaInfo (rq_payload (emit_newsa a)) ++ post.

  Ltac side ::=
    lazymatch goal with
    | |- lookup _ _ = _ => cbn [lf_path]; reflexivity
    | |- _ \/ _ => first [left; closed | right; apply mask_order_free]
    | |- _ = List.length pre + _ => rewrite Hpre; reflexivity
    | |- _ => closed
    end.

  Lemma newsa_sel :
    k_selector K.xfrm_usersa_info "sel." msg 16
    = intended_sel (a_src_sel a) (a_dst_sel a) (a_sport a) (a_dport a) (a_ip_proto a).
  Proof.
    destruct Hwf as (Hs & Hd & Hv & Hps & Hpd & Hsp & Hdp & _ & Hip & _).
    unfold k_selector, msg. cbn [String.append]. unfold emit_newsa, create_sa. cbn [rq_payload].
    match goal with |- context [encode_struct _ ?f] => set (fs := f) end.
    kf "sel.family" "sel.family". kf "sel.dport" "sel.dport". kf "sel.dport_mask" "sel.dport_mask".
    kf "sel.sport" "sel.sport". kf "sel.sport_mask" "sel.sport_mask". kf "sel.prefixlen_d" "sel.prefixlen_d".
    kf "sel.prefixlen_s" "sel.prefixlen_s". kf "sel.proto" "sel.proto".
    k0 "sel.ifindex" "sel.ifindex". k0 "sel.user" "sel.user".
    kr "sel.daddr.a6" "sel.daddr.addr". kr "sel.saddr.a6" "sel.saddr.addr".
    subst fs. cbn [lookup lf_path String.eqb Ascii.eqb Bool.eqb leaf_bytes leaf_len lf_n lf_w lf_end Nat.mul Nat.add].
    rewrite !addr_image by assumption.
    unfold wf_port, wf_u8 in *.
    rewrite !trunc_small by (repeat match goal with |- context [if ?c then _ else _] => destruct c end; pow_lia).
    rewrite !port_mask_value, family_value'.
    unfold intended_sel. f_equal.
    - rewrite (family_same _ _ Hv). apply kaddr_image; assumption.
    - apply kaddr_image; assumption.
  Qed.

  Lemma newsa_lft :
    k_lifetime K.xfrm_usersa_info "lft." msg 16 = intended_lft (a_lifetime a).
  Proof.
    destruct Hwf as (_ & _ & _ & _ & _ & _ & _ & _ & _ & _ & _ & _ & _ & _ & _ & _ & _ & Hl).
    unfold k_lifetime, msg, intended_lft. cbn [String.append]. unfold emit_newsa, create_sa. cbn [rq_payload].
    destruct (Z.ltb_spec (a_lifetime a) 0) as [Hlt|Hge];
      match goal with |- context [encode_struct _ ?f] => set (fs := f) end;
      kf "lft.soft_byte_limit" "lft.soft_byte_limit"; kf "lft.hard_byte_limit" "lft.hard_byte_limit";
      kf "lft.soft_packet_limit" "lft.soft_packed_limit"; kf "lft.hard_packet_limit" "lft.hard_packet_limit";
      kf "lft.soft_add_expires_seconds" "lft.soft_add_expires_seconds";
      kf "lft.hard_add_expires_seconds" "lft.hard_add_expires_seconds";
      kf "lft.soft_use_expires_seconds" "lft.soft_use_expires_seconds";
      kf "lft.hard_use_expires_seconds" "lft.hard_use_expires_seconds";
      cbn [lf_w]; rewrite !trunc_small by pow_lia; reflexivity.
  Qed.

  Lemma newsa_scalars :
    kint K.xfrm_usersa_info "family" msg 16 = family_of (a_src a) /\
    kint K.xfrm_usersa_info "id.spi" msg 16 = be_decode (a_spi a) /\
    kint K.xfrm_usersa_info "id.proto" msg 16 = Z.to_N (a_ipsec_proto a) /\
    kint K.xfrm_usersa_info "mode" msg 16 = Z.to_N (a_mode a) /\
    kint K.xfrm_usersa_info "reqid" msg 16 = 0%N /\
    kint K.xfrm_usersa_info "replay_window" msg 16 = 0%N /\
    kint K.xfrm_usersa_info "flags" msg 16 = 0%N /\
    kint K.xfrm_usersa_info "seq" msg 16 = 0%N /\
    kraw K.xfrm_usersa_info "id.daddr.a6" msg 16 = ip_packed (a_dst a) ++ zeros (16 - List.length (ip_packed (a_dst a))) /\
    kraw K.xfrm_usersa_info "saddr.a6" msg 16 = ip_packed (a_src a) ++ zeros (16 - List.length (ip_packed (a_src a))).
  Proof.
    destruct Hwf as (_ & _ & _ & _ & _ & _ & _ & Hspi & _ & Hpr & Hm & Hsrc & Hdst & _).
    unfold msg, emit_newsa, create_sa. cbn [rq_payload].
    match goal with |- context [encode_struct _ ?f] => set (fs := f) end.
    kf "family" "family". kf "id.proto" "id.proto". kf "mode" "mode".
    k0 "reqid" "reqid". k0 "replay_window" "replay_window". k0 "flags" "flags". k0 "seq" "seq".
    kr "id.daddr.a6" "id.daddr.addr". kr "saddr.a6" "saddr.addr".
    erewrite (kint_bytes K.xfrm_usersa_info Py.XfrmUserSaInfo "id.spi" "id.spi") by side.
    subst fs. cbn [lookup lf_path String.eqb Ascii.eqb Bool.eqb leaf_bytes leaf_len lf_n lf_w lf_end Nat.mul Nat.add dec].
    rewrite !addr_image by assumption. rewrite fit_exact by assumption.
    unfold wf_u8 in *.
    rewrite !trunc_small by (repeat match goal with |- context [if ?c then _ else _] => destruct c end;
                             try (destruct Hpr as [-> | ->]); pow_lia).
    rewrite family_value'. repeat split; reflexivity.
  Qed.
End Payload.
