(** NEWSA round trip: payload (struct xfrm_usersa_info) and algorithm attributes. *)
From Coq Require Import List String ZArith NArith Arith Lia Bool.
From VLib Require Import Bytes.
From Xfrm Require Import Layout Params Gen.XfrmLayout Gen.KernelUapi Gen.XfrmBuild Pairs XfrmModel KernelSpec
  Intent BytesLemmas XfrmProofs.
Import ListNotations.
Open Scope string_scope.
Open Scope nat_scope.
Open Scope list_scope.

(** the leaves are computed first so that no side condition handed to vm_compute contains an evar *)
Ltac with_leaves kt pt kp pp tac :=
  let kl := eval vm_compute in (find_leaf kp (layout kt)) in
  let pl := eval vm_compute in (find_leaf pp (layout pt)) in
  lazymatch kl with
  | Some ?k => lazymatch pl with Some ?p => tac k p end
  end.

Ltac kf_ kt pt kp pp :=
  with_leaves kt pt kp pp ltac:(fun k p => erewrite (kint_encoded kt pt kp pp _ _ _ _ _ k p) by side).
Ltac k0_ kt pt kp pp :=
  with_leaves kt pt kp pp ltac:(fun k p => erewrite (kint_unset kt pt kp pp _ _ _ _ k p) by side).
Ltac kr_ kt pt kp pp :=
  with_leaves kt pt kp pp ltac:(fun k p => erewrite (kraw_encoded kt pt kp pp _ _ _ _ k p) by side).
Ltac kb_ kt pt kp pp :=
  with_leaves kt pt kp pp ltac:(fun k p => erewrite (kint_bytes kt pt kp pp _ _ _ _ k p) by side).

Ltac kf kp pp := kf_ K.xfrm_usersa_info Py.XfrmUserSaInfo kp pp.
Ltac k0 kp pp := k0_ K.xfrm_usersa_info Py.XfrmUserSaInfo kp pp.
Ltac kr kp pp := kr_ K.xfrm_usersa_info Py.XfrmUserSaInfo kp pp.

Lemma port_mask_value p : Z.to_N (if Z.eqb p 0 then 0 else 65535)%Z = port_mask p.
Proof. unfold port_mask. destruct (Z.eqb p 0); reflexivity. Qed.

Lemma family_value' a : Z.to_N (if Z.eqb (ip_version a) 4 then 2 else 10)%Z = family_of a.
Proof. unfold family_of. destruct (Z.eqb (ip_version a) 4); reflexivity. Qed.

Lemma family_same a b : ip_version a = ip_version b -> family_of a = family_of b.
Proof. unfold family_of. now intros ->. Qed.

Section Payload.
  Variable a : sa_args.
  Variables pre post : bytes.
  Hypothesis Hpre : List.length pre = 16.
  Hypothesis Hwf : wf_sa a.

  Let msg := pre ++ encode_struct Py.XfrmUserSaInfo (rq_payload (emit_newsa a)) ++ post.

  Ltac side ::=
    lazymatch goal with
    | |- lookup _ _ = _ => cbn [lf_path]; reflexivity
    | |- _ \/ _ => first [left; closed | right; apply mask_order_free]
    | |- _ = List.length pre + _ => rewrite Hpre; reflexivity
    | |- _ => closed
    end.

  Lemma newsa_sel :
    k_selector K.xfrm_usersa_info "sel." msg 16
    = intended_sel (a_src_sel a) (a_dst_sel a) (a_sport a) (a_dport a) (a_ip_proto a).
  Proof.
    destruct Hwf as (Hs & Hd & Hv & Hps & Hpd & Hsp & Hdp & _ & Hip & _).
    unfold k_selector, msg. cbn [String.append]. unfold emit_newsa, create_sa. cbn [rq_payload].
    match goal with |- context [encode_struct _ ?f] => set (fs := f) end.
    kf "sel.family" "sel.family". kf "sel.dport" "sel.dport". kf "sel.dport_mask" "sel.dport_mask".
    kf "sel.sport" "sel.sport". kf "sel.sport_mask" "sel.sport_mask". kf "sel.prefixlen_d" "sel.prefixlen_d".
    kf "sel.prefixlen_s" "sel.prefixlen_s". kf "sel.proto" "sel.proto".
    k0 "sel.ifindex" "sel.ifindex". k0 "sel.user" "sel.user".
    kr "sel.daddr.a6" "sel.daddr.addr". kr "sel.saddr.a6" "sel.saddr.addr".
    subst fs. cbn [lookup lf_path String.eqb Ascii.eqb Bool.eqb leaf_bytes leaf_len lf_n lf_w lf_end Nat.mul Nat.add].
    rewrite !addr_image by assumption.
    unfold wf_port, wf_u8 in *.
    rewrite !trunc_small by (repeat match goal with |- context [if ?c then _ else _] => destruct c end; pow_lia).
    rewrite !port_mask_value, family_value'.
    unfold intended_sel. f_equal.
    - rewrite (family_same _ _ Hv). apply kaddr_image; assumption.
    - apply kaddr_image; assumption.
  Qed.

  Lemma newsa_lft :
    k_lifetime K.xfrm_usersa_info "lft." msg 16 = intended_lft (a_lifetime a).
  Proof.
    destruct Hwf as (_ & _ & _ & _ & _ & _ & _ & _ & _ & _ & _ & _ & _ & _ & _ & _ & _ & Hl).
    unfold k_lifetime, msg, intended_lft. cbn [String.append]. unfold emit_newsa, create_sa. cbn [rq_payload].
    destruct (Z.ltb_spec (a_lifetime a) 0) as [Hlt|Hge];
      match goal with |- context [encode_struct _ ?f] => set (fs := f) end;
      kf "lft.soft_byte_limit" "lft.soft_byte_limit"; kf "lft.hard_byte_limit" "lft.hard_byte_limit";
      kf "lft.soft_packet_limit" "lft.soft_packed_limit"; kf "lft.hard_packet_limit" "lft.hard_packet_limit";
      kf "lft.soft_add_expires_seconds" "lft.soft_add_expires_seconds";
      kf "lft.hard_add_expires_seconds" "lft.hard_add_expires_seconds";
      kf "lft.soft_use_expires_seconds" "lft.soft_use_expires_seconds";
      kf "lft.hard_use_expires_seconds" "lft.hard_use_expires_seconds";
      cbn [lf_w]; rewrite !trunc_small by pow_lia; reflexivity.
  Qed.

  Lemma newsa_scalars :
    kint K.xfrm_usersa_info "family" msg 16 = family_of (a_src a) /\
    kint K.xfrm_usersa_info "id.spi" msg 16 = be_decode (a_spi a) /\
    kint K.xfrm_usersa_info "id.proto" msg 16 = Z.to_N (a_ipsec_proto a) /\
    kint K.xfrm_usersa_info "mode" msg 16 = Z.to_N (a_mode a) /\
    kint K.xfrm_usersa_info "reqid" msg 16 = 0%N /\
    kint K.xfrm_usersa_info "replay_window" msg 16 = 0%N /\
    kint K.xfrm_usersa_info "flags" msg 16 = 0%N /\
    kint K.xfrm_usersa_info "seq" msg 16 = 0%N /\
    kraw K.xfrm_usersa_info "id.daddr.a6" msg 16 = ip_packed (a_dst a) ++ zeros (16 - List.length (ip_packed (a_dst a))) /\
    kraw K.xfrm_usersa_info "saddr.a6" msg 16 = ip_packed (a_src a) ++ zeros (16 - List.length (ip_packed (a_src a))).
  Proof.
    destruct Hwf as (_ & _ & _ & _ & _ & _ & _ & Hspi & _ & Hpr & Hm & Hsrc & Hdst & _).
    unfold msg, emit_newsa, create_sa. cbn [rq_payload].
    match goal with |- context [encode_struct _ ?f] => set (fs := f) end.
    kf "family" "family". kf "id.proto" "id.proto". kf "mode" "mode".
    k0 "reqid" "reqid". k0 "replay_window" "replay_window". k0 "flags" "flags". k0 "seq" "seq".
    kr "id.daddr.a6" "id.daddr.addr". kr "saddr.a6" "saddr.addr".
    kb_ K.xfrm_usersa_info Py.XfrmUserSaInfo "id.spi" "id.spi".
    subst fs. cbn [lookup lf_path String.eqb Ascii.eqb Bool.eqb leaf_bytes leaf_len lf_n lf_w lf_end Nat.mul Nat.add dec].
    rewrite !addr_image by assumption. rewrite fit_exact by assumption.
    unfold wf_u8 in *.
    rewrite !trunc_small by (repeat match goal with |- context [if ?c then _ else _] => destruct c end;
                             try (destruct Hpr as [-> | ->]); pow_lia).
    rewrite family_value'. repeat split; reflexivity.
  Qed.
End Payload.

(** ---- attributes *)
Lemma kint_sub t p d o l kl :
  find_leaf p (layout t) = Some kl -> lf_off kl + lf_w kl <= l ->
  kint t p (sub d o l) 0 = kint t p d o.
Proof.
  intros Hk Hl. unfold kint, kleaf. rewrite Hk. unfold leaf_int. cbn [Nat.add]. now rewrite sub_sub by lia.
Qed.

Lemma kraw_sub t p d o l kl :
  find_leaf p (layout t) = Some kl -> lf_off kl + leaf_len kl <= l ->
  kraw t p (sub d o l) 0 = kraw t p d o.
Proof.
  intros Hk Hl. unfold kraw, kleaf. rewrite Hk. cbn [Nat.add]. now rewrite sub_sub by lia.
Qed.

Lemma until_nul_name n k : Forall (fun b => b <> 0%N) n -> until_nul (n ++ repeat 0%N k) = n.
Proof.
  induction 1 as [|b r Hb _ IH]; [destruct k; reflexivity|]. cbn [until_nul app].
  destruct (N.eqb_spec b 0); [contradiction|]. now rewrite IH.
Qed.

Lemma firstn_repeat_le {A} (x : A) n m : n <= m -> firstn n (repeat x m) = repeat x n.
Proof.
  revert m; induction n as [|n IH]; intros m H; [reflexivity|].
  destruct m; [lia|]. cbn [repeat firstn]. f_equal. apply IH. lia.
Qed.

Lemma name_image n : wf_name n -> until_nul (firstn 63 (fit 64 0%N n)) = n.
Proof.
  intros [Hl Hz]. rewrite fit_short by lia.
  assert (E : firstn 63 (n ++ repeat 0%N (64 - List.length n)) = n ++ repeat 0%N (63 - List.length n)).
  { rewrite firstn_app. rewrite firstn_all2 by lia. f_equal.
    replace (63 - List.length n) with (63 - List.length n) by reflexivity. apply firstn_repeat_le. lia. }
  rewrite E. now apply until_nul_name.
Qed.

Lemma key_image k : List.length k <= 64 -> sub (fit 64 0%N k) 0 (List.length k) = k.
Proof.
  intros Hl. rewrite fit_short by lia. rewrite sub_firstn. apply firstn_app_exact.
Qed.

Definition algo_attr (code : Z) (name key : bytes) : attr :=
  mkattr code Py.XfrmAlgo [("alg_name", VArrPad name 64); ("alg_key_len", VInt (Z.mul (blen key) 8)); ("key", VArrPad key 64)].

Lemma attr_algo_length code name key : List.length (attr_bytes (algo_attr code name key)) = 136.
Proof. unfold attr_bytes. rewrite encode_struct_length by closed. closed. Qed.

Ltac side ::=
  lazymatch goal with
  | |- lookup _ _ = _ => cbn [lf_path]; reflexivity
  | |- _ \/ _ => first [left; closed | right; apply mask_order_free]
  | |- _ = List.length (header_bytes _ _ _ _ _) + _ => rewrite header_bytes_length; reflexivity
  | |- _ => closed
  end.

Lemma algo_attr_decoded code name key rest :
  (0 <= code < 65536)%Z -> wf_name name -> List.length key <= 64 ->
  let d := attr_bytes (algo_attr code name key) ++ rest in
  kint K.nlattr "nla_len" d 0 = 136%N /\ kint K.nlattr "nla_type" d 0 = Z.to_N code /\
  k_xfrm_algo (136, sub d NLA_HDRLEN (136 - NLA_HDRLEN)) = Some (intended_algo name key).
Proof.
  intros Hc Hn Hk d. subst d. unfold attr_bytes.
  set (fs := attr_fields (algo_attr code name key)).
  change (encode_struct (Py.Internal (at_type (algo_attr code name key))) fs ++ rest)
    with ([] ++ encode_struct (Py.Internal Py.XfrmAlgo) fs ++ rest).
  split; [|split].
  - kf_ K.nlattr (Py.Internal Py.XfrmAlgo) "nla_len" "len". closed.
  - kf_ K.nlattr (Py.Internal Py.XfrmAlgo) "nla_type" "code". cbn [lf_w]. apply trunc_small. pow_lia.
  - unfold k_xfrm_algo. change NLA_HDRLEN with 4. change (136 - 4) with 132.
    set (d := [] ++ encode_struct (Py.Internal Py.XfrmAlgo) fs ++ rest).
    assert (Hd : 136 <= List.length d).
    { subst d. cbn [app]. rewrite app_length, encode_struct_length by closed.
      change (c_size (Py.Internal Py.XfrmAlgo)) with 136. lia. }
    rewrite (kint_sub K.xfrm_algo "alg_key_len" d 4 132 (mkleaf "alg_key_len" 64 1 4 LE false false)) by (first [closed | cbn; lia]).
    rewrite (kraw_sub K.xfrm_algo "alg_name" d 4 132 (mkleaf "alg_name" 0 64 1 LE true false)) by (first [closed | cbn; lia]).
    subst d.
    kf_ K.xfrm_algo (Py.Internal Py.XfrmAlgo) "alg_key_len" "data.alg_key_len".
    kr_ K.xfrm_algo (Py.Internal Py.XfrmAlgo) "alg_name" "data.alg_name".
    set (d := [] ++ encode_struct (Py.Internal Py.XfrmAlgo) fs ++ rest) in *.
    cbn [lf_w lf_path]. subst fs.
    cbn [lookup attr_fields algo_attr at_fields at_code at_type prefixed map join fst snd String.eqb Ascii.eqb Bool.eqb
         String.append leaf_bytes leaf_len lf_n lf_w Nat.mul Nat.add].
    assert (Hbits : trunc 4 (blen key * 8) = (8 * N.of_nat (List.length key))%N).
    { rewrite trunc_small by (unfold blen; pow_lia). unfold blen. lia. }
    rewrite Hbits.
    assert (Hklen : N.to_nat ((8 * N.of_nat (List.length key) + 7) / 8) = List.length key).
    { replace ((8 * N.of_nat (List.length key) + 7) / 8)%N with (N.of_nat (List.length key)); [lia|].
      apply (N.div_unique _ 8 _ 7); lia. }
    rewrite Hklen.
    rewrite sub_length by lia.
    replace (Nat.leb (c_size K.xfrm_algo + List.length key) 132) with true
      by (symmetry; apply Nat.leb_le; change (c_size K.xfrm_algo) with 68; lia).
    cbn [andb Nat.eqb Nat.modulo Nat.divmod fst snd Nat.sub Nat.add NLA_HDRLEN].
    change (Nat.eqb 136 (4 + 132)) with true. cbn [andb].
    change (Nat.eqb (136 mod 4) 0) with true. cbn iota.
    rewrite name_image by assumption.
    change (lf_off (kleaf K.xfrm_algo "alg_key")) with 68.
    rewrite sub_sub by lia. subst d.
    rewrite (read_encoded (Py.Internal Py.XfrmAlgo) _ [] rest "data.key"
               (mkleaf "data.key" 72 64 1 LE false false) 72 0 (List.length key)) by (first [closed | cbn; lia]).
    cbn [lookup attr_fields algo_attr at_fields at_code at_type prefixed map join fst snd String.eqb Ascii.eqb Bool.eqb
         String.append leaf_bytes leaf_len lf_n lf_w Nat.mul Nat.add lf_path].
    rewrite key_image by assumption. reflexivity.
Qed.

Lemma nla_parse_nil fuel : nla_parse (S fuel) [] = Some [].
Proof. reflexivity. Qed.

Lemma nla_parse_step fuel d len :
  N.to_nat (kint K.nlattr "nla_len" d 0) = len -> 4 <= len <= List.length d ->
  nla_parse (S fuel) d
  = match nla_parse fuel (skipn (round_up len 4) d) with
    | Some r => Some ((kint K.nlattr "nla_type" d 0, (len, sub d 4 (len - 4))) :: r)
    | None => None
    end.
Proof.
  intros Hl Hb. destruct d as [|b d']; [cbn in Hb; lia|].
  cbn [nla_parse]. change NLA_HDRLEN with 4. change (Z.to_nat K.NLA_ALIGNTO) with 4. rewrite Hl.
  replace (Nat.ltb (List.length (b :: d')) 4) with false by (symmetry; apply Nat.ltb_ge; lia).
  replace (Nat.ltb len 4) with false by (symmetry; apply Nat.ltb_ge; lia).
  replace (Nat.ltb (List.length (b :: d')) len) with false by (symmetry; apply Nat.ltb_ge; lia).
  reflexivity.
Qed.

Lemma skipn_app_len {A} (x y : list A) n : n = List.length x -> skipn n (x ++ y) = y.
Proof. intros ->. apply skipn_app_exact. Qed.

Lemma nla_parse_algo fuel code name key rest :
  (0 <= code < 65536)%Z -> wf_name name -> List.length key <= 64 ->
  nla_parse (S fuel) (attr_bytes (algo_attr code name key) ++ rest)
  = match nla_parse fuel rest with
    | Some r => Some ((Z.to_N code, (136, sub (attr_bytes (algo_attr code name key) ++ rest) 4 132)) :: r)
    | None => None
    end.
Proof.
  intros Hc Hn Hk. set (d := attr_bytes (algo_attr code name key) ++ rest). destruct (algo_attr_decoded code name key rest Hc Hn Hk) as (Hlen & Hty & _).
  fold d in Hlen, Hty.
  rewrite (nla_parse_step fuel d 136).
  - replace (skipn (round_up 136 4) d) with rest.
    + rewrite Hty. reflexivity.
    + subst d. symmetry. apply skipn_app_len. rewrite attr_algo_length. reflexivity.
  - rewrite Hlen. reflexivity.
  - subst d. rewrite app_length, attr_algo_length. lia.
Qed.

Lemma addr_words_leb x : Nat.leb (List.length (addr_words x)) 4 = true.
Proof. apply Nat.leb_le, addr_words_length. Qed.

Lemma newsa_attrs a :
  rq_attrs (emit_newsa a)
  = (if Z.eqb (a_ipsec_proto a) 50 then [algo_attr 2 (a_enc a) (a_ske a)] else [])
    ++ [algo_attr 1 (a_auth a) (a_ska a)].
Proof. reflexivity. Qed.

Lemma algo_check code name key :
  wf_name name -> List.length key <= 64 ->
  check_struct Py.XfrmAlgo (at_fields (algo_attr code name key)) = None.
Proof.
  intros [Hn _] Hk. unfold check_struct.
  let v := eval vm_compute in (layout Py.XfrmAlgo) in change (layout Py.XfrmAlgo) with v.
  cbn [check_leaves lookup lf_path String.eqb Ascii.eqb Bool.eqb leaf_check lf_n lf_w Nat.eqb andb algo_attr at_fields].
  replace (Nat.ltb 64 (List.length name)) with false by (symmetry; apply Nat.ltb_ge; lia).
  replace (Nat.ltb 64 (List.length key)) with false by (symmetry; apply Nat.ltb_ge; lia).
  reflexivity.
Qed.

Lemma newsa_check a : wf_sa a -> check_request (emit_newsa a) = None.
Proof.
  intros (Hs & Hd & Hv & Hps & Hpd & Hsp & Hdp & Hspi & Hip & Hpr & Hm & Hsrc & Hdst & Hv2 & Henc & Hauth & Hska & Hl).
  unfold check_request.
  assert (Hp : check_struct (rq_ptype (emit_newsa a)) (rq_payload (emit_newsa a)) = None).
  { unfold check_struct, emit_newsa, create_sa. cbn [rq_ptype rq_payload].
    let v := eval vm_compute in (layout Py.XfrmUserSaInfo) in change (layout Py.XfrmUserSaInfo) with v.
    destruct (Z.ltb (a_lifetime a) 0);
      cbn [check_leaves lookup lf_path String.eqb Ascii.eqb Bool.eqb leaf_check lf_n lf_w Nat.eqb andb];
      rewrite !addr_words_leb, Hspi; reflexivity. }
  rewrite Hp, newsa_attrs.
  destruct Hpr as [Hpr|Hpr]; rewrite Hpr; cbn [Z.eqb Pos.eqb app check_attrs at_type algo_attr];
    fold (algo_attr 2 (a_enc a) (a_ske a)); fold (algo_attr 1 (a_auth a) (a_ska a)).
  - destruct (Henc Hpr) as [He Hk]. cbn [check_attrs]. 
    change (at_type (algo_attr 2 (a_enc a) (a_ske a))) with Py.XfrmAlgo.
    rewrite (algo_check 2 _ _ He Hk).
    change (at_type (algo_attr 1 (a_auth a) (a_ska a))) with Py.XfrmAlgo.
    now rewrite (algo_check 1 _ _ Hauth Hska).
  - cbn [check_attrs]. change (at_type (algo_attr 1 (a_auth a) (a_ska a))) with Py.XfrmAlgo.
    now rewrite (algo_check 1 _ _ Hauth Hska).
Qed.

Lemma attrs_length (l : list attr) :
  Forall (fun x => exists c n k, x = algo_attr c n k) l ->
  List.length (flat_map attr_bytes l) = 136 * List.length l.
Proof.
  induction 1 as [|x r (c & n & k & ->) _ IH]; [reflexivity|].
  cbn [flat_map List.length]. rewrite app_length, attr_algo_length, IH. lia.
Qed.

Theorem newsa_roundtrip a seq pid :
  wf_sa a -> wf32 seq -> wf32 pid ->
  let r := emit_newsa a in
  emit_request r seq pid = Ok (message_bytes r seq pid) /\
  kernel_decode_newsa (message_bytes r seq pid) = Some (intended_newsa a seq pid).
Proof.
  intros Hwf Hseq Hpid r.
  split; [unfold emit_request; subst r; now rewrite newsa_check|].
  pose proof Hwf as (_ & _ & _ & _ & _ & _ & _ & _ & _ & Hpr & _ & Hsrc & Hdst & Hv2 & Henc & Hauth & Hska & _).
  set (attrs := flat_map attr_bytes (rq_attrs r)).
  set (payload := encode_struct Py.XfrmUserSaInfo (rq_payload r)).
  assert (Hpl : List.length payload = 224) by (subst payload; rewrite encode_struct_length by closed; closed).
  assert (Hal : List.length attrs = newsa_length a - 240).
  { subst attrs r. rewrite newsa_attrs. unfold newsa_length.
    destruct Hpr as [Hp|Hp]; rewrite Hp; cbn [Z.eqb Pos.eqb app];
      rewrite attrs_length by (repeat constructor; eauto); cbn; lia. }
  assert (Hnl : 376 <= newsa_length a /\ newsa_length a <= 512).
  { unfold newsa_length. destruct (Z.eqb (a_ipsec_proto a) 50); lia. }
  assert (Hdata : request_data r = payload ++ attrs) by reflexivity.
  assert (Hlen : List.length (message_bytes r seq pid) = newsa_length a).
  { rewrite message_length, Hdata, app_length, Hpl, Hal. lia. }
  set (hdr := header_bytes (Z.of_nat (c_size Py.NetlinkHeader) + Z.of_nat (List.length (request_data r)))
                           (rq_type r) (rq_flags r) seq pid).
  assert (Hmsg : message_bytes r seq pid = hdr ++ payload ++ attrs) by (unfold message_bytes; cbv zeta; now rewrite Hdata).
  assert (Hh : k_header (message_bytes r seq pid)
               = mk_khdr (N.of_nat (newsa_length a)) (Z.to_N K.XFRM_MSG_NEWSA) flags_request_ack (Z.to_N seq) (Z.to_N pid)).
  { unfold message_bytes. cbv zeta. rewrite k_header_emitted; try assumption.
    - f_equal. rewrite Hdata, app_length, Hpl, Hal. change (c_size Py.NetlinkHeader) with 16. lia.
    - rewrite Hdata, app_length, Hpl, Hal. change (c_size Py.NetlinkHeader) with 16. unfold wf32. lia.
    - subst r. cbn. lia.
    - subst r. cbn. lia. }
  unfold kernel_decode_newsa, framed. rewrite Hh, Hlen. cbn [kh_len].
  change (NLMSG_HDRLEN + c_size K.xfrm_usersa_info) with 240. change (align4 240) with 240.
  replace (Nat.leb 240 (newsa_length a)) with true by (symmetry; apply Nat.leb_le; lia).
  rewrite N.eqb_refl. cbn [andb].
  assert (Hskip : skipn 240 (message_bytes r seq pid) = attrs).
  { rewrite Hmsg, app_assoc. apply skipn_app_len. rewrite app_length, Hpl. subst hdr. now rewrite header_bytes_length. }
  rewrite Hskip.
  assert (Hhl : List.length hdr = 16) by (subst hdr; apply header_bytes_length).
  destruct (newsa_scalars a hdr attrs Hhl Hwf) as (F1 & F2 & F3 & F4 & F5 & F6 & F7 & F8 & F9 & F10).
  pose proof (newsa_sel a hdr attrs Hhl Hwf) as Fsel.
  pose proof (newsa_lft a hdr attrs Hhl Hwf) as Flft.
  fold r in F1, F2, F3, F4, F5, F6, F7, F8, F9, F10, Fsel, Flft. fold payload in F1, F2, F3, F4, F5, F6, F7, F8, F9, F10, Fsel, Flft.
  rewrite <- Hmsg in F1, F2, F3, F4, F5, F6, F7, F8, F9, F10, Fsel, Flft.
  change NLMSG_HDRLEN with 16.
  rewrite F1, F2, F3, F4, F5, F6, F7, F8, F9, F10, Fsel, Flft.
  assert (Hd2 : kaddr (family_of (a_src a)) (ip_packed (a_dst a) ++ zeros (16 - List.length (ip_packed (a_dst a))))
                = ip_packed (a_dst a))
    by (rewrite (family_same (a_src a) (a_dst a) Hv2); apply kaddr_image; assumption).
  rewrite Hd2. rewrite kaddr_image by assumption.
  (* attributes *)
  subst attrs. replace (rq_attrs r) with
    ((if Z.eqb (a_ipsec_proto a) 50 then [algo_attr 2 (a_enc a) (a_ske a)] else []) ++ [algo_attr 1 (a_auth a) (a_ska a)])
    by (symmetry; apply newsa_attrs).
  unfold intended_newsa.
  destruct Hpr as [Hp|Hp]; rewrite Hp; cbn [Z.eqb Pos.eqb app flat_map].
  - destruct (Henc Hp) as [He Hk].
    replace (S (newsa_length a)) with (S (S (S (newsa_length a - 2)))) by lia.
    rewrite nla_parse_algo by (first [assumption | lia]).
    rewrite nla_parse_algo by (first [assumption | lia]).
    rewrite nla_parse_nil.
    cbn [nla_find N.eqb Pos.eqb Z.to_N K.XFRMA_ALG_CRYPT K.XFRMA_ALG_AUTH opt_algo].
    destruct (algo_attr_decoded 2 (a_enc a) (a_ske a) (attr_bytes (algo_attr 1 (a_auth a) (a_ska a)) ++ []) ltac:(lia) He Hk)
      as (_ & _ & D1).
    destruct (algo_attr_decoded 1 (a_auth a) (a_ska a) [] ltac:(lia) Hauth Hska) as (_ & _ & D2).
    change NLA_HDRLEN with 4 in D1, D2. change (136 - 4) with 132 in D1, D2.
    rewrite D1, D2. reflexivity.
  - replace (S (newsa_length a)) with (S (S (newsa_length a - 1))) by lia.
    rewrite nla_parse_algo by (first [assumption | lia]).
    rewrite nla_parse_nil.
    cbn [nla_find N.eqb Pos.eqb Z.to_N K.XFRMA_ALG_CRYPT K.XFRMA_ALG_AUTH opt_algo].
    destruct (algo_attr_decoded 1 (a_auth a) (a_ska a) [] ltac:(lia) Hauth Hska) as (_ & _ & D2).
    change NLA_HDRLEN with 4 in D2. change (136 - 4) with 132 in D2.
    rewrite D2. reflexivity.
Qed.

(** non-vacuity: a concrete argument tuple inside [wf_sa], and the round trip recomputed on it *)
Definition ex_args : sa_args :=
  mk_sa_args (mknet (mkip 4 [10; 0; 0; 0]%N) 24) (mknet (mkip 4 [10; 0; 1; 0]%N) 24) 0 443 [1; 2; 3; 4]%N 6 50 1
             (mkip 6 [32; 1; 13; 184; 0; 0; 0; 0; 0; 0; 0; 0; 0; 0; 0; 1]%N)
             (mkip 6 [32; 1; 13; 184; 0; 0; 0; 0; 0; 0; 0; 0; 0; 0; 0; 2]%N)
             [99; 98; 99; 40; 97; 101; 115; 41]%N (repeat 7%N 16) [104; 109; 97; 99; 40; 109; 100; 53; 41]%N (repeat 9%N 16) 300.

Example wf_sa_example : wf_sa ex_args /\
  kernel_decode_newsa (message_bytes (emit_newsa ex_args) 5 6) = Some (intended_newsa ex_args 5 6).
Proof.
  split.
  - unfold wf_sa, wf_ip, wf_u8, wf_port, wf_name, wf_bytes, is_byte. cbn.
    repeat split; try lia; try (left; split; [reflexivity|reflexivity]); try (right; split; reflexivity);
      try (intros _; repeat split; try lia); repeat (constructor; try lia; try discriminate).
  - vm_compute. reflexivity.
Qed.
