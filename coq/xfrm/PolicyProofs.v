From Coq Require Import List String ZArith NArith Arith Lia Bool.
From VLib Require Import Bytes.
From Xfrm Require Import Layout Params Gen.XfrmLayout Gen.XfrmBuild PolicyModel.
Import ListNotations.
Open Scope string_scope.
Open Scope nat_scope.
Open Scope list_scope.

Lemma out_index_value i : (0 <= i)%Z -> policy_out_index i = (i * 8 + 1)%Z.
Proof.
  intros Hi. unfold policy_out_index. rewrite Z.shiftl_mul_pow2 by lia. change (2 ^ 3)%Z with 8%Z.
  assert (Hl : Z.land (i * 8) 1 = 0%Z).
  { change 1%Z with (Z.ones 1). rewrite Z.land_ones by lia. change (2 ^ 1)%Z with 2%Z.
    replace (i * 8)%Z with ((i * 4) * 2)%Z by lia. apply Z.mod_mul. lia. }
  rewrite <- Z.lxor_lor by exact Hl. symmetry. apply Z.add_nocarry_lxor. exact Hl.
Qed.

Lemma index_roundtrip i : (0 <= i < 2 ^ 29)%Z -> acquire_index (policy_out_index i mod 2 ^ 32) = i.
Proof.
  intros Hi. rewrite out_index_value by lia. unfold acquire_index.
  rewrite Z.mod_small by lia. rewrite Z.shiftr_div_pow2 by lia. change (2 ^ 3)%Z with 8%Z.
  symmetry. apply (Z.div_unique _ 8 i 1); lia.
Qed.

(** the index bound is needed: 2^29 collides with 0 *)
Lemma index_roundtrip_bound_tight : acquire_index (policy_out_index (2 ^ 29) mod 2 ^ 32) = 0%Z.
Proof. vm_compute. reflexivity. Qed.

Lemma entry_requests c e : (0 <= e_index e)%Z ->
  create_policies_entry c e = map policy_request (expected_triple c e).
Proof.
  intros Hi. unfold create_policies_entry, expected_triple, policy_request. cbn [map pa_src_sel pa_dst_sel pa_sport
    pa_dport pa_proto pa_dir pa_ipsec pa_mode pa_src pa_dst pa_index].
  fold (policy_out_index (e_index e)). rewrite out_index_value by assumption. reflexivity.
Qed.

Definition wf_conf (conf : list conn) : Prop :=
  forall c e, In c conf -> In e (c_protect c) -> (0 <= e_index e)%Z.

Lemma conf_requests conf : wf_conf conf ->
  flat_map create_policies conf = map policy_request (expected_policies conf).
Proof.
  unfold wf_conf, expected_policies. induction conf as [|c rest IH]; intros Hwf; [reflexivity|].
  cbn [flat_map]. rewrite map_app. f_equal.
  - unfold create_policies.
    assert (He : forall e, In e (c_protect c) -> (0 <= e_index e)%Z) by (intros e He; apply (Hwf c e); [now left|exact He]).
    induction (c_protect c) as [|e es IHe]; [reflexivity|].
    cbn [flat_map]. rewrite map_app. f_equal; [apply entry_requests; apply He; now left|].
    apply IHe. intros e' He'. apply He. now right.
  - apply IH. intros c' e' Hc He. apply (Hwf c' e'); [now right|exact He].
Qed.

Lemma is_newpolicy p : rq_type (policy_request p) = Py.XFRM_MSG_NEWPOLICY.
Proof. reflexivity. Qed.

Lemma kernel_run_policies ps spd0 sad0 :
  forallb (fun r => Z.eqb (rq_type r) Py.XFRM_MSG_NEWPOLICY) ps = true ->
  distinct_keys ps = true ->
  forallb (fun r => negb (existsb (same_key r) spd0)) ps = true ->
  (forall a b, same_key a b = same_key b a) ->
  kernel_run (mk_kstate spd0 sad0) ps = Ok (mk_kstate (spd0 ++ ps) sad0).
Proof.
  intros Hty Hd Hn Hsym. revert spd0 Hn. induction ps as [|r rest IH]; intros spd0 Hn.
  - cbn. now rewrite app_nil_r.
  - cbn [forallb] in Hty, Hn. cbn [distinct_keys] in Hd.
    apply andb_true_iff in Hty as [Ht Hty]. apply andb_true_iff in Hd as [Hd1 Hd]. apply andb_true_iff in Hn as [Hn1 Hn].
    cbn [kernel_run]. unfold kernel_step. cbn [spd sad].
    apply Z.eqb_eq in Ht. rewrite Ht. cbn [Z.eqb Pos.eqb Py.XFRM_MSG_FLUSHPOLICY Py.XFRM_MSG_FLUSHSA Py.XFRM_MSG_NEWPOLICY].
    apply negb_true_iff in Hn1. rewrite Hn1.
    rewrite IH; [now rewrite <- app_assoc| assumption | assumption |].
    apply forallb_forall. intros x Hx. rewrite existsb_app. cbn [existsb]. rewrite orb_false_r.
    rewrite forallb_forall in Hn. specialize (Hn x Hx). apply negb_true_iff in Hn. rewrite Hn. cbn [orb].
    apply negb_true_iff in Hd1. apply negb_true_iff.
    destruct (same_key x r) eqn:E; [|reflexivity].
    exfalso. rewrite Hsym in E. assert (existsb (same_key r) rest = true) by (apply existsb_exists; eauto). congruence.
Qed.

Lemma listZ_eqb_sym a b : listZ_eqb a b = listZ_eqb b a.
Proof. revert b; induction a as [|x a IH]; intros [|y b]; cbn; auto. now rewrite Z.eqb_sym, IH. Qed.
Lemma listN_eqb_sym a b : listN_eqb a b = listN_eqb b a.
Proof. revert b; induction a as [|x a IH]; intros [|y b]; cbn; auto. now rewrite N.eqb_sym, IH. Qed.

Lemma same_key_sym a b : same_key a b = same_key b a.
Proof.
  unfold same_key. induction key_paths as [|p ps IH]; [reflexivity|]. cbn [forallb]. rewrite IH. f_equal.
  destruct (lookup (rq_payload a) p) as [[x|x|x|x n]|], (lookup (rq_payload b) p) as [[y|y|y|y m]|]; cbn; auto.
  - apply Z.eqb_sym.
  - apply listZ_eqb_sym.
  - apply listN_eqb_sym.
  - now rewrite listN_eqb_sym, Nat.eqb_sym.
Qed.

(** C15_startup *)
Theorem startup conf spd0 sad0 :
  wf_conf conf -> distinct_keys (map policy_request (expected_policies conf)) = true ->
  controller_init conf (mk_kstate spd0 sad0)
  = Ok (mk_kstate (map policy_request (expected_policies conf)) []).
Proof.
  intros Hwf Hd. unfold controller_init, controller_init_requests.
  change controller_init_steps with [StUrandom 8; StFlushPolicies; StFlushSas; StCreatePoliciesForEachConnection].
  cbn [flat_map step_requests app]. rewrite app_nil_r.
  cbn [kernel_run]. unfold kernel_step at 1. cbn [rq_type flush_policies Z.eqb Pos.eqb Py.XFRM_MSG_FLUSHPOLICY spd sad].
  unfold kernel_step at 1. cbn [rq_type flush_sas Z.eqb Pos.eqb Py.XFRM_MSG_FLUSHPOLICY Py.XFRM_MSG_FLUSHSA spd sad].
  rewrite conf_requests by assumption.
  rewrite kernel_run_policies; [reflexivity| | assumption | | apply same_key_sym].
  - apply forallb_forall. intros r Hr. apply in_map_iff in Hr as (p & <- & _). reflexivity.
  - apply forallb_forall. intros r _. reflexivity.
Qed.

Theorem close conf st : controller_close conf st = Ok (mk_kstate [] []).
Proof.
  unfold controller_close, controller_close_requests.
  change controller_close_steps with [StFlushPolicies; StFlushSas]. cbn [flat_map step_requests app kernel_run].
  unfold kernel_step at 1. cbn [rq_type flush_policies Z.eqb Pos.eqb Py.XFRM_MSG_FLUSHPOLICY spd sad].
  unfold kernel_step at 1. cbn [rq_type flush_sas Z.eqb Pos.eqb Py.XFRM_MSG_FLUSHPOLICY Py.XFRM_MSG_FLUSHSA spd sad].
  reflexivity.
Qed.

Theorem unknown_index protect index :
  (forall e, In e protect -> e_index e <> index) -> ikesa_process_acquire true protect index = AcqIgnored.
Proof.
  intros H. unfold ikesa_process_acquire. cbn [negb].
  destruct (find _ protect) as [e|] eqn:E; [|reflexivity].
  apply find_some in E as [Hin Hm]. unfold protect_match in Hm. apply Z.eqb_eq in Hm. exfalso. now apply (H e).
Qed.

Theorem acquire_maps_back protect e :
  In e protect -> NoDup (map e_index protect) -> (0 <= e_index e < 2 ^ 29)%Z ->
  ikesa_process_acquire true protect (acquire_index (kernel_index_of e)) = AcqNegotiate e.
Proof.
  intros Hin Hnd Hb. unfold kernel_index_of. rewrite index_roundtrip by assumption.
  unfold ikesa_process_acquire. cbn [negb]. unfold protect_match.
  induction protect as [|x xs IH]; [contradiction|]. cbn [find map] in *.
  inversion Hnd as [|? ? Hx Hxs]; subst.
  destruct (Z.eqb_spec (e_index x) (e_index e)) as [Heq|Hne].
  - destruct Hin as [->|Hin]; [reflexivity|]. exfalso. apply Hx. rewrite Heq. now apply in_map.
  - destruct Hin as [->|Hin]; [contradiction|]. now apply IH.
Qed.

(** non-vacuity: a two-entry IPv4 configuration with distinct selectors satisfies the hypotheses *)
Example startup_example :
  let n1 := mknet (mkip 4 [10; 0; 0; 0]%N) 24 in
  let n2 := mknet (mkip 4 [10; 0; 1; 0]%N) 24 in
  let n3 := mknet (mkip 4 [10; 0; 2; 0]%N) 24 in
  let c := mkconn (mkip 4 [192; 168; 0; 1]%N) (mkip 4 [192; 168; 0; 2]%N)
                  [mkentry n1 n2 0 0 0 true 1 7; mkentry n1 n3 0 80 6 false 0 9] in
  distinct_keys (map policy_request (expected_policies [c])) = true /\
  List.length (expected_policies [c]) = 6.
Proof. vm_compute. split; reflexivity. Qed.

(** ---- which IKE_SA handles an ACQUIRE (after fix 960d99a: same connection, not merely same peer; after fix
    1753c24: the first one of the connection that is neither being replaced nor being closed) *)
Definition sa_fits (my peer : ip) (x : ip * ip * Z) : bool :=
  let '(m, p, st) := x in ike_sa_match (ip_eqb m my) (ip_eqb p peer) (ike_sa_usable st).

Lemma ike_sa_match_fits my peer m p st :
  ike_sa_match (ip_eqb m my) (ip_eqb p peer) (ike_sa_usable st) = sa_fits my peer (m, p, st).
Proof. reflexivity. Qed.

Lemma sa_fits_true my peer m p st :
  sa_fits my peer (m, p, st) = true <-> ip_eqb m my = true /\ ip_eqb p peer = true /\ ike_sa_usable st = true.
Proof.
  unfold sa_fits, ike_sa_match.
  destruct (ip_eqb m my), (ip_eqb p peer), (ike_sa_usable st); cbn; intuition congruence.
Qed.

Lemma find_ike_sa_spec table my peer k :
  match find_ike_sa table my peer k with
  | Some n => exists x, nth_error table (n - k) = Some x /\ k <= n /\ sa_fits my peer x = true /\
                        forall j y, j < n - k -> nth_error table j = Some y -> sa_fits my peer y = false
  | None => forall x, In x table -> sa_fits my peer x = false
  end.
Proof.
  revert k; induction table as [|[[m p] st] rest IH]; intros k; cbn [find_ike_sa]; [intros ? []|].
  rewrite ike_sa_match_fits. destruct (sa_fits my peer (m, p, st)) eqn:E.
  - exists (m, p, st). rewrite Nat.sub_diag. repeat split; auto. intros j y Hj. lia.
  - specialize (IH (S k)). destruct (find_ike_sa rest my peer (S k)) as [n|].
    + destruct IH as (x & Hn & Hk & H1 & H2). exists x. repeat split; auto; [|lia|].
      * replace (n - k) with (S (n - S k)) by lia. exact Hn.
      * intros j y Hj Hy. destruct j as [|j]; cbn in Hy.
        -- inversion Hy; subst. exact E.
        -- apply (H2 j y); [lia|exact Hy].
    + intros x [H|H]; [subst; exact E|now apply IH].
Qed.

Theorem acquire_ike_sa table my peer :
  match pick_ike_sa table my peer with
  | PickExisting n => exists m p st, nth_error table n = Some (m, p, st) /\ ip_eqb m my = true /\ ip_eqb p peer = true /\
                                     ike_sa_usable st = true /\
                                     forall j y, j < n -> nth_error table j = Some y -> sa_fits my peer y = false
  | PickNewInitiator m p => m = my /\ p = peer /\ forall x, In x table -> sa_fits my peer x = false
  end.
Proof.
  unfold pick_ike_sa. pose proof (find_ike_sa_spec table my peer 0) as H.
  destruct (find_ike_sa table my peer 0) as [n|].
  - destruct H as ([[m p] st] & Hn & _ & H1 & H2). rewrite Nat.sub_0_r in Hn, H2. exists m, p, st.
    apply sa_fits_true in H1 as (H1 & H1' & H3). repeat split; auto.
  - auto.
Qed.

(** which states are passed over: exactly REKEYED, DEL_AFTER_REKEY_IKE_SA_REQ_SENT, DEL_IKE_SA_REQ_SENT, DELETED *)
Lemma usable_states st :
  ike_sa_usable st = false <-> (st = 20 \/ st = 16 \/ st = 15 \/ st = 21)%Z.
Proof.
  unfold ike_sa_usable. rewrite negb_false_iff, !orb_true_iff, !Z.eqb_eq. tauto.
Qed.

(** the multi-homed case of finding F18: an IKE_SA with the same peer but another local address is NOT re-used;
    finding F22: the old IKE_SA of a rekey (REKEYED) is passed over, its ESTABLISHED successor is used *)
Example multihomed_not_reused :
  let a1 := mkip 4 [10; 0; 0; 1]%N in let a2 := mkip 4 [10; 0; 0; 2]%N in let peer := mkip 4 [10; 0; 0; 9]%N in
  pick_ike_sa [(a1, peer, 10%Z)] a2 peer = PickNewInitiator a2 peer /\ pick_ike_sa [(a1, peer, 10%Z)] a1 peer = PickExisting 0.
Proof. vm_compute. split; reflexivity. Qed.

Example rekeyed_passed_over :
  let a1 := mkip 4 [10; 0; 0; 1]%N in let peer := mkip 4 [10; 0; 0; 9]%N in
  pick_ike_sa [(a1, peer, 20%Z); (a1, peer, 10%Z)] a1 peer = PickExisting 1 /\
  pick_ike_sa [(a1, peer, 15%Z)] a1 peer = PickNewInitiator a1 peer.
Proof. vm_compute. split; reflexivity. Qed.
