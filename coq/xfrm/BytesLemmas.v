(** Byte-level lemmas: little-endian integers, [sub] on concatenations, the layout-driven encoder. *)
From Coq Require Import List String ZArith NArith Arith Lia Bool.
From VLib Require Import Bytes.
From Xfrm Require Import Layout.
Import ListNotations.
Open Scope nat_scope.
Open Scope list_scope.

(** ---- little endian *)
Lemma le_encode_length w n : List.length (le_encode w n) = w.
Proof. revert n; induction w as [|w IH]; intros n; cbn [le_encode List.length]; [reflexivity|]. now rewrite IH. Qed.

Lemma le_decode_encode w n : (n < 256 ^ N.of_nat w)%N -> le_decode (le_encode w n) = n.
Proof.
  revert n. induction w as [|w IH]; intros n Hn.
  - cbn in *. lia.
  - cbn [le_encode le_decode]. rewrite IH.
    + pose proof (N.div_mod n 256). lia.
    + replace (N.of_nat (S w)) with (N.succ (N.of_nat w)) in Hn by lia.
      rewrite N.pow_succ_r' in Hn. apply N.div_lt_upper_bound; lia.
Qed.

Lemma le_encode_wf w n : wf_bytes (le_encode w n).
Proof.
  revert n; induction w as [|w IH]; intros n; cbn [le_encode]; constructor; [|apply IH].
  unfold is_byte. apply N.mod_lt. discriminate.
Qed.

Lemma enc_length e w n : List.length (enc e w n) = w.
Proof. destruct e; [apply le_encode_length | apply be_encode_length]. Qed.

Lemma dec_enc e w n : (n < 256 ^ N.of_nat w)%N -> dec e (enc e w n) = n.
Proof. destruct e; [apply le_decode_encode | apply be_decode_encode]. Qed.

Lemma trunc_small w z : (0 <= z < 2 ^ (8 * Z.of_nat w))%Z -> trunc w z = Z.to_N z.
Proof. intros H. unfold trunc. now rewrite Z.mod_small. Qed.

Lemma trunc_bound w z : (trunc w z < 256 ^ N.of_nat w)%N.
Proof.
  unfold trunc.
  assert (Hp : (0 < 2 ^ (8 * Z.of_nat w))%Z) by (apply Z.pow_pos_nonneg; lia).
  pose proof (Z.mod_pos_bound z _ Hp) as Hb.
  apply N2Z.inj_lt. rewrite Z2N.id by lia.
  rewrite N2Z.inj_pow, nat_N_Z. change (Z.of_N 256) with (2 ^ 8)%Z.
  rewrite <- Z.pow_mul_r by lia. lia.
Qed.

(** ---- zeros / fit *)
Lemma zeros_length n : List.length (zeros n) = n.
Proof. apply repeat_length. Qed.

Lemma fit_length {A} n (d : A) l : List.length (fit n d l) = n.
Proof. unfold fit. rewrite app_length, firstn_length, repeat_length. lia. Qed.

Lemma fit_exact {A} n (d : A) l : List.length l = n -> fit n d l = l.
Proof. intros H. unfold fit. subst n. rewrite firstn_all, Nat.sub_diag. cbn. apply app_nil_r. Qed.

Lemma fit_short {A} n (d : A) l : List.length l <= n -> fit n d l = (l ++ repeat d (n - List.length l))%list.
Proof. intros H. unfold fit. rewrite firstn_all2 by lia. reflexivity. Qed.

Lemma dec_zeros e w : dec e (zeros w) = 0%N.
Proof.
  unfold zeros. destruct e; cbn [dec].
  - induction w as [|w IH]; [reflexivity|]. cbn [repeat le_decode]. rewrite IH. reflexivity.
  - unfold be_decode. induction w as [|w IH]; [reflexivity|]. cbn [repeat fold_left]. exact IH.
Qed.

(** ---- sub *)
Lemma skipn_skipn' {A} a b (l : list A) : skipn a (skipn b l) = skipn (b + a) l.
Proof.
  revert l; induction b as [|b IH]; intros l; [reflexivity|].
  destruct l; cbn [skipn Nat.add]; [now destruct a|apply IH].
Qed.

Lemma sub_length d off len : off + len <= List.length d -> List.length (sub d off len) = len.
Proof. intros H. unfold sub, slice. rewrite firstn_length, skipn_length. lia. Qed.

Lemma sub_all d : sub d 0 (List.length d) = d.
Proof. unfold sub, slice. cbn [skipn]. rewrite Nat.add_0_l, Nat.sub_0_r. apply firstn_all. Qed.

Lemma sub_all_len d n : List.length d = n -> sub d 0 n = d.
Proof. intros <-. apply sub_all. Qed.

Lemma sub_app_l (a b : bytes) off len : off + len <= List.length a -> sub (a ++ b) off len = sub a off len.
Proof.
  intros H. unfold sub, slice. replace (off + len - off) with len by lia.
  rewrite skipn_app. rewrite firstn_app. rewrite skipn_length.
  replace (len - (List.length a - off)) with 0 by lia. cbn [firstn]. apply app_nil_r.
Qed.

Lemma sub_app_r (a b : bytes) off len : List.length a <= off -> sub (a ++ b) off len = sub b (off - List.length a) len.
Proof.
  intros H. unfold sub, slice. replace (off + len - off) with len by lia.
  replace (off - List.length a + len - (off - List.length a)) with len by lia.
  rewrite skipn_app. rewrite (skipn_all2 a) by lia. reflexivity.
Qed.

Lemma sub_sub (d : bytes) o1 l1 o2 l2 : o2 + l2 <= l1 -> sub (sub d o1 l1) o2 l2 = sub d (o1 + o2) l2.
Proof.
  intros H. unfold sub, slice.
  replace (o1 + l1 - o1) with l1 by lia. replace (o2 + l2 - o2) with l2 by lia.
  replace (o1 + o2 + l2 - (o1 + o2)) with l2 by lia.
  rewrite skipn_firstn_comm. rewrite firstn_firstn. rewrite skipn_skipn'.
  replace (Nat.min l2 (l1 - o2)) with l2 by lia. reflexivity.
Qed.

Lemma sub_firstn d n : sub d 0 n = firstn n d.
Proof. unfold sub, slice. cbn [skipn]. now rewrite Nat.add_0_l, Nat.sub_0_r. Qed.

Lemma sub_skipn d k off len : sub (skipn k d) off len = sub d (k + off) len.
Proof.
  unfold sub, slice. rewrite skipn_skipn'.
  replace (off + len - off) with len by lia. replace (k + off + len - (k + off)) with len by lia.
  reflexivity.
Qed.

(** ---- the encoder places every leaf at its offset *)
Lemma leaf_bytes_length l v : List.length (leaf_bytes l v) = leaf_len l.
Proof.
  destruct v as [[z|zs|bs|bs n]|]; cbn [leaf_bytes]; try apply fit_length. apply zeros_length.
Qed.

Lemma wf_leaves_cur ls cur size : wf_leaves ls cur size = true -> cur <= size.
Proof.
  revert cur; induction ls as [|l r IH]; intros cur H; cbn [wf_leaves] in H.
  - now apply Nat.leb_le.
  - apply andb_true_iff in H as [H1 H2]. apply Nat.leb_le in H1. specialize (IH _ H2). lia.
Qed.

Lemma enc_leaves_length ls cur size f :
  wf_leaves ls cur size = true -> List.length (enc_leaves ls cur size f) = size - cur.
Proof.
  revert cur; induction ls as [|l r IH]; intros cur H; cbn [enc_leaves wf_leaves] in *.
  - apply zeros_length.
  - apply andb_true_iff in H as [H1 H2]. apply Nat.leb_le in H1.
    rewrite !app_length, zeros_length, leaf_bytes_length, (IH _ H2).
    pose proof (wf_leaves_cur _ _ _ H2). lia.
Qed.

Lemma enc_leaves_sub ls cur size f p l a len :
  wf_leaves ls cur size = true -> find_leaf p ls = Some l -> a + len <= leaf_len l ->
  cur <= lf_off l /\
  sub (enc_leaves ls cur size f) (lf_off l - cur + a) len = sub (leaf_bytes l (f (lf_path l))) a len.
Proof.
  revert cur; induction ls as [|x r IH]; intros cur Hwf Hfind Hlen; cbn [find_leaf] in Hfind; [discriminate|].
  cbn [wf_leaves] in Hwf. apply andb_true_iff in Hwf as [H1 H2]. apply Nat.leb_le in H1.
  cbn [enc_leaves].
  destruct (String.eqb p (lf_path x)).
  - inversion Hfind; subst x. split; [exact H1|].
    rewrite sub_app_r by (rewrite zeros_length; lia). rewrite zeros_length.
    replace (lf_off l - cur + a - (lf_off l - cur)) with a by lia.
    apply sub_app_l. rewrite leaf_bytes_length. exact Hlen.
  - destruct (IH _ H2 Hfind Hlen) as [Hc Hs]. split; [unfold leaf_len in *; lia|].
    rewrite sub_app_r by (rewrite zeros_length; unfold leaf_len in *; lia). rewrite zeros_length.
    rewrite sub_app_r by (rewrite leaf_bytes_length; unfold leaf_len in *; lia). rewrite leaf_bytes_length.
    rewrite <- Hs. f_equal. unfold leaf_len in *. lia.
Qed.

Lemma encode_struct_length t fs : wf_layout t = true -> List.length (encode_struct t fs) = c_size t.
Proof.
  intros H. unfold wf_layout in H. apply andb_true_iff in H as [_ H].
  unfold encode_struct. rewrite (enc_leaves_length _ _ _ _ H). lia.
Qed.

(** The bytes [off, off+len) of [pre ++ image ++ post], relative to the image, are the corresponding bytes
    of the leaf that covers them. *)
Lemma read_encoded t fs pre post p l off a len :
  wf_layout t = true -> find_leaf p (layout t) = Some l -> off = lf_off l + a -> a + len <= leaf_len l ->
  sub (pre ++ encode_struct t fs ++ post) (List.length pre + off) len
  = sub (leaf_bytes l (lookup fs (lf_path l))) a len.
Proof.
  intros Hwf Hfind Hoff Hlen. pose proof (encode_struct_length t fs Hwf) as HL.
  unfold wf_layout in Hwf. apply andb_true_iff in Hwf as [_ Hwf].
  destruct (enc_leaves_sub _ _ _ (lookup fs) _ _ _ _ Hwf Hfind Hlen) as [_ Hs].
  rewrite sub_app_r by lia. replace (List.length pre + off - List.length pre) with off by lia.
  assert (Hin : lf_off l + leaf_len l <= c_size t).
  { clear Hs. revert Hwf Hfind. generalize (layout t) 0. intros ls; induction ls as [|x r IH]; intros cur Hw Hf;
      cbn [find_leaf wf_leaves] in *; [discriminate|].
    apply andb_true_iff in Hw as [H1 H2].
    destruct (String.eqb p (lf_path x)); [inversion Hf; subst x; apply (wf_leaves_cur _ _ _ H2)|eauto]. }
  rewrite sub_app_l by lia. subst off. rewrite Nat.sub_0_r in Hs. exact Hs.
Qed.
