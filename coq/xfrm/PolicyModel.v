(** C15 model: an abstract kernel (SPD, SAD) driven by the requests the daemon sends, the start-up / shutdown
    sequences of IkeSaController (their steps are GENERATED: Gen/XfrmBuild.v), and the index lookup of
    IkeSa.process_acquire.  Definitions only. *)
From Coq Require Import List String ZArith NArith Arith Bool.
From VLib Require Import Bytes.
From Xfrm Require Import Layout Params Gen.XfrmLayout Gen.XfrmBuild.
Import ListNotations.
Open Scope string_scope.
Open Scope nat_scope.
Open Scope list_scope.

(** ---- decidable equality of field values (the SPD is keyed by selector and direction) *)
Fixpoint listZ_eqb (a b : list Z) : bool :=
  match a, b with [], [] => true | x :: a', y :: b' => Z.eqb x y && listZ_eqb a' b' | _, _ => false end.
Fixpoint listN_eqb (a b : list N) : bool :=
  match a, b with [], [] => true | x :: a', y :: b' => N.eqb x y && listN_eqb a' b' | _, _ => false end.

Definition fv_eqb (a b : fv) : bool :=
  match a, b with
  | VInt x, VInt y => Z.eqb x y
  | VWords x, VWords y => listZ_eqb x y
  | VArrExact x, VArrExact y => listN_eqb x y
  | VArrPad x n, VArrPad y m => listN_eqb x y && Nat.eqb n m
  | _, _ => false
  end.

Definition ofv_eqb (a b : option fv) : bool :=
  match a, b with Some x, Some y => fv_eqb x y | None, None => true | _, _ => false end.

(** the members of struct xfrm_userpolicy_info that identify a policy in the SPD: the selector and dir *)
Definition key_paths : list string :=
  ["sel.family"; "sel.daddr.addr"; "sel.saddr.addr"; "sel.dport"; "sel.dport_mask"; "sel.sport"; "sel.sport_mask";
   "sel.prefixlen_d"; "sel.prefixlen_s"; "sel.proto"; "sel.ifindex"; "sel.user"; "dir"].

Definition same_key (a b : request) : bool :=
  forallb (fun p => ofv_eqb (lookup (rq_payload a) p) (lookup (rq_payload b) p)) key_paths.

Record kstate := mk_kstate { spd : list request; sad : list request }.

(** What the kernel does with one request (FLUSHPOLICY, FLUSHSA, NEWPOLICY; NEWSA appends; DELSA ignored here). *)
Definition kernel_step (st : kstate) (r : request) : result kstate :=
  if Z.eqb (rq_type r) Py.XFRM_MSG_FLUSHPOLICY then Ok (mk_kstate [] (sad st))
  else if Z.eqb (rq_type r) Py.XFRM_MSG_FLUSHSA then Ok (mk_kstate (spd st) [])
  else if Z.eqb (rq_type r) Py.XFRM_MSG_NEWPOLICY then
    if existsb (same_key r) (spd st) then Raise NetlinkError      (* EEXIST *)
    else Ok (mk_kstate (spd st ++ [r]) (sad st))
  else if Z.eqb (rq_type r) Py.XFRM_MSG_NEWSA then Ok (mk_kstate (spd st) (sad st ++ [r]))
  else Raise NetlinkError.

Fixpoint kernel_run (st : kstate) (rs : list request) : result kstate :=
  match rs with
  | [] => Ok st
  | r :: rest => match kernel_step st r with Ok st' => kernel_run st' rest | Raise e => Raise e end
  end.

(** the requests of one generated step *)
Definition step_requests (conf : list conn) (s : ctl_step) : list request :=
  match s with
  | StUrandom _ => []
  | StFlushPolicies => [flush_policies]
  | StFlushSas => [flush_sas]
  | StCreatePoliciesForEachConnection => flat_map create_policies conf
  end.

Definition controller_init_requests (conf : list conn) : list request :=
  flat_map (step_requests conf) controller_init_steps.

Definition controller_close_requests (conf : list conn) : list request :=
  flat_map (step_requests conf) controller_close_steps.

Definition controller_init (conf : list conn) (st : kstate) : result kstate :=
  kernel_run st (controller_init_requests conf).

Definition controller_close (conf : list conn) (st : kstate) : result kstate :=
  kernel_run st (controller_close_requests conf).

(** ---- SPEC: the policies a configuration asks for *)
Record polargs := mk_polargs { pa_src_sel : net; pa_dst_sel : net; pa_sport : Z; pa_dport : Z; pa_proto : Z;
                               pa_dir : Z; pa_ipsec : Z; pa_mode : Z; pa_src : ip; pa_dst : ip; pa_index : Z }.

Definition policy_request (p : polargs) : request :=
  create_policy (pa_src_sel p) (pa_dst_sel p) (pa_sport p) (pa_dport p) (pa_proto p) (pa_dir p) (pa_ipsec p)
                (pa_mode p) (pa_src p) (pa_dst p) (pa_index p).

Definition DIR_IN : Z := 0.
Definition DIR_OUT : Z := 1.
Definition DIR_FWD : Z := 2.

(** one outbound policy carrying index*8+1, one inbound and one forward policy (index 0) with reversed selectors
    and swapped tunnel endpoints *)
Definition expected_triple (c : conn) (e : entry) : list polargs :=
  let ipsec := if e_is_esp e then 50%Z else 51%Z in
  [mk_polargs (e_my_net e) (e_peer_net e) (e_my_port e) (e_peer_port e) (e_ip_proto e) DIR_OUT ipsec (e_mode e)
              (c_my_addr c) (c_peer_addr c) (e_index e * 8 + 1)%Z;
   mk_polargs (e_peer_net e) (e_my_net e) (e_peer_port e) (e_my_port e) (e_ip_proto e) DIR_IN ipsec (e_mode e)
              (c_peer_addr c) (c_my_addr c) 0%Z;
   mk_polargs (e_peer_net e) (e_my_net e) (e_peer_port e) (e_my_port e) (e_ip_proto e) DIR_FWD ipsec (e_mode e)
              (c_peer_addr c) (c_my_addr c) 0%Z].

Definition expected_policies (conf : list conn) : list polargs :=
  flat_map (fun c => flat_map (expected_triple c) (c_protect c)) conf.

(** no two requested policies share selector and direction (otherwise the kernel answers EEXIST) *)
Fixpoint distinct_keys (rs : list request) : bool :=
  match rs with
  | [] => true
  | r :: rest => negb (existsb (same_key r) rest) && distinct_keys rest
  end.

(** ---- IkeSa.process_acquire: state gate, then next(x for x in protect if x.index == index) *)
Inductive acquire_result := AcqQueued | AcqIgnored | AcqNegotiate (e : entry).

Definition ikesa_process_acquire (state_ready : bool) (protect : list entry) (index : Z) : acquire_result :=
  if negb state_ready then AcqQueued
  else match find (fun x => protect_match (e_index x) index) protect with
       | Some e => AcqNegotiate e
       | None => AcqIgnored        (* StopIteration caught: warning, returns None, no CHILD_SA object *)
       end.

(** IkeSaController.process_acquire hands [acquire_index policy.index] to the IKE_SA; the policy index is a
    32-bit field *)
Definition kernel_index_of (e : entry) : Z := (policy_out_index (e_index e) mod 2 ^ 32)%Z.

(** ---- IkeSaController.process_acquire: which IKE_SA handles an ACQUIRE for (my_addr, peer_addr).
    The table is the list of (my_addr, peer_addr, state) of self.ike_sas; the lookup condition and the set of
    states that are passed over (an IKE_SA being replaced or closed, fix 1753c24) are GENERATED. *)
Definition ip_eqb (a b : ip) : bool := Z.eqb (ip_version a) (ip_version b) && listN_eqb (ip_packed a) (ip_packed b).

Inductive ike_sa_pick := PickExisting (position : nat) | PickNewInitiator (my_addr peer_addr : ip).

Fixpoint find_ike_sa (table : list (ip * ip * Z)) (my peer : ip) (n : nat) : option nat :=
  match table with
  | [] => None
  | (m, p, st) :: rest => if ike_sa_match (ip_eqb m my) (ip_eqb p peer) (ike_sa_usable st) then Some n
                          else find_ike_sa rest my peer (S n)
  end.

Definition pick_ike_sa (table : list (ip * ip * Z)) (my peer : ip) : ike_sa_pick :=
  match find_ike_sa table my peer 0 with
  | Some n => PickExisting n                 (* re-use *)
  | None => PickNewInitiator my peer         (* StopIteration: IkeSa(is_initiator=True, my_addr, peer_addr), appended *)
  end.
