(** S-expressions exchanged between the Python harness and the executable models.
    The harness writes inputs and the implementation's outputs as [sx] literals; the model side
    converts its result with a [to_sx] function and [sx_mismatches] reports the differing cases. *)
From Coq Require Import List String Ascii ZArith Bool.
Import ListNotations.
Open Scope string_scope.

Inductive sx : Type :=
| SxNone : sx                   (* Python None *)
| SxZ  : Z -> sx                (* integers and booleans *)
| SxH  : string -> sx           (* byte string, written in lower-case hexadecimal *)
| SxS  : string -> sx           (* ASCII text *)
| SxL  : list sx -> sx.

Fixpoint sx_eqb (a b : sx) {struct a} : bool :=
  match a, b with
  | SxNone, SxNone => true
  | SxZ x, SxZ y => Z.eqb x y
  | SxH x, SxH y => String.eqb x y
  | SxS x, SxS y => String.eqb x y
  | SxL xs, SxL ys =>
      (fix go (xs ys : list sx) {struct xs} : bool :=
         match xs, ys with
         | [], [] => true
         | x :: xs', y :: ys' => sx_eqb x y && go xs' ys'
         | _, _ => false
         end) xs ys
  | _, _ => false
  end.

Fixpoint sx_mismatches_from (f : sx -> sx) (cases : list (sx * sx)) (i : nat) : list nat :=
  match cases with
  | [] => []
  | (x, e) :: rest =>
      if sx_eqb (f x) e then sx_mismatches_from f rest (S i)
      else i :: sx_mismatches_from f rest (S i)
  end.

Definition sx_mismatches (f : sx -> sx) (cases : list (sx * sx)) : list nat :=
  sx_mismatches_from f cases 0.

(** Hexadecimal <-> byte lists (bytes are [N] below 256 on the model side). *)
Definition hex_digit (n : N) : ascii :=
  match n with
  | 0%N => "0" | 1%N => "1" | 2%N => "2" | 3%N => "3" | 4%N => "4" | 5%N => "5" | 6%N => "6" | 7%N => "7"
  | 8%N => "8" | 9%N => "9" | 10%N => "a" | 11%N => "b" | 12%N => "c" | 13%N => "d" | 14%N => "e" | _ => "f"
  end%char.

Definition hex_val (c : ascii) : option N :=
  let n := N_of_ascii c in
  if (N.leb 48 n && N.leb n 57)%bool then Some (n - 48)%N
  else if (N.leb 97 n && N.leb n 102)%bool then Some (n - 87)%N
  else if (N.leb 65 n && N.leb n 70)%bool then Some (n - 55)%N
  else None.

Fixpoint hex_to_bytes (s : string) : option (list N) :=
  match s with
  | EmptyString => Some []
  | String a (String b rest) =>
      match hex_val a, hex_val b, hex_to_bytes rest with
      | Some x, Some y, Some r => Some ((x * 16 + y)%N :: r)
      | _, _, _ => None
      end
  | _ => None
  end.

Fixpoint bytes_to_hex (l : list N) : string :=
  match l with
  | [] => EmptyString
  | b :: r => String (hex_digit (N.div b 16)) (String (hex_digit (N.modulo b 16)) (bytes_to_hex r))
  end.

Definition sx_bytes (l : list N) : sx := SxH (bytes_to_hex l).
Definition sx_bool (b : bool) : sx := SxZ (if b then 1 else 0)%Z.
Definition sx_N (n : N) : sx := SxZ (Z.of_N n).
Definition sx_nat (n : nat) : sx := SxZ (Z.of_nat n).
Definition sx_opt {A} (f : A -> sx) (o : option A) : sx := match o with Some a => f a | None => SxNone end.
Definition sx_list {A} (f : A -> sx) (l : list A) : sx := SxL (map f l).

(** Accessors used by the [of_sx] side of models; total, with an error marker. *)
Definition get_bytes (x : sx) : option (list N) := match x with SxH s => hex_to_bytes s | _ => None end.
Definition get_Z (x : sx) : option Z := match x with SxZ z => Some z | _ => None end.
Definition get_N (x : sx) : option N := match x with SxZ z => if Z.leb 0 z then Some (Z.to_N z) else None | _ => None end.
Definition get_bool (x : sx) : option bool := match x with SxZ 0 => Some false | SxZ 1 => Some true | _ => None end.
Definition get_list (x : sx) : option (list sx) := match x with SxL l => Some l | _ => None end.
Definition get_str (x : sx) : option string := match x with SxS s => Some s | _ => None end.
Definition bad_input : sx := SxS "BAD-INPUT".
