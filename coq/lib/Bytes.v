(** Byte strings as lists of [N] (each below 256 when well formed), big-endian integers, Python slicing. *)
From Coq Require Import List ZArith NArith Lia Arith PeanoNat.
Import ListNotations.
Open Scope N_scope.

Definition bytes := list N.

Definition is_byte (b : N) : Prop := b < 256.
Definition wf_bytes (l : bytes) : Prop := Forall is_byte l.
Definition is_byteb (b : N) : bool := b <? 256.
Definition wf_bytesb (l : bytes) : bool := forallb is_byteb l.

Lemma wf_bytesb_spec l : wf_bytesb l = true <-> wf_bytes l.
Proof.
  unfold wf_bytesb, wf_bytes. rewrite forallb_forall, Forall_forall.
  split; intros Hx x Hin; specialize (Hx x Hin); unfold is_byteb, is_byte in *;
    [apply N.ltb_lt | apply N.ltb_lt]; assumption.
Qed.

(** Big-endian encoding of [n] on [w] bytes (the callers state [n < 256^w], struct.pack refuses more). *)
Fixpoint be_encode (w : nat) (n : N) : bytes :=
  match w with
  | O => []
  | S w' => be_encode w' (n / 256) ++ [n mod 256]
  end.

Definition be_decode (l : bytes) : N := fold_left (fun acc b => acc * 256 + b) l 0.

Lemma be_encode_length w n : length (be_encode w n) = w.
Proof.
  revert n; induction w as [|w IH]; intros n; simpl; [reflexivity|].
  rewrite app_length, IH. simpl. lia.
Qed.

Lemma be_encode_wf w n : wf_bytes (be_encode w n).
Proof.
  revert n; induction w as [|w IH]; intros n; simpl; [constructor|].
  apply Forall_app; split; [apply IH|]. constructor; [|constructor].
  unfold is_byte. apply N.mod_lt. discriminate.
Qed.

Lemma be_decode_app l b : be_decode (l ++ [b]) = be_decode l * 256 + b.
Proof. unfold be_decode. rewrite fold_left_app. reflexivity. Qed.

Lemma be_decode_encode w n : n < 256 ^ N.of_nat w -> be_decode (be_encode w n) = n.
Proof.
  revert n. induction w as [|w IH]; intros n Hn.
  - simpl in *. unfold be_decode. simpl. lia.
  - cbn [be_encode]. rewrite be_decode_app, IH.
    + pose proof (N.div_mod n 256). lia.
    + replace (N.of_nat (S w)) with (N.succ (N.of_nat w)) in Hn by lia.
      rewrite N.pow_succ_r' in Hn. apply N.div_lt_upper_bound; lia.
Qed.

Lemma be_decode_bound l : wf_bytes l -> be_decode l < 256 ^ N.of_nat (length l).
Proof.
  induction l as [|b l IH] using rev_ind; intros Hwf.
  - unfold be_decode; simpl. lia.
  - apply Forall_app in Hwf as [Hl Hb]. inversion Hb as [|? ? Hb1 _]; subst.
    rewrite be_decode_app, app_length. simpl length.
    replace (N.of_nat (length l + 1)) with (N.succ (N.of_nat (length l))) by lia.
    rewrite N.pow_succ_r'. specialize (IH Hl). unfold is_byte in Hb1. lia.
Qed.

Lemma be_encode_decode l : wf_bytes l -> be_encode (length l) (be_decode l) = l.
Proof.
  induction l as [|b l IH] using rev_ind; intros Hwf; [reflexivity|].
  apply Forall_app in Hwf as [Hl Hb]. inversion Hb as [|? ? Hb1 _]; subst. unfold is_byte in Hb1.
  rewrite app_length, be_decode_app. simpl length. rewrite Nat.add_1_r. cbn [be_encode].
  assert (Hd : (be_decode l * 256 + b) / 256 = be_decode l /\ (be_decode l * 256 + b) mod 256 = b).
  { split; symmetry.
    - apply (N.div_unique _ 256 (be_decode l) b); lia.
    - apply (N.mod_unique _ 256 (be_decode l) b); lia. }
  destruct Hd as [Hd1 Hd2]. rewrite Hd1, Hd2.
  rewrite IH by assumption. reflexivity.
Qed.

(** Python slicing with non-negative bounds: data[a:b]. *)
Definition slice (d : bytes) (a b : nat) : bytes := firstn (b - a) (skipn a d).

Lemma slice_length d a b : length (slice d a b) = Nat.min (b - a) (length d - a).
Proof. unfold slice. rewrite firstn_length, skipn_length. reflexivity. Qed.

Lemma skipn_app_exact {A} (a b : list A) : skipn (length a) (a ++ b) = b.
Proof. induction a; simpl; auto. Qed.

Lemma firstn_app_exact {A} (a b : list A) : firstn (length a) (a ++ b) = a.
Proof. induction a; simpl; f_equal; auto. Qed.

Lemma slice_mid (a h b c : bytes) :
  slice (a ++ h ++ b ++ c) (length a + length h) (length a + (length b + length h)) = b.
Proof.
  unfold slice.
  replace (length a + (length b + length h) - (length a + length h))%nat with (length b) by lia.
  rewrite app_assoc, <- app_length, skipn_app_exact. apply firstn_app_exact.
Qed.
