import argparse
import importlib
import os
import sys

from vlib import core


def main():
    ap = argparse.ArgumentParser()
    ap.add_argument('pid')
    ap.add_argument('--tier', default=os.environ.get('VERIF_TIER', 'quick'), choices=['quick', 'thorough'])
    ap.add_argument('--replay')
    args = ap.parse_args()
    seed = int(os.environ.get('VERIF_SEED', '0') or 0)
    mod = importlib.import_module('props.' + args.pid.lower())
    sys.exit(core.main_run(mod.CHECK, args.tier, seed, args.replay))


if __name__ == '__main__':
    main()
