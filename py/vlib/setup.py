"""setup_cmd: regenerate every Gen/ file from /repo and build every Coq cluster (full .vo build)."""
import importlib
import json
import os
import sys

from vlib import core


def main():
    man = json.load(open(os.path.join(core.VERIF, 'MANIFEST.json')))
    ok_all = True
    ok, log = core.coq_build('lib')
    if not ok:
        print(log[-3000:])
        sys.exit(1)
    seen = set()
    for c in man['checks']:
        pid = c['property_id']
        mod = importlib.import_module('props.' + pid.lower())
        chk = mod.CHECK
        ctx = core.Ctx(pid, 'quick', 0)
        try:
            if chk.translate:
                chk.translate(ctx)
        except Exception as ex:
            print(f'setup: translate {pid}: {ex}')
            ok_all = False
            continue
        if chk.cluster in seen:
            continue
        seen.add(chk.cluster)
        ok, log = core.coq_build(chk.cluster, None, chk.build_timeout, deps=chk.deps)
        print(f'setup: cluster {chk.cluster}: {"ok" if ok else "FAILED"}')
        if not ok:
            print(core.extract_coq_error(log))
            ok_all = False
    sys.exit(0 if ok_all else 1)


if __name__ == '__main__':
    main()
