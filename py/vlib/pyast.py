"""Fail-closed Python-ast -> Gallina helpers (tie #1).

Everything here raises TranslateError as soon as the source leaves the recognised subset: a check that
depends on a generated term then reports a violation instead of silently proving things about stale text.

  Src(path)                      parsed module with helpers
  .cls('A.B')                    nested ClassDef
  .func('A.B.f') / .func('f')    FunctionDef (method or module function)
  .enum('A.B')                   [(NAME, int)] of an (Int)Enum class body (simple NAME = int-literal lines)
  .const('A.X') / .const('X')    value of a literal class/module constant (ints, strs, bytes, tuples, lists, dicts,
                                 unary minus, |, <<, +, *, ** on literals and on other module constants)
  .dict_literal(node)            evaluate a dict literal with a resolver for the keys/values
  expr_to_gallina(node, env)     boolean/integer expression -> Gallina text over Z/bool
  func_to_gallina(fn, env, ...)  `if c: return e` chains -> nested if/then/else
"""
import ast
import os

from vlib.core import TranslateError


class Src:
    def __init__(self, path):
        self.path = path
        self.text = open(path).read()
        self.tree = ast.parse(self.text, path)

    def fail(self, node, msg):
        line = getattr(node, 'lineno', '?')
        raise TranslateError(f'{os.path.basename(self.path)}:{line}: {msg}')

    def cls(self, dotted):
        body = self.tree.body
        node = None
        for part in dotted.split('.'):
            node = next((n for n in body if isinstance(n, ast.ClassDef) and n.name == part), None)
            if node is None:
                raise TranslateError(f'{os.path.basename(self.path)}: class {dotted} not found')
            body = node.body
        return node

    def func(self, dotted):
        parts = dotted.split('.')
        body = self.tree.body if len(parts) == 1 else self.cls('.'.join(parts[:-1])).body
        fn = next((n for n in body if isinstance(n, ast.FunctionDef) and n.name == parts[-1]), None)
        if fn is None:
            raise TranslateError(f'{os.path.basename(self.path)}: function {dotted} not found')
        return fn

    def enum(self, dotted):
        out = []
        for n in self.cls(dotted).body:
            if isinstance(n, ast.Assign) and len(n.targets) == 1 and isinstance(n.targets[0], ast.Name):
                out.append((n.targets[0].id, self.lit(n.value)))
            elif isinstance(n, (ast.Expr, ast.Pass)) and (isinstance(n, ast.Pass)
                                                         or isinstance(n.value, ast.Constant)):
                continue    # docstring / comment
            elif isinstance(n, (ast.ClassDef, ast.FunctionDef)):
                continue
            else:
                self.fail(n, f'unexpected statement in enum {dotted}')
        return out

    def assign_value(self, dotted):
        parts = dotted.split('.')
        body = self.tree.body if len(parts) == 1 else self.cls('.'.join(parts[:-1])).body
        for n in body:
            if isinstance(n, ast.Assign) and len(n.targets) == 1 and isinstance(n.targets[0], ast.Name) \
                    and n.targets[0].id == parts[-1]:
                return n.value
        raise TranslateError(f'{os.path.basename(self.path)}: constant {dotted} not found')

    def const(self, dotted):
        return self.lit(self.assign_value(dotted))

    def lit(self, node, names=None):
        """Evaluate a literal expression; `names` resolves Name/Attribute chains (dotted string -> value)."""
        names = names or {}
        if isinstance(node, ast.Constant):
            return node.value
        if isinstance(node, ast.UnaryOp) and isinstance(node.op, ast.USub):
            return -self.lit(node.operand, names)
        if isinstance(node, ast.BinOp):
            a, b = self.lit(node.left, names), self.lit(node.right, names)
            ops = {ast.BitOr: lambda: a | b, ast.LShift: lambda: a << b, ast.Add: lambda: a + b,
                   ast.Mult: lambda: a * b, ast.Pow: lambda: a ** b, ast.Sub: lambda: a - b,
                   ast.BitAnd: lambda: a & b, ast.RShift: lambda: a >> b, ast.FloorDiv: lambda: a // b}
            f = ops.get(type(node.op))
            if f is None:
                self.fail(node, 'operator outside the literal subset')
            return f()
        if isinstance(node, ast.Tuple):
            return tuple(self.lit(e, names) for e in node.elts)
        if isinstance(node, ast.List):
            return [self.lit(e, names) for e in node.elts]
        if isinstance(node, ast.Dict):
            return {self.lit(k, names): self.lit(v, names) for k, v in zip(node.keys, node.values)}
        if isinstance(node, (ast.Name, ast.Attribute)):
            d = dotted_name(node)
            if d is not None and d in names:
                return names[d]
            if d is not None and callable(names.get('__resolve__')):
                return names['__resolve__'](d)
            if isinstance(node, ast.Name):
                try:
                    return self.const(node.id)
                except TranslateError:
                    pass
        self.fail(node, f'not a literal: {ast.dump(node)[:80]}')

    def segment(self, node):
        return ast.get_source_segment(self.text, node)


def dotted_name(node):
    parts = []
    while isinstance(node, ast.Attribute):
        parts.append(node.attr)
        node = node.value
    if isinstance(node, ast.Name):
        parts.append(node.id)
        return '.'.join(reversed(parts))
    return None


CMP = {ast.Lt: 'Z.ltb', ast.LtE: 'Z.leb', ast.Gt: 'Z.gtb', ast.GtE: 'Z.geb', ast.Eq: 'Z.eqb'}


def expr_to_gallina(src, node, env):
    """env: dotted name -> Gallina term (integers are Z, booleans bool).  Returns (text, type) with type in
    {'Z','bool','tuple'}; tuples are returned as python lists of (text,type)."""
    def go(n):
        if isinstance(n, ast.Constant):
            if isinstance(n.value, bool):
                return ('true' if n.value else 'false'), 'bool'
            if isinstance(n.value, int):
                return (f'({n.value})' if n.value < 0 else f'{n.value}'), 'Z'
            src.fail(n, 'constant outside the subset')
        if isinstance(n, (ast.Name, ast.Attribute)):
            d = dotted_name(n)
            if d in env:
                v = env[d]
                return v if isinstance(v, tuple) else (v, 'Z')
            src.fail(n, f'unknown name {d}')
        if isinstance(n, ast.Tuple):
            return [go(e) for e in n.elts], 'tuple'
        if isinstance(n, ast.BoolOp):
            op = 'andb' if isinstance(n.op, ast.And) else 'orb'
            parts = [go(v) for v in n.values]
            for p in parts:
                if p[1] != 'bool':
                    src.fail(n, 'non-boolean operand of and/or')
            t = parts[-1][0]
            for p in reversed(parts[:-1]):
                t = f'({op} {p[0]} {t})'
            return t, 'bool'
        if isinstance(n, ast.IfExp):
            c, a, b = go(n.test), go(n.body), go(n.orelse)
            if c[1] != 'bool' or a[1] != b[1] or a[1] == 'tuple':
                src.fail(n, 'conditional expression outside the subset')
            return f'(if {c[0]} then {a[0]} else {b[0]})', a[1]
        if isinstance(n, ast.UnaryOp) and isinstance(n.op, ast.Not):
            t, ty = go(n.operand)
            if ty != 'bool':
                src.fail(n, 'not on non-boolean')
            return f'(negb {t})', 'bool'
        if isinstance(n, ast.Compare):
            if len(n.ops) != 1:
                src.fail(n, 'chained comparison')
            op = n.ops[0]
            rhs = n.comparators[0]
            # `X is None` / `X is not None`: the environment gives the boolean `X is not None`
            if isinstance(op, (ast.Is, ast.IsNot)) and isinstance(rhs, ast.Constant) and rhs.value is None:
                d = dotted_name(n.left)
                key = f'{d} is not None'
                if key not in env:
                    src.fail(n, f'unknown optional {d}')
                t = env[key]
                return (t if isinstance(op, ast.IsNot) else f'(negb {t})'), 'bool'
            # membership in range(a, b) or in a literal tuple/list
            if isinstance(op, (ast.In, ast.NotIn)):
                x = go(n.left)
                if x[1] != 'Z':
                    src.fail(n, 'membership of a non-integer')
                if isinstance(rhs, ast.Call) and dotted_name(rhs.func) == 'range' and len(rhs.args) == 2 \
                        and not rhs.keywords:
                    lo, hi = go(rhs.args[0]), go(rhs.args[1])
                    if lo[1] != 'Z' or hi[1] != 'Z':
                        src.fail(n, 'range bounds are not integers')
                    t = f'(andb (Z.leb {lo[0]} {x[0]}) (Z.ltb {x[0]} {hi[0]}))'
                elif isinstance(rhs, (ast.Tuple, ast.List)) and rhs.elts:
                    parts = []
                    for e in rhs.elts:
                        y = go(e)
                        if y[1] != 'Z':
                            src.fail(n, 'membership in a non-integer collection')
                        parts.append(f'(Z.eqb {x[0]} {y[0]})')
                    t = parts[-1]
                    for q in reversed(parts[:-1]):
                        t = f'(orb {q} {t})'
                else:
                    src.fail(n, 'membership test outside the subset')
                return (t if isinstance(op, ast.In) else f'(negb {t})'), 'bool'
            a, b = go(n.left), go(rhs)
            if a[1] == 'bool' and b[1] == 'bool' and isinstance(op, (ast.Eq, ast.NotEq)):
                t = f'(Bool.eqb {a[0]} {b[0]})'
                return (t if isinstance(op, ast.Eq) else f'(negb {t})'), 'bool'
            if a[1] == 'tuple' or b[1] == 'tuple':
                if not (a[1] == b[1] == 'tuple') or len(a[0]) != len(b[0]) or not isinstance(op, (ast.Eq, ast.NotEq)):
                    src.fail(n, 'tuple comparison outside the subset')
                parts = []
                for x, y in zip(a[0], b[0]):
                    if x[1] != 'Z' or y[1] != 'Z':
                        src.fail(n, 'tuple element is not an integer')
                    parts.append(f'(Z.eqb {x[0]} {y[0]})')
                t = parts[-1]
                for p in reversed(parts[:-1]):
                    t = f'(andb {p} {t})'
                return (t if isinstance(op, ast.Eq) else f'(negb {t})'), 'bool'
            if a[1] != 'Z' or b[1] != 'Z':
                src.fail(n, 'comparison of non-integers')
            if isinstance(op, ast.NotEq):
                return f'(negb (Z.eqb {a[0]} {b[0]}))', 'bool'
            if type(op) not in CMP:
                src.fail(n, 'comparison operator outside the subset')
            return f'({CMP[type(op)]} {a[0]} {b[0]})', 'bool'
        if isinstance(n, ast.IfExp):
            c, t, e = go(n.test), go(n.body), go(n.orelse)
            if c[1] != 'bool' or t[1] != e[1]:
                src.fail(n, 'ill-typed conditional expression')
            return f'(if {c[0]} then {t[0]} else {e[0]})', t[1]
        if isinstance(n, ast.BinOp):
            a, b = go(n.left), go(n.right)
            if a[1] != 'Z' or b[1] != 'Z':
                src.fail(n, 'arithmetic on non-integers')
            ops = {ast.Add: 'Z.add', ast.Sub: 'Z.sub', ast.Mult: 'Z.mul', ast.FloorDiv: 'Z.div', ast.Mod: 'Z.modulo',
                   ast.LShift: 'Z.shiftl', ast.RShift: 'Z.shiftr', ast.BitOr: 'Z.lor', ast.BitAnd: 'Z.land'}
            if type(n.op) not in ops:
                src.fail(n, 'arithmetic operator outside the subset')
            return f'({ops[type(n.op)]} {a[0]} {b[0]})', 'Z'
        src.fail(n, f'expression outside the subset: {type(n).__name__}')
    return go(node)


def func_to_gallina(src, fn, env, rettype='bool'):
    """Body must be a chain of `if c: return e` (with optional elif/else returning) ending in `return e`."""
    def block(stmts):
        stmts = [s for s in stmts if not (isinstance(s, ast.Expr) and isinstance(s.value, ast.Constant))]
        if not stmts:
            src.fail(fn, 'function may fall off its end')
        s = stmts[0]
        if isinstance(s, ast.Return):
            if len(stmts) != 1 or s.value is None:
                src.fail(s, 'code after return / bare return')
            t, ty = expr_to_gallina(src, s.value, env)
            if ty != rettype:
                src.fail(s, f'return of type {ty}, expected {rettype}')
            return t
        if isinstance(s, ast.If):
            c, cty = expr_to_gallina(src, s.test, env)
            if cty != 'bool':
                src.fail(s, 'non-boolean condition')
            then = block(s.body)
            rest = block(s.orelse + stmts[1:]) if not ends_in_return(s.orelse) or not s.orelse else block(s.orelse)
            if s.orelse and ends_in_return(s.orelse) and stmts[1:]:
                src.fail(stmts[1], 'unreachable code')
            return f'(if {c} then {then} else {rest})'
        src.fail(s, f'statement outside the subset: {type(s).__name__}')

    def ends_in_return(stmts):
        if not stmts:
            return False
        last = stmts[-1]
        if isinstance(last, ast.Return):
            return True
        if isinstance(last, ast.If):
            return ends_in_return(last.body) and ends_in_return(last.orelse)
        return False
    return block(fn.body)


def write_if_changed(path, text):
    os.makedirs(os.path.dirname(path), exist_ok=True)
    if os.path.exists(path) and open(path).read() == text:
        return False
    with open(path, 'w') as f:
        f.write(text)
    return True


def coq_ident(name):
    out = ''.join(c if c.isalnum() or c == '_' else '_' for c in name)
    return out
