"""Common machinery of every check: Coq build, Print Assumptions audit, model evaluation
(cases.v + vm_compute), verdict/violation protocol, known findings, evidence.

A property module (py/props/cXX.py) defines CHECK = Check(...).  The runner does, in order:
  1 translate   /repo -> coq/<cluster>/Gen/*.v          (tie #1, fail closed)
  2 build       make the cluster; audit Props/<ID>.v     (theorems, Print Assumptions, hygiene grep)
  3 correspond  model (vm_compute inside Coq) vs implementation on generated inputs   (tie #2)
  4 oracle      the property's observable statement evaluated on the real code
  5 verdict     if 1-3 broke: falsifier (= oracle, deeper) looks for a concrete failing input
"""
import fcntl
import hashlib
import json
import os
import random
import re
import shutil
import subprocess
import sys
import time
import traceback

VERIF = os.path.dirname(os.path.dirname(os.path.dirname(os.path.abspath(__file__))))   # the tree this file lives in
REPO = os.environ.get('VERIF_REPO', '/repo')   # VERIF_REPO: self-tests against a mutated copy only
COQ = os.path.join(VERIF, 'coq')
WORK = os.path.join(VERIF, '.work')
NPROC = 16

FORBIDDEN = re.compile(
    r'\b(Admitted|admit|Axiom|Axioms|Parameter|Parameters|Conjecture|Admit Obligations|bypass_check)\b'
    r'|Unset\s+Guard|Unset\s+Positivity|Unset\s+Universe|type-in-type|impredicative-set|native_compute')


class TranslateError(Exception):
    """The translator met source outside its subset (fail closed)."""


class Failure:
    """A concrete failure of the property on the real code (or a model/code disagreement)."""

    def __init__(self, kind, signature, detail, replay):
        self.kind = kind            # 'property' | 'correspondence' | 'proof' | 'translate'
        self.signature = signature  # canonical class of the failing input (matched against known findings)
        self.detail = detail        # human readable
        self.replay = replay        # JSON-able object that re-executes the failure


class Ctx:
    def __init__(self, pid, tier, seed):
        self.pid = pid
        self.tier = tier
        self.seed = seed
        self.rng = random.Random(seed * 1000003 + int(hashlib.sha1(pid.encode()).hexdigest()[:8], 16))
        self.work = os.path.join(WORK, f'{pid}-{os.getpid()}')    # per process: concurrent runs must not collide
        shutil.rmtree(self.work, ignore_errors=True)
        os.makedirs(self.work, exist_ok=True)
        self.t0 = time.time()
        self.timings = {}
        self.cov = {}            # coverage keys accumulated by the steps
        self.samples = []
        self.hist = {}           # input distribution histogram
        self.notes = []
        self.nontrivial = set()  # content hashes of non trivial cases
        self.evaluations = 0
        self.disagreements_checked = 0

    def quick(self):
        return self.tier == 'quick'

    def count(self, key, n=1):
        self.hist[key] = self.hist.get(key, 0) + n

    def case(self, obj, nontrivial=True, sample=False):
        """Register one executed case (for the evidence counters)."""
        self.evaluations += 1
        if nontrivial:
            h = hashlib.sha1(json.dumps(obj, sort_keys=True, default=str).encode()).hexdigest()
            self.nontrivial.add(h)
        if sample and len(self.samples) < 6:
            self.samples.append(obj)

    def timed(self, name):
        ctx = self

        class _T:
            def __enter__(self):
                self.t = time.time()

            def __exit__(self, *a):
                ctx.timings[name] = round(ctx.timings.get(name, 0) + time.time() - self.t, 2)
        return _T()


# ---------------------------------------------------------------------------------------------
# Coq tooling

def run(cmd, cwd=None, timeout=600, env=None, input=None):
    try:
        p = subprocess.run(cmd, cwd=cwd, timeout=timeout, env=env, input=input,
                           stdout=subprocess.PIPE, stderr=subprocess.STDOUT, text=True)
        return p.returncode, p.stdout
    except subprocess.TimeoutExpired as ex:
        out = ex.stdout or ''
        if isinstance(out, bytes):
            out = out.decode(errors='replace')
        return 124, out + f'\n[timeout after {timeout}s]'


def cluster_dir(cluster):
    return os.path.join(COQ, cluster)


def cluster_name(cluster):
    """Logical name of the cluster = the one in its _CoqProject (-Q . Name)."""
    with open(os.path.join(cluster_dir(cluster), '_CoqProject')) as f:
        for line in f:
            m = re.match(r'\s*-Q\s+\.\s+(\w+)', line)
            if m:
                return m.group(1)
    raise RuntimeError('no -Q . Name in _CoqProject of ' + cluster)


def coq_flags(cluster):
    flags = []
    with open(os.path.join(cluster_dir(cluster), '_CoqProject')) as f:
        for line in f:
            m = re.match(r'\s*-(Q|R)\s+(\S+)\s+(\S+)', line)
            if m:
                flags += ['-' + m.group(1), os.path.normpath(os.path.join(cluster_dir(cluster), m.group(2))),
                          m.group(3)]
    return flags


def project_files(cluster):
    files = []
    with open(os.path.join(cluster_dir(cluster), '_CoqProject')) as f:
        for line in f:
            line = line.strip()
            if line.endswith('.v') and not line.startswith('-'):
                files.append(line)
    return files


class Lock:
    def __init__(self, name):
        os.makedirs(WORK, exist_ok=True)
        self.path = os.path.join(WORK, f'.lock-{name}')

    def __enter__(self):
        self.f = open(self.path, 'w')
        fcntl.flock(self.f, fcntl.LOCK_EX)

    def __exit__(self, *a):
        fcntl.flock(self.f, fcntl.LOCK_UN)
        self.f.close()


def coq_build(cluster, targets=None, timeout=1500, deps=()):
    """Full .vo build (never -vos) of the cluster (or of the given .vo targets). Returns (ok, log)."""
    for d in deps:
        ok, log = coq_build(d, None, timeout)
        if not ok:
            return False, log
    cdir = cluster_dir(cluster)
    with Lock('coq-' + cluster):
        rc, out = run(['coq_makefile', '-f', '_CoqProject', '-o', 'Makefile.coq'], cwd=cdir, timeout=60)
        if rc != 0:
            return False, out
        cmd = ['make', '-f', 'Makefile.coq', f'-j{NPROC}']
        if targets:
            cmd += targets
        rc, out2 = run(cmd, cwd=cdir, timeout=timeout)
        return rc == 0, out + out2


def hygiene(cluster):
    """The development must contain no Admitted/admit/Axiom/Parameter/... (Section Variables are fine)."""
    bad = []
    cdir = cluster_dir(cluster)
    for rel in project_files(cluster):
        path = os.path.join(cdir, rel)
        if not os.path.exists(path):
            continue
        text = open(path).read()
        text_nc = strip_comments(text)
        for m in FORBIDDEN.finditer(text_nc):
            bad.append(f'{cluster}/{rel}: {m.group(0)}')
        # Variable/Hypothesis only inside sections
        depth = 0
        for line in text_nc.splitlines():
            s = line.strip()
            if re.match(r'Section\s+\w+', s):
                depth += 1
            elif re.match(r'End\s+\w+', s) and depth > 0:
                depth -= 1
            elif re.match(r'(Variable|Variables|Hypothesis|Hypotheses|Context)\b', s) and depth == 0:
                bad.append(f'{cluster}/{rel}: {s[:40]} outside a Section')
    return bad


def strip_comments(text):
    out = []
    depth = 0
    i = 0
    while i < len(text):
        if text.startswith('(*', i):
            depth += 1
            i += 2
        elif text.startswith('*)', i) and depth > 0:
            depth -= 1
            i += 2
        else:
            if depth == 0:
                out.append(text[i])
            elif text[i] == '\n':
                out.append('\n')
            i += 1
    return ''.join(out)


def audit_props(cluster, props_rel, allowed_axioms=()):
    """Recompile Props/<ID>.v alone, capturing what Print Assumptions prints under every theorem.
    Returns dict(obligations, discharged, theorems, axioms, problems, cmd, log)."""
    cdir = cluster_dir(cluster)
    path = os.path.join(cdir, props_rel)
    text = strip_comments(open(path).read())
    theorems = re.findall(r'^\s*(?:Theorem|Corollary)\s+([\w\']+)', text, re.M)
    printed = re.findall(r'Print Assumptions\s+([\w\']+)\s*\.', text)
    problems = []
    for t in theorems:
        if t not in printed:
            problems.append(f'theorem {t} has no Print Assumptions')
    cmd = ['coqc'] + coq_flags(cluster) + [props_rel]
    with Lock('coq-' + cluster):
        rc, out = run(cmd, cwd=cdir, timeout=900)
    if rc != 0:
        problems.append('Props file does not compile')
        return dict(obligations=len(theorems), discharged=0, theorems=theorems, axioms=[], problems=problems,
                    cmd=' '.join(cmd), log=out)
    # split the output per Print Assumptions, in order
    blocks = re.split(r'(?m)^(?=Closed under the global context|Axioms:)', out)
    blocks = [b for b in blocks if b.startswith('Closed under') or b.startswith('Axioms:')]
    axioms_all = []
    discharged = 0
    if len(blocks) != len(printed):
        problems.append(f'{len(printed)} Print Assumptions but {len(blocks)} answers')
    for name, block in zip(printed, blocks):
        if block.startswith('Closed under'):
            discharged += 1
            continue
        names = re.findall(r'(?m)^([\w\.\']+)\s*:', block)
        names += re.findall(r'(?m)^([\w\.\']+)\s*$', block[len('Axioms:'):])
        names = [n for n in names if n]
        bad = [n for n in names if not any(re.fullmatch(p, n) for p in allowed_axioms)]
        axioms_all += [n for n in names if n not in axioms_all]
        if bad:
            problems.append(f'{name} depends on non-whitelisted assumptions: {bad}')
        else:
            discharged += 1
    return dict(obligations=len(theorems), discharged=min(discharged, len(theorems)), theorems=theorems,
                axioms=axioms_all, problems=problems, cmd=' '.join(cmd), log=out)


def coqchk_props(cluster, props_rel, allowed_axioms=(), timeout=1500):
    """Thorough tier: re-check the compiled Props file and everything it depends on with the independent checker
    coqchk and read the axioms it reports.  Returns dict(ok, axioms, cmd, problems)."""
    cdir = cluster_dir(cluster)
    mod = cluster_name(cluster) + '.' + props_rel[:-2].replace('/', '.')
    cmd = ['coqchk', '-silent', '-o'] + coq_flags(cluster) + [mod]
    rc, out = run(cmd, cwd=cdir, timeout=timeout)
    problems = []
    if rc == 124:
        # the independent re-check did not FINISH (coqchk has no vm: an Interval / vm_compute proof can take hours); this
        # says nothing about the tree - coqc's kernel accepted the file - and is recorded, not reported as a violation
        return dict(ok=True, axioms=[], cmd=' '.join(cmd) + f'   [not completed within {timeout}s]', problems=[])
    if rc != 0:
        problems.append(f'coqchk failed on {mod}: {out[-400:]}')
        return dict(ok=False, axioms=[], cmd=' '.join(cmd), problems=problems)
    m = re.search(r'\* Axioms:(.*?)\n\s*\n\s*\*', out, re.S)
    text = m.group(1).strip() if m else ''
    axioms = [] if text in ('', '<none>') else [a.strip() for a in text.splitlines() if a.strip()]
    bad = [a for a in axioms if not any(re.fullmatch(p, a) or re.fullmatch(p, a.split('.')[-1]) or
                                        re.search(p, a) for p in allowed_axioms)]
    for sect in ('type-in-type', 'unsafe (co)fixpoints', 'positivity is assumed'):
        mm = re.search(re.escape(sect) + r':(.*?)\n\s*\n', out + '\n\n', re.S)
        if mm and mm.group(1).strip() not in ('', '<none>'):
            problems.append(f'coqchk: {sect}: {mm.group(1).strip()[:200]}')
    if bad:
        problems.append(f'coqchk reports non-whitelisted axioms for {mod}: {bad[:6]}')
    return dict(ok=not problems, axioms=axioms, cmd=' '.join(cmd), problems=problems)


def coq_eval(cluster, body, work, name='eval', timeout=600):
    """Compile a scratch file against the cluster; returns (rc, stdout)."""
    os.makedirs(work, exist_ok=True)
    path = os.path.join(work, name + '.v')
    with open(path, 'w') as f:
        f.write(body)
    cmd = ['coqc'] + coq_flags(cluster) + ['-Q', work, 'Scratch', path]
    return run(cmd, cwd=work, timeout=timeout)


# ---------------------------------------------------------------------------------------------
# S-expressions exchanged between the harness and the model (Lib/Sx.v)

def sx(obj):
    """Python value -> Coq term of type sx.  int -> Z, bytes -> H "hex", str -> S "..", list/tuple -> L [...],
    None -> L [], bool -> Z 0/1."""
    if obj is None:
        return 'SxNone'
    if obj is True:
        return '(SxZ 1)'
    if obj is False:
        return '(SxZ 0)'
    if isinstance(obj, int):
        return f'(SxZ ({obj}))' if obj < 0 else f'(SxZ {obj})'
    if isinstance(obj, (bytes, bytearray)):
        return f'(SxH "{bytes(obj).hex()}")'
    if isinstance(obj, str):
        assert '"' not in obj and all(32 <= ord(c) < 127 for c in obj), obj
        return f'(SxS "{obj}")'
    if isinstance(obj, (list, tuple)):
        return '(SxL [' + '; '.join(sx(x) for x in obj) + '])'
    raise TypeError(type(obj))


def run_cases(ctx, cluster, requires, fn, cases, shard=300, name='cases', timeout=900):
    """cases: list of (input_obj, expected_obj).  fn : sx -> sx is a Gallina function of the cluster.
    Evaluates `sx_eqb (fn input) expected` for every case inside Coq (vm_compute) and returns the list of
    (index, model_output_text) that differ.  One coqc per shard, run in parallel."""
    if not cases:
        return []
    work = os.path.join(ctx.work, name)
    os.makedirs(work, exist_ok=True)
    sxlib = 'From VLib Require Import Sx.\n'
    jobs = []
    for k in range(0, len(cases), shard):
        chunk = cases[k:k + shard]
        lines = [sxlib, requires, 'Require Import List String ZArith. Import ListNotations.',
                 'Open Scope string_scope. Open Scope Z_scope.',
                 'Definition cases : list (sx * sx) := [']
        lines.append(';\n'.join(f'  ({sx(i)}, {sx(e)})' for i, e in chunk))
        lines.append('].')
        lines.append(f'Definition bad := sx_mismatches (fun x => {fn} x) cases.')
        lines.append('Eval vm_compute in bad.')
        path = os.path.join(work, f'{name}_{k // shard}.v')
        with open(path, 'w') as f:
            f.write('\n'.join(lines) + '\n')
        jobs.append((k, path))
    flags = coq_flags(cluster)
    procs = []
    results = []
    it = iter(jobs)
    running = []

    def start(job):
        k, path = job
        p = subprocess.Popen(['timeout', str(timeout), 'coqc'] + flags + ['-Q', work, 'Scratch', path], cwd=work,
                             stdout=subprocess.PIPE, stderr=subprocess.STDOUT, text=True)
        running.append((k, path, p))
    for job in it:
        start(job)
        if len(running) >= NPROC:
            k, path, p = running.pop(0)
            results.append((k, path, p.wait(), p.stdout.read()))
    for k, path, p in running:
        results.append((k, path, p.wait(), p.stdout.read()))
    bad = []
    for k, path, rc, out in results:
        if rc != 0:
            raise RuntimeError(f'model evaluation failed ({path}):\n{out[-2000:]}')
        m = re.search(r'=\s*(\[.*?\])\s*:\s*list nat', out, re.S)
        if not m:
            raise RuntimeError(f'cannot parse model output ({path}):\n{out[-2000:]}')
        idxs = [int(x) for x in re.findall(r'\d+', m.group(1))]
        for i in idxs:
            bad.append(k + i)
    # fetch the model outputs of (at most 5) mismatching cases for the replay
    detail = []
    for gi in sorted(bad)[:5]:
        i, e = cases[gi]
        body = '\n'.join([sxlib, requires, 'Require Import List String ZArith. Import ListNotations.',
                          'Open Scope string_scope. Open Scope Z_scope.',
                          f'Eval vm_compute in ({fn} {sx(i)}).'])
        rc, out = coq_eval(cluster, body, work, name=f'detail_{gi}')
        detail.append((gi, out.strip()[-3000:]))
    ctx.disagreements_checked += len(cases)
    return [(gi, dict(detail).get(gi, '')) for gi in sorted(bad)]


# ---------------------------------------------------------------------------------------------
# Known findings, verdict, evidence

def load_known():
    p = os.path.join(VERIF, 'known_findings.json')
    if not os.path.exists(p):
        return []
    return json.load(open(p)).get('findings', [])


def write_replay(ctx, failures, found):
    os.makedirs(os.path.join(VERIF, 'replays'), exist_ok=True)
    n = 0
    while os.path.exists(os.path.join(VERIF, 'replays', f'{ctx.pid}-{n}.json')):
        n += 1
    path = os.path.join(VERIF, 'replays', f'{ctx.pid}-{n}.json')
    obj = {
        'property': ctx.pid, 'tier': ctx.tier, 'seed': ctx.seed,
        'failing_input_found': found,
        'failures': [{'kind': f.kind, 'signature': f.signature, 'detail': f.detail, 'replay': f.replay}
                     for f in failures[:20]],
    }
    with open(path, 'w') as f:
        json.dump(obj, f, indent=1, default=str)
    return path


def write_evidence(ctx, check, audit, violations, extra_trusted=()):
    cov = dict(ctx.cov)
    cov.update({
        'obligations': audit.get('obligations', 0) if audit else 0,
        'discharged': audit.get('discharged', 0) if audit else 0,
        'checker_cmd': (audit.get('cmd') if audit else '') or 'make -f Makefile.coq (coq 8.16.1)',
        'theorems': audit.get('theorems', []) if audit else [],
        'axioms_reported_by_Print_Assumptions': audit.get('axioms', []) if audit else [],
        'coqchk': (audit.get('coqchk') if audit else None) or 'thorough tier only',
        'trusted_base': list(check.trusted_base) + list(extra_trusted),
        'evaluations': ctx.evaluations,
        'distinct_nontrivial': len(ctx.nontrivial),
        'rule': check.rule,
        'samples': ctx.samples if ctx.samples else ['(no case executed: the run stopped before generation)'],
        'disagreements_checked': ctx.disagreements_checked,
        'input_distribution': ctx.hist,
        'timings_s': ctx.timings,
        'notes': ctx.notes,
    })
    ev = {
        'property_id': ctx.pid, 'tier': ctx.tier, 'seed': ctx.seed, 'level': 'proof',
        'coverage': cov,
        'assumptions': list(check.assumptions),
        'wall_s': round(time.time() - ctx.t0, 2),
        'violations': violations,
    }
    os.makedirs(os.path.join(VERIF, 'evidence'), exist_ok=True)
    with open(os.path.join(VERIF, 'evidence', f'{ctx.pid}.json'), 'w') as f:
        json.dump(ev, f, indent=1, default=str)


class Check:
    """Description of one property's check.  Functions get the Ctx; see module docstring."""

    def __init__(self, pid, cluster, props, translate=None, correspond=None, oracle=None, replay=None,
                 allowed_axioms=(), trusted_base=(), assumptions=(), rule='', deps=(), build_timeout=1500,
                 regressions=None):
        self.pid = pid
        self.cluster = cluster
        self.props = props              # e.g. 'Props/C12.v' (relative to the cluster) or a list of them
        self.translate = translate      # ctx -> None, raises TranslateError
        self.correspond = correspond    # ctx -> [Failure(kind='correspondence')]
        self.oracle = oracle            # (ctx, deep: bool) -> [Failure(kind='property')]
        self.replay = replay            # (ctx, replay_obj) -> [Failure]
        self.allowed_axioms = allowed_axioms
        self.trusted_base = trusted_base
        self.assumptions = assumptions
        self.rule = rule
        self.deps = deps                # clusters to build first (e.g. 'lib')
        self.build_timeout = build_timeout
        self.regressions = regressions  # ctx -> [Failure]: replays of fixed findings (must stay fixed)


def main_run(check, tier, seed, replay_file=None):
    ctx = Ctx(check.pid, tier, seed)
    audit = None
    broken = []      # broken ties / proofs (Failure kind proof/translate/correspondence)
    failures = []    # property failures on the real code
    try:
        if replay_file:
            obj = json.load(open(replay_file))
            for fr in obj.get('failures', []):
                if check.replay:
                    failures += check.replay(ctx, fr['replay']) or []
            return finish(ctx, check, audit, broken, failures)
        # 1 translate
        if check.translate:
            with ctx.timed('translate'):
                try:
                    check.translate(ctx)
                except TranslateError as ex:
                    broken.append(Failure('translate', 'translator:fail-closed', str(ex), {'translator': str(ex)}))
                except Exception as ex:
                    broken.append(Failure('translate', 'translator:crash', traceback.format_exc()[-1500:],
                                          {'translator': str(ex)}))
        # 2 build + audit
        if not broken:
            with ctx.timed('build'):
                ok, log = coq_build(check.cluster, None, check.build_timeout, deps=check.deps)
            if not ok:
                err = extract_coq_error(log)
                broken.append(Failure('proof', 'proof:build', err, {'broken_obligation': err}))
            else:
                with ctx.timed('audit'):
                    bad = []
                    for c in list(check.deps) + [check.cluster]:
                        bad += hygiene(c)
                    props = check.props if isinstance(check.props, (list, tuple)) else [check.props]
                    audit = None
                    for pr in props:
                        # a props file of another cluster is written (cluster, file)
                        pcl, pfile = pr if isinstance(pr, (tuple, list)) else (check.cluster, pr)
                        a = audit_props(pcl, pfile, check.allowed_axioms)
                        if audit is None:
                            audit = a
                        else:
                            for k in ('obligations', 'discharged'):
                                audit[k] += a[k]
                            for k in ('theorems', 'axioms', 'problems'):
                                audit[k] += a[k]
                            audit['cmd'] += ' ; ' + a['cmd']
                    for b in bad:
                        audit['problems'].append('hygiene: ' + b)
                    if not ctx.quick() and not audit['problems']:
                        with ctx.timed('coqchk'):
                            from concurrent.futures import ThreadPoolExecutor
                            with ThreadPoolExecutor(max_workers=4) as pool:
                                chk = list(pool.map(
                                    lambda pr: coqchk_props(*((pr[0], pr[1]) if isinstance(pr, (tuple, list))
                                                              else (check.cluster, pr)), check.allowed_axioms), props))
                        audit['coqchk'] = [{'cmd': c['cmd'], 'axioms': c['axioms']} for c in chk]
                        for c in chk:
                            audit['problems'] += c['problems']
                    if audit['problems'] or audit['discharged'] != audit['obligations'] or audit['obligations'] == 0:
                        if bad:
                            audit['discharged'] = 0
                        broken.append(Failure('proof', 'proof:audit', '; '.join(audit['problems']) or 'no theorem',
                                              {'broken_obligation': audit['problems']}))
        # 3 correspondence (only meaningful when the model built)
        if not broken and check.correspond:
            with ctx.timed('correspondence'):
                try:
                    broken += check.correspond(ctx) or []
                except Exception:
                    broken.append(Failure('correspondence', 'correspondence:crash', traceback.format_exc()[-3000:],
                                          {'harness': 'crashed'}))
        # regressions of fixed findings + 4 oracle on the real code (deeper when something broke)
        if check.regressions:
            with ctx.timed('regressions'):
                failures += check.regressions(ctx) or []
        if check.oracle:
            with ctx.timed('oracle'):
                try:
                    failures += check.oracle(ctx, bool(broken) or not ctx.quick()) or []
                except Exception:
                    broken.append(Failure('correspondence', 'oracle:crash', traceback.format_exc()[-3000:],
                                          {'harness': 'oracle crashed'}))
    except Exception:
        broken.append(Failure('proof', 'check:crash', traceback.format_exc()[-3000:], {'check': 'crashed'}))
    return finish(ctx, check, audit, broken, failures)


def extract_coq_error(log):
    m = re.search(r'(File "[^"]+", line \d+, characters [\d-]+:\s*\n(?:.*\n?){1,12})', log)
    if m and 'Error' in log:
        idx = log.find('Error')
        start = log.rfind('File "', 0, idx)
        return log[start if start >= 0 else max(0, idx - 300): idx + 900]
    return log[-1500:]


def finish(ctx, check, audit, broken, failures):
    known = [k for k in load_known() if k.get('property') == ctx.pid and k.get('status') == 'known']
    new_failures = []
    for f in failures:
        k = next((k for k in known if k.get('signature') == f.signature), None)
        if k is not None:
            k['_seen'] = True
        else:
            new_failures.append(f)
    for k in known:
        if k.get('_seen'):
            print(f"KNOWN-FINDING: property={ctx.pid} {k.get('what', k.get('signature'))}")
    violations = 0
    rc = 0
    if new_failures:
        # a concrete failing input on the real code
        path = write_replay(ctx, new_failures + broken, True)
        violations = len(new_failures)
        for f in new_failures[:3]:
            print(f'  failing input [{f.signature}]: {f.detail[:400]}')
        print(f'VIOLATION property={ctx.pid} replay={path}')
        rc = 1
    elif broken:
        path = write_replay(ctx, broken, False)
        violations = len(broken)
        for f in broken[:3]:
            print(f'  broken tie/proof [{f.kind}:{f.signature}]: {f.detail[:1200]}')
        print(f'VIOLATION property={ctx.pid} replay={path} no-failing-input-found')
        rc = 1
    write_evidence(ctx, check, audit, violations)
    if rc == 0:
        a = audit or {}
        print(f"OK property={ctx.pid} tier={ctx.tier} seed={ctx.seed} theorems={a.get('discharged')}/"
              f"{a.get('obligations')} cases={ctx.evaluations} nontrivial={len(ctx.nontrivial)} "
              f"wall={round(time.time() - ctx.t0, 1)}s")
    shutil.rmtree(ctx.work, ignore_errors=True)
    return rc
