"""C11 - algorithm negotiation never selects anything outside both offers."""
import ast
import contextlib
import itertools
import os

from vlib import core, pyast
from vlib.core import Failure, TranslateError

CLUSTER = 'nego'


# =============================================================================================
# tie 1: translator  /repo/message.py, /repo/ikesa.py -> coq/nego/Gen/NegoFacts.v

def _same(src, node, want, what):
    """Fail closed unless `node` is structurally the statement/expression `want` (source text)."""
    w = ast.parse(want).body[0]
    if isinstance(w, ast.Expr) and not isinstance(node, ast.Expr):
        w = w.value
    if node is None or ast.dump(node) != ast.dump(w):
        seg = src.segment(node) if node is not None else '<missing>'
        raise TranslateError(f'{os.path.basename(src.path)}:{getattr(node, "lineno", "?")}: {what}: expected '
                             f'`{want}`, found `{seg}`')


def _body(fn):
    return [s for s in fn.body if not (isinstance(s, ast.Expr) and isinstance(s.value, ast.Constant))]


def _find(src, stmts, pred, what, where):
    hits = [i for i, s in enumerate(stmts) if pred(s)]
    if len(hits) != 1:
        src.fail(where, f'expected exactly one `{what}`, found {len(hits)}')
    return hits[0]


def _raises(stmts, exc):
    return (len(stmts) == 1 and isinstance(stmts[0], ast.Raise) and isinstance(stmts[0].exc, ast.Call)
            and pyast.dotted_name(stmts[0].exc.func) == exc)


def translate(ctx):
    src = pyast.Src(os.path.join(core.REPO, 'message.py'))
    isrc = pyast.Src(os.path.join(core.REPO, 'ikesa.py'))
    ttypes = dict(src.enum('Transform.Type'))
    protos = dict(src.enum('Proposal.Protocol'))
    notifies = dict(src.enum('PayloadNOTIFY.Type'))
    for k in ('ENCR', 'PRF', 'INTEG', 'DH', 'ESN'):
        if k not in ttypes:
            src.fail(src.cls('Transform.Type'), f'Transform.Type.{k} missing')
    if len(set(ttypes.values())) != len(ttypes):
        src.fail(src.cls('Transform.Type'), 'Transform.Type values are not distinct')
    env0 = {f'Transform.Type.{k}': str(v) for k, v in ttypes.items()}
    env0.update({f'Proposal.Protocol.{k}': str(v) for k, v in protos.items()})

    # ---- Transform.__hash__ / __eq__ / __init__ ----------------------------------------------
    fields = {'self.type': 't_type', 'self.id': 't_id', 'self.keylen': 't_keylen'}
    hf = _body(src.func('Transform.__hash__'))
    ok = (len(hf) == 1 and isinstance(hf[0], ast.Return) and isinstance(hf[0].value, ast.Call)
          and pyast.dotted_name(hf[0].value.func) == 'hash' and len(hf[0].value.args) == 1
          and isinstance(hf[0].value.args[0], ast.Tuple))
    if not ok:
        src.fail(src.func('Transform.__hash__'), 'Transform.__hash__ is no longer hash((fields...))')
    hashed = [pyast.dotted_name(e) for e in hf[0].value.args[0].elts]
    if any(h not in fields for h in hashed) or len(set(hashed)) != len(hashed):
        src.fail(hf[0], 'Transform.__hash__ hashes something else than type/id/keylen')
    _same(src, _body(src.func('Transform.__eq__'))[0], 'return hash(self) == hash(other)', 'Transform.__eq__')
    init = _body(src.func('Transform.__init__'))
    if [a.arg for a in src.func('Transform.__init__').args.args] != ['self', 'type', 'id', 'keylen']:
        src.fail(src.func('Transform.__init__'), 'Transform.__init__ signature changed')
    _same(src, init[0], 'self.type = self.Type(type)', 'Transform.__init__')
    _same(src, init[1], 'self.id = self._transform_id_enums.get(type, self.EncrId)(id)', 'Transform.__init__')
    _same(src, init[2], 'self.keylen = keylen', 'Transform.__init__')
    cmp_of = {'t_type': '(Z.eqb (t_type a) (t_type b))', 't_id': '(Z.eqb (t_id a) (t_id b))',
              't_keylen': '(optZ_eqb (t_keylen a) (t_keylen b))'}
    parts = [cmp_of[fields[h]] for h in hashed]
    transform_eq = parts[-1] if parts else 'true'
    for p in reversed(parts[:-1]):
        transform_eq = f'(andb {p} {transform_eq})'

    # ---- Proposal.__init__ (empty transform list refused), get_transform(s) -------------------
    pinit = _body(src.func('Proposal.__init__'))
    if [a.arg for a in src.func('Proposal.__init__').args.args] != ['self', 'num', 'protocol_id', 'spi', 'transforms']:
        src.fail(src.func('Proposal.__init__'), 'Proposal.__init__ signature changed')
    for st, want in zip(pinit, ('self.num = num', 'self.protocol_id = self.Protocol(protocol_id)', 'self.spi = spi',
                                'self.transforms = transforms')):
        _same(src, st, want, 'Proposal.__init__')
    if not (len(pinit) == 5 and isinstance(pinit[4], ast.If) and _raises(pinit[4].body, 'InvalidSyntax')
            and ast.dump(pinit[4].test) == ast.dump(ast.parse('len(self.transforms) == 0').body[0].value)):
        src.fail(src.func('Proposal.__init__'), 'Proposal.__init__: empty transform list check changed')
    _same(src, _body(src.func('Proposal.get_transform'))[0], 'return next(x for x in self.transforms if x.type == type)',
          'Proposal.get_transform')
    _same(src, _body(src.func('Proposal.get_transforms'))[0], 'return [x for x in self.transforms if x.type == type]',
          'Proposal.get_transforms')

    # ---- Proposal.intersection ----------------------------------------------------------------
    fn = src.func('Proposal.intersection')
    if [a.arg for a in fn.args.args] != ['self', 'other']:
        src.fail(fn, 'intersection signature changed')
    b = _body(fn)
    if not (len(b) == 2 and isinstance(b[0], ast.If) and not b[0].orelse and isinstance(b[1], ast.Return)
            and isinstance(b[1].value, ast.Constant) and b[1].value.value is None):
        src.fail(fn, 'intersection is no longer `if <guard>: ...` followed by `return None`')
    penv = dict(env0)
    penv.update({'self.protocol_id': '(p_proto self)', 'other.protocol_id': '(p_proto other)'})
    guard, ty = pyast.expr_to_gallina(src, b[0].test, penv)
    if ty != 'bool':
        src.fail(b[0], 'intersection guard is not boolean')
    g = b[0].body
    if len(g) != 3:
        src.fail(b[0], 'intersection body is no longer: selected = {}; for ..; if ..: return Proposal(..)')
    _same(src, g[0], 'selected = {}', 'intersection')
    lists = {'self.transforms': '(p_transforms self)', 'other.transforms': '(p_transforms other)'}
    lo = g[1]
    if not (isinstance(lo, ast.For) and not lo.orelse and len(lo.body) == 1 and isinstance(lo.body[0], ast.For)
            and not lo.body[0].orelse and pyast.dotted_name(lo.iter) in lists
            and pyast.dotted_name(lo.body[0].iter) in lists and isinstance(lo.target, ast.Name)
            and isinstance(lo.body[0].target, ast.Name) and lo.target.id != lo.body[0].target.id):
        src.fail(lo, 'intersection: nested loop over the two transform lists changed')
    li = lo.body[0]
    outer_var, inner_var = lo.target.id, li.target.id
    if {outer_var, inner_var} != {'my_transform', 'peer_transform'}:
        src.fail(lo, 'intersection: loop variables renamed')
    if not (len(li.body) == 1 and isinstance(li.body[0], ast.If) and not li.body[0].orelse
            and len(li.body[0].body) == 1):
        src.fail(li, 'intersection: inner loop body changed')
    cond_node, asg = li.body[0].test, li.body[0].body[0]

    def sel_cond(n):
        if isinstance(n, ast.BoolOp):
            op = 'andb' if isinstance(n.op, ast.And) else 'orb'
            ps = [sel_cond(v) for v in n.values]
            t = ps[-1]
            for p in reversed(ps[:-1]):
                t = f'({op} {p} {t})'
            return t
        if isinstance(n, ast.UnaryOp) and isinstance(n.op, ast.Not):
            return f'(negb {sel_cond(n.operand)})'
        if isinstance(n, ast.Compare) and len(n.ops) == 1:
            l, r, op = n.left, n.comparators[0], n.ops[0]
            ln, rn = pyast.dotted_name(l), pyast.dotted_name(r)
            tv = ('my_transform', 'peer_transform')
            if isinstance(op, (ast.Eq, ast.NotEq)) and ln in tv and rn in tv:
                t = f'(transform_eq {ln} {rn})'
                return t if isinstance(op, ast.Eq) else f'(negb {t})'
            if isinstance(op, (ast.In, ast.NotIn)) and rn == 'selected' and ln in ('my_transform.type', 'peer_transform.type'):
                t = f'(dict_has selected (t_type {ln.split(".")[0]}))'
                return t if isinstance(op, ast.In) else f'(negb {t})'
        src.fail(n, f'intersection: selection condition outside the subset: {src.segment(n)}')
    cond = sel_cond(cond_node)
    if not (isinstance(asg, ast.Assign) and len(asg.targets) == 1 and isinstance(asg.targets[0], ast.Subscript)
            and pyast.dotted_name(asg.targets[0].value) == 'selected'
            and pyast.dotted_name(asg.targets[0].slice) in ('my_transform.type', 'peer_transform.type')
            and pyast.dotted_name(asg.value) in ('my_transform', 'peer_transform')):
        src.fail(asg, 'intersection: selected[...] = ... outside the subset')
    key = f'(t_type {pyast.dotted_name(asg.targets[0].slice).split(".")[0]})'
    val = pyast.dotted_name(asg.value)
    succ = g[2]
    if not (isinstance(succ, ast.If) and not succ.orelse and len(succ.body) == 1 and isinstance(succ.body[0], ast.Return)):
        src.fail(succ, 'intersection: success test changed')

    def set_of(n):
        if isinstance(n, ast.Call) and pyast.dotted_name(n.func) == 'set' and len(n.args) == 1:
            a = n.args[0]
            if pyast.dotted_name(a) == 'selected':
                return '(dict_keys selected)'
            if isinstance(a, ast.GeneratorExp) and pyast.dotted_name(a.elt) == 'x.type' and len(a.generators) == 1 \
                    and pyast.dotted_name(a.generators[0].target) == 'x' and not a.generators[0].ifs \
                    and pyast.dotted_name(a.generators[0].iter) in lists:
                return f'(map t_type {lists[pyast.dotted_name(a.generators[0].iter)]})'
        src.fail(n, 'intersection: success test operand outside the subset')
    t = succ.test
    if not (isinstance(t, ast.Compare) and len(t.ops) == 1 and isinstance(t.ops[0], ast.Eq)):
        src.fail(t, 'intersection: success test is no longer set == set')
    success = f'(setZ_eqb {set_of(t.left)} {set_of(t.comparators[0])})'
    rc = succ.body[0].value
    if not (isinstance(rc, ast.Call) and pyast.dotted_name(rc.func) == 'Proposal' and len(rc.args) == 4 and not rc.keywords):
        src.fail(rc, 'intersection: result constructor changed')
    pf = {'self.num': '(p_num self)', 'other.num': '(p_num other)', 'self.protocol_id': '(p_proto self)',
          'other.protocol_id': '(p_proto other)', 'self.spi': '(p_spi self)', 'other.spi': '(p_spi other)'}
    args = [pyast.dotted_name(a) for a in rc.args[:3]]
    if any(a not in pf for a in args) or not args[0].endswith('.num') or not args[1].endswith('.protocol_id') \
            or not args[2].endswith('.spi'):
        src.fail(rc, 'intersection: Proposal(num, protocol_id, spi, ...) arguments outside the subset')
    _same(src, rc.args[3], 'list(selected.values())', 'intersection: transforms of the result')

    # ---- Proposal.__eq__ / is_subset / copy_without_dh_transforms ------------------------------
    eqf = _body(src.func('Proposal.__eq__'))
    ev = eqf[0].value if len(eqf) == 1 and isinstance(eqf[0], ast.Return) else None
    if not (isinstance(ev, ast.Compare) and len(ev.ops) == 1 and isinstance(ev.ops[0], ast.Eq)
            and isinstance(ev.left, ast.Tuple) and isinstance(ev.comparators[0], ast.Tuple)
            and len(ev.left.elts) == len(ev.comparators[0].elts)):
        src.fail(src.func('Proposal.__eq__'), 'Proposal.__eq__ is no longer a comparison of two tuples')

    def eq_elem(x, y):
        dx, dy = pyast.dotted_name(x), pyast.dotted_name(y)
        if dx in ('self.protocol_id', 'other.protocol_id') and dy in ('self.protocol_id', 'other.protocol_id'):
            return f'(Z.eqb (p_proto {dx.split(".")[0]}) (p_proto {dy.split(".")[0]}))'
        if all(isinstance(n, ast.Call) and pyast.dotted_name(n.func) == 'set' and len(n.args) == 1
               and pyast.dotted_name(n.args[0]) in lists for n in (x, y)):
            return f'(tset_eqb {lists[pyast.dotted_name(x.args[0])]} {lists[pyast.dotted_name(y.args[0])]})'
        src.fail(x, 'Proposal.__eq__: tuple element outside the subset')
    eparts = [eq_elem(x, y) for x, y in zip(ev.left.elts, ev.comparators[0].elts)]
    proposal_eq = eparts[-1]
    for p in reversed(eparts[:-1]):
        proposal_eq = f'(andb {p} {proposal_eq})'

    sub = _body(src.func('Proposal.is_subset'))
    so = {'self': 'self', 'other': 'other'}
    ok = (len(sub) == 2 and isinstance(sub[0], ast.Assign) and pyast.dotted_name(sub[0].targets[0]) == 'intersection'
          and isinstance(sub[0].value, ast.Call) and isinstance(sub[0].value.func, ast.Attribute)
          and sub[0].value.func.attr == 'intersection' and pyast.dotted_name(sub[0].value.func.value) in so
          and len(sub[0].value.args) == 1 and pyast.dotted_name(sub[0].value.args[0]) in so
          and isinstance(sub[1], ast.Return) and isinstance(sub[1].value, ast.BoolOp)
          and isinstance(sub[1].value.op, ast.And) and len(sub[1].value.values) == 2)
    if not ok:
        src.fail(src.func('Proposal.is_subset'), 'Proposal.is_subset shape changed')
    _same(src, sub[1].value.values[0], 'intersection is not None', 'Proposal.is_subset')
    c2 = sub[1].value.values[1]
    if not (isinstance(c2, ast.Compare) and len(c2.ops) == 1 and isinstance(c2.ops[0], ast.Eq)
            and pyast.dotted_name(c2.left) == 'intersection' and pyast.dotted_name(c2.comparators[0]) in so):
        src.fail(c2, 'Proposal.is_subset: comparison changed')
    sub_a = pyast.dotted_name(sub[0].value.func.value)
    sub_b = pyast.dotted_name(sub[0].value.args[0])
    sub_c = pyast.dotted_name(c2.comparators[0])

    cw = _body(src.func('Proposal.copy_without_dh_transforms'))
    cv = cw[0].value if len(cw) == 1 and isinstance(cw[0], ast.Return) else None
    if not (isinstance(cv, ast.Call) and pyast.dotted_name(cv.func) == 'Proposal' and len(cv.args) == 4
            and [pyast.dotted_name(a) for a in cv.args[:3]] == ['self.num', 'self.protocol_id', 'self.spi']
            and isinstance(cv.args[3], ast.ListComp) and pyast.dotted_name(cv.args[3].elt) == 'x'
            and len(cv.args[3].generators) == 1 and pyast.dotted_name(cv.args[3].generators[0].iter) == 'self.transforms'
            and len(cv.args[3].generators[0].ifs) == 1):
        src.fail(src.func('Proposal.copy_without_dh_transforms'), 'copy_without_dh_transforms shape changed')
    xenv = dict(env0)
    xenv.update({'x.type': '(t_type x)', 'x.id': '(t_id x)'})
    nodh, ty = pyast.expr_to_gallina(src, cv.args[3].generators[0].ifs[0], xenv)
    if ty != 'bool':
        src.fail(cv, 'copy_without_dh_transforms: filter is not boolean')

    # ---- IkeSa._select_best_sa_proposal ----------------------------------------------------------
    sb = isrc.func('IkeSa._select_best_sa_proposal')
    if [a.arg for a in sb.args.args] != ['self', 'my_proposal', 'peer_payload_sa']:
        isrc.fail(sb, '_select_best_sa_proposal signature changed')
    sbb = _body(sb)
    ok = (len(sbb) == 2 and isinstance(sbb[0], ast.For) and not sbb[0].orelse
          and pyast.dotted_name(sbb[0].target) == 'peer_proposal'
          and pyast.dotted_name(sbb[0].iter) == 'peer_payload_sa.proposals' and len(sbb[0].body) == 2
          and _raises([sbb[1]], 'NoProposalChosen'))
    if not ok:
        isrc.fail(sb, '_select_best_sa_proposal is no longer `for peer_proposal in ...: ...; raise NoProposalChosen`')
    call = sbb[0].body[0]
    pp = {'my_proposal': 'my_proposal', 'peer_proposal': 'peer_proposal'}
    if not (isinstance(call, ast.Assign) and pyast.dotted_name(call.targets[0]) == 'intersection'
            and isinstance(call.value, ast.Call) and isinstance(call.value.func, ast.Attribute)
            and call.value.func.attr == 'intersection' and pyast.dotted_name(call.value.func.value) in pp
            and len(call.value.args) == 1 and pyast.dotted_name(call.value.args[0]) in pp):
        isrc.fail(call, '_select_best_sa_proposal: intersection call changed')
    sel_a, sel_b = pyast.dotted_name(call.value.func.value), pyast.dotted_name(call.value.args[0])
    _same(isrc, sbb[0].body[1], 'if intersection is not None:\n    return intersection', '_select_best_sa_proposal')

    # ---- responder, IKE_SA: _process_ike_sa_negotiation_request -----------------------------------
    f1 = isrc.func('IkeSa._process_ike_sa_negotiation_request')
    s1 = _body(f1)
    i_sel = _find(isrc, s1, lambda s: '_select_best_sa_proposal' in isrc.segment(s), 'proposal selection', f1)
    _same(isrc, s1[i_sel], 'self.chosen_proposal = self._select_best_sa_proposal(self.configuration.proposal, payload_sa)',
          'IKE responder: selection')
    i_grp = _find(isrc, s1, lambda s: isinstance(s, ast.Assign) and pyast.dotted_name(s.targets[0]) == 'my_dh_group',
                  'my_dh_group = ...', f1)
    _same(isrc, s1[i_grp], 'my_dh_group = self.chosen_proposal.get_transform(Transform.Type.DH).id', 'IKE responder: group')
    i_chk = _find(isrc, s1, lambda s: isinstance(s, ast.If) and 'my_dh_group' in isrc.segment(s.test), 'KE group check', f1)
    ke1, ty = pyast.expr_to_gallina(isrc, s1[i_chk].test, {'my_dh_group': 'my_dh_group', 'payload_ke.dh_group': 'ke_group'})
    if ty != 'bool' or not _raises(s1[i_chk].body, 'InvalidKePayload') or s1[i_chk].orelse or \
            [(k.arg, pyast.dotted_name(k.value)) for k in s1[i_chk].body[0].exc.keywords] != [('group', 'my_dh_group')]:
        isrc.fail(s1[i_chk], 'IKE responder: KE group check no longer raises InvalidKePayload(group=my_dh_group)')
    dh_use = [i for i, s in enumerate(s1) if 'DiffieHellman' in isrc.segment(s) or 'compute_secret' in isrc.segment(s)
              or 'generate_ike_sa_key_material' in isrc.segment(s)]
    if not dh_use or not (i_sel < i_grp < i_chk < min(dh_use)):
        isrc.fail(f1, 'IKE responder: order of selection / KE group check / DH computation changed')
    _same(isrc, s1[-1], 'return [response_payload_sa, response_payload_nonce, response_payload_ke]', 'IKE responder: reply')
    i_rsa = _find(isrc, s1, lambda s: isinstance(s, ast.Assign) and pyast.dotted_name(s.targets[0]) == 'response_payload_sa',
                  'response_payload_sa = ...', f1)
    _same(isrc, s1[i_rsa], 'response_payload_sa = PayloadSA([self.chosen_proposal])', 'IKE responder: reply SA')

    # ---- responder, CHILD_SA: _process_create_child_sa_negotiation_req ----------------------------
    f2 = isrc.func('IkeSa._process_create_child_sa_negotiation_req')
    tr = next((s for s in f2.body if isinstance(s, ast.Try)), None)
    if tr is None:
        isrc.fail(f2, 'CHILD responder: try block not found')
    s2 = tr.body
    j_my = _find(isrc, s2, lambda s: isinstance(s, ast.Assign) and pyast.dotted_name(s.targets[0]) == 'my_proposal',
                 'my_proposal = ...', f2)
    _same(isrc, s2[j_my], 'my_proposal = (ipsec_conf.proposal.copy_without_dh_transforms() if request.exchange_type == '
          'Message.Exchange.IKE_AUTH else ipsec_conf.proposal)', 'CHILD responder: own proposal')
    j_sel = _find(isrc, s2, lambda s: '_select_best_sa_proposal' in isrc.segment(s), 'proposal selection', f2)
    _same(isrc, s2[j_sel], 'chosen_child_proposal = self._select_best_sa_proposal(my_proposal, request_payload_sa)',
          'CHILD responder: selection')
    j_dh = _find(isrc, s2, lambda s: isinstance(s, ast.If) and 'get_transforms(Transform.Type.DH)' in isrc.segment(s.test),
                 'if chosen_child_proposal.get_transforms(DH):', f2)
    _same(isrc, s2[j_dh].test, 'chosen_child_proposal.get_transforms(Transform.Type.DH)', 'CHILD responder: DH test')
    d = s2[j_dh].body
    _same(isrc, d[0], 'request_payload_ke = request.get_payload(Payload.Type.KE, True)', 'CHILD responder: KE payload')
    _same(isrc, d[1], 'my_dh_group = chosen_child_proposal.get_transform(Transform.Type.DH).id', 'CHILD responder: group')
    ke2, ty = pyast.expr_to_gallina(isrc, d[2].test if isinstance(d[2], ast.If) else d[2],
                                    {'my_dh_group': 'my_dh_group', 'request_payload_ke.dh_group': 'ke_group'})
    if ty != 'bool' or not _raises(d[2].body, 'InvalidKePayload') or d[2].orelse or \
            [(k.arg, pyast.dotted_name(k.value)) for k in d[2].body[0].exc.keywords] != [('group', 'my_dh_group')]:
        isrc.fail(d[2], 'CHILD responder: KE group check no longer raises InvalidKePayload(group=my_dh_group)')
    if ke1 != ke2:
        isrc.fail(d[2], 'the two KE group checks differ')
    if any('DiffieHellman' in isrc.segment(s) or 'compute_secret' in isrc.segment(s) for s in d[:3]) or \
            not any('DiffieHellman.from_group' in isrc.segment(s) for s in d[3:]):
        isrc.fail(s2[j_dh], 'CHILD responder: DH computation no longer after the group check')
    j_inst = _find(isrc, s2, lambda s: isinstance(s, ast.Expr) and 'create_child_sa' in isrc.segment(s), 'create_child_sa', f2)
    j_child = _find(isrc, s2, lambda s: isinstance(s, ast.Assign) and isinstance(s.value, ast.Call)
                    and pyast.dotted_name(s.value.func) == 'ChildSa', 'child_sa = ChildSa(...)', f2)
    kw = {k.arg: pyast.dotted_name(k.value) for k in s2[j_child].value.keywords}
    if kw.get('proposal') != 'chosen_child_proposal' or not (j_my < j_sel < j_dh < j_child < j_inst):
        isrc.fail(f2, 'CHILD responder: order of selection / KE check / installation changed, or another proposal installed')
    for s in s2[:j_dh + 1]:
        seg = isrc.segment(s)
        if 'Xfrm.' in seg or 'child_sas.append' in seg:
            isrc.fail(s, 'CHILD responder: kernel/table update before the proposal and KE checks')
    h = tr.handlers[0] if tr.handlers else None
    hn = [pyast.dotted_name(e) for e in h.type.elts] if h is not None and isinstance(h.type, ast.Tuple) else []
    if 'NoProposalChosen' not in hn or 'InvalidKePayload' not in hn or not isinstance(h.body[-1], ast.Return) \
            or isrc.segment(h.body[-1].value) != '[PayloadNOTIFY.from_exception(ex)]':
        isrc.fail(tr, 'CHILD responder: NoProposalChosen/InvalidKePayload no longer answered with from_exception(ex)')

    # ---- initiator, IKE_SA: process_ike_sa_negotiation_response -----------------------------------
    f3 = isrc.func('IkeSa.process_ike_sa_negotiation_response')
    s3 = _body(f3)
    k_chk = _find(isrc, s3, lambda s: isinstance(s, ast.If) and 'is_subset' in isrc.segment(s.test), 'is_subset check', f3)
    _same(isrc, s3[k_chk], "if not payload_sa.proposals[0].is_subset(self.chosen_proposal):\n"
          "    raise NoProposalChosen('Responder proposal is not a subset of what we sent')", 'IKE initiator: check')
    _same(isrc, s3[k_chk + 1], 'self.chosen_proposal = payload_sa.proposals[0]', 'IKE initiator: adopted proposal')
    if any('compute_secret' in isrc.segment(s) or 'generate_ike_sa_key_material' in isrc.segment(s) for s in s3[:k_chk]):
        isrc.fail(f3, 'IKE initiator: key computation before the proposal check')
    gk = _body(isrc.func('IkeSa.generate_ike_sa_key_material'))
    for st, want in zip(gk[:3], ('prf = Prf(ike_proposal.get_transform(Transform.Type.PRF))',
                                 'integ = Integrity(ike_proposal.get_transform(Transform.Type.INTEG))',
                                 'cipher = Cipher(ike_proposal.get_transform(Transform.Type.ENCR))')):
        _same(isrc, st, want, 'generate_ike_sa_key_material')

    # ---- initiator, CHILD_SA: _process_create_child_sa_negotiation_res ----------------------------
    f4 = isrc.func('IkeSa._process_create_child_sa_negotiation_res')
    s4 = _body(f4)
    m_my = _find(isrc, s4, lambda s: isinstance(s, ast.Assign) and pyast.dotted_name(s.targets[0]) == 'my_proposal',
                 'my_proposal = ...', f4)
    _same(isrc, s4[m_my], 'my_proposal = (self.creating_child_sa.proposal.copy_without_dh_transforms() if '
          'response.exchange_type == Message.Exchange.IKE_AUTH else self.creating_child_sa.proposal)',
          'CHILD initiator: own proposal')
    _same(isrc, s4[m_my + 1], 'chosen_child_proposal = response_payload_sa.proposals[0]', 'CHILD initiator: response proposal')
    ic = s4[m_my + 2]
    vv = {'my_proposal': 'my_proposal', 'chosen_child_proposal': 'chosen_child_proposal'}
    if not (isinstance(ic, ast.Assign) and pyast.dotted_name(ic.targets[0]) == 'intersection'
            and isinstance(ic.value, ast.Call) and isinstance(ic.value.func, ast.Attribute)
            and ic.value.func.attr == 'intersection' and pyast.dotted_name(ic.value.func.value) in vv
            and len(ic.value.args) == 1 and pyast.dotted_name(ic.value.args[0]) in vv):
        isrc.fail(ic, 'CHILD initiator: intersection call changed')
    ci_a, ci_b = pyast.dotted_name(ic.value.func.value), pyast.dotted_name(ic.value.args[0])
    chk = s4[m_my + 3]
    ok = (isinstance(chk, ast.If) and not chk.orelse and _raises(chk.body, 'NoProposalChosen')
          and isinstance(chk.test, ast.BoolOp) and isinstance(chk.test.op, ast.Or) and len(chk.test.values) == 2)
    if not ok:
        isrc.fail(chk, 'CHILD initiator: proposal check changed')
    _same(isrc, chk.test.values[0], 'intersection is None', 'CHILD initiator: proposal check')
    c2 = chk.test.values[1]
    if not (isinstance(c2, ast.Compare) and len(c2.ops) == 1 and isinstance(c2.ops[0], ast.NotEq)
            and pyast.dotted_name(c2.left) == 'intersection' and pyast.dotted_name(c2.comparators[0]) in vv):
        isrc.fail(c2, 'CHILD initiator: comparison changed')
    ci_c = pyast.dotted_name(c2.comparators[0])
    m_rep = _find(isrc, s4, lambda s: isinstance(s, ast.Assign) and '_replace' in isrc.segment(s), '_replace', f4)
    rkw = {k.arg: pyast.dotted_name(k.value) for k in s4[m_rep].value.keywords}
    if rkw.get('proposal') != 'chosen_child_proposal' or not (m_my + 3 < m_rep):
        isrc.fail(s4[m_rep], 'CHILD initiator: installed proposal changed')
    for s in s4[:m_my + 4]:
        seg = isrc.segment(s)
        if 'Xfrm.' in seg or 'child_sas.append' in seg or '_replace' in seg:
            isrc.fail(s, 'CHILD initiator: kernel/table update before the proposal check')

    # ---- initiator: handle_invalid_ke ---------------------------------------------------------------
    f5 = isrc.func('IkeSa.handle_invalid_ke')
    s5 = _body(f5)
    _same(isrc, s5[0], 'invalid_ke = invalid_ke[0]', 'handle_invalid_ke')
    _same(isrc, s5[1], 'encrypted = self.request.exchange_type > Message.Exchange.IKE_SA_INIT', 'handle_invalid_ke')
    _same(isrc, s5[2], 'my_proposal = self.request.get_payload(Payload.Type.SA, encrypted).proposals[0]', 'handle_invalid_ke')
    _same(isrc, s5[3], "suggested_group = unpack('>H', invalid_ke.notification_data)[0]", 'handle_invalid_ke')
    n_chk = _find(isrc, s5, lambda s: isinstance(s, ast.If) and 'suggested_group' in isrc.segment(s.test), 'group check', f5)
    t5 = s5[n_chk].test
    ok = (isinstance(t5, ast.Compare) and len(t5.ops) == 1 and isinstance(t5.ops[0], (ast.NotIn, ast.In))
          and pyast.dotted_name(t5.left) == 'suggested_group' and isinstance(t5.comparators[0], ast.GeneratorExp)
          and len(t5.comparators[0].generators) == 1
          and pyast.dotted_name(t5.comparators[0].generators[0].iter) == 'my_proposal.transforms'
          and pyast.dotted_name(t5.comparators[0].generators[0].target) == 'x'
          and len(t5.comparators[0].generators[0].ifs) == 1
          and pyast.dotted_name(t5.comparators[0].elt) in ('x.id', 'x.type')
          and _raises(s5[n_chk].body, 'NoProposalChosen') and not s5[n_chk].orelse)
    if not ok:
        isrc.fail(s5[n_chk], 'handle_invalid_ke: suggested group check outside the subset')
    gfilter, ty = pyast.expr_to_gallina(isrc, t5.comparators[0].generators[0].ifs[0], xenv)
    gelt = {'x.id': 't_id', 'x.type': 't_type'}[pyast.dotted_name(t5.comparators[0].elt)]
    gtest = f'(memZ suggested_group (map {gelt} (filter (fun x => {gfilter}) (p_transforms my_proposal))))'
    if isinstance(t5.ops[0], ast.NotIn):
        gtest = f'(negb {gtest})'
    if any('DiffieHellman' in isrc.segment(s) or 'generate_request' in isrc.segment(s) for s in s5[:n_chk + 1]) or \
            not any('DiffieHellman.from_group(suggested_group)' in isrc.segment(s) for s in s5[n_chk + 1:]):
        isrc.fail(f5, 'handle_invalid_ke: retry no longer after the group check')

    # ---- PayloadNOTIFY.from_exception -----------------------------------------------------------------
    fe = _body(src.func('PayloadNOTIFY.from_exception'))
    dl = fe[0].value if isinstance(fe[0], ast.Assign) and pyast.dotted_name(fe[0].targets[0]) == 'exception_2_notify' else None
    if not isinstance(dl, ast.Dict):
        src.fail(src.func('PayloadNOTIFY.from_exception'), 'from_exception: exception_2_notify dict not found')
    e2n = {pyast.dotted_name(k): pyast.dotted_name(v) for k, v in zip(dl.keys, dl.values)}
    for ex, want in (('NoProposalChosen', 'NO_PROPOSAL_CHOSEN'), ('InvalidKePayload', 'INVALID_KE_PAYLOAD')):
        if e2n.get(ex) != 'PayloadNOTIFY.Type.' + want:
            src.fail(fe[0], f'from_exception: {ex} is no longer mapped to {want}')
    _same(src, fe[1], 'notification_type = exception_2_notify.get(type(ex), PayloadNOTIFY.Type.INVALID_SYNTAX)',
          'from_exception')
    _same(src, fe[2], "if type(ex) is InvalidKePayload:\n    notification_data = pack('>H', ex.group)\n"
          "elif type(ex) is CookieRequired:\n    notification_data = ex.cookie\nelse:\n    notification_data = b''",
          'from_exception: notification data')
    _same(src, fe[-1], 'return PayloadNOTIFY(notification_protocol, notification_type, notification_spi, notification_data)',
          'from_exception')
    ikp = _body(src.func('InvalidKePayload.__init__'))
    _same(src, ikp[-1], 'self.group = group', 'InvalidKePayload.__init__')

    oi = 'my_transform' if outer_var == 'my_transform' else 'peer_transform'
    text = f'''(* GENERATED from /repo/message.py and /repo/ikesa.py by py/props/c11.py - do not edit *)
From Coq Require Import ZArith Bool List.
From Nego Require Import NegoBase.
Import ListNotations.
Open Scope Z_scope.

(* Transform.Type, Proposal.Protocol, PayloadNOTIFY.Type *)
{chr(10).join(f"Definition TYPE_{k} : Z := {v}." for k, v in ttypes.items())}
{chr(10).join(f"Definition PROTO_{k} : Z := {v}." for k, v in protos.items())}
Definition NOTIFY_NO_PROPOSAL_CHOSEN : Z := {notifies['NO_PROPOSAL_CHOSEN']}.
Definition NOTIFY_INVALID_KE_PAYLOAD : Z := {notifies['INVALID_KE_PAYLOAD']}.

(* Transform.__eq__: hash(self) == hash(other) with __hash__ = hash(({", ".join(hashed)})), read as equality of
   the hashed tuple (assumption: no hash collision) *)
Definition transform_eq (a b : transform) : bool :=
  {transform_eq}.

(* `t in set(...)` / `set(..) == set(..)` over transforms *)
Definition tmem (t : transform) (l : list transform) : bool := existsb (transform_eq t) l.
Definition tset_eqb (a b : list transform) : bool := forallb (fun x => tmem x b) a && forallb (fun x => tmem x a) b.

(* Proposal.intersection: `if <guard>:` *)
Definition isect_guard (self other : proposal) : bool :=
  {guard}.
(* the two nested loops: outer over, inner over *)
Definition isect_outer (self other : proposal) : list transform := {lists[pyast.dotted_name(lo.iter)]}.
Definition isect_inner (self other : proposal) : list transform := {lists[pyast.dotted_name(li.iter)]}.
(* body of the inner loop *)
Definition isect_step (x_outer x_inner : transform) (selected : dict) : dict :=
  let {outer_var} := x_outer in let {inner_var} := x_inner in
  if {cond} then dict_set selected {key} {val} else selected.
(* success test and result *)
Definition isect_success (self other : proposal) (selected : dict) : bool :=
  {success}.
Definition isect_result (self other : proposal) (selected : dict) : proposal :=
  {{| p_num := {pf[args[0]]}; p_proto := {pf[args[1]]}; p_spi := {pf[args[2]]}; p_transforms := dict_values selected |}}.

(* Proposal.__eq__ *)
Definition proposal_eq (self other : proposal) : bool :=
  {proposal_eq}.

(* Proposal.is_subset *)
Definition is_subset_with (intersection : proposal -> proposal -> option proposal) (self other : proposal) : bool :=
  match intersection {sub_a} {sub_b} with
  | Some i => proposal_eq i {sub_c}
  | None => false
  end.

(* Proposal.copy_without_dh_transforms: the transforms kept *)
Definition without_dh (self : proposal) : list transform :=
  filter (fun x => {nodh}) (p_transforms self).

(* IkeSa._select_best_sa_proposal: the call made for every peer proposal, in payload order *)
Definition select_try (intersection : proposal -> proposal -> option proposal) (my_proposal peer_proposal : proposal)
  : option proposal := intersection {sel_a} {sel_b}.

(* responder: InvalidKePayload(group=my_dh_group) when *)
Definition ke_mismatch (my_dh_group ke_group : Z) : bool :=
  {ke1}.

(* initiator, CHILD_SA: NoProposalChosen when *)
Definition initiator_child_reject (intersection : proposal -> proposal -> option proposal)
           (my_proposal chosen_child_proposal : proposal) : bool :=
  match intersection {ci_a} {ci_b} with
  | None => true
  | Some i => negb (proposal_eq i {ci_c})
  end.

(* initiator, handle_invalid_ke: NoProposalChosen when *)
Definition suggested_group_reject (my_proposal : proposal) (suggested_group : Z) : bool :=
  {gtest}.
'''
    pyast.write_if_changed(os.path.join(core.cluster_dir(CLUSTER), 'Gen', 'NegoFacts.v'), text)


