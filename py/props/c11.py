"""C11 - algorithm negotiation never selects anything outside both offers."""
import ast
import contextlib
import itertools
import os

from vlib import core, pyast
from vlib.core import Failure, TranslateError

CLUSTER = 'nego'


# =============================================================================================
# tie 1: translator  /repo/message.py, /repo/ikesa.py -> coq/nego/Gen/NegoFacts.v

def _same(src, node, want, what):
    """Fail closed unless `node` is structurally the statement/expression `want` (source text)."""
    w = ast.parse(want).body[0]
    if isinstance(w, ast.Expr) and not isinstance(node, ast.Expr):
        w = w.value
    if node is None or ast.dump(node) != ast.dump(w):
        seg = src.segment(node) if node is not None else '<missing>'
        raise TranslateError(f'{os.path.basename(src.path)}:{getattr(node, "lineno", "?")}: {what}: expected '
                             f'`{want}`, found `{seg}`')


def _body(fn):
    return [s for s in fn.body if not (isinstance(s, ast.Expr) and isinstance(s.value, ast.Constant))]


def _find(src, stmts, pred, what, where):
    hits = [i for i, s in enumerate(stmts) if pred(s)]
    if len(hits) != 1:
        src.fail(where, f'expected exactly one `{what}`, found {len(hits)}')
    return hits[0]


def _raises(stmts, exc):
    return (len(stmts) == 1 and isinstance(stmts[0], ast.Raise) and isinstance(stmts[0].exc, ast.Call)
            and pyast.dotted_name(stmts[0].exc.func) == exc)


def translate(ctx):
    src = pyast.Src(os.path.join(core.REPO, 'message.py'))
    isrc = pyast.Src(os.path.join(core.REPO, 'ikesa.py'))
    ttypes = dict(src.enum('Transform.Type'))
    protos = dict(src.enum('Proposal.Protocol'))
    notifies = dict(src.enum('PayloadNOTIFY.Type'))
    for k in ('ENCR', 'PRF', 'INTEG', 'DH', 'ESN'):
        if k not in ttypes:
            src.fail(src.cls('Transform.Type'), f'Transform.Type.{k} missing')
    if len(set(ttypes.values())) != len(ttypes):
        src.fail(src.cls('Transform.Type'), 'Transform.Type values are not distinct')
    env0 = {f'Transform.Type.{k}': str(v) for k, v in ttypes.items()}
    env0.update({f'Proposal.Protocol.{k}': str(v) for k, v in protos.items()})

    # ---- Transform.__hash__ / __eq__ / __init__ ----------------------------------------------
    fields = {'self.type': 't_type', 'self.id': 't_id', 'self.keylen': 't_keylen'}
    hf = _body(src.func('Transform.__hash__'))
    ok = (len(hf) == 1 and isinstance(hf[0], ast.Return) and isinstance(hf[0].value, ast.Call)
          and pyast.dotted_name(hf[0].value.func) == 'hash' and len(hf[0].value.args) == 1
          and isinstance(hf[0].value.args[0], ast.Tuple))
    if not ok:
        src.fail(src.func('Transform.__hash__'), 'Transform.__hash__ is no longer hash((fields...))')
    hashed = [pyast.dotted_name(e) for e in hf[0].value.args[0].elts]
    if any(h not in fields for h in hashed) or len(set(hashed)) != len(hashed):
        src.fail(hf[0], 'Transform.__hash__ hashes something else than type/id/keylen')
    _same(src, _body(src.func('Transform.__eq__'))[0], 'return hash(self) == hash(other)', 'Transform.__eq__')
    init = _body(src.func('Transform.__init__'))
    if [a.arg for a in src.func('Transform.__init__').args.args] != ['self', 'type', 'id', 'keylen']:
        src.fail(src.func('Transform.__init__'), 'Transform.__init__ signature changed')
    _same(src, init[0], 'self.type = self.Type(type)', 'Transform.__init__')
    _same(src, init[1], 'self.id = self._transform_id_enums.get(type, self.EncrId)(id)', 'Transform.__init__')
    _same(src, init[2], 'self.keylen = keylen', 'Transform.__init__')
    cmp_of = {'t_type': '(Z.eqb (t_type a) (t_type b))', 't_id': '(Z.eqb (t_id a) (t_id b))',
              't_keylen': '(optZ_eqb (t_keylen a) (t_keylen b))'}
    parts = [cmp_of[fields[h]] for h in hashed]
    transform_eq = parts[-1] if parts else 'true'
    for p in reversed(parts[:-1]):
        transform_eq = f'(andb {p} {transform_eq})'

    # ---- Proposal.__init__ (empty transform list refused), get_transform(s) -------------------
    pinit = _body(src.func('Proposal.__init__'))
    if [a.arg for a in src.func('Proposal.__init__').args.args] != ['self', 'num', 'protocol_id', 'spi', 'transforms']:
        src.fail(src.func('Proposal.__init__'), 'Proposal.__init__ signature changed')
    for st, want in zip(pinit, ('self.num = num', 'self.protocol_id = self.Protocol(protocol_id)', 'self.spi = spi',
                                'self.transforms = transforms')):
        _same(src, st, want, 'Proposal.__init__')
    if not (len(pinit) == 5 and isinstance(pinit[4], ast.If) and _raises(pinit[4].body, 'InvalidSyntax')
            and ast.dump(pinit[4].test) == ast.dump(ast.parse('len(self.transforms) == 0').body[0].value)):
        src.fail(src.func('Proposal.__init__'), 'Proposal.__init__: empty transform list check changed')
    _same(src, _body(src.func('Proposal.get_transform'))[0], 'return next(x for x in self.transforms if x.type == type)',
          'Proposal.get_transform')
    _same(src, _body(src.func('Proposal.get_transforms'))[0], 'return [x for x in self.transforms if x.type == type]',
          'Proposal.get_transforms')

    # ---- Proposal.intersection ----------------------------------------------------------------
    fn = src.func('Proposal.intersection')
    if [a.arg for a in fn.args.args] != ['self', 'other']:
        src.fail(fn, 'intersection signature changed')
    b = _body(fn)
    if not (len(b) == 2 and isinstance(b[0], ast.If) and not b[0].orelse and isinstance(b[1], ast.Return)
            and isinstance(b[1].value, ast.Constant) and b[1].value.value is None):
        src.fail(fn, 'intersection is no longer `if <guard>: ...` followed by `return None`')
    penv = dict(env0)
    penv.update({'self.protocol_id': '(p_proto self)', 'other.protocol_id': '(p_proto other)'})
    guard, ty = pyast.expr_to_gallina(src, b[0].test, penv)
    if ty != 'bool':
        src.fail(b[0], 'intersection guard is not boolean')
    g = b[0].body
    if len(g) != 3:
        src.fail(b[0], 'intersection body is no longer: selected = {}; for ..; if ..: return Proposal(..)')
    _same(src, g[0], 'selected = {}', 'intersection')
    lists = {'self.transforms': '(p_transforms self)', 'other.transforms': '(p_transforms other)'}
    lo = g[1]
    if not (isinstance(lo, ast.For) and not lo.orelse and len(lo.body) == 1 and isinstance(lo.body[0], ast.For)
            and not lo.body[0].orelse and pyast.dotted_name(lo.iter) in lists
            and pyast.dotted_name(lo.body[0].iter) in lists and isinstance(lo.target, ast.Name)
            and isinstance(lo.body[0].target, ast.Name) and lo.target.id != lo.body[0].target.id):
        src.fail(lo, 'intersection: nested loop over the two transform lists changed')
    li = lo.body[0]
    outer_var, inner_var = lo.target.id, li.target.id
    if {outer_var, inner_var} != {'my_transform', 'peer_transform'}:
        src.fail(lo, 'intersection: loop variables renamed')
    if not (len(li.body) == 1 and isinstance(li.body[0], ast.If) and not li.body[0].orelse
            and len(li.body[0].body) == 1):
        src.fail(li, 'intersection: inner loop body changed')
    cond_node, asg = li.body[0].test, li.body[0].body[0]

    def sel_cond(n):
        if isinstance(n, ast.BoolOp):
            op = 'andb' if isinstance(n.op, ast.And) else 'orb'
            ps = [sel_cond(v) for v in n.values]
            t = ps[-1]
            for p in reversed(ps[:-1]):
                t = f'({op} {p} {t})'
            return t
        if isinstance(n, ast.UnaryOp) and isinstance(n.op, ast.Not):
            return f'(negb {sel_cond(n.operand)})'
        if isinstance(n, ast.Compare) and len(n.ops) == 1:
            l, r, op = n.left, n.comparators[0], n.ops[0]
            ln, rn = pyast.dotted_name(l), pyast.dotted_name(r)
            tv = ('my_transform', 'peer_transform')
            if isinstance(op, (ast.Eq, ast.NotEq)) and ln in tv and rn in tv:
                t = f'(transform_eq {ln} {rn})'
                return t if isinstance(op, ast.Eq) else f'(negb {t})'
            if isinstance(op, (ast.In, ast.NotIn)) and rn == 'selected' and ln in ('my_transform.type', 'peer_transform.type'):
                t = f'(dict_has selected (t_type {ln.split(".")[0]}))'
                return t if isinstance(op, ast.In) else f'(negb {t})'
        src.fail(n, f'intersection: selection condition outside the subset: {src.segment(n)}')
    cond = sel_cond(cond_node)
    if not (isinstance(asg, ast.Assign) and len(asg.targets) == 1 and isinstance(asg.targets[0], ast.Subscript)
            and pyast.dotted_name(asg.targets[0].value) == 'selected'
            and pyast.dotted_name(asg.targets[0].slice) in ('my_transform.type', 'peer_transform.type')
            and pyast.dotted_name(asg.value) in ('my_transform', 'peer_transform')):
        src.fail(asg, 'intersection: selected[...] = ... outside the subset')
    key = f'(t_type {pyast.dotted_name(asg.targets[0].slice).split(".")[0]})'
    val = pyast.dotted_name(asg.value)
    succ = g[2]
    if not (isinstance(succ, ast.If) and not succ.orelse and len(succ.body) == 1 and isinstance(succ.body[0], ast.Return)):
        src.fail(succ, 'intersection: success test changed')

    def set_of(n):
        if isinstance(n, ast.Call) and pyast.dotted_name(n.func) == 'set' and len(n.args) == 1:
            a = n.args[0]
            if pyast.dotted_name(a) == 'selected':
                return '(dict_keys selected)'
            if isinstance(a, ast.GeneratorExp) and pyast.dotted_name(a.elt) == 'x.type' and len(a.generators) == 1 \
                    and pyast.dotted_name(a.generators[0].target) == 'x' and not a.generators[0].ifs \
                    and pyast.dotted_name(a.generators[0].iter) in lists:
                return f'(map t_type {lists[pyast.dotted_name(a.generators[0].iter)]})'
        src.fail(n, 'intersection: success test operand outside the subset')
    t = succ.test
    if not (isinstance(t, ast.Compare) and len(t.ops) == 1 and isinstance(t.ops[0], ast.Eq)):
        src.fail(t, 'intersection: success test is no longer set == set')
    success = f'(setZ_eqb {set_of(t.left)} {set_of(t.comparators[0])})'
    rc = succ.body[0].value
    if not (isinstance(rc, ast.Call) and pyast.dotted_name(rc.func) == 'Proposal' and len(rc.args) == 4 and not rc.keywords):
        src.fail(rc, 'intersection: result constructor changed')
    pf = {'self.num': '(p_num self)', 'other.num': '(p_num other)', 'self.protocol_id': '(p_proto self)',
          'other.protocol_id': '(p_proto other)', 'self.spi': '(p_spi self)', 'other.spi': '(p_spi other)'}
    args = [pyast.dotted_name(a) for a in rc.args[:3]]
    if any(a not in pf for a in args) or not args[0].endswith('.num') or not args[1].endswith('.protocol_id') \
            or not args[2].endswith('.spi'):
        src.fail(rc, 'intersection: Proposal(num, protocol_id, spi, ...) arguments outside the subset')
    _same(src, rc.args[3], 'list(selected.values())', 'intersection: transforms of the result')

    # ---- Proposal.__eq__ / is_subset / copy_without_dh_transforms ------------------------------
    eqf = _body(src.func('Proposal.__eq__'))
    ev = eqf[0].value if len(eqf) == 1 and isinstance(eqf[0], ast.Return) else None
    if not (isinstance(ev, ast.Compare) and len(ev.ops) == 1 and isinstance(ev.ops[0], ast.Eq)
            and isinstance(ev.left, ast.Tuple) and isinstance(ev.comparators[0], ast.Tuple)
            and len(ev.left.elts) == len(ev.comparators[0].elts)):
        src.fail(src.func('Proposal.__eq__'), 'Proposal.__eq__ is no longer a comparison of two tuples')

    def eq_elem(x, y):
        dx, dy = pyast.dotted_name(x), pyast.dotted_name(y)
        if dx in ('self.protocol_id', 'other.protocol_id') and dy in ('self.protocol_id', 'other.protocol_id'):
            return f'(Z.eqb (p_proto {dx.split(".")[0]}) (p_proto {dy.split(".")[0]}))'
        if all(isinstance(n, ast.Call) and pyast.dotted_name(n.func) == 'set' and len(n.args) == 1
               and pyast.dotted_name(n.args[0]) in lists for n in (x, y)):
            return f'(tset_eqb {lists[pyast.dotted_name(x.args[0])]} {lists[pyast.dotted_name(y.args[0])]})'
        src.fail(x, 'Proposal.__eq__: tuple element outside the subset')
    eparts = [eq_elem(x, y) for x, y in zip(ev.left.elts, ev.comparators[0].elts)]
    proposal_eq = eparts[-1]
    for p in reversed(eparts[:-1]):
        proposal_eq = f'(andb {p} {proposal_eq})'

    sub = _body(src.func('Proposal.is_subset'))
    so = {'self': 'self', 'other': 'other'}
    ok = (len(sub) == 2 and isinstance(sub[0], ast.Assign) and pyast.dotted_name(sub[0].targets[0]) == 'intersection'
          and isinstance(sub[0].value, ast.Call) and isinstance(sub[0].value.func, ast.Attribute)
          and sub[0].value.func.attr == 'intersection' and pyast.dotted_name(sub[0].value.func.value) in so
          and len(sub[0].value.args) == 1 and pyast.dotted_name(sub[0].value.args[0]) in so
          and isinstance(sub[1], ast.Return) and isinstance(sub[1].value, ast.BoolOp)
          and isinstance(sub[1].value.op, ast.And) and len(sub[1].value.values) == 2)
    if not ok:
        src.fail(src.func('Proposal.is_subset'), 'Proposal.is_subset shape changed')
    _same(src, sub[1].value.values[0], 'intersection is not None', 'Proposal.is_subset')
    c2 = sub[1].value.values[1]
    if not (isinstance(c2, ast.Compare) and len(c2.ops) == 1 and isinstance(c2.ops[0], ast.Eq)
            and pyast.dotted_name(c2.left) == 'intersection' and pyast.dotted_name(c2.comparators[0]) in so):
        src.fail(c2, 'Proposal.is_subset: comparison changed')
    sub_a = pyast.dotted_name(sub[0].value.func.value)
    sub_b = pyast.dotted_name(sub[0].value.args[0])
    sub_c = pyast.dotted_name(c2.comparators[0])

    cw = _body(src.func('Proposal.copy_without_dh_transforms'))
    cv = cw[0].value if len(cw) == 1 and isinstance(cw[0], ast.Return) else None
    if not (isinstance(cv, ast.Call) and pyast.dotted_name(cv.func) == 'Proposal' and len(cv.args) == 4
            and [pyast.dotted_name(a) for a in cv.args[:3]] == ['self.num', 'self.protocol_id', 'self.spi']
            and isinstance(cv.args[3], ast.ListComp) and pyast.dotted_name(cv.args[3].elt) == 'x'
            and len(cv.args[3].generators) == 1 and pyast.dotted_name(cv.args[3].generators[0].iter) == 'self.transforms'
            and len(cv.args[3].generators[0].ifs) == 1):
        src.fail(src.func('Proposal.copy_without_dh_transforms'), 'copy_without_dh_transforms shape changed')
    xenv = dict(env0)
    xenv.update({'x.type': '(t_type x)', 'x.id': '(t_id x)'})
    nodh, ty = pyast.expr_to_gallina(src, cv.args[3].generators[0].ifs[0], xenv)
    if ty != 'bool':
        src.fail(cv, 'copy_without_dh_transforms: filter is not boolean')

    # ---- IkeSa._select_best_sa_proposal ----------------------------------------------------------
    sb = isrc.func('IkeSa._select_best_sa_proposal')
    if [a.arg for a in sb.args.args] != ['self', 'my_proposal', 'peer_payload_sa']:
        isrc.fail(sb, '_select_best_sa_proposal signature changed')
    sbb = _body(sb)
    ok = (len(sbb) == 2 and isinstance(sbb[0], ast.For) and not sbb[0].orelse
          and pyast.dotted_name(sbb[0].target) == 'peer_proposal'
          and pyast.dotted_name(sbb[0].iter) == 'peer_payload_sa.proposals' and len(sbb[0].body) == 2
          and _raises([sbb[1]], 'NoProposalChosen'))
    if not ok:
        isrc.fail(sb, '_select_best_sa_proposal is no longer `for peer_proposal in ...: ...; raise NoProposalChosen`')
    call = sbb[0].body[0]
    pp = {'my_proposal': 'my_proposal', 'peer_proposal': 'peer_proposal'}
    if not (isinstance(call, ast.Assign) and pyast.dotted_name(call.targets[0]) == 'intersection'
            and isinstance(call.value, ast.Call) and isinstance(call.value.func, ast.Attribute)
            and call.value.func.attr == 'intersection' and pyast.dotted_name(call.value.func.value) in pp
            and len(call.value.args) == 1 and pyast.dotted_name(call.value.args[0]) in pp):
        isrc.fail(call, '_select_best_sa_proposal: intersection call changed')
    sel_a, sel_b = pyast.dotted_name(call.value.func.value), pyast.dotted_name(call.value.args[0])
    _same(isrc, sbb[0].body[1], 'if intersection is not None:\n    return intersection', '_select_best_sa_proposal')

    # ---- responder, IKE_SA: _process_ike_sa_negotiation_request -----------------------------------
    f1 = isrc.func('IkeSa._process_ike_sa_negotiation_request')
    s1 = _body(f1)
    i_sel = _find(isrc, s1, lambda s: '_select_best_sa_proposal' in isrc.segment(s), 'proposal selection', f1)
    _same(isrc, s1[i_sel], 'self.chosen_proposal = self._select_best_sa_proposal(self.configuration.proposal, payload_sa)',
          'IKE responder: selection')
    i_grp = _find(isrc, s1, lambda s: isinstance(s, ast.Assign) and pyast.dotted_name(s.targets[0]) == 'my_dh_group',
                  'my_dh_group = ...', f1)
    _same(isrc, s1[i_grp], 'my_dh_group = self.chosen_proposal.get_transform(Transform.Type.DH).id', 'IKE responder: group')
    i_chk = _find(isrc, s1, lambda s: isinstance(s, ast.If) and 'my_dh_group' in isrc.segment(s.test), 'KE group check', f1)
    ke1, ty = pyast.expr_to_gallina(isrc, s1[i_chk].test, {'my_dh_group': 'my_dh_group', 'payload_ke.dh_group': 'ke_group'})
    if ty != 'bool' or not _raises(s1[i_chk].body, 'InvalidKePayload') or s1[i_chk].orelse or \
            [(k.arg, pyast.dotted_name(k.value)) for k in s1[i_chk].body[0].exc.keywords] != [('group', 'my_dh_group')]:
        isrc.fail(s1[i_chk], 'IKE responder: KE group check no longer raises InvalidKePayload(group=my_dh_group)')
    dh_use = [i for i, s in enumerate(s1) if 'DiffieHellman' in isrc.segment(s) or 'compute_secret' in isrc.segment(s)
              or 'generate_ike_sa_key_material' in isrc.segment(s)]
    if not dh_use or not (i_sel < i_grp < i_chk < min(dh_use)):
        isrc.fail(f1, 'IKE responder: order of selection / KE group check / DH computation changed')
    _same(isrc, s1[-1], 'return [response_payload_sa, response_payload_nonce, response_payload_ke]', 'IKE responder: reply')
    i_rsa = _find(isrc, s1, lambda s: isinstance(s, ast.Assign) and pyast.dotted_name(s.targets[0]) == 'response_payload_sa',
                  'response_payload_sa = ...', f1)
    _same(isrc, s1[i_rsa], 'response_payload_sa = PayloadSA([self.chosen_proposal])', 'IKE responder: reply SA')

    # ---- responder, CHILD_SA: _process_create_child_sa_negotiation_req ----------------------------
    f2 = isrc.func('IkeSa._process_create_child_sa_negotiation_req')
    tr = next((s for s in f2.body if isinstance(s, ast.Try)), None)
    if tr is None:
        isrc.fail(f2, 'CHILD responder: try block not found')
    s2 = tr.body
    j_my = _find(isrc, s2, lambda s: isinstance(s, ast.Assign) and pyast.dotted_name(s.targets[0]) == 'my_proposal',
                 'my_proposal = ...', f2)
    _same(isrc, s2[j_my], 'my_proposal = (ipsec_conf.proposal.copy_without_dh_transforms() if request.exchange_type == '
          'Message.Exchange.IKE_AUTH else ipsec_conf.proposal)', 'CHILD responder: own proposal')
    j_sel = _find(isrc, s2, lambda s: '_select_best_sa_proposal' in isrc.segment(s), 'proposal selection', f2)
    _same(isrc, s2[j_sel], 'chosen_child_proposal = self._select_best_sa_proposal(my_proposal, request_payload_sa)',
          'CHILD responder: selection')
    j_dh = _find(isrc, s2, lambda s: isinstance(s, ast.If) and 'get_transforms(Transform.Type.DH)' in isrc.segment(s.test),
                 'if chosen_child_proposal.get_transforms(DH):', f2)
    _same(isrc, s2[j_dh].test, 'chosen_child_proposal.get_transforms(Transform.Type.DH)', 'CHILD responder: DH test')
    d = s2[j_dh].body
    _same(isrc, d[0], 'request_payload_ke = request.get_payload(Payload.Type.KE, True)', 'CHILD responder: KE payload')
    _same(isrc, d[1], 'my_dh_group = chosen_child_proposal.get_transform(Transform.Type.DH).id', 'CHILD responder: group')
    ke2, ty = pyast.expr_to_gallina(isrc, d[2].test if isinstance(d[2], ast.If) else d[2],
                                    {'my_dh_group': 'my_dh_group', 'request_payload_ke.dh_group': 'ke_group'})
    if ty != 'bool' or not _raises(d[2].body, 'InvalidKePayload') or d[2].orelse or \
            [(k.arg, pyast.dotted_name(k.value)) for k in d[2].body[0].exc.keywords] != [('group', 'my_dh_group')]:
        isrc.fail(d[2], 'CHILD responder: KE group check no longer raises InvalidKePayload(group=my_dh_group)')
    if ke1 != ke2:
        isrc.fail(d[2], 'the two KE group checks differ')
    if any('DiffieHellman' in isrc.segment(s) or 'compute_secret' in isrc.segment(s) for s in d[:3]) or \
            not any('DiffieHellman.from_group' in isrc.segment(s) for s in d[3:]):
        isrc.fail(s2[j_dh], 'CHILD responder: DH computation no longer after the group check')
    j_inst = _find(isrc, s2, lambda s: isinstance(s, ast.Expr) and 'create_child_sa' in isrc.segment(s), 'create_child_sa', f2)
    j_child = _find(isrc, s2, lambda s: isinstance(s, ast.Assign) and isinstance(s.value, ast.Call)
                    and pyast.dotted_name(s.value.func) == 'ChildSa', 'child_sa = ChildSa(...)', f2)
    kw = {k.arg: pyast.dotted_name(k.value) for k in s2[j_child].value.keywords}
    if kw.get('proposal') != 'chosen_child_proposal' or not (j_my < j_sel < j_dh < j_child < j_inst):
        isrc.fail(f2, 'CHILD responder: order of selection / KE check / installation changed, or another proposal installed')
    for s in s2[:j_dh + 1]:
        seg = isrc.segment(s)
        if 'Xfrm.' in seg or 'child_sas.append' in seg:
            isrc.fail(s, 'CHILD responder: kernel/table update before the proposal and KE checks')
    h = tr.handlers[0] if tr.handlers else None
    hn = [pyast.dotted_name(e) for e in h.type.elts] if h is not None and isinstance(h.type, ast.Tuple) else []
    if 'NoProposalChosen' not in hn or 'InvalidKePayload' not in hn or not isinstance(h.body[-1], ast.Return) \
            or isrc.segment(h.body[-1].value) != '[PayloadNOTIFY.from_exception(ex)]':
        isrc.fail(tr, 'CHILD responder: NoProposalChosen/InvalidKePayload no longer answered with from_exception(ex)')

    # ---- initiator, IKE_SA: process_ike_sa_negotiation_response -----------------------------------
    f3 = isrc.func('IkeSa.process_ike_sa_negotiation_response')
    s3 = _body(f3)
    k_chk = _find(isrc, s3, lambda s: isinstance(s, ast.If) and 'is_subset' in isrc.segment(s.test), 'is_subset check', f3)
    _same(isrc, s3[k_chk], "if not payload_sa.proposals[0].is_subset(self.chosen_proposal):\n"
          "    raise NoProposalChosen('Responder proposal is not a subset of what we sent')", 'IKE initiator: check')
    _same(isrc, s3[k_chk + 1], 'self.chosen_proposal = payload_sa.proposals[0]', 'IKE initiator: adopted proposal')
    if any('compute_secret' in isrc.segment(s) or 'generate_ike_sa_key_material' in isrc.segment(s) for s in s3[:k_chk]):
        isrc.fail(f3, 'IKE initiator: key computation before the proposal check')
    gk = _body(isrc.func('IkeSa.generate_ike_sa_key_material'))
    for st, want in zip(gk[:3], ('prf = Prf(ike_proposal.get_transform(Transform.Type.PRF))',
                                 'integ = Integrity(ike_proposal.get_transform(Transform.Type.INTEG))',
                                 'cipher = Cipher(ike_proposal.get_transform(Transform.Type.ENCR))')):
        _same(isrc, st, want, 'generate_ike_sa_key_material')

    # ---- initiator, CHILD_SA: _process_create_child_sa_negotiation_res ----------------------------
    f4 = isrc.func('IkeSa._process_create_child_sa_negotiation_res')
    s4 = _body(f4)
    m_my = _find(isrc, s4, lambda s: isinstance(s, ast.Assign) and pyast.dotted_name(s.targets[0]) == 'my_proposal',
                 'my_proposal = ...', f4)
    _same(isrc, s4[m_my], 'my_proposal = (self.creating_child_sa.proposal.copy_without_dh_transforms() if '
          'response.exchange_type == Message.Exchange.IKE_AUTH else self.creating_child_sa.proposal)',
          'CHILD initiator: own proposal')
    _same(isrc, s4[m_my + 1], 'chosen_child_proposal = response_payload_sa.proposals[0]', 'CHILD initiator: response proposal')
    ic = s4[m_my + 2]
    vv = {'my_proposal': 'my_proposal', 'chosen_child_proposal': 'chosen_child_proposal'}
    if not (isinstance(ic, ast.Assign) and pyast.dotted_name(ic.targets[0]) == 'intersection'
            and isinstance(ic.value, ast.Call) and isinstance(ic.value.func, ast.Attribute)
            and ic.value.func.attr == 'intersection' and pyast.dotted_name(ic.value.func.value) in vv
            and len(ic.value.args) == 1 and pyast.dotted_name(ic.value.args[0]) in vv):
        isrc.fail(ic, 'CHILD initiator: intersection call changed')
    ci_a, ci_b = pyast.dotted_name(ic.value.func.value), pyast.dotted_name(ic.value.args[0])
    chk = s4[m_my + 3]
    ok = (isinstance(chk, ast.If) and not chk.orelse and _raises(chk.body, 'NoProposalChosen')
          and isinstance(chk.test, ast.BoolOp) and isinstance(chk.test.op, ast.Or) and len(chk.test.values) == 2)
    if not ok:
        isrc.fail(chk, 'CHILD initiator: proposal check changed')
    _same(isrc, chk.test.values[0], 'intersection is None', 'CHILD initiator: proposal check')
    c2 = chk.test.values[1]
    if not (isinstance(c2, ast.Compare) and len(c2.ops) == 1 and isinstance(c2.ops[0], ast.NotEq)
            and pyast.dotted_name(c2.left) == 'intersection' and pyast.dotted_name(c2.comparators[0]) in vv):
        isrc.fail(c2, 'CHILD initiator: comparison changed')
    ci_c = pyast.dotted_name(c2.comparators[0])
    m_rep = _find(isrc, s4, lambda s: isinstance(s, ast.Assign) and '_replace' in isrc.segment(s), '_replace', f4)
    rkw = {k.arg: pyast.dotted_name(k.value) for k in s4[m_rep].value.keywords}
    if rkw.get('proposal') != 'chosen_child_proposal' or not (m_my + 3 < m_rep):
        isrc.fail(s4[m_rep], 'CHILD initiator: installed proposal changed')
    for s in s4[:m_my + 4]:
        seg = isrc.segment(s)
        if 'Xfrm.' in seg or 'child_sas.append' in seg or '_replace' in seg:
            isrc.fail(s, 'CHILD initiator: kernel/table update before the proposal check')

    # ---- initiator: handle_invalid_ke ---------------------------------------------------------------
    f5 = isrc.func('IkeSa.handle_invalid_ke')
    s5 = _body(f5)
    _same(isrc, s5[0], 'invalid_ke = invalid_ke[0]', 'handle_invalid_ke')
    _same(isrc, s5[1], 'encrypted = self.request.exchange_type > Message.Exchange.IKE_SA_INIT', 'handle_invalid_ke')
    _same(isrc, s5[2], 'my_proposal = self.request.get_payload(Payload.Type.SA, encrypted).proposals[0]', 'handle_invalid_ke')
    _same(isrc, s5[3], "suggested_group = unpack('>H', invalid_ke.notification_data)[0]", 'handle_invalid_ke')
    n_chk = _find(isrc, s5, lambda s: isinstance(s, ast.If) and 'suggested_group' in isrc.segment(s.test), 'group check', f5)
    t5 = s5[n_chk].test
    ok = (isinstance(t5, ast.Compare) and len(t5.ops) == 1 and isinstance(t5.ops[0], (ast.NotIn, ast.In))
          and pyast.dotted_name(t5.left) == 'suggested_group' and isinstance(t5.comparators[0], ast.GeneratorExp)
          and len(t5.comparators[0].generators) == 1
          and pyast.dotted_name(t5.comparators[0].generators[0].iter) == 'my_proposal.transforms'
          and pyast.dotted_name(t5.comparators[0].generators[0].target) == 'x'
          and len(t5.comparators[0].generators[0].ifs) == 1
          and pyast.dotted_name(t5.comparators[0].elt) in ('x.id', 'x.type')
          and _raises(s5[n_chk].body, 'NoProposalChosen') and not s5[n_chk].orelse)
    if not ok:
        isrc.fail(s5[n_chk], 'handle_invalid_ke: suggested group check outside the subset')
    gfilter, ty = pyast.expr_to_gallina(isrc, t5.comparators[0].generators[0].ifs[0], xenv)
    gelt = {'x.id': 't_id', 'x.type': 't_type'}[pyast.dotted_name(t5.comparators[0].elt)]
    gtest = f'(memZ suggested_group (map {gelt} (filter (fun x => {gfilter}) (p_transforms my_proposal))))'
    if isinstance(t5.ops[0], ast.NotIn):
        gtest = f'(negb {gtest})'
    if any('DiffieHellman' in isrc.segment(s) or 'generate_request' in isrc.segment(s) for s in s5[:n_chk + 1]) or \
            not any('DiffieHellman.from_group(suggested_group)' in isrc.segment(s) for s in s5[n_chk + 1:]):
        isrc.fail(f5, 'handle_invalid_ke: retry no longer after the group check')

    # ---- PayloadNOTIFY.from_exception -----------------------------------------------------------------
    fe = _body(src.func('PayloadNOTIFY.from_exception'))
    dl = fe[0].value if isinstance(fe[0], ast.Assign) and pyast.dotted_name(fe[0].targets[0]) == 'exception_2_notify' else None
    if not isinstance(dl, ast.Dict):
        src.fail(src.func('PayloadNOTIFY.from_exception'), 'from_exception: exception_2_notify dict not found')
    e2n = {pyast.dotted_name(k): pyast.dotted_name(v) for k, v in zip(dl.keys, dl.values)}
    for ex, want in (('NoProposalChosen', 'NO_PROPOSAL_CHOSEN'), ('InvalidKePayload', 'INVALID_KE_PAYLOAD')):
        if e2n.get(ex) != 'PayloadNOTIFY.Type.' + want:
            src.fail(fe[0], f'from_exception: {ex} is no longer mapped to {want}')
    _same(src, fe[1], 'notification_type = exception_2_notify.get(type(ex), PayloadNOTIFY.Type.INVALID_SYNTAX)',
          'from_exception')
    _same(src, fe[2], "if type(ex) is InvalidKePayload:\n    notification_data = pack('>H', ex.group)\n"
          "elif type(ex) is CookieRequired:\n    notification_data = ex.cookie\nelse:\n    notification_data = b''",
          'from_exception: notification data')
    _same(src, fe[-1], 'return PayloadNOTIFY(notification_protocol, notification_type, notification_spi, notification_data)',
          'from_exception')
    ikp = _body(src.func('InvalidKePayload.__init__'))
    _same(src, ikp[-1], 'self.group = group', 'InvalidKePayload.__init__')

    oi = 'my_transform' if outer_var == 'my_transform' else 'peer_transform'
    text = f'''(* GENERATED from /repo/message.py and /repo/ikesa.py by py/props/c11.py - do not edit *)
From Coq Require Import ZArith Bool List.
From Nego Require Import NegoBase.
Import ListNotations.
Open Scope Z_scope.

(* Transform.Type, Proposal.Protocol, PayloadNOTIFY.Type *)
{chr(10).join(f"Definition TYPE_{k} : Z := {v}." for k, v in ttypes.items())}
{chr(10).join(f"Definition PROTO_{k} : Z := {v}." for k, v in protos.items())}
Definition NOTIFY_NO_PROPOSAL_CHOSEN : Z := {notifies['NO_PROPOSAL_CHOSEN']}.
Definition NOTIFY_INVALID_KE_PAYLOAD : Z := {notifies['INVALID_KE_PAYLOAD']}.

(* Transform.__eq__: hash(self) == hash(other) with __hash__ = hash(({", ".join(hashed)})), read as equality of
   the hashed tuple (assumption: no hash collision) *)
Definition transform_eq (a b : transform) : bool :=
  {transform_eq}.

(* `t in set(...)` / `set(..) == set(..)` over transforms *)
Definition tmem (t : transform) (l : list transform) : bool := existsb (transform_eq t) l.
Definition tset_eqb (a b : list transform) : bool := forallb (fun x => tmem x b) a && forallb (fun x => tmem x a) b.

(* Proposal.intersection: `if <guard>:` *)
Definition isect_guard (self other : proposal) : bool :=
  {guard}.
(* the two nested loops: outer over, inner over *)
Definition isect_outer (self other : proposal) : list transform := {lists[pyast.dotted_name(lo.iter)]}.
Definition isect_inner (self other : proposal) : list transform := {lists[pyast.dotted_name(li.iter)]}.
(* body of the inner loop *)
Definition isect_step (x_outer x_inner : transform) (selected : dict) : dict :=
  let {outer_var} := x_outer in let {inner_var} := x_inner in
  if {cond} then dict_set selected {key} {val} else selected.
(* success test and result *)
Definition isect_success (self other : proposal) (selected : dict) : bool :=
  {success}.
Definition isect_result (self other : proposal) (selected : dict) : proposal :=
  {{| p_num := {pf[args[0]]}; p_proto := {pf[args[1]]}; p_spi := {pf[args[2]]}; p_transforms := dict_values selected |}}.

(* Proposal.__eq__ *)
Definition proposal_eq (self other : proposal) : bool :=
  {proposal_eq}.

(* Proposal.is_subset *)
Definition is_subset_with (intersection : proposal -> proposal -> option proposal) (self other : proposal) : bool :=
  match intersection {sub_a} {sub_b} with
  | Some i => proposal_eq i {sub_c}
  | None => false
  end.

(* Proposal.copy_without_dh_transforms: the transforms kept *)
Definition without_dh (self : proposal) : list transform :=
  filter (fun x => {nodh}) (p_transforms self).

(* IkeSa._select_best_sa_proposal: the call made for every peer proposal, in payload order *)
Definition select_try (intersection : proposal -> proposal -> option proposal) (my_proposal peer_proposal : proposal)
  : option proposal := intersection {sel_a} {sel_b}.

(* responder: InvalidKePayload(group=my_dh_group) when *)
Definition ke_mismatch (my_dh_group ke_group : Z) : bool :=
  {ke1}.

(* initiator, CHILD_SA: NoProposalChosen when *)
Definition initiator_child_reject (intersection : proposal -> proposal -> option proposal)
           (my_proposal chosen_child_proposal : proposal) : bool :=
  match intersection {ci_a} {ci_b} with
  | None => true
  | Some i => negb (proposal_eq i {ci_c})
  end.

(* initiator, handle_invalid_ke: NoProposalChosen when *)
Definition suggested_group_reject (my_proposal : proposal) (suggested_group : Z) : bool :=
  {gtest}.
'''
    pyast.write_if_changed(os.path.join(core.cluster_dir(CLUSTER), 'Gen', 'NegoFacts.v'), text)


# =============================================================================================
# real code helpers.  A transform is (type, id, keylen|None); a proposal (num, protocol, spi bytes, [transforms])

ENCR, PRF, INTEG, DH, ESN = 1, 2, 3, 4, 5
IKE, AH, ESP = 1, 2, 3


def mk_transform(t):
    from message import Transform
    return Transform(t[0], t[1], t[2])


def mk_proposal(p):
    from message import Proposal
    return Proposal(p[0], p[1], p[2], [mk_transform(t) for t in p[3]])


def prop_tuple(p):
    return [int(p.num), int(p.protocol_id), bytes(p.spi), [[int(t.type), int(t.id), t.keylen] for t in p.transforms]]


def as_lists(p):
    return [p[0], p[1], bytes(p[2]), [list(t) for t in p[3]]]


# full universe for the function-level checks (also unknown ids and the keylen-None variant)
UNI = {
    ENCR: [(ENCR, 12, 128), (ENCR, 12, 256), (ENCR, 12, None), (ENCR, 13, 128), (ENCR, 3, None)],
    INTEG: [(INTEG, 2, None), (INTEG, 12, None), (INTEG, 14, None)],
    PRF: [(PRF, 2, None), (PRF, 5, None), (PRF, 7, None)],
    DH: [(DH, 14, None), (DH, 19, None), (DH, 5, None)],
    ESN: [(ESN, 0, None), (ESN, 1, None)],
}
# small universe whose ordered sub-lists are enumerated exhaustively
U5 = [(ENCR, 12, 128), (ENCR, 12, 256), (INTEG, 2, None), (INTEG, 12, None), (DH, 14, None)]
# algorithms the real crypto / xfrm layer can instantiate (for the whole-message runs)
SUP = {
    ENCR: [(ENCR, 12, 128), (ENCR, 12, 256)],
    INTEG: [(INTEG, 2, None), (INTEG, 12, None), (INTEG, 14, None)],
    PRF: [(PRF, 2, None), (PRF, 5, None), (PRF, 7, None)],
    DH: [(DH, 14, None), (DH, 19, None), (DH, 5, None), (DH, 2, None)],
    ESN: [(ESN, 0, None), (ESN, 1, None)],
}


def ordered_sublists(items, maxlen):
    out = []
    for k in range(1, maxlen + 1):
        out += [list(x) for x in itertools.permutations(items, k)]
    return out


def rnd_transforms(ctx, uni, types, complete=False, dup=0.1):
    ts = []
    for ty in types:
        pool = uni[ty]
        lo = 1 if complete else 0
        k = ctx.rng.choice([lo, 1, 1, 2, 2, 3])
        ts += ctx.rng.sample(pool, min(k, len(pool)))
    if ts and ctx.rng.random() < dup:
        ts.append(ctx.rng.choice(ts))          # the same transform twice
    if ctx.rng.random() < 0.7:
        ctx.rng.shuffle(ts)                    # types interleaved
    return ts


def rnd_proposal(ctx, uni, proto, types, complete=False, num=None, spi=None):
    ts = rnd_transforms(ctx, uni, types, complete)
    if not ts:
        ts = [ctx.rng.choice(uni[types[0]])]
    if spi is None:
        spi = b'' if proto == IKE else bytes(ctx.rng.getrandbits(8) for _ in range(4))
    return (num if num is not None else ctx.rng.randrange(1, 6), proto, spi, ts)


def gen_isect_pairs(ctx):
    subs = ordered_sublists(U5, 4)                  # 205 ordered sub-lists
    pairs = []
    if ctx.quick():
        for _ in range(2500):
            pairs.append(((1, ESP, b'', ctx.rng.choice(subs)), (2, ESP, b'\x01\x02\x03\x04', ctx.rng.choice(subs))))
    else:
        for a in subs:
            for b in subs:
                pairs.append(((1, ESP, b'', a), (2, ESP, b'\x01\x02\x03\x04', b)))
    # random proposals over the full universe: interleaved types, duplicates, other protocols
    for _ in range(1500 if ctx.quick() else 20000):
        types = ctx.rng.choice(([ENCR, INTEG, PRF, DH], [ENCR, INTEG, DH, ESN], [INTEG, ESN], [ENCR, INTEG, ESN]))
        pa = ctx.rng.choice((IKE, ESP, ESP, AH))
        pb = pa if ctx.rng.random() < 0.9 else ctx.rng.choice((IKE, ESP, AH, 0))
        a = rnd_proposal(ctx, UNI, pa, types)
        r = ctx.rng.random()
        if r < 0.25:       # the peer answers with a selection of mine
            b = (ctx.rng.randrange(1, 6), pb, b'\xaa\xbb', ctx.rng.sample(a[3], ctx.rng.randrange(1, len(a[3]) + 1)))
        elif r < 0.35:     # same set, other order
            b = (a[0], pb, a[2], ctx.rng.sample(a[3], len(a[3])))
        else:
            b = rnd_proposal(ctx, UNI, pb, types)
        pairs.append((a, b))
    return pairs


def impl_isect(a, b):
    x, y = mk_proposal(a), mk_proposal(b)
    i = x.intersection(y)
    return [prop_tuple(i) if i is not None else None, bool(x.is_subset(y)), bool(y.is_subset(x)), bool(x == y)]


def impl_select(mine, sa):
    from types import SimpleNamespace as NS
    import ikesa
    try:
        r = ikesa.IkeSa._select_best_sa_proposal(None, mk_proposal(mine), NS(proposals=[mk_proposal(p) for p in sa]))
    except Exception as ex:
        return type(ex).__name__
    return prop_tuple(r)


def impl_copy(p):
    try:
        return prop_tuple(mk_proposal(p).copy_without_dh_transforms())
    except Exception as ex:
        return type(ex).__name__


def gen_sa(ctx, mine, uni, complete=False):
    types = sorted({t[0] for t in mine[3]})
    n = ctx.rng.choice((1, 2, 2, 3, 4))
    sa = []
    for k in range(n):
        r = ctx.rng.random()
        proto = mine[1] if ctx.rng.random() < 0.9 else ctx.rng.choice((IKE, ESP, AH))
        spi = b'' if mine[1] == IKE else bytes([0xc0 + k]) * 4
        if r < 0.35:
            ts = [ctx.rng.choice([t for t in mine[3] if t[0] == ty]) for ty in types]     # acceptable
            ts += rnd_transforms(ctx, uni, types)
            ctx.rng.shuffle(ts)
            sa.append((k + 1, proto, spi, ts))
        else:
            sa.append(rnd_proposal(ctx, uni, proto, types + [ctx.rng.choice((ENCR, ESN, DH))] if r < 0.5 else types,
                                   complete, num=k + 1, spi=spi))
    return sa


# ---- whole-message runs on a real IkeSa -----------------------------------------------------------------

class FakeDH:
    """Stands in for crypto.DiffieHellman: records every use (the property: no DH work for a refused request)."""
    calls = []

    def __init__(self, group):
        self.group = group
        self.public_key = b'\x11' * 32
        self.shared_secret = None

    @classmethod
    def from_group(cls, group):
        cls.calls.append(('from_group', int(group)))
        return cls(group)

    def compute_secret(self, data):
        FakeDH.calls.append(('compute_secret', int(self.group)))
        self.shared_secret = b'\x22' * 32


@contextlib.contextmanager
def patched():
    """Kernel interface recorded, DiffieHellman replaced by FakeDH, logging silenced."""
    import logging
    import ikesa
    import xfrm
    logging.disable(logging.CRITICAL)
    calls = []
    FakeDH.calls = []
    saved = {n: xfrm.Xfrm.__dict__[n] for n in ('create_sa', 'delete_sa')}
    saved_dh = ikesa.DiffieHellman
    xfrm.Xfrm.create_sa = classmethod(lambda cls, *a, **k: calls.append(('create_sa',) + a))
    xfrm.Xfrm.delete_sa = classmethod(lambda cls, *a, **k: calls.append(('delete_sa',) + a))
    ikesa.DiffieHellman = FakeDH
    try:
        yield calls
    finally:
        for n, v in saved.items():
            setattr(xfrm.Xfrm, n, v)
        ikesa.DiffieHellman = saved_dh


def real_ike_sa(is_initiator, ike_proposal=None, child_proposal=None, keyed=True):
    from types import SimpleNamespace as NS
    from ipaddress import ip_address, ip_network
    import ikesa
    import crypto
    import xfrm
    from message import Transform, TrafficSelector, Message, PayloadNONCE
    protect = []
    if child_proposal is not None:
        protect = [NS(index=1, mode=xfrm.Mode.TUNNEL, lifetime=1, proposal=mk_proposal(child_proposal),
                      my_ts=TrafficSelector.from_network(ip_network('10.0.1.0/24'), 0, 0),
                      peer_ts=TrafficSelector.from_network(ip_network('10.0.2.0/24'), 0, 0))]
    conf = NS(dpd=60, lifetime=900, proposal=mk_proposal(ike_proposal) if ike_proposal else None, protect=protect)
    sa = ikesa.IkeSa(is_initiator, b'\x01' * 8, conf, ip_address('192.0.2.1'), ip_address('192.0.2.2'))
    if keyed:
        sa.my_crypto = crypto.Crypto(
            crypto.Cipher(Transform(Transform.Type.ENCR, Transform.EncrId.ENCR_AES_CBC, 256)), b'\x05' * 32,
            crypto.Integrity(Transform(Transform.Type.INTEG, Transform.IntegId.AUTH_HMAC_SHA1_96)), b'\x06' * 20,
            crypto.Prf(Transform(Transform.Type.PRF, Transform.PrfId.PRF_HMAC_SHA1)), b'\x07' * 20)
        sa.peer_crypto = sa.my_crypto
        sa.ike_sa_keyring = ikesa.Keyring(b'\x02' * 20, None, None, None, None, None, None)
        init = [Message(b'\x01' * 8, b'\0' * 8, 2, 0, Message.Exchange.IKE_SA_INIT, r, False, not r, 0,
                        [PayloadNONCE(bytes([3 + r]) * 16)], []).to_bytes() for r in (False, True)]
        sa.ike_sa_init_req_data, sa.ike_sa_init_res_data = init
    return sa


def exn_out(ex):
    """Canonical form of an exception of the negotiation code (with the notify it is answered with)."""
    from message import PayloadNOTIFY, InvalidKePayload
    if isinstance(ex, InvalidKePayload):
        n = PayloadNOTIFY.from_exception(ex)
        return ['InvalidKePayload', int(ex.group), [int(n.notification_type), bytes(n.notification_data)]]
    return type(ex).__name__


def impl_ike_responder(mine, sa_props, ke_group):
    """IKE_SA_INIT request through IkeSa.process_ike_sa_init_request."""
    import ikesa
    from message import Message, Payload, PayloadSA, PayloadKE, PayloadNONCE
    sa = real_ike_sa(False, ike_proposal=mine, keyed=False)
    req = Message(b'\x01' * 8, b'\0' * 8, 2, 0, Message.Exchange.IKE_SA_INIT, False, False, True, 0,
                  [PayloadSA([mk_proposal(p) for p in sa_props]), PayloadKE(ke_group, b'\x33' * 32),
                   PayloadNONCE(b'\x03' * 16)], [])
    with patched():
        try:
            res = sa.process_ike_sa_init_request(req)
        except Exception as ex:
            out = exn_out(ex)
            if FakeDH.calls or sa.ike_sa_keyring is not None:
                return ['refused-but-dh-or-keys-computed', out]
            return out
        if not FakeDH.calls:
            return ['accepted-without-dh']
    p = res.get_payload(Payload.Type.SA).proposals
    if len(p) != 1 or p[0] is not sa.chosen_proposal:
        return ['reply-proposal-is-not-the-chosen-one']
    kes = res.get_payloads(Payload.Type.KE)
    if len(kes) != 1 or kes[0].dh_group != ke_group:
        return ['reply-ke-group-differs']
    return prop_tuple(p[0])


TS_PEER = (7, 0, 0, 65535, 0x0A000200, 0x0A0002FF)
TS_MINE = (7, 0, 0, 65535, 0x0A000100, 0x0A0001FF)


def mk_ts(t):
    from message import TrafficSelector
    from ipaddress import ip_address
    return TrafficSelector(t[0], t[1], t[2], t[3], ip_address(t[4]), ip_address(t[5]))


def impl_child_responder(ike_auth, conf_prop, sa_props, ke):
    """CREATE_CHILD_SA (or the CHILD_SA part of IKE_AUTH) request; returns ['notify', type, data] or the proposal of
    the CHILD_SA that was installed."""
    import ikesa
    from message import (Message, Payload, PayloadSA, PayloadKE, PayloadNONCE, PayloadTSi, PayloadTSr)
    sa = real_ike_sa(False, child_proposal=conf_prop)
    payloads = [PayloadSA([mk_proposal(p) for p in sa_props]), PayloadNONCE(b'\x03' * 16),
                PayloadTSi([mk_ts(TS_PEER)]), PayloadTSr([mk_ts(TS_MINE)])]
    if ke is not None:
        payloads.append(PayloadKE(ke, b'\x33' * 32))
    exch = Message.Exchange.IKE_AUTH if ike_auth else Message.Exchange.CREATE_CHILD_SA
    req = Message(b'\x01' * 8, sa.my_spi, 2, 0, exch, False, False, True, 1, [], payloads)
    sa.state = ikesa.IkeSa.State.ESTABLISHED
    with patched() as calls:
        try:
            if ike_auth:
                out = sa._process_create_child_sa_negotiation_req(req)
            else:
                out = sa.process_create_child_sa_request(req).encrypted_payloads
        except Exception as ex:
            return ['escaped', type(ex).__name__]
        dh_calls = list(FakeDH.calls)
    errors = [p for p in out if p.type == Payload.Type.NOTIFY and p.is_error()]
    if errors:
        if calls or sa.child_sas or dh_calls or len(out) != 1:
            return ['refused-but-not-clean', len(calls), len(sa.child_sas), len(dh_calls), len(out)]
        return ['notify', int(errors[0].notification_type), bytes(errors[0].notification_data)]
    if len(sa.child_sas) != 1 or len([c for c in calls if c[0] == 'create_sa']) != 2:
        return ['no-error-and-not-installed']
    child = sa.child_sas[0]
    rp = out[[p.type for p in out].index(Payload.Type.SA)].proposals
    if len(rp) != 1 or rp[0] is not child.proposal:
        return ['reply-proposal-is-not-the-installed-one']
    t = prop_tuple(child.proposal)
    t[2] = bytes(child.outbound_spi)          # the reply carries our inbound SPI; the peer's is the outbound one
    return t


def impl_initiator_ike(mine, sa_props):
    from message import Message, PayloadSA, PayloadKE, PayloadNONCE
    sa = real_ike_sa(True, ike_proposal=mine, keyed=False)
    sa.chosen_proposal = sa.configuration.proposal
    sa.dh = FakeDH(14)
    resp = Message(sa.my_spi, b'\x09' * 8, 2, 0, Message.Exchange.IKE_SA_INIT, True, False, False, 0,
                   [PayloadSA([mk_proposal(p) for p in sa_props]), PayloadKE(14, b'\x33' * 32),
                    PayloadNONCE(b'\x03' * 16)], [])
    with patched():
        try:
            sa.process_ike_sa_negotiation_response(resp, b'\x04' * 16)
        except Exception as ex:
            if sa.ike_sa_keyring is not None:
                return ['refused-but-keys-computed', type(ex).__name__]
            return type(ex).__name__
    if sa.ike_sa_keyring is None:
        return ['accepted-without-keys']
    return prop_tuple(sa.chosen_proposal)


def impl_initiator_child(ike_auth, offer, sa_props):
    import ikesa
    import xfrm
    from message import (Message, PayloadSA, PayloadKE, PayloadNONCE, PayloadTSi, PayloadTSr)
    sa = real_ike_sa(True)
    sa.state = ikesa.IkeSa.State.NEW_CHILD_REQ_SENT
    sa.dh = FakeDH(14)
    sa.creating_child_sa = ikesa.ChildSa(inbound_spi=b'\xaa' * 4, outbound_spi=b'\0' * 4,
                                         original_proposal=mk_proposal(offer), proposal=mk_proposal(offer),
                                         tsi=[mk_ts(TS_MINE)], tsr=[mk_ts(TS_PEER)], mode=xfrm.Mode.TUNNEL, lifetime=77)
    sa.request = Message(sa.my_spi, b'\x01' * 8, 2, 0, Message.Exchange.CREATE_CHILD_SA, False, False, True, 0, [],
                         [PayloadNONCE(b'\x04' * 16)])
    exch = Message.Exchange.IKE_AUTH if ike_auth else Message.Exchange.CREATE_CHILD_SA
    resp = Message(sa.my_spi, b'\x01' * 8, 2, 0, exch, True, False, False, 0, [],
                   [PayloadSA([mk_proposal(p) for p in sa_props]), PayloadNONCE(b'\x03' * 16),
                    PayloadTSi([mk_ts(TS_MINE)]), PayloadTSr([mk_ts(TS_PEER)]), PayloadKE(14, b'\x33' * 32)])
    with patched() as calls:
        try:
            sa._process_create_child_sa_negotiation_res(resp)
        except Exception as ex:
            if calls or sa.child_sas:
                return ['refused-but-not-clean', type(ex).__name__]
            return type(ex).__name__
    if len(sa.child_sas) != 1 or len([c for c in calls if c[0] == 'create_sa']) != 2:
        return ['no-error-and-not-installed']
    return prop_tuple(sa.child_sas[0].proposal)


def impl_invalid_ke(offer, group):
    """The real IkeSa.handle_invalid_ke on a stored IKE_SA_INIT request carrying `offer`."""
    from struct import pack
    from message import Message, Payload, PayloadSA, PayloadKE, PayloadNONCE, PayloadNOTIFY, Proposal
    sa = real_ike_sa(True, ike_proposal=offer, keyed=False)
    sa.request = Message(sa.my_spi, b'\0' * 8, 2, 0, Message.Exchange.IKE_SA_INIT, False, False, True, 0,
                         [PayloadSA([mk_proposal(offer)]), PayloadKE(9999, b'\x33' * 32), PayloadNONCE(b'\x03' * 16)], [])
    notify = PayloadNOTIFY(Proposal.Protocol.NONE, PayloadNOTIFY.Type.INVALID_KE_PAYLOAD, b'', pack('>H', group))
    with patched():
        try:
            dh, req = sa.handle_invalid_ke([notify])
        except Exception as ex:
            if FakeDH.calls:
                return ['refused-but-dh-computed', type(ex).__name__]
            return type(ex).__name__
        ke = req.get_payload(Payload.Type.KE)
        if FakeDH.calls != [('from_group', group)] or ke.dh_group != group or dh.group != group:
            return ['retry-with-another-group']
    return group


def complete_proposal(ctx, proto):
    types = [ENCR, INTEG, PRF, DH] if proto == IKE else ([ENCR, INTEG, ESN] if ctx.rng.random() < 0.5 else [ENCR, INTEG, DH, ESN])
    ts = []
    for ty in types:
        pool = SUP[ty]
        ts += ctx.rng.sample(pool, ctx.rng.choice((1, 1, 2, min(3, len(pool)))))
    if ctx.rng.random() < 0.5:
        ctx.rng.shuffle(ts)
    return (1, proto, b'', ts)


def gen_e2e_sa(ctx, mine, peer_spi):
    """Peer SA payload over the supported algorithms: 1..3 proposals, some acceptable."""
    types = sorted({t[0] for t in mine[3]})
    sa = []
    for k in range(ctx.rng.choice((1, 1, 2, 3))):
        r = ctx.rng.random()
        spi = peer_spi if mine[1] != IKE else b''
        if r < 0.5:
            ts = [ctx.rng.choice([t for t in mine[3] if t[0] == ty]) for ty in types]
            extra = rnd_transforms(ctx, SUP, types, dup=0.05)
            ts = ts + extra
            ctx.rng.shuffle(ts)
        elif r < 0.8:
            ts = rnd_transforms(ctx, SUP, types, complete=True, dup=0.05)
        else:
            ts = rnd_transforms(ctx, SUP, types[:-1], complete=True) or [SUP[INTEG][0]]
        proto = mine[1] if ctx.rng.random() < 0.93 else (ESP if mine[1] == IKE else AH)
        sa.append((k + 1, proto, spi, ts))
    return sa


def gen_response(ctx, mine):
    """A response proposal: a correct selection of mine, or one tampered with."""
    types = sorted({t[0] for t in mine[3]})
    ts = [ctx.rng.choice([t for t in mine[3] if t[0] == ty]) for ty in types]
    r = ctx.rng.random()
    if r < 0.45:
        pass
    elif r < 0.55:
        ts.append(ctx.rng.choice(ts))                                     # a duplicate
    elif r < 0.7:
        ty = ctx.rng.choice(types)
        ts.append(ctx.rng.choice(SUP[ty]))                                # an extra (maybe foreign) transform
    elif r < 0.8:
        ts.pop(ctx.rng.randrange(len(ts)))                                # a type missing
        ts = ts or [mine[3][0]]
    elif r < 0.9:
        i = ctx.rng.randrange(len(ts))
        ts[i] = ctx.rng.choice(SUP[ts[i][0]])                             # replaced (maybe foreign)
    else:
        ts.append(ctx.rng.choice(SUP[ctx.rng.choice((PRF, DH, ESN))]))    # a type I never offered
    ctx.rng.shuffle(ts)
    proto = mine[1] if ctx.rng.random() < 0.93 else (ESP if mine[1] == IKE else AH)
    return (ctx.rng.randrange(1, 4), proto, b'' if mine[1] == IKE else b'\xdd' * 4, ts)


def first_dh(p):
    return next((t[1] for t in p[3] if t[0] == DH), None)


def gen_cases(ctx):
    """[(tag, input)] for every entry point; sizes fixed per tier."""
    q = ctx.quick()
    cases = []
    for a, b in gen_isect_pairs(ctx):
        cases.append(('isect', [as_lists(a), as_lists(b)]))
    for _ in range(600 if q else 8000):
        proto = ctx.rng.choice((IKE, ESP))
        types = [ENCR, INTEG, PRF, DH] if proto == IKE else [ENCR, INTEG, DH, ESN]
        mine = rnd_proposal(ctx, UNI, proto, types, complete=True, num=1)
        cases.append(('select', [as_lists(mine), [as_lists(p) for p in gen_sa(ctx, mine, UNI)]]))
    for _ in range(150 if q else 2000):
        p = rnd_proposal(ctx, UNI, ESP, ctx.rng.choice(([ENCR, INTEG, DH, ESN], [DH], [DH, ESN])))
        cases.append(('copy', as_lists(p)))
    for _ in range(150 if q else 2000):
        offer = rnd_proposal(ctx, UNI, IKE, [ENCR, INTEG, PRF, DH], complete=True, num=1)
        g = ctx.rng.choice([t[1] for t in offer[3]] + [14, 19, 5, 2, 1, 12, 0])
        cases.append(('invalid_ke', [as_lists(offer), g]))
    for _ in range(350 if q else 4000):
        mine = complete_proposal(ctx, IKE)
        sa = gen_e2e_sa(ctx, mine, b'')
        groups = [t[1] for t in mine[3] if t[0] == DH] + [t[1] for p in sa for t in p[3] if t[0] == DH]
        cases.append(('ike_responder', [as_lists(mine), [as_lists(p) for p in sa], ctx.rng.choice(groups + [14, 19])]))
    for _ in range(350 if q else 4000):
        conf = complete_proposal(ctx, ESP)
        sa = gen_e2e_sa(ctx, conf, b'\xcc' * 4)
        groups = [t[1] for t in conf[3] if t[0] == DH] + [t[1] for p in sa for t in p[3] if t[0] == DH]
        ke = None if ctx.rng.random() < 0.25 else ctx.rng.choice(groups + [14])
        cases.append(('child_responder', [ctx.rng.choice((0, 0, 1)), as_lists(conf), [as_lists(p) for p in sa], ke]))
    for _ in range(300 if q else 4000):
        mine = complete_proposal(ctx, IKE)
        sa = [gen_response(ctx, mine)] + ([gen_response(ctx, mine)] if ctx.rng.random() < 0.2 else [])
        cases.append(('initiator_ike', [as_lists(mine), [as_lists(p) for p in sa]]))
    for _ in range(300 if q else 4000):
        offer = complete_proposal(ctx, ESP)
        sa = [gen_response(ctx, offer)] + ([gen_response(ctx, offer)] if ctx.rng.random() < 0.2 else [])
        cases.append(('initiator_child', [ctx.rng.choice((0, 0, 1)), as_lists(offer), [as_lists(p) for p in sa]]))
    return cases


def _t(x):
    """JSON/sx lists back to the tuple form used by the impl_* functions."""
    return (x[0], x[1], bytes(x[2]) if not isinstance(x[2], str) else bytes.fromhex(x[2]), [tuple(t) for t in x[3]])


def run_impl(tag, i):
    if tag == 'isect':
        return impl_isect(_t(i[0]), _t(i[1]))
    if tag == 'select':
        return impl_select(_t(i[0]), [_t(p) for p in i[1]])
    if tag == 'copy':
        return impl_copy(_t(i))
    if tag == 'invalid_ke':
        return impl_invalid_ke(_t(i[0]), i[1])
    if tag == 'ike_responder':
        return impl_ike_responder(_t(i[0]), [_t(p) for p in i[1]], i[2])
    if tag == 'child_responder':
        return impl_child_responder(i[0], _t(i[1]), [_t(p) for p in i[2]], i[3])
    if tag == 'initiator_ike':
        return impl_initiator_ike(_t(i[0]), [_t(p) for p in i[1]])
    if tag == 'initiator_child':
        return impl_initiator_child(i[0], _t(i[1]), [_t(p) for p in i[2]])
    raise ValueError(tag)


# =============================================================================================
# tie 2: correspondence model <-> implementation

def correspond(ctx):
    cases = []
    for tag, i in gen_cases(ctx):
        out = run_impl(tag, i)
        cases.append(([tag, i], out))
        if isinstance(out, int) or (isinstance(out, list) and out and isinstance(out[0], int)):
            kind = 'ok'
        else:
            kind = out if isinstance(out, str) else str(out[0])
        if tag == 'isect':
            kind = 'some' if out[0] is not None else 'none'
        ctx.count(f'{tag}:{kind}')
        ctx.case([tag, i], nontrivial=(tag != 'isect' or i[0][3] != i[1][3]),
                 sample=(len(ctx.samples) < 6 and ctx.hist[f'{tag}:{kind}'] == 1))
    order = list(range(len(cases)))
    ctx.rng.shuffle(order)
    cases = [cases[k] for k in order]
    shard = min(1200, max(300, -(-len(cases) // core.NPROC)))
    bad = core.run_cases(ctx, CLUSTER, 'From Nego Require Import NegoRun.', 'run_any', cases, shard=shard)
    return [Failure('correspondence', 'nego:' + cases[gi][0][0],
                    f'model {model_out} vs implementation {cases[gi][1]} on {cases[gi][0]}',
                    {'kind': 'case', 'tag': cases[gi][0][0], 'input': jsonable(cases[gi][0][1]),
                     'impl': jsonable(cases[gi][1]), 'model': model_out})
            for gi, model_out in bad[:8]]


def jsonable(x):
    if isinstance(x, (bytes, bytearray)):
        return bytes(x).hex()
    if isinstance(x, (list, tuple)):
        return [jsonable(e) for e in x]
    return x


# =============================================================================================
# the property on the real code only (no model): the theorem conclusions as executable predicates

def spec_suite(mine, peer):
    """Independent statement of the suite: per type of mine (in order of first selection), the first of my
    transforms of that type that the peer offers; None unless every type is covered and the protocols agree."""
    if mine[1] != peer[1]:
        return None
    chosen = {}
    for t in mine[3]:
        if t in peer[3] and t[0] not in chosen:
            chosen[t[0]] = t
    if set(chosen) != {t[0] for t in mine[3]}:
        return None
    return [peer[0], mine[1], bytes(peer[2]), [list(t) for t in chosen.values()]]


def canon(p):
    """A proposal with its transforms as a sorted list: the order of the chosen transforms is not part of the property."""
    if isinstance(p, list) and len(p) == 4 and isinstance(p[3], list):
        return [p[0], p[1], p[2], sorted([list(t) for t in p[3]], key=lambda t: (t[0], t[1], -1 if t[2] is None else t[2]))]
    return p


def check_suite(tag, obj, mine, sa, got):
    """got: the proposal chosen by the responder for my offer `mine` against the peer proposals `sa`."""
    want = next((s for s in (spec_suite(mine, p) for p in sa) if s is not None), None)
    if isinstance(got, list) and got and isinstance(got[0], int):
        ts = [tuple(t) for t in got[3]]
        types = [t[0] for t in ts]
        src_p = next((p for p in sa if spec_suite(mine, p) is not None), None)
        if want is None or len(set(types)) != len(types) or set(types) != {t[0] for t in mine[3]} \
                or any(t not in mine[3] for t in ts) or src_p is None or any(t not in src_p[3] for t in ts) \
                or canon(got) != canon(want):
            return Failure('property', 'nego:suite-outside-both-offers-or-not-preferred',
                           f'{tag}: chose {got}; first acceptable peer proposal / my preference give {want}', obj)
        return None
    return 'refused'


def check_case(tag, i):
    obj = {'kind': 'case', 'tag': tag, 'input': jsonable(i)}
    got = run_impl(tag, i)
    if isinstance(got, list) and got and isinstance(got[0], str) and got[0] not in ('InvalidKePayload', 'notify'):
        return Failure('property', 'nego:' + got[0], f'{tag}: {got}', obj)
    if tag == 'isect':
        a, b = _t(i[0]), _t(i[1])
        want = spec_suite(a, b)
        sub_ab = want is not None and set(map(tuple, want[3])) == set(a[3])
        wb = spec_suite(b, a)
        sub_ba = wb is not None and set(map(tuple, wb[3])) == set(b[3])
        exp = [want, sub_ab, sub_ba, a[1] == b[1] and set(a[3]) == set(b[3])]
        if [canon(got[0])] + got[1:] != [canon(want)] + exp[1:]:
            return Failure('property', 'nego:intersection-not-the-preferred-common-suite',
                           f'intersection/is_subset/== of {a} and {b} = {got}, expected {exp}', obj)
    elif tag == 'select':
        mine, sa = _t(i[0]), [_t(p) for p in i[1]]
        r = check_suite(tag, obj, mine, sa, got)
        if isinstance(r, Failure):
            return r
        if r == 'refused' and (got != 'NoProposalChosen' or any(spec_suite(mine, p) is not None for p in sa)):
            return Failure('property', 'nego:acceptable-proposal-refused', f'select: {got} for {mine} / {sa}', obj)
    elif tag == 'ike_responder':
        mine, sa, ke = _t(i[0]), [_t(p) for p in i[1]], i[2]
        r = check_suite(tag, obj, mine, sa, got)
        if isinstance(r, Failure):
            return r
        want = next((s for s in (spec_suite(mine, p) for p in sa) if s is not None), None)
        grp = next((t[1] for t in want[3] if t[0] == DH), None) if want else None
        if r is None:
            if grp != ke:
                return Failure('property', 'nego:ke-group-mismatch-accepted', f'KE group {ke}, chosen group {grp}', obj)
        elif want is None:
            if got != 'NoProposalChosen':
                return Failure('property', 'nego:no-proposal-not-refused', f'{got}', obj)
        elif got != ['InvalidKePayload', grp, [17, grp.to_bytes(2, 'big')]] or grp == ke:
            return Failure('property', 'nego:invalid-ke-answer', f'KE group {ke}, chosen group {grp}: {got}', obj)
    elif tag == 'child_responder':
        ia, conf, sa, ke = i[0], _t(i[1]), [_t(p) for p in i[2]], i[3]
        mine = (conf[0], conf[1], conf[2], [t for t in conf[3] if t[0] != DH]) if ia else conf
        want = next((s for s in (spec_suite(mine, p) for p in sa) if s is not None), None)
        grp = next((t[1] for t in want[3] if t[0] == DH), None) if want else None
        if got and got[0] == 'notify':
            if want is None or (grp is not None and ke is None):
                ok = got == ['notify', 14, b'']
            else:
                ok = grp is not None and grp != ke and got == ['notify', 17, grp.to_bytes(2, 'big')]
            if not ok:
                return Failure('property', 'nego:child-refusal', f'suite {want}, KE {ke}: answered {got}', obj)
        else:
            r = check_suite(tag, obj, mine, sa, got)
            if isinstance(r, Failure):
                return r
            if grp is not None and grp != ke:
                return Failure('property', 'nego:ke-group-mismatch-accepted', f'KE group {ke}, chosen group {grp}', obj)
    elif tag in ('initiator_ike', 'initiator_child'):
        if tag == 'initiator_ike':
            mine, resp = _t(i[0]), _t(i[1][0])
        else:
            offer, resp = _t(i[1]), _t(i[2][0])
            mine = (offer[0], offer[1], offer[2], [t for t in offer[3] if t[0] != DH]) if i[0] else offer
        if isinstance(got, list):     # accepted
            ts = resp[3]
            one_per_type = all(len({u for u in ts if u[0] == t[0]}) == 1 for t in ts)
            drawn = all(t in mine[3] for t in ts) and resp[1] == mine[1]
            full = tag == 'initiator_ike' or {t[0] for t in ts} == {t[0] for t in mine[3]}
            if not (one_per_type and drawn and full) or got != as_lists(resp):
                return Failure('property', 'nego:foreign-response-accepted',
                               f'{tag}: response {resp} accepted for offer {mine}', obj)
    elif tag == 'invalid_ke':
        offer, g = _t(i[0]), i[1]
        offered = g in [t[1] for t in offer[3] if t[0] == DH]
        if (got == g) != offered or (not offered and got != 'NoProposalChosen'):
            return Failure('property', 'nego:suggested-group-not-offered',
                           f'suggested group {g}, offered {[t[1] for t in offer[3] if t[0] == DH]}: {got}', obj)
    return None


def oracle(ctx, deep):
    fails = []
    cases = gen_cases(ctx)
    if not deep:
        ctx.rng.shuffle(cases)
        cases = cases[:2500]
    for tag, i in cases:
        f = check_case(tag, i)
        if f is not None and sum(1 for x in fails if x.signature == f.signature) < 3:
            fails.append(f)
    return fails + deviant_e2e(ctx, deep)


_INTEG_NAMES = {1: (b'hmac(md5)', 128), 2: (b'hmac(sha1)', 160), 12: (b'hmac(sha256)', 256), 14: (b'hmac(sha512)', 512)}


def installed_within_offers(ctx, label, actions, conf, seed):
    """End to end through main_loop, whatever the peer answers (an authenticated peer that rewrites its payloads, a peer
    configured differently): the algorithms of every IPsec SA in an endpoint's kernel are transforms of one of ITS OWN
    configured CHILD_SA proposals, and the algorithms of every IKE_SA it holds with keys are transforms of ITS OWN IKE
    proposal (one transform per type)."""
    from sim.scenarios import Pair
    from sim.world import LoopEscape
    import xfrm
    rep = {'kind': 'e2e', 'label': label, 'actions': actions, 'conf': conf, 'seed': seed}
    with Pair(seed=seed, **conf) as p:
        def look(step):
            for n in 'AB':
                ep = p.ep(n)
                confs = list(ep.configuration.ike_configurations.values())
                own_child = [(int(t.type), int(t.id), t.keylen) for c in confs for pr in c.protect
                             for t in pr.proposal.transforms]
                own_ike = [(int(t.type), int(t.id), t.keylen) for c in confs for t in c.proposal.transforms]
                for key, sa in ep.kernel.sad.items():
                    ctx.count('e2e-installed-sa')
                    for code, (name, klen, _k) in sa['algs'].items():
                        if code == xfrm.XFRMA_ALG_CRYPT:
                            ok = name == b'cbc(aes)' and (1, 12, klen) in own_child
                        else:
                            ok = any(_INTEG_NAMES.get(i) == (name, klen) and (3, i, None) in own_child
                                     for i in _INTEG_NAMES)
                        if not ok:
                            return Failure('property', 'nego:installed-algorithm-not-offered',
                                           f'{label}: after step {step} endpoint {n} holds IPsec SA {key[2].hex()} with '
                                           f'{name.decode()}/{klen}, which is in none of its own CHILD_SA proposals '
                                           f'{sorted(set(own_child))}', rep)
                for x in ep.controller.ike_sas:
                    if x.chosen_proposal is not None and x.my_crypto is not None:
                        ts_ = [(int(t.type), int(t.id), t.keylen) for t in x.chosen_proposal.transforms]
                        if any(t not in own_ike for t in ts_) or len({t[0] for t in ts_}) != len(ts_):
                            return Failure('property', 'nego:ike-sa-algorithm-not-offered',
                                           f'{label}: after step {step} endpoint {n} holds an IKE_SA with transforms {ts_}; '
                                           f'its own proposal is {own_ike}', rep)
            return None
        try:
            for i, a in enumerate(list(actions) + [['deliver', 0]] * 6):
                p.do(a)
                f = look(i)
                if f is not None:
                    return [f]
        except LoopEscape as ex:
            return [Failure('property', 'loop:escaped-exception', f'{label}: {ex.exc!r}', rep)]
    ctx.case(['e2e', label], nontrivial=True)
    return []


def deviant_e2e(ctx, deep):
    from props import hdl
    fails = []
    for label, acts, conf, seed, skip in hdl.deviant_set(deep, ctx.seed):
        fails += installed_within_offers(ctx, label, acts, conf, seed)
        if len(fails) > 2:
            break
    return fails


def replay(ctx, obj):
    if obj.get('kind') == 'e2e':
        return installed_within_offers(ctx, obj['label'], obj['actions'], obj['conf'], obj['seed'])
    if obj.get('kind') != 'case':
        return []

    def back(x):
        if isinstance(x, list) and len(x) == 4 and isinstance(x[2], str) and isinstance(x[3], list):
            return [x[0], x[1], bytes.fromhex(x[2]), [list(t) for t in x[3]]]
        if isinstance(x, list):
            return [back(e) for e in x]
        return x
    f = check_case(obj['tag'], back(obj['input']))
    return [f] if f is not None else []


def translate_all(ctx):
    """this cluster's facts, and the facts of the state-machine cluster whose handler model the C11H theorems are about"""
    translate(ctx)
    from props import ikefacts
    ikefacts.translate(ctx)


def correspond_all(ctx):
    from props import hdl
    return (correspond(ctx) or []) + hdl.tie(ctx)


CHECK = core.Check(
    'C11', CLUSTER, ['Props/C11.v', ('ikesa', 'Props/C11H.v')], translate=translate_all, correspond=correspond_all, oracle=oracle, replay=replay,
    deps=('lib', 'ikesa'),
    rule='(1) proposal pairs: every pair of ordered sub-lists (length 1..4) of a 5-transform universe {aes128, aes256, '
         'sha1, sha256, modp2048} exhaustively (thorough, 42025 pairs; quick: 2500 sampled) + random proposals over '
         'ENCR(x5 incl. key length None) / INTEG x3 / PRF x3 / DH x3 / ESN x2 with interleaved types, duplicates, '
         'differing protocols, selections and permutations of the other side, through the real Proposal.intersection '
         '/ is_subset / __eq__; (2) random 1..4-proposal SA payloads through IkeSa._select_best_sa_proposal; '
         '(3) copy_without_dh_transforms; (4) handle_invalid_ke on a real stored request; (5) IKE_SA_INIT requests '
         'through process_ike_sa_init_request, CREATE_CHILD_SA / IKE_AUTH child requests through '
         'process_create_child_sa_request, responses through process_ike_sa_negotiation_response and '
         '_process_create_child_sa_negotiation_res (DiffieHellman replaced by a recorder, Xfrm.create_sa recorded). '
         'Non-trivial: the two transform lists differ; distinct by content hash',
    trusted_base=['Coq 8.16.1 kernel (coqc, vm_compute; no native_compute)',
                  'py/props/c11.py translator (message.py: Transform.__hash__/__eq__ fields, Proposal.intersection '
                  'guard / loop order / selection condition / success test / result fields, __eq__, is_subset, '
                  'copy_without_dh_transforms filter; ikesa.py: _select_best_sa_proposal call, KE group comparison, '
                  'initiator checks, suggested-group check -> Gen/NegoFacts.v; statement order around the DH '
                  'computation and the installation is pattern-checked, fail closed)',
                  'hand model coq/nego/Nego.v (loops, call sequences) tied by the correspondence harness '
                  'py/props/c11.py on the real Proposal / IkeSa code',
                  'Python dict insertion order, set equality, enum hashing (SafeIntEnum hashes by member name)'],
    assumptions=['Transform.__eq__ compares hash((type, id, keylen)): the theorems read it as equality of the triple, '
                 'i.e. no collision of Python\'s tuple/str hash between two different triples that occur',
                 'Proposal objects have a non-empty transform list (the constructor refuses an empty one); for an '
                 'empty list the real intersection raises InvalidSyntax where the model returns a value',
                 '"nothing installed / no DH computation when refused" is established by the translator\'s statement '
                 'order check and observed by the correspondence runs, it is not a Coq theorem',
                 'CHILD_SA initiator: the accepted response proposal is compared as a set (Proposal.__eq__), so it may '
                 'repeat a transform; "exactly one per type" is proved for distinct transforms'],
)
