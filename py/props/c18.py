"""C18 - under load, no responder state or DH work without a valid cookie."""
import hashlib
import hmac
import random
from ipaddress import ip_address

from props import hdl
from props import shellcommon as sc
from sim.scenarios import Pair
from sim.world import LoopEscape
from vlib import core
from vlib.core import Failure

IPA, IPB, IPC = '192.168.0.1', '192.168.0.2', '192.168.0.3'
DH_PREF = {'dh': ('14', 'ecp256'), 'dh_b': ('ecp256', '14')}
NO_COMMON = {'over_b': {'conn': {'encr': ['aes128']}}, 'encr': ('aes256',)}
VARIANTS = ['none', 'correct', 'corrupted', 'other_spi', 'other_nonce', 'other_address', 'two_first_wrong',
            'two_first_right', 'missing_ke', 'missing_nonce']


def junk(p, n, base, secret):
    """n half-open entries at B: copies of A's real IKE_SA_INIT request under other initiator SPIs (each is answered
    and stays INIT_RES_SENT); once the responder asks for a cookie, the copy is sent again with the cookie B asked for
    (as an honest initiator does - the harness does not compute cookies here).
    (Until fix 73b0c79 a bare header without the I flag was enough, finding F20.)"""
    from message import Message, Payload, PayloadNOTIFY
    for k in range(n):
        m = Message.parse(base)
        m.spi_i = bytes([0x70 + k]) * 8
        out = p.B.datagram(IPB, IPA, bytes(m.to_bytes()))
        if out:
            r = Message.parse(out[0][2])
            ck = [pl for pl in r.payloads if pl.type == Payload.Type.NOTIFY
                  and pl.notification_type == PayloadNOTIFY.Type.COOKIE]
            if ck:
                m.payloads.insert(0, PayloadNOTIFY(0, PayloadNOTIFY.Type.COOKIE, b'', ck[0].notification_data))
                p.B.datagram(IPB, IPA, bytes(m.to_bytes()))
    p.sim.net.clear()


def build(variant, base, cookie, rng):
    """IKE_SA_INIT request derived from A's real request `base` (bytes) and the cookie B issued for it."""
    import message
    from message import Message, PayloadNOTIFY, Payload
    m = Message.parse(base)
    src = IPA

    def ck(data):
        return PayloadNOTIFY(0, PayloadNOTIFY.Type.COOKIE, b'', data)
    if variant == 'none':
        pass
    elif variant == 'correct':
        m.payloads.insert(0, ck(cookie))
    elif variant == 'corrupted':
        c = bytearray(cookie)
        c[rng.randrange(len(c))] ^= 1 << rng.randrange(8)
        m.payloads.insert(0, ck(bytes(c)))
    elif variant == 'other_spi':
        m.payloads.insert(0, ck(cookie))
        m.spi_i = bytes(rng.getrandbits(8) for _ in range(8))
    elif variant == 'other_nonce':
        m.payloads.insert(0, ck(cookie))
        for pl in m.payloads:
            if pl.type == Payload.Type.NONCE:
                pl.nonce = bytes(rng.getrandbits(8) for _ in range(len(pl.nonce)))
    elif variant == 'other_address':
        m.payloads.insert(0, ck(cookie))
        src = IPC
    elif variant == 'two_first_wrong':
        m.payloads.insert(0, ck(cookie))
        m.payloads.insert(0, ck(bytes(len(cookie))))
    elif variant == 'two_first_right':
        m.payloads.insert(0, ck(bytes(len(cookie))))
        m.payloads.insert(0, ck(cookie))
    elif variant == 'missing_ke':
        m.payloads = [pl for pl in m.payloads if pl.type != Payload.Type.KE]
    elif variant == 'missing_nonce':
        m.payloads = [pl for pl in m.payloads if pl.type != Payload.Type.NONCE]
    return bytes(m.to_bytes()), src


def observe(ctx, seed, h, variant, conf=None):
    """One IKE_SA_INIT request of the given variant against a responder holding h half-open entries."""
    import message
    from message import Message, Payload, PayloadNOTIFY
    rng = random.Random(seed)
    with Pair(seed=seed, **(conf or {})) as p:
        # a second configured peer address, so that a cookie can be replayed from another source
        cfg = p.B.configuration
        base_conf = cfg.ike_configurations[(ip_address(IPB), ip_address(IPA))]
        cfg.ike_configurations[(ip_address(IPB), ip_address(IPC))] = base_conf._replace(peer_addr=ip_address(IPC))
        # A's real request
        sent = p.do(['acquire', 'A', 80])
        p.sim.net.clear()
        base = sent[0][2]
        secret = p.B.controller.cookie_secret
        m0 = Message.parse(base)
        nonce = m0.get_payload(Payload.Type.NONCE).nonce
        cookie = hmac.new(secret, m0.spi_i + nonce + ip_address(IPA).packed, hashlib.sha256).digest()
        junk_base = base
        if conf:
            # differing DH preferences: the first request (the one under test) carries a KE group the responder would
            # not pick; the half-open entries are made from the initiator's RETRY, which the responder accepts
            p.sim.net.append(sent[0])
            p.do(['deliver', 0])                      # B: INVALID_KE_PAYLOAD, no state
            p.do(['deliver', 0])                      # A: retry with the suggested group (left undelivered)
            junk_base = p.sim.net[0][2]
            p.sim.net.clear()
        junk(p, h, junk_base, secret)
        if sum(1 for s_ in p.B.controller.ike_sas if int(s_.state) < 10) != h:
            raise RuntimeError(f'C18 harness: {h} half-open entries wanted')
        data, src = build(variant, base, cookie, rng)
        m = Message.parse(data)
        table_before = len(p.B.controller.ike_sas)
        halfopen_before = sum(1 for s in p.B.controller.ike_sas if int(s.state) < 10)
        dh_before = p.B.dh_calls
        nreq = p.B.kernel.n
        armed = {}
        from ikesa import IkeSa
        from unittest import mock
        orig = IkeSa.process_message

        def pm(self_, d):
            armed['v'] = self_.cookie_secret is not None
            return orig(self_, d)
        with mock.patch.object(IkeSa, 'process_message', pm):
            out = p.B.datagram(IPB, src, data)
        reply = Message.parse(out[0][2]) if out else None
        cookies = [pl.notification_data for pl in m.payloads
                   if pl.type == Payload.Type.NOTIFY and pl.notification_type == PayloadNOTIFY.Type.COOKIE]
        has = {t: any(pl.type == t for pl in m.payloads) for t in (Payload.Type.SA, Payload.Type.NONCE, Payload.Type.KE)}
        nonce_now = next((pl.nonce for pl in m.payloads if pl.type == Payload.Type.NONCE), b'')
        expected = hmac.new(secret, m.spi_i + nonce_now + ip_address(src).packed, hashlib.sha256).digest()
        kinds = [int(pl.type) for pl in reply.payloads] if reply else []
        notifies = [(int(pl.notification_type), bytes(pl.notification_data)) for pl in (reply.payloads if reply else [])
                    if pl.type == Payload.Type.NOTIFY]
        if kinds == [41] and notifies and notifies[0][0] == 16390:
            kind = 1
        elif 33 in kinds and 34 in kinds and 40 in kinds:
            kind = 2
        else:
            kind = 0
        obs = {
            'h': h, 'variant': variant, 'halfopen_incl_new': halfopen_before + 1, 'armed': bool(armed.get('v')),
            'has': [bool(has[Payload.Type.SA]), bool(has[Payload.Type.NONCE]), bool(has[Payload.Type.KE])],
            'ncookies': len(cookies), 'first_equal': bool(cookies and cookies[0] == expected),
            'kind': kind, 'dh_delta': p.B.dh_calls - dh_before, 'table_delta': len(p.B.controller.ike_sas) - table_before,
            'netlink_delta': p.B.kernel.n - nreq, 'reply_kinds': kinds, 'notifies': notifies,
            'expected_cookie': expected, 'request': data.hex(), 'src': src, 'seed': seed, 'conf': conf or {},
        }
    return obs


def to_case(o):
    secret_set = 1 if o['armed'] else 0
    return ([o['halfopen_incl_new'], secret_set, int(o['has'][0]), int(o['has'][1]), int(o['has'][2]), o['ncookies'],
             int(o['first_equal'])],
            [int(o['armed']), o['kind'], 0])


def grid(ctx):
    hs = range(7, 14)
    for h in hs:
        for v in VARIANTS:
            yield h, v


def correspond(ctx):
    cases, obs = [], []
    for h, v in grid(ctx):
        o = observe(ctx, ctx.rng.getrandbits(32), h, v)
        # the model reports (armed?, kind, dh calls of the prefix); the real dh_delta is compared by the oracle
        cases.append(to_case(o))
        obs.append(o)
        ctx.case({'halfopen': o['halfopen_incl_new'], 'variant': v, 'kind': o['kind'], 'armed': o['armed']},
                 nontrivial=True, sample=len(ctx.samples) < 5)
        ctx.count('variant:' + v)
        ctx.count('armed:%s' % o['armed'])
    ctx.obs = obs
    bad = core.run_cases(ctx, sc.CLUSTER, 'From IkeSa Require Import CookieRun.', 'run_cookie', cases, shard=300,
                         name='cookie')
    fails = []
    for gi, model_out in bad[:6]:
        o = obs[gi]
        fails.append(Failure('correspondence', 'cookie:model-vs-code',
                             f'h={o["h"]} {o["variant"]}: implementation {cases[gi][1]} / model {model_out[-300:]}',
                             {'h': o['h'], 'variant': o['variant'], 'seed': o['seed']}))
    # Props/C18H.v is stated about the endpoint model (Endpoint.v over Hdl.v): its tie is the endpoint-history
    # correspondence, which includes the cookie_handshake history (flood, cookie challenge, retry, completion)
    return fails + hdl.tie(ctx)


def judge(o):
    """the property on one observation of the real code"""
    f = []
    rep = {'h': o['h'], 'variant': o['variant'], 'seed': o['seed'], 'conf': o['conf']}
    want_armed = o['halfopen_incl_new'] > 10
    if o['armed'] != want_armed:
        f.append(Failure('property', 'cookie:threshold', f'{o["halfopen_incl_new"]} half-open IKE_SAs (new one included): '
                         f'cookie secret armed={o["armed"]}', rep))
        return f
    well_formed = all(o['has'])
    if o['armed'] and well_formed and not (o['ncookies'] and o['first_equal']):
        if o['dh_delta']:
            f.append(Failure('property', 'cookie:dh-without-cookie', f'{o["variant"]}: {o["dh_delta"]} Diffie-Hellman '
                             'computation(s) for a request without a valid cookie', rep))
        if o['reply_kinds'] != [41] or not o['notifies'] or o['notifies'][0] != (16390, o['expected_cookie']):
            f.append(Failure('property', 'cookie:reply-not-cookie-only', f'{o["variant"]}: reply payloads '
                             f'{o["reply_kinds"]} notifies {[(n, d.hex()) for n, d in o["notifies"]]}; expected only '
                             f'N(COOKIE, {o["expected_cookie"].hex()})', rep))
        if o['table_delta'] != 0:
            f.append(Failure('property', 'cookie:state-left-behind', f'{o["variant"]}: the table grew by '
                             f'{o["table_delta"]}', rep))
        if o['netlink_delta']:
            f.append(Failure('property', 'cookie:kernel-touched', f'{o["variant"]}: netlink requests issued', rep))
    if o['armed'] and not well_formed:
        if o['dh_delta'] or o['table_delta'] != 0:
            f.append(Failure('property', 'cookie:work-for-malformed-request', f'{o["variant"]}: dh {o["dh_delta"]}, '
                             f'table {o["table_delta"]}', rep))
    if o['armed'] and well_formed and o['ncookies'] and o['first_equal'] and not o['conf']:
        if o['kind'] != 2 or o['table_delta'] != 1:
            f.append(Failure('property', 'cookie:valid-cookie-refused', f'{o["variant"]}: kind {o["kind"]}', rep))
    if o['variant'] in ('other_spi', 'other_nonce', 'other_address', 'corrupted', 'two_first_wrong') and o['armed'] \
            and o['kind'] == 2:
        f.append(Failure('property', 'cookie:not-bound', f'{o["variant"]}: a cookie issued for another SPI/nonce/address '
                         'was accepted', rep))
    return f


def initiator_side(ctx, seed):
    """The initiator repeats the identical request with the cookie first, Message ID 0, then completes."""
    from message import Message, Payload, PayloadNOTIFY
    f = []
    with Pair(seed=seed) as p:
        sent = p.do(['acquire', 'A', 80])
        first = sent[0][2]
        p.do(['flood', 'B', 11])
        if sum(1 for s_ in p.B.controller.ike_sas if int(s_.state) < 10) != 10:
            raise RuntimeError('C18 harness: flood did not leave 10 half-open entries')
        p.do(['deliver', 0])                 # B answers with COOKIE
        if not p.sim.net:
            return [Failure('property', 'cookie:no-cookie-reply', 'no reply', {'seed': seed, 'initiator': True})]
        reply = Message.parse(p.sim.net[0][2])
        out = p.do(['deliver', 0])           # A retries
        retry = [d for (s, dst, d) in out if s == IPA]
        ctx.case({'initiator_retry': True}, nontrivial=True)
        if len(retry) != 1:
            return [Failure('property', 'cookie:no-retry', f'{len(retry)} datagrams', {'seed': seed, 'initiator': True})]
        m1, m2 = Message.parse(first), Message.parse(retry[0])
        ck = reply.get_notifies(PayloadNOTIFY.Type.COOKIE)[0]
        same_rest = [bytes(x.to_bytes()) for x in m2.payloads[1:]] == [bytes(x.to_bytes()) for x in m1.payloads]
        first_is_cookie = (m2.payloads[0].type == Payload.Type.NOTIFY and
                           m2.payloads[0].notification_data == ck.notification_data)
        if not (same_rest and first_is_cookie and m2.message_id == 0 and m2.spi_i == m1.spi_i):
            f.append(Failure('property', 'cookie:retry-differs', 'the retry is not the original request with the cookie '
                             f'placed first (same payloads: {same_rest}, cookie first: {first_is_cookie}, id '
                             f'{m2.message_id})', {'seed': seed, 'initiator': True}))
        sa = next(s for s in p.A.controller.ike_sas)
        if bytes(sa.request_data) != retry[0] or bytes(sa.ike_sa_init_req_data) != retry[0]:
            f.append(Failure('property', 'cookie:retry-not-stored', 'stored request / authenticated octets are not the '
                             'retry', {'seed': seed, 'initiator': True}))
        p.drain()
        if not p.established() or sorted(p.A.kernel.sad) != sorted(p.B.kernel.sad) or not p.A.kernel.sad:
            f.append(Failure('property', 'cookie:handshake-did-not-complete', 'after the cookie round the exchange did '
                             'not complete', {'seed': seed, 'initiator': True}))
    return f


def ignored_requests(ctx, seed):
    """F20: an IKE_SA_INIT request the responder ignores (Message ID other than 0, or no initiator flag) used to leave
    the IkeSa object created for it in the table for ever, in state INITIAL - per-datagram state without any cookie,
    and at no cost to the sender (28 bytes)."""
    f = []
    rng = random.Random(seed)
    with Pair(seed=seed) as p:
        sent = p.do(['acquire', 'A', 80])
        p.sim.net.clear()
        base = sent[0][2]
        shapes = []
        for k in range(12):
            spi = bytes(rng.getrandbits(8) for _ in range(8))
            bare = spi + bytes(8) + bytes([0, 0x20, 34, 0x00]) + bytes(4) + (28).to_bytes(4, 'big')
            noflag = spi + base[8:19] + bytes([base[19] & ~0x08 & 0xFF]) + base[20:]
            badid = spi + base[8:20] + (1 + rng.randrange(9)).to_bytes(4, 'big') + base[24:]
            shapes += [('bare header without the I flag', bare), ('real request without the I flag', noflag),
                       ('real request with Message ID > 0', badid)]
        before = len(p.B.controller.ike_sas)
        dh0, n0 = p.B.dh_calls, p.B.kernel.n
        for what, data in shapes:
            try:
                out = p.B.datagram(IPB, IPA, data)
            except LoopEscape as ex:
                return [Failure('property', 'loop:escaped-exception', f'F20: {ex.exc!r}', {'regression': 'F20', 'seed': seed})]
            ctx.case({'ignored_request': what}, nontrivial=True, sample=False)
            left = [int(s.state) for s in p.B.controller.ike_sas]
            if len(left) != before or out or p.B.dh_calls != dh0 or p.B.kernel.n != n0:
                f.append(Failure('property', 'cookie:ignored-request-leaves-state',
                                 f'F20 is back: an ignored IKE_SA_INIT request ({what}, {len(data)} bytes, no cookie) left '
                                 f'the responder table at {left} (was {before} entries), replies {len(out)}, DH '
                                 f'{p.B.dh_calls - dh0}, netlink {p.B.kernel.n - n0}',
                                 {'regression': 'F20', 'seed': seed}))
                break
    return f


def oracle(ctx, deep):
    fails = []
    obs = getattr(ctx, 'obs', None)
    if obs is None or deep:
        obs = [observe(ctx, ctx.rng.getrandbits(32), h, v) for h, v in grid(ctx)]
        if deep:
            for _ in range(3):
                obs += [observe(ctx, ctx.rng.getrandbits(32), h, v) for h, v in grid(ctx)]
    # the same under load when the initiator's KE group is not the one the responder would pick (differing DH
    # preferences): without the right cookie the answer is still nothing but the COOKIE notification - neither
    # INVALID_KE_PAYLOAD nor NO_PROPOSAL_CHOSEN (the cookie test precedes ALL negotiation work)
    for conf in (DH_PREF,):
        for h in (10, 12):
            for v in ('none', 'corrupted', 'other_nonce', 'two_first_wrong'):
                obs.append(observe(ctx, ctx.rng.getrandbits(32), h, v, conf))
    for o in obs:
        fails += judge(o)
        if len(fails) > 4:
            break
    fails += initiator_side(ctx, ctx.rng.getrandbits(32))
    fails += ignored_requests(ctx, ctx.rng.getrandbits(32))
    return fails


def replay(ctx, obj):
    if obj.get('initiator'):
        return initiator_side(ctx, obj['seed'])
    if obj.get('regression') == 'F20':
        return ignored_requests(ctx, obj['seed'])
    if 'variant' in obj:
        return judge(observe(ctx, obj['seed'], obj['h'], obj['variant'], obj.get('conf') or None))
    return []


CHECK = core.Check(
    'C18', sc.CLUSTER, ['Props/C18.v', 'Props/C18H.v'], translate=sc.translate, correspond=correspond, oracle=oracle, replay=replay,
    deps=('lib',),
    rule='complete grid: half-open counts 7..13 x 10 request variants (no cookie, correct, corrupted, cookie replayed '
         'with another SPI / nonce / source address, two cookies in both orders, KE or NONCE missing), each built from the '
         "initiator's real IKE_SA_INIT request and sent to the real responder through main_loop; every case non-trivial; "
         'plus the initiator-side retry run',
    trusted_base=sc.TRUSTED + hdl.TRUSTED + ['HMAC-SHA256 is a Section variable of the theorems; the oracle recomputes the expected '
                               'cookie with hmac/hashlib independently'],
    assumptions=['"no DH work" is carried by the statement order of _process_ike_sa_negotiation_request (checked by the '
                 'translator: nothing but the three payload look-ups precedes the cookie test) and counted on the real '
                 'code by the oracle (calls of DiffieHellman.from_group)'],
)
