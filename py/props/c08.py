"""C08 - message-ID window: a request runs at most once, replays come from cache."""
import copy

from props import shellcommon as sc
from sim.scenarios import Pair
from sim.trace import hdr_fields
from sim.world import LoopEscape
from vlib import core
from vlib.core import Failure


def focus(r):
    """non-trivial for C08: a request/response whose Message ID is not the expected one (replay, old, future)"""
    if r['kind'] != 0 or 'hdr' not in r:
        return False
    mid, is_resp = r['hdr'][7], r['hdr'][5]
    return (mid != r['pre'][5]) if is_resp else (mid != r['pre'][6])


def correspond(ctx):
    runs = sc.plan(ctx)
    results = sc.execute(ctx, runs)
    ctx.results = results
    fails = sc.shell_correspondence(ctx, results, kinds=(0, 4), focus=focus)
    for res in results:
        if res['escape']:
            fails.append(Failure('correspondence', 'loop:escape', f'{res["name"]}: {res["escape"]}',
                                 {'scenario': res['name'], 'actions': res['actions'], 'conf': res['conf'],
                                  'seed': res['seed']}))
    # Props/C08E.v is stated about the endpoint model (Endpoint.v over Hdl.v): tied by the endpoint-history correspondence
    from props import hdl
    return fails + hdl.tie(ctx)


# ---------------------------------------------------------------------------------------------
# oracle on the real code

def snap(ep):
    # everything, the liveness timer included: a message outside the window is dropped WITHOUT effect (until the fix of
    # F23 an authentic copy of an old message re-armed the dead-peer-detection timer, and this oracle let it pass)
    return ep.snapshot()


class WindowOracle:
    """After every delivery: (1) deliver the same datagram again and (2) every older datagram addressed to the same
    endpoint; nothing but the liveness timer may change, no kernel request may be issued, the reply must be the
    byte-identical stored response (for the immediately preceding request) or nothing.  Also checks the header
    stamp of every emitted datagram and the numbering of requests."""

    def __init__(self, ctx):
        self.ctx = ctx
        self.fails = []
        self.req_ids = {}      # (ep, spi_i, spi_r) -> list of request ids in emission order
        self.n = 0
        self.replays = True

    def __call__(self, pair, action, sent):
        self.check_stamps(pair, action, sent)
        if not self.replays or action[0] not in ('deliver', 'replay') or not pair.history:
            return
        # replay the datagrams this endpoint has already received
        for ep in (pair.A, pair.B):
            # every loop iteration also runs the timers: let them settle at the current clock first, so that what
            # is observed below is the effect of the datagram alone
            for _ in range(8):
                b0 = ep.snapshot()
                out0 = ep.tick()
                pair._emit(out0)
                self.check_stamps(pair, ['tick'], out0)
                if not out0 and ep.snapshot() == b0:
                    break
            got = [d for d in pair.history if ep.sim.owner_of(d[1]) is ep][-6:]
            for (src, dst, data) in got:
                m = self.classify(ep, data)
                if m is None:
                    continue
                before = snap(ep)
                nreq = ep.kernel.n
                table_before = [id(x) for x in ep.controller.ike_sas]
                cached = {bytes(x.my_spi): bytes(getattr(x, 'last_sent_response_data', b'') or b'')
                          for x in ep.controller.ike_sas}
                try:
                    out = ep.datagram(dst, src, data)
                except LoopEscape as ex:
                    self.fail(pair, 'window:exception-on-replay', repr(ex.exc))
                    return
                self.n += 1
                self.ctx.case({'replay_of': data[:28].hex(), 'kind': m}, nontrivial=True)
                after = snap(ep)
                if m == 'fresh':
                    # it was the next expected message: legitimately processed now (e.g. lost earlier copy)
                    pair._emit(out)
                    self.check_stamps(pair, ['deliver'], out)
                    continue
                if before != after or ep.kernel.n != nreq or table_before != [id(x) for x in ep.controller.ike_sas]:
                    self.fail(pair, 'window:replay-had-effect',
                              f'replayed datagram {data[:28].hex()} ({m}) changed the endpoint: '
                              f'{diff(before, after)} netlink {nreq}->{ep.kernel.n}')
                    return
                if m == 'prev-request':
                    sa_spi = data[8:16] if data[19] & 0x08 else data[0:8]
                    want = cached.get(bytes(sa_spi))
                    if len(out) != 1 or out[0][2] != want:
                        self.fail(pair, 'window:cached-response-differs',
                                  f'replay of the previous request {data[:28].hex()} got '
                                  f'{[o[2][:28].hex() for o in out]} instead of the stored response')
                        return
                elif out:
                    self.fail(pair, 'window:reply-to-stale-message',
                              f'{m} datagram {data[:28].hex()} was answered: {[o[2][:28].hex() for o in out]}')
                    return

    def classify(self, ep, data):
        """Relation of an authentic past datagram to the current window of the IKE_SA it addresses."""
        if len(data) < 28:
            return None
        h = hdr_fields(data)
        is_resp, init = h[5], h[6]
        spi = data[8:16] if init else data[0:8]
        if h[4] == 34 and not is_resp:
            return None     # an IKE_SA_INIT request always creates a new responder IKE_SA (C16), not a replay
        sa = next((x for x in ep.controller.ike_sas if bytes(x.my_spi) == bytes(spi)), None)
        if sa is None:
            return 'unknown-spi'
        if bool(init) == bool(sa.is_initiator):
            return 'wrong-role'
        if is_resp:
            return 'fresh' if h[7] == sa.my_msg_id and int(sa.state) in (2, 3, 11, 12, 13, 14, 15, 16, 17) \
                else 'stale-response'
        if h[7] == sa.peer_msg_id:
            return 'fresh'
        if h[7] == sa.peer_msg_id - 1:
            return 'prev-request'
        return 'old-request'

    def check_stamps(self, pair, action, sent):
        for (src, dst, data) in sent:
            ep = pair.sim.owner_of(src)
            h = hdr_fields(data)
            if (h[2], h[3]) != (2, 0):
                self.fail(pair, 'stamp:version', f'emitted datagram with version {h[2]}.{h[3]}')
            sas = list(ep.controller.ike_sas) + [getattr(x, '_verif_keep', None) for x in []]
            owner = None
            for x in list(ep.creation_objs()):
                if (int.from_bytes(x.my_spi, 'big') == (h[0] if x.is_initiator else h[1])):
                    owner = x
            if owner is None:
                self.fail(pair, 'stamp:spi', f'emitted datagram {data[:28].hex()} carries SPIs of no IKE_SA of {ep.name}')
                continue
            if bool(h[6]) != bool(owner.is_initiator):
                self.fail(pair, 'stamp:initiator-flag', f'{data[:28].hex()}: I flag {h[6]} but is_initiator={owner.is_initiator}')
            if not h[5] and action[0] not in ('tick',):
                pass
            if not h[5]:
                key = (ep.name, bytes(owner.my_spi))
                ids = self.req_ids.setdefault(key, [])
                ids.append((h[7], bytes(data)))

    def finish(self, pair):
        for key, ids in self.req_ids.items():
            distinct = []
            for mid, data in ids:
                if distinct and distinct[-1][0] == mid:
                    continue
                distinct.append((mid, data))
            seq = [m for m, _ in distinct]
            # consecutive starting at 0; retries of IKE_SA_INIT reuse 0
            norm = [m for i, m in enumerate(seq) if not (m == 0 and i > 0 and seq[i - 1] == 0)]
            if norm != list(range(len(norm))):
                self.fail(pair, 'ids:not-consecutive', f'request Message IDs of {key[0]}/{key[1].hex()}: {seq}')

    def fail(self, pair, sig, detail):
        self.fails.append(Failure('property', sig, detail,
                                  {'actions': [a for a, _ in pair.steps], 'conf': pair.conf, 'seed': pair.sim_seed}))


def diff(a, b):
    out = []
    for x, y in zip(a, b):
        for k in x:
            if x[k] != y.get(k):
                out.append(f'{k}: {x[k]!r} -> {y.get(k)!r}')
    if len(a) != len(b):
        out.append(f'table size {len(a)} -> {len(b)}')
    return '; '.join(out)[:600]


def run_oracle(ctx, runs):
    fails = []
    for name, conf, actions in runs:
        seed = ctx.rng.getrandbits(32)
        import ikesa as _ikesa
        from unittest import mock
        with Pair(seed=seed, **conf) as p:
            p.sim_seed = seed
            # every IkeSa object ever constructed at an endpoint, including the ones that live for one dispatch only
            # (cookie challenge, error answer to an IKE_SA_INIT request, ignored request): the stamp oracle asks for the
            # owner of every emitted datagram
            made = {id(p.A): [], id(p.B): []}
            orig_init = _ikesa.IkeSa.__init__

            def init(self_, *a, _made=made, _sim=p.sim, **k):
                orig_init(self_, *a, **k)
                if _sim.current is not None and id(_sim.current) in _made:
                    _made[id(_sim.current)].append(self_)
            for ep in (p.A, p.B):
                ep.creation_objs = (lambda ep=ep: [o for o in _all_sas(ep)] + made[id(ep)])
            orc = WindowOracle(ctx)
            # a RESPONSE that a key-holding peer sends although nothing is outstanding is not a duplicated, reordered or
            # delayed message of the exchange (C08's hypothesis): the code tears the IKE_SA down on it, which is an
            # effect; only the numbering / stamping clauses, which are unconditional, are checked on those histories
            orc.replays = 'unsolicited_response' not in name
            p.hooks.append(orc)
            patcher = mock.patch.object(_ikesa.IkeSa, '__init__', init)
            patcher.start()
            try:
                for a in actions:
                    p.do(a)
                    if orc.fails:
                        break
                if not orc.fails:
                    p.drain()
                    orc.finish(p)
            except LoopEscape as ex:
                orc.fail(p, 'loop:escaped-exception', repr(ex.exc))
            finally:
                patcher.stop()
            fails += orc.fails
        if len(fails) > 3:
            break
    return fails


_seen = {}


def _all_sas(ep):
    """every IkeSa object the endpoint ever had in its table (kept alive by the simulator), plus successors"""
    store = _seen.setdefault(id(ep), {})
    for sa in ep.controller.ike_sas:
        store[id(sa)] = sa
        if sa.new_ike_sa is not None:
            store[id(sa.new_ike_sa)] = sa.new_ike_sa
    return list(store.values())


def oracle(ctx, deep):
    runs = sc.plan(ctx, walks_quick=6, walks_thorough=60, walk_len=35)
    if not deep:
        runs = [r for r in runs if r[0].split('/')[0] in ('handshake', 'rekey_child', 'rekey_ike', 'replay_requests',
                                                          'retransmit_request', 'delete_child', 'dpd', 'cookie_handshake',
                                                          'simultaneous_rekey_child')
                or r[0].startswith('walk')][:22]
    # histories with an authenticated peer that misbehaves (wrong exchange type in a response, error notifications,
    # requests on a rekeyed IKE_SA ...): the window clauses are local to an endpoint and hold at both
    from props import hdl
    runs += [(label, conf, acts) for label, acts, conf, seed, skip in hdl.deviant_set(deep, ctx.seed)]
    return run_oracle(ctx, runs)


def regressions(ctx):
    """F23: an authentic copy of an OLD message (here the IKE_AUTH request and response, delivered again 5 and 8 s
    later) used to re-arm the dead-peer-detection timer of the IKE_SA although it is outside the window and must be
    dropped without effect."""
    from sim.scenarios import scripted
    acts = scripted('handshake') + [['tick', 5], ['replay', 2], ['tick', 3], ['replay', 3], ['deliver', 0]]
    return run_oracle(ctx, [('F23_stale_copies_after_time', {}, acts)])


def replay(ctx, obj):
    if 'actions' not in obj:
        return []
    return run_oracle(ctx, [('replay', obj.get('conf', {}), obj['actions'])])


CHECK = core.Check(
    'C08', sc.CLUSTER, ['Props/C08.v', 'Props/C08E.v'], translate=sc.translate, correspond=correspond, oracle=oracle,
    replay=replay, regressions=regressions, deps=('lib',),
    rule='histories of the two-endpoint simulator through the real main_loop: 19 scripted exchanges x configuration '
         'family + seeded random walks over {acquire, soft/hard expire, IKE rekey/delete, deliver, duplicate, drop, '
         'replay of any earlier datagram, tick}; each recorded IkeSa.process_message / trigger call is one case; '
         'non-trivial = the Message ID differs from the expected one (replays, stale and future IDs); the oracle '
         'additionally re-delivers every datagram an endpoint already received after every step',
    trusted_base=sc.TRUSTED + __import__('props.hdl', fromlist=['TRUSTED']).TRUSTED,
    assumptions=['handlers touch the window fields only as the recorded outcomes say (checked on every recorded call)',
                 'Message IDs are compared as the parser delivers them (unsigned 32 bit)'],
)
