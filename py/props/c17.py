"""C17 - no datagram, kernel event or send failure can stop or wedge the daemon."""
import random
import signal
import struct

from props import shellcommon as sc
from sim.ctrace import CRecorder, dispatch_case
from sim.scenarios import Pair, HANDSHAKE, scripted
from sim.world import LoopEscape
from vlib import core
from vlib.core import Failure


class Hang(BaseException):
    pass


def _alarm(signum, frame):
    raise Hang()


def hostile_datagrams(rng, pair, n):
    """(kind, bytes, source address) - the stream of C06 plus protocol-level oddities."""
    out = []
    # authentic datagrams to mutate: not the IKE_SA_INIT responses - before keys exist a forged IKE_SA_INIT response
    # legitimately derails that very exchange (RFC 7296 section 2.4; nothing an implementation can prevent), and this
    # oracle checks that the legitimate session completes
    # only datagrams that were already delivered are replayed/mutated: delivering an authentic datagram that is still
    # in flight ahead of time (and swallowing the reply) merely reorders the legitimate exchange
    hist = [d for (_, _, d) in pair.delivered if not (d[18] == 34 and d[19] & 0x20)]
    known = [bytes(s.my_spi) for ep in (pair.A, pair.B) for s in ep.controller.ike_sas]
    for _ in range(n):
        k = rng.randrange(16)
        if k >= 14:
            k = 13
        src = '192.168.0.1'
        if k == 0:
            data, kind = bytes(rng.getrandbits(8) for _ in range(rng.randrange(0, 28))), 'short'
        elif k == 1:
            data, kind = bytes(rng.getrandbits(8) for _ in range(rng.randrange(28, 300))), 'random'
        elif k == 2:     # the datagram that used to hang the parser (F1)
            data = bytes(16) + bytes([200, 0x20, 34, 0x08]) + struct.pack('>LL', 0, 32) + bytes([0, 0, 0, 0])
            kind = 'unknown-payload-zero-length'
        elif k == 3:     # IKE_SA_INIT request from an address pair without configuration
            src = '10.9.9.9'
            data = (hist[0] if hist else bytes(16) + bytes([0, 0x20, 34, 0x08]) + struct.pack('>LL', 0, 28))
            kind = 'unknown-peer'
        elif k == 4:     # unknown exchange type, known SPI
            spi = rng.choice(known) if known else bytes(8)
            data = spi + spi + bytes([0, 0x20, rng.choice([0, 33, 38, 99, 255]), rng.choice([0, 8, 0x20, 0x28])]) + \
                struct.pack('>LL', rng.randrange(4), 28)
            kind = 'unknown-exchange'
        elif k == 5:     # IKE_SA_INIT request carrying an existing SPI
            spi = rng.choice(known) if known else bytes(8)
            data = spi + bytes(8) + bytes([0, 0x20, 34, 0x08]) + struct.pack('>LL', 0, 28)
            kind = 'init-for-existing-spi'
        elif k in (6, 7) and hist:   # mutated authentic datagram
            d = bytearray(rng.choice(hist))
            for _ in range(rng.randrange(1, 4)):
                d[rng.randrange(len(d))] ^= 1 << rng.randrange(8)
            data, kind = bytes(d), 'mutated-authentic'
        elif k == 8 and hist:        # truncated authentic datagram
            d = rng.choice(hist)
            data, kind = d[:rng.randrange(0, len(d))], 'truncated-authentic'
        elif k == 9:     # IKE_SA_INIT request with binary vendor ID and a malformed payload chain
            body = bytes([0, 0, 0, 8, 0xff, 0xfe, 0xfd, 0xfc])
            data = bytes(rng.getrandbits(8) for _ in range(8)) + bytes(8) + bytes([43, 0x20, 34, 0x08]) + \
                struct.pack('>LL', 0, 28 + len(body)) + body
            kind = 'binary-vendor-id'
        elif k == 10:    # critical unknown payload
            body = bytes([0, 0x80, 0, 4])
            data = bytes(rng.getrandbits(8) for _ in range(8)) + bytes(8) + bytes([201, 0x20, 34, 0x08]) + \
                struct.pack('>LL', 0, 32) + body
            kind = 'unknown-critical-payload'
        elif k == 11:    # length fields: payload length 0xFFFF / 3
            ln = rng.choice([0, 1, 3, 5, 0xFFFF])
            body = bytes([0, 0]) + struct.pack('>H', ln) + bytes(rng.randrange(0, 12))
            data = bytes(rng.getrandbits(8) for _ in range(8)) + bytes(8) + bytes([rng.choice([33, 34, 40, 41, 44]),
                                                                                  0x20, 34, 0x08]) + \
                struct.pack('>LL', 0, 28 + len(body)) + body
            kind = 'length-sweep'
        elif k == 13:    # length fields at the nested levels (selector, proposal, transform, attribute, SPI count)
            ln = rng.choice([0, 1, 2, 3, 4, 7, 8, 15, 16, 40, 0xFFFF])
            which = rng.randrange(4)
            pad = bytes(rng.getrandbits(8) for _ in range(rng.choice([0, 8, 16, 40, 64])))
            if which == 0:       # TSi/TSr: one selector whose Selector Length is ln
                ptype = rng.choice([44, 45])
                body = bytes([1, 0, 0, 0]) + bytes([rng.choice([7, 8]), 0]) + struct.pack('>H', ln) + bytes(4) + pad
            elif which == 1:     # SA: proposal length ln
                ptype = 33
                body = bytes([0, 0]) + struct.pack('>H', ln) + bytes([1, 1, 0, 1]) + bytes([0, 0, 0, 8, 1, 0, 0, 12]) + pad
            elif which == 2:     # SA: transform length ln inside a well-formed proposal
                ptype = 33
                tr = bytes([0, 0]) + struct.pack('>H', ln) + bytes([1, 0, 0, 12]) + pad
                body = bytes([0, 0]) + struct.pack('>H', 8 + len(tr)) + bytes([1, 1, 0, 1]) + tr
            else:                # DELETE announcing many SPIs / NOTIFY with SPI size beyond the data
                ptype = rng.choice([42, 41])
                body = bytes([3, rng.choice([0, 4, 255])]) + struct.pack('>H', ln) + pad
            data = bytes(rng.getrandbits(8) for _ in range(8)) + bytes(8) + bytes([ptype, 0x20, 34, 0x08]) + \
                struct.pack('>LL', 0, 32 + len(body)) + bytes([0, 0]) + struct.pack('>H', 4 + len(body)) + body
            kind = 'nested-length-sweep'
        elif k == 12 and hist:       # an authentic datagram from the wrong source address
            src = '10.9.9.9'
            data, kind = rng.choice(hist), 'authentic-from-unknown-address'
        else:
            data, kind = b'', 'empty'
        out.append((kind, data, src))
    return out


def nested_sweep():
    """the complete sweep: nested level x length field x amount of data behind it (deterministic)"""
    out = []
    for which in range(6):
        for ln in (0, 1, 2, 3, 4, 7, 8, 15, 16, 40, 0xFFFF):
            for npad in (0, 8, 16, 40, 64):
                pad = bytes((i * 37 + 11) % 256 for i in range(npad))
                if which == 0:
                    ptype = 44
                    body = bytes([1, 0, 0, 0]) + bytes([7, 0]) + struct.pack('>H', ln) + bytes(4) + pad
                elif which == 1:
                    ptype = 33
                    body = bytes([0, 0]) + struct.pack('>H', ln) + bytes([1, 1, 0, 1]) + bytes([0, 0, 0, 8, 1, 0, 0, 12]) + pad
                elif which == 2:
                    ptype = 33
                    tr = bytes([0, 0]) + struct.pack('>H', ln) + bytes([1, 0, 0, 12]) + pad
                    body = bytes([0, 0]) + struct.pack('>H', 8 + len(tr)) + bytes([1, 1, 0, 1]) + tr
                elif which == 3:
                    ptype = 42
                    body = bytes([3, 4]) + struct.pack('>H', ln) + pad
                else:
                    # a transform attribute: TV format (AF bit set, which == 4) or TLV format with length field ln
                    ptype = 33
                    attr = struct.pack('>HH', (0x8000 if which == 4 else 0) | 5, ln) + pad
                    tr = bytes([0, 0]) + struct.pack('>H', 8 + len(attr)) + bytes([1, 0, 0, 12]) + attr
                    body = bytes([0, 0]) + struct.pack('>H', 8 + len(tr)) + bytes([1, 1, 0, 1]) + tr
                data = bytes([0x33] * 8) + bytes(8) + bytes([ptype, 0x20, 34, 0x08]) + \
                    struct.pack('>LL', 0, 32 + len(body)) + bytes([0, 0]) + struct.pack('>H', 4 + len(body)) + body
                out.append(('nested-length-sweep', data, '192.168.0.1'))
    return out


def hostile_xfrm_events(rng, n):
    out = []
    for _ in range(n):
        k = rng.randrange(6)
        if k == 0:
            out.append(bytes(rng.getrandbits(8) for _ in range(rng.randrange(0, 64))))
        elif k >= 4:     # ACQUIRE (with its template) for an address pair / family nobody configured
            import socket
            from ipaddress import ip_address
            import netlink
            import xfrm
            fam = rng.choice([socket.AF_INET, socket.AF_INET6, 0, 99])
            a1 = ip_address('10.7.7.1') if fam != socket.AF_INET6 else ip_address('2001:db8::1')
            a2 = ip_address('10.7.7.2') if fam != socket.AF_INET6 else ip_address('2001:db8::2')
            acq = xfrm.XfrmUserAcquire(id=xfrm.XfrmId(daddr=xfrm.XfrmAddress.from_ipaddr(a2)),
                                       saddr=xfrm.XfrmAddress.from_ipaddr(a1),
                                       sel=xfrm.XfrmSelector(family=rng.choice([socket.AF_INET, fam]),
                                                             daddr=xfrm.XfrmAddress.from_ipaddr(a2),
                                                             saddr=xfrm.XfrmAddress.from_ipaddr(a1)),
                                       policy=xfrm.XfrmUserPolicyInfo(index=rng.randrange(1 << 20)))
            attr = netlink.NetlinkProtocol._attribute_factory(xfrm.XFRMA_TMPL, xfrm.XfrmUserTmpl(family=fam))
            body = bytes(acq) + bytes(attr)
            hdr = netlink.NetlinkHeader(length=16 + len(body), type=xfrm.XFRM_MSG_ACQUIRE, flags=0, seq=0, pid=0)
            out.append(bytes(hdr) + body)
        elif k == 1:     # ACQUIRE without template attribute
            import ctypes
            import netlink
            import xfrm
            body = bytes(xfrm.XfrmUserAcquire())
            hdr = netlink.NetlinkHeader(length=16 + len(body), type=xfrm.XFRM_MSG_ACQUIRE, flags=0, seq=0, pid=0)
            out.append(bytes(hdr) + body)
        elif k == 2:     # unknown netlink message type
            out.append(struct.pack('<LHHLL', 16, 0x99, 0, 0, 0))
        else:            # EXPIRE for an unknown SPI
            import netlink
            import xfrm
            body = bytes(xfrm.XfrmUserExpire())
            hdr = netlink.NetlinkHeader(length=16 + len(body), type=xfrm.XFRM_MSG_EXPIRE, flags=0, seq=0, pid=0)
            out.append(bytes(hdr) + body)
    return out


def hostile_session(ctx, seed, legit, per_step, sendto_fail=None, kfail=None, record=None, sweep=False):
    """Run a legitimate scenario through main_loop with hostile input before every step.  Returns failures."""
    fails = []
    rng = random.Random(seed)
    old = signal.signal(signal.SIGALRM, _alarm)
    with Pair(seed=seed) as p:
        if sendto_fail is not None:
            p.A.sendto_fail = set(sendto_fail[0])
            p.B.sendto_fail = set(sendto_fail[1])
        if kfail is not None:
            p.A.kernel.fail = set(kfail[0])
            p.B.kernel.fail = set(kfail[1])
        rec = CRecorder(p) if record is not None else None
        if rec:
            rec.__enter__()
        step = None
        try:
            first = True
            for a in legit:
                for ep in (p.A, p.B):
                    stream = hostile_datagrams(rng, p, per_step)
                    if first and sweep and ep is p.B:
                        stream = nested_sweep() + stream
                    for kind, data, src in stream:
                        step = ('inject', ep.name, kind, data.hex(), src)
                        signal.setitimer(signal.ITIMER_REAL, 5.0)
                        out = ep.datagram(str(ep.addrs[0]), src, data)
                        signal.setitimer(signal.ITIMER_REAL, 0)
                        ctx.case({'hostile': kind, 'len': len(data)}, nontrivial=True, sample=len(ctx.samples) < 4)
                        ctx.count('hostile:' + kind)
                        # replies to hostile input go back to the sender, never into the legitimate flow
                    for ev in hostile_xfrm_events(rng, max(1, per_step // 4)):
                        step = ('xfrm', ep.name, ev.hex())
                        signal.setitimer(signal.ITIMER_REAL, 5.0)
                        ep.raw_xfrm_event(ev)
                        signal.setitimer(signal.ITIMER_REAL, 0)
                        ctx.count('hostile:xfrm-event')
                first = False
                step = ('legit', a)
                signal.setitimer(signal.ITIMER_REAL, 5.0)
                p.do(list(a))
                signal.setitimer(signal.ITIMER_REAL, 0)
            p.drain()
            settle(p)
        except LoopEscape as ex:
            signal.setitimer(signal.ITIMER_REAL, 0)
            fails.append(Failure('property', 'loop:wedged' if isinstance(ex.exc, Hang) else 'loop:escaped-exception',
                                 (f'main_loop did not come back within 5 s at step {step}' if isinstance(ex.exc, Hang) else
                                  f'{type(ex.exc).__name__}: {ex.exc} left main_loop at step {step}'),
                                 {'seed': seed, 'legit': legit, 'per_step': per_step, 'step': step,
                                  'sendto_fail': sendto_fail, 'kfail': kfail}))
        except Hang:
            fails.append(Failure('property', 'loop:wedged', f'main_loop did not come back within 5 s at step {step}',
                                 {'seed': seed, 'legit': legit, 'per_step': per_step, 'step': step,
                                  'sendto_fail': sendto_fail, 'kfail': kfail}))
        finally:
            signal.setitimer(signal.ITIMER_REAL, 0)
            signal.signal(signal.SIGALRM, old)
            if rec:
                rec.__exit__(None, None, None)
                record.append(rec)
        if not fails and sendto_fail is None and kfail is None:
            # the legitimate session must have completed exactly as without the hostile input
            got = outcome(p)
            want = clean_outcome(legit)
            if got != want:
                fails.append(Failure('property', 'loop:legitimate-session-disturbed',
                                     f'after the hostile input the legitimate session ended as {got} (established '
                                     f'IKE_SAs of A and B, kernel SAs of A and B, SADs mirror each other); without the '
                                     f'hostile input it ends as {want}',
                                     {'seed': seed, 'legit': legit, 'per_step': per_step}))
    return fails


def failure_burst(ctx, seed):
    """Back-to-back events that each end in an error (the reply cannot be sent, an ACQUIRE without configuration, an
    unparsable kernel message): the loop must be back at its event wait within bounded time after EACH of them - time
    spent asleep counts (the simulator's clock is virtual: time.sleep is recorded, not executed)."""
    fails = []
    old = signal.signal(signal.SIGALRM, _alarm)
    with Pair(seed=seed) as p:
        try:
            p.do(['acquire', 'A', 80])
            src, dst, data = p.history[0]
            p.B.sendto_fail = set(range(10000))
            # ONE invocation of main_loop serving all the events (what a loop keeps in its local variables from one
            # iteration to the next is part of the behaviour)
            events = []
            for k in range(18):
                events.append(('udp', dst, src, bytes([0xE0, k + 1] * 4) + data[8:]))        # the reply cannot be sent
            signal.setitimer(signal.ITIMER_REAL, 20.0)
            p.B.loop_many(events)
            signal.setitimer(signal.ITIMER_REAL, 0)
            ctx.case({'failure-burst': len(events), 'slept': p.sim.slept, 'longest': p.sim.max_sleep}, nontrivial=True)
            ctx.count('burst:events', len(events))
            if p.B.iterations_done != len(events):
                fails.append(Failure('property', 'loop:wedged', f'failure burst: only {p.B.iterations_done} of {len(events)} '
                                     'events were served', {'burst': True, 'seed': seed}))
            elif p.sim.max_sleep > 5.0:
                fails.append(Failure('property', 'loop:away-from-event-wait',
                                     f'during a burst of {len(events)} consecutive failing events main_loop stayed away from its '
                                     f'event wait for {p.sim.max_sleep:.1f} s in one go ({p.sim.slept:.1f} s in total, asleep): '
                                     'no datagram, kernel event or timer is served meanwhile', {'burst': True, 'seed': seed}))
        except LoopEscape as ex:
            signal.setitimer(signal.ITIMER_REAL, 0)
            fails.append(Failure('property', 'loop:wedged' if isinstance(ex.exc, Hang) else 'loop:escaped-exception',
                                 f'failure burst: {type(ex.exc).__name__}: {ex.exc}', {'burst': True, 'seed': seed}))
        except Hang:
            fails.append(Failure('property', 'loop:wedged', 'failure burst: main_loop did not come back within 5 s',
                                 {'burst': True, 'seed': seed}))
        finally:
            signal.setitimer(signal.ITIMER_REAL, 0)
            signal.signal(signal.SIGALRM, old)
    return fails


def settle(p):
    """let outstanding exchanges finish (retransmissions recover anything the scripted delivery order missed)"""
    for _ in range(12):
        busy = any(int(s.state) in (2, 3, 11, 12, 13, 14, 15, 16, 17) for ep in (p.A, p.B) for s in ep.controller.ike_sas
                   if s.peer_crypto is not None)
        if not busy and not p.sim.net:
            break
        p.do(['tick', 3])
        p.drain()


def outcome(p):
    return (sum(1 for s in p.A.controller.ike_sas if s.peer_crypto is not None and int(s.state) == 10),
            sum(1 for s in p.B.controller.ike_sas if s.peer_crypto is not None and int(s.state) == 10),
            len(p.A.kernel.sad), len(p.B.kernel.sad), sorted(p.A.kernel.sad) == sorted(p.B.kernel.sad))


_clean = {}


def clean_outcome(legit):
    key = repr(legit)
    if key not in _clean:
        with Pair(seed=12345) as q:
            q.run([list(a) for a in legit])
            q.drain()
            settle(q)
            _clean[key] = outcome(q)
    return _clean[key]


LEGIT = ['handshake', 'new_child', 'rekey_child', 'rekey_ike', 'delete_child']


def correspond(ctx):
    """controller model vs code on the dispatch calls made while hostile input is processed"""
    recs = []
    for name in (LEGIT[:2] if ctx.quick() else LEGIT):
        hostile_session(ctx, ctx.rng.getrandbits(32), scripted(name), 4 if ctx.quick() else 10, record=recs)
    cases, meta = [], []
    for rec in recs:
        for c in rec.calls:
            if c.get('escaped'):
                continue
            cases.append(dispatch_case(c))
    bad = core.run_cases(ctx, sc.CLUSTER, 'From IkeSa Require Import ControllerRun.', 'run_controller', cases,
                         shard=300, name='ctl17')
    fails = []
    for gi, model_out in bad[:6]:
        fails.append(Failure('correspondence', 'controller:model-vs-code',
                             f'dispatch under hostile input: implementation {cases[gi][1]} / model {model_out[-400:]}',
                             {'input': cases[gi][0], 'impl': cases[gi][1]}))
    # Props/C17E.v is stated about the endpoint model (Endpoint.v over Hdl.v): tied by the endpoint-history correspondence
    from props import hdl
    return fails + hdl.tie(ctx)


def deviant_session(ctx, label, actions, conf, seed):
    """One history in which a peer that holds the keys misbehaves (or the configurations differ): nothing leaves
    main_loop; afterwards no dead entry is left in either table, idle iterations run without error, and - once the
    timers have cleaned up - a fresh negotiation completes (the daemons are not wedged)."""
    rep = {'deviant': label, 'actions': actions, 'conf': conf, 'seed': seed}
    with Pair(seed=seed, **conf) as p:
        try:
            p.run(actions)
            p.drain()
            n0 = len(p.sim.log_records)
            for _ in range(3):
                p.do(['tick', 1])
            errors = [m for lv, m in p.sim.log_records[n0:] if 'Unexpected error while processing an event' in m]
            dead = [(n, int(s.state)) for n in 'AB' for s in p.ep(n).controller.ike_sas if int(s.state) == 21]
            if errors or dead:
                return [Failure('property', 'loop:dead-ike-sa-in-table',
                                f'{label}: after the history {len(dead)} DELETED IKE_SA(s) are listed {dead} and '
                                f'{len(errors)} of 3 idle loop iterations failed ({errors[:1]})', rep)]
            ctx.case({'deviant': label}, nontrivial=True, sample=False)
            # let retransmissions give up and half-open leftovers expire, then negotiate afresh
            for _ in range(40):
                p.do(['tick', 30])
                p.drain()
            for sa in list(p.A.controller.ike_sas) + list(p.B.controller.ike_sas):
                pass
            p.do(['acquire', 'A', 90])
            p.drain()
            for _ in range(6):
                if p.established():
                    break
                p.do(['tick', 5])
                p.drain()
            alive = p.established()
            # wind-down: every IKE_SA is closed by its lifetime; whatever the peer had made an endpoint accept before
            # (e.g. a CHILD_SA with an odd SPI) must not make the removal fail and leave a dead entry behind
            for n in 'AB':
                for sa in p.ep(n).controller.ike_sas:
                    sa.delete_ike_sa_at = p.sim.clock - 1
            n1 = len(p.sim.log_records)
            for _ in range(8):
                p.do(['tick', 1])
                p.drain()
            for _ in range(40):
                if not (p.A.controller.ike_sas or p.B.controller.ike_sas):
                    break
                p.do(['tick', 5])
                p.drain()
            errors = [m for lv, m in p.sim.log_records[n1:] if 'Unexpected error while processing an event' in m]
            # (half-open responder entries and REKEYED entries have no timer and may stay: an observation of DESIGN 10.4,
            # not part of C17; what must not stay is an IKE_SA that ENDED, or kernel SAs)
            left = [(n, int(s.state)) for n in 'AB' for s in p.ep(n).controller.ike_sas if int(s.state) == 21]
            if errors or left or p.A.kernel.sad or p.B.kernel.sad:
                return [Failure('property', 'loop:dead-ike-sa-in-table',
                                f'{label}: closing every IKE_SA by its lifetime left {left} in the tables, '
                                f'{len(p.A.kernel.sad)}+{len(p.B.kernel.sad)} kernel SAs, and {len(errors)} loop iterations '
                                f'failed ({errors[:1]})', rep)]
        except LoopEscape as ex:
            return [Failure('property', 'loop:escaped-exception', f'{label}: {ex.exc!r}', rep)]
        # one-shot deviations and hostile reinjections must not prevent a later negotiation; configurations that are
        # incompatible by design (asym/, rsa/wrong_key) can never establish and are exempt from this clause
        if label.startswith(('dev', 'edge')) and not alive:
            return [Failure('property', 'loop:no-progress-after-misbehaviour',
                            f'{label}: 20 virtual minutes after the history a fresh ACQUIRE does not lead to an '
                            f'established IKE_SA pair: A {[int(s.state) for s in p.A.controller.ike_sas]} B '
                            f'{[int(s.state) for s in p.B.controller.ike_sas]}', rep)]
    return []


def oracle(ctx, deep):
    fails = []
    for i, name in enumerate(LEGIT if deep else LEGIT[:3]):
        fails += hostile_session(ctx, ctx.rng.getrandbits(32), scripted(name), 12 if deep else 5, sweep=(i == 0))
        if fails:
            return fails
    # a send failure injected at every sendto call of a handshake + rekey (both endpoints)
    legit = scripted('rekey_child')
    for k in range(0, 10 if deep else 6):
        for side in (0, 1):
            sf = ([k], []) if side == 0 else ([], [k])
            fails += hostile_session(ctx, ctx.rng.getrandbits(32), legit, 0, sendto_fail=sf)
            ctx.count('fault:sendto')
    # a kernel refusal injected at every netlink request
    for k in range(5, 16 if deep else 11):
        for side in (0, 1):
            kf = ([k], []) if side == 0 else ([], [k])
            fails += hostile_session(ctx, ctx.rng.getrandbits(32), legit, 0, kfail=kf)
            ctx.count('fault:netlink')
    fails += failure_burst(ctx, ctx.rng.getrandbits(32))
    from props import hdl
    for label, acts, conf, seed, skip in hdl.deviant_set(deep, ctx.seed):
        fails += deviant_session(ctx, label, acts, conf, seed)
        ctx.count('deviant-session')
        if len(fails) > 3:
            break
    return fails


def regressions(ctx):
    """F13 (short datagram, unknown peer), F3 (binary vendor id), F1 (zero-length unknown payload) through main_loop."""
    fails = []
    old = signal.signal(signal.SIGALRM, _alarm)
    try:
        with Pair(seed=1) as p:
            p.run([list(a) for a in HANDSHAKE])
            init_req = p.history[0][2]
            probes = [('short', b'abc', '192.168.0.1'),
                      ('unknown-peer', init_req, '10.9.9.9'),
                      ('zero-length-unknown-payload', bytes(16) + bytes([200, 0x20, 34, 0x08]) +
                       struct.pack('>LL', 0, 32) + bytes(4), '192.168.0.1'),
                      ('binary-vendor', bytes(8) + bytes(8) + bytes([43, 0x20, 34, 0x08]) + struct.pack('>LL', 0, 36) +
                       bytes([0, 0, 0, 8, 0xff, 0xfe, 0xfd, 0xfc]), '192.168.0.1'),
                      ('bad-checksum', p.history[2][2][:-1] + bytes([p.history[2][2][-1] ^ 1]), '192.168.0.1')]
            for kind, data, src in probes:
                try:
                    signal.setitimer(signal.ITIMER_REAL, 5.0)
                    p.B.datagram('192.168.0.2', src, data)
                    signal.setitimer(signal.ITIMER_REAL, 0)
                except LoopEscape as ex:
                    signal.setitimer(signal.ITIMER_REAL, 0)
                    fails.append(Failure('property', 'loop:escaped-exception', f'{kind}: {ex.exc!r}',
                                         {'regression': kind, 'datagram': data.hex(), 'from': src}))
                except Hang:
                    fails.append(Failure('property', 'loop:wedged', f'{kind}: main_loop did not come back',
                                         {'regression': kind, 'datagram': data.hex(), 'from': src}))
    finally:
        signal.setitimer(signal.ITIMER_REAL, 0)
        signal.signal(signal.SIGALRM, old)
    fails += dead_entry_regression(ctx)
    return fails


def dead_entry_regression(ctx):
    """F19: an authenticated responder answers IKE_AUTH with a CHILD_SA SPI of the wrong size; installing it fails
    inside xfrm (TypeError).  The initiator used to keep the IKE_SA (DELETED, with the CHILD_SA already tracked) in its
    table for ever: every later loop iteration failed at that entry, so IKE_SAs behind it got no timers."""
    from unittest import mock
    import ikesa
    import message
    fails = []
    with Pair(seed=3) as p:
        orig = ikesa.IkeSa.generate_response

        def gr(self_, exchange_type, payloads):
            if int(exchange_type) == 35 and not self_.is_initiator:
                for pl in payloads:
                    if isinstance(pl, message.PayloadSA):
                        pl.proposals[0].spi = bytes(pl.proposals[0].spi) + bytes(4)
            return orig(self_, exchange_type, payloads)
        rep = {'regression': 'F19'}
        try:
            with mock.patch.object(ikesa.IkeSa, 'generate_response', gr):
                p.run([list(a) for a in HANDSHAKE])
            n0 = len(p.sim.log_records)
            for _ in range(3):
                p.do(['tick', 1])
        except LoopEscape as ex:
            return [Failure('property', 'loop:escaped-exception', f'F19: {ex.exc!r}', rep)]
        dead = [int(s.state) for s in p.A.controller.ike_sas if int(s.state) == 21]
        errors = [m for lv, m in p.sim.log_records[n0:] if 'Unexpected error while processing an event' in m]
        if dead or errors:
            fails.append(Failure('property', 'loop:dead-ike-sa-in-table',
                                 f'F19 is back: after a CHILD_SA whose installation failed the initiator keeps {len(dead)} DELETED '
                                 f'IKE_SA(s) in its table and {len(errors)} of the next 3 loop iterations failed in the timer '
                                 f'section ({errors[:1]})', rep))
        if p.A.kernel.sad:
            fails.append(Failure('property', 'loop:dead-ike-sa-in-table', 'F19: kernel SAs left behind', rep))
    return fails


def replay(ctx, obj):
    if obj.get('burst'):
        return failure_burst(ctx, obj['seed'])
    if 'deviant' in obj:
        return deviant_session(ctx, obj['deviant'], obj['actions'], obj['conf'], obj['seed'])
    if 'legit' in obj:
        return hostile_session(ctx, obj['seed'], obj['legit'], obj['per_step'], obj.get('sendto_fail'),
                               obj.get('kfail'))
    if 'regression' in obj:
        return regressions(ctx)
    return []


CHECK = core.Check(
    'C17', sc.CLUSTER, ['Props/C17.v', 'Props/C17E.v'], translate=sc.translate, correspond=correspond, oracle=oracle, replay=replay,
    regressions=regressions, deps=('lib',),
    rule='the real IkeSaController.main_loop is executed (scripted select/sockets) on legitimate sessions with hostile '
         'input before every step at both endpoints: short/random/empty datagrams, the zero-length unknown payload, '
         'unknown peer address, unknown exchange types, IKE_SA_INIT for an existing SPI, mutated and truncated authentic '
         'datagrams, binary vendor IDs, unknown critical payloads, length-field sweeps, garbage/odd kernel events; plus '
         'an OSError injected at every sendto call and a kernel refusal at every netlink request; every case is '
         'non-trivial; a 5 s watchdog per event detects a wedged loop',
    trusted_base=sc.TRUSTED + __import__('props.hdl', fromlist=['TRUSTED']).TRUSTED + ['blocking in select, socket buffers and wall-clock bounds are not modelled (runtime); '
                               'the real loop body is executed with scripted select/socket objects instead'],
    assumptions=['exceptions that are not subclasses of Exception (KeyboardInterrupt, SystemExit, MemoryError) are out '
                 'of scope'],
)
