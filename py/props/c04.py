"""C04 - key material is derived exactly as RFC 7296 prescribes.

tie 1  translate(): crypto.py / ikesa.py / message.py  ->  coq/keys/Gen/CryptoTables.v, Gen/KeyMaterial.v
tie 2  correspond(): the executable model (toy prf in Gallina) against the REAL Prf.prfplus and the REAL
       IkeSa.generate_ike_sa_key_material / generate_child_sa_key_material with Prf.prf patched to the same toy prf
oracle independent Python implementation of RFC 7296 2.13-2.18 with hmac/hashlib against the real code; DH groups
"""
import ast
import hashlib
import hmac
import os
import re
import types
from unittest import mock

from vlib import core, pyast
from vlib.core import Failure, TranslateError

CLUSTER = 'keys'

# =============================================================================================
# tie 1: translator


def _u(node):
    return ast.unparse(node)


def _strip(stmts):
    """drop docstrings"""
    return [s for s in stmts if not (isinstance(s, ast.Expr) and isinstance(s.value, ast.Constant))]


class Tr:
    """Expression translator over two sorts: 'Z' integers and 'bytes' byte strings (fail closed)."""

    def __init__(self, src, env, calls=None):
        self.src = src
        self.env = env          # unparsed python expression -> (gallina, sort)
        self.calls = calls or {}  # unparsed callee -> (gallina function, [argument sorts], result sort)

    def go(self, n):
        key = _u(n)
        if key in self.env:
            return self.env[key]
        if isinstance(n, ast.Constant) and isinstance(n.value, int) and not isinstance(n.value, bool):
            return (f'({n.value})' if n.value < 0 else str(n.value)), 'Z'
        if isinstance(n, ast.BinOp):
            a, b = self.go(n.left), self.go(n.right)
            if a[1] != b[1]:
                self.src.fail(n, f'operands of different sorts in {key}')
            if a[1] == 'bytes':
                if not isinstance(n.op, ast.Add):
                    self.src.fail(n, f'byte-string operator outside the subset in {key}')
                return f'({a[0]} ++ {b[0]})', 'bytes'
            ops = {ast.Add: 'Z.add', ast.Mult: 'Z.mul', ast.FloorDiv: 'Z.div', ast.Sub: 'Z.sub'}
            if a[1] != 'Z' or type(n.op) not in ops:
                self.src.fail(n, f'arithmetic outside the subset in {key}')
            return f'({ops[type(n.op)]} {a[0]} {b[0]})', 'Z'
        if isinstance(n, ast.BoolOp) and isinstance(n.op, ast.Or) and len(n.values) == 2:
            a, b = self.go(n.values[0]), self.go(n.values[1])
            if a[1] != 'Z' or b[1] != 'Z':
                self.src.fail(n, f'`or` on non-integers in {key}')
            return f'(if Z.eqb {a[0]} 0 then {b[0]} else {a[0]})', 'Z'
        if isinstance(n, ast.Call):
            callee = _u(n.func)
            if callee in self.calls and not n.keywords:
                fn, sorts, ret = self.calls[callee]
                if len(sorts) != len(n.args):
                    self.src.fail(n, f'call {key}: expected {len(sorts)} arguments')
                args = []
                for a, s in zip(n.args, sorts):
                    t, ty = self.go(a)
                    if ty != s:
                        self.src.fail(n, f'call {key}: argument {_u(a)} has sort {ty}, expected {s}')
                    args.append(t)
                return '(' + ' '.join([fn] + args) + ')', ret
        self.src.fail(n, f'expression outside the subset: {key}')

    def expect(self, n, sort):
        t, ty = self.go(n)
        if ty != sort:
            self.src.fail(n, f'{_u(n)} has sort {ty}, expected {sort}')
        return t


def _prop_return(src, dotted):
    """the single `return <expr>` of a @property (comments/docstrings ignored)"""
    fn = src.func(dotted)
    if [_u(d) for d in fn.decorator_list] != ['property']:
        src.fail(fn, f'{dotted} is no longer a property')
    body = _strip(fn.body)
    if len(body) != 1 or not isinstance(body[0], ast.Return) or body[0].value is None:
        src.fail(fn, f'{dotted}: body is not a single return')
    return body[0].value


def _dict_items(src, dotted):
    node = src.assign_value(dotted)
    if not isinstance(node, ast.Dict) or any(k is None for k in node.keys):
        src.fail(node, f'{dotted} is not a dict literal')
    keys = [_u(k) for k in node.keys]
    if len(set(keys)) != len(keys):
        src.fail(node, f'{dotted} has duplicate keys')
    return node, list(zip(node.keys, node.values))


def _enum_resolver(msg):
    cache = {}

    def value(src, node, prefix):
        d = pyast.dotted_name(node)
        if d is None or not d.startswith(prefix + '.'):
            src.fail(node, f'key {_u(node)} is not a member of {prefix}')
        if prefix not in cache:
            cache[prefix] = dict(msg.enum(prefix))
        name = d[len(prefix) + 1:]
        if name not in cache[prefix]:
            src.fail(node, f'{d} is not defined in message.py')
        return cache[prefix][name]
    return value


def _zlist(xs):
    return '[' + '; '.join(str(x) for x in xs) + ']'


def translate_crypto(cr, msg):
    ev = _enum_resolver(msg)
    out = []
    # ---- Prf / Integrity digest tables -------------------------------------------------------
    hashers = []

    def hasher(node):
        d = pyast.dotted_name(node)
        if d is None or not d.startswith('hashlib.') or not re.fullmatch(r'[a-z0-9_]+', d[8:]):
            cr.fail(node, f'digestmod {_u(node)} is not hashlib.<name>')
        name = d[8:]
        if not hasattr(hashlib, name):
            cr.fail(node, f'hashlib has no {name}')
        if name not in hashers:
            hashers.append(name)
        return name
    _, items = _dict_items(cr, 'Prf._digestmod_dict')
    prf_rows = [(ev(cr, k, 'Transform.PrfId'), hasher(v)) for k, v in items]
    _, items = _dict_items(cr, 'Integrity._digestmod_dict')
    integ_rows = []
    for k, v in items:
        if not (isinstance(v, ast.Tuple) and len(v.elts) == 2):
            cr.fail(v, 'Integrity._digestmod_dict value is not (hasher, bits)')
        bits = cr.lit(v.elts[1])
        if not isinstance(bits, int) or isinstance(bits, bool):
            cr.fail(v, 'Integrity._digestmod_dict bits is not an integer')
        integ_rows.append((ev(cr, k, 'Transform.IntegId'), hasher(v.elts[0]), bits))
    # Integrity.__init__ unpacks the tuple as (hasher, keybits); Prf.__init__ takes the hasher
    init = [_u(s) for s in _strip(cr.func('Integrity.__init__').body)]
    if 'self.hasher, self.keybits = self._digestmod_dict[transform.id]' not in init:
        cr.fail(cr.func('Integrity.__init__'), 'Integrity.__init__ no longer unpacks (hasher, keybits) by transform.id')
    init = [_u(s) for s in _strip(cr.func('Prf.__init__').body)]
    if 'self.hasher = self._digestmod_dict[transform.id]' not in init:
        cr.fail(cr.func('Prf.__init__'), 'Prf.__init__ no longer selects the hasher by transform.id')
    out.append('(* hashlib constructors named by the tables; digest sizes read from the running hashlib *)')
    out.append('Inductive hasher := ' + ' | '.join(hashers) + '.')
    out.append('Definition digest_size (h : hasher) : Z := match h with '
               + ' | '.join(f'{h} => {getattr(hashlib, h)().digest_size}' for h in hashers) + ' end.')
    out.append('(* Prf._digestmod_dict *)')
    out.append('Definition prf_digestmod_dict : list (Z * hasher) := ['
               + '; '.join(f'({k}, {h})' for k, h in prf_rows) + '].')
    out.append('(* Integrity._digestmod_dict : id -> (hasher, keybits) *)')
    out.append('Definition integ_digestmod_dict : list (Z * (hasher * Z)) := ['
               + '; '.join(f'({k}, ({h}, {b}))' for k, h, b in integ_rows) + '].')
    # size properties
    tr = Tr(cr, {'self.hasher().digest_size': ('(digest_size hasher)', 'Z'),
                 'self.hash_size': ('(prf_hash_size hasher)', 'Z')})
    out.append('(* Prf.hash_size / Prf.key_size *)')
    out.append(f"Definition prf_hash_size (hasher : hasher) : Z := {tr.expect(_prop_return(cr, 'Prf.hash_size'), 'Z')}.")
    out.append(f"Definition prf_key_size (hasher : hasher) : Z := {tr.expect(_prop_return(cr, 'Prf.key_size'), 'Z')}.")
    tr = Tr(cr, {'self.hasher().digest_size': ('(digest_size hasher)', 'Z'), 'self.keybits': ('keybits', 'Z')})
    out.append('(* Integrity.key_size / Integrity.hash_size *)')
    out.append('Definition integ_key_size (hasher : hasher) (keybits : Z) : Z := '
               f"{tr.expect(_prop_return(cr, 'Integrity.key_size'), 'Z')}.")
    out.append('Definition integ_hash_size (hasher : hasher) (keybits : Z) : Z := '
               f"{tr.expect(_prop_return(cr, 'Integrity.hash_size'), 'Z')}.")
    # Prf.prf / Integrity.compute: HMAC(key, data, digestmod=self.hasher).digest()[ :hash_size ]
    body = [_u(s) for s in _strip(cr.func('Prf.prf').body)]
    if body != ['m = HMAC(key, data, digestmod=self.hasher)', 'return m.digest()']:
        cr.fail(cr.func('Prf.prf'), 'Prf.prf is no longer HMAC(key, data, digestmod=self.hasher).digest()')
    body = [_u(s) for s in _strip(cr.func('Integrity.compute').body)]
    if body != ['m = HMAC(key, data, digestmod=self.hasher)', 'return m.digest()[:self.hash_size]']:
        cr.fail(cr.func('Integrity.compute'), 'Integrity.compute is no longer the truncated HMAC')
    # ---- Cipher -------------------------------------------------------------------------------
    from cryptography.hazmat.primitives.ciphers import algorithms
    _, items = _dict_items(cr, 'Cipher._algorithm_dict')
    algs = []
    rows = []
    for k, v in items:
        d = pyast.dotted_name(v)
        if d is None or not d.startswith('algorithms.') or not hasattr(algorithms, d[11:]):
            cr.fail(v, f'cipher algorithm {_u(v)} is not algorithms.<name>')
        if d[11:] not in algs:
            algs.append(d[11:])
        rows.append((ev(cr, k, 'Transform.EncrId'), d[11:]))
    out.append('(* Cipher._algorithm_dict; key_sizes (sorted) and block_size read from the running `cryptography` *)')
    out.append('Inductive algorithm := ' + ' | '.join(algs) + '.')
    out.append('Definition cipher_algorithm_dict : list (Z * algorithm) := ['
               + '; '.join(f'({k}, {a})' for k, a in rows) + '].')
    out.append('Definition algorithm_key_sizes (a : algorithm) : list Z := match a with '
               + ' | '.join(f'{a} => {_zlist(sorted(getattr(algorithms, a).key_sizes))}' for a in algs) + ' end.')
    out.append('Definition algorithm_block_size (a : algorithm) : Z := match a with '
               + ' | '.join(f'{a} => {getattr(algorithms, a).block_size}' for a in algs) + ' end.')
    tr = Tr(cr, {'self._algorithm.block_size': ('(algorithm_block_size a)', 'Z'),
                 'self._transform.keylen': ('keylen', 'Z'),
                 'self._algorithm.key_sizes[0]': ('key_sizes_0', 'Z')})
    out.append('(* Cipher.block_size / Cipher.key_size (keylen = 0 stands for None; `x or y` on integers) *)')
    out.append('Definition cipher_block_size (a : algorithm) : Z := '
               f"{tr.expect(_prop_return(cr, 'Cipher.block_size'), 'Z')}.")
    out.append('Definition cipher_key_size (keylen key_sizes_0 : Z) : Z := '
               f"{tr.expect(_prop_return(cr, 'Cipher.key_size'), 'Z')}.")
    # ---- prf+ ---------------------------------------------------------------------------------
    fn = cr.func('Prf.prfplus')
    if [a.arg for a in fn.args.args] != ['self', 'key', 'seed', 'size'] or fn.args.defaults:
        cr.fail(fn, 'Prf.prfplus signature changed')
    b = _strip(fn.body)
    ok = (len(b) == 5 and _u(b[0]) == 'result = bytes()' and _u(b[1]) == 'temp = bytes()'
          and isinstance(b[2], ast.Assign) and _u(b[2].targets[0]) == 'i'
          and isinstance(b[3], ast.While) and _u(b[3].test) == 'len(result) < size' and not b[3].orelse
          and _u(b[4]) == 'return result[:size]' and len(b[3].body) == 3)
    if not ok:
        cr.fail(fn, 'Prf.prfplus: loop skeleton changed (result/temp/i initialisation, while len(result) < size, '
                    'return result[:size])')
    i0 = cr.lit(b[2].value)
    w0, w1, w2 = b[3].body
    if not (isinstance(w0, ast.Assign) and _u(w0.targets[0]) == 'temp' and isinstance(w0.value, ast.Call)
            and _u(w0.value.func) == 'self.prf' and len(w0.value.args) == 2 and not w0.value.keywords):
        cr.fail(w0, 'Prf.prfplus: first loop statement is not temp = self.prf(k, d)')
    if _u(w1) != 'result += temp':
        cr.fail(w1, 'Prf.prfplus: second loop statement is not result += temp')
    if not (isinstance(w2, ast.AugAssign) and _u(w2.target) == 'i' and isinstance(w2.op, ast.Add)):
        cr.fail(w2, 'Prf.prfplus: third loop statement is not i += n')
    step = cr.lit(w2.value)
    tob = [n for n in ast.walk(w0.value) if isinstance(n, ast.Call) and isinstance(n.func, ast.Attribute)
           and n.func.attr == 'to_bytes']
    if len(tob) != 1 or _u(tob[0].func.value) != 'i' or len(tob[0].args) != 2 or tob[0].keywords \
            or cr.lit(tob[0].args[1]) != 'big':
        cr.fail(w0, "Prf.prfplus: counter is not i.to_bytes(w, 'big')")
    width = cr.lit(tob[0].args[0])
    if not all(isinstance(x, int) and not isinstance(x, bool) for x in (i0, step, width)):
        cr.fail(fn, 'Prf.prfplus: non integer loop constants')
    tr = Tr(cr, {'key': ('key', 'bytes'), 'temp': ('temp', 'bytes'), 'seed': ('seed', 'bytes'),
                 _u(tob[0]): ('ctr', 'bytes')},
            {'self.prf': ('prf', ['bytes', 'bytes'], 'bytes')})
    out.append('(* Prf.prfplus: loop constants and the block computed by one iteration *)')
    out.append(f'Definition prfplus_i0 : Z := {i0}.')
    out.append(f'Definition prfplus_i_next (i : Z) : Z := (Z.add i {step}).')
    out.append(f'Definition prfplus_counter_width : Z := {width}.')
    out.append('Definition prfplus_block (prf : bytes -> bytes -> bytes) (key temp seed ctr : bytes) : bytes := '
               f"{tr.expect(w0.value, 'bytes')}.")
    # ---- MODP ---------------------------------------------------------------------------------
    _, items = _dict_items(cr, 'MODPDH._group_dict')
    rows = []
    for k, v in items:
        hx = cr.lit(v)
        if not isinstance(hx, str) or not re.fullmatch(r'[0-9A-Fa-f]+', hx):
            cr.fail(v, 'MODP prime is not a hexadecimal string literal')
        rows.append((ev(cr, k, 'Transform.DhId'), hx))
    init = [_u(s) for s in _strip(cr.func('MODPDH.__init__').body)]
    want = ['self.group = group',
            'module = int(self._group_dict[self.group], 16)',
            'self._parameters = self._pn.parameters(self.backend)',
            'self._private_key = self._parameters.generate_private_key()',
            'public_key_int = self._private_key.public_key().public_numbers().y']
    for w in want:
        if w not in init:
            cr.fail(cr.func('MODPDH.__init__'), f'MODPDH.__init__: statement `{w}` not found')
    fn = cr.func('MODPDH.__init__')
    st = {_u(s.targets[0]): s.value for s in _strip(fn.body) if isinstance(s, ast.Assign)}
    pn = st.get('self._pn')
    if not (isinstance(pn, ast.Call) and _u(pn.func) == 'dh.DHParameterNumbers' and len(pn.args) == 2
            and _u(pn.args[0]) == 'module' and not pn.keywords):
        cr.fail(fn, 'MODPDH.__init__: self._pn is not dh.DHParameterNumbers(module, g)')
    gen = cr.lit(pn.args[1])
    kl = st.get('self.key_len')
    if kl is None:
        cr.fail(fn, 'MODPDH.__init__: key_len not assigned')
    tr = Tr(cr, {'len(self._group_dict[group])': ('hexlen', 'Z')})
    modp = ('(* MODPDH._group_dict : group -> (len(hex string), int(hex string, 16)) *)\n'
            'Definition modp_group_dict : list (Z * (Z * Z)) := [\n  '
            + ';\n  '.join(f'({k}, ({len(hx)}, 0x{hx.upper()}))' for k, hx in rows) + '].\n')
    out.append('(* MODPDH: generator; key_len (the table itself is in Gen/ModpGroups.v) *)')
    out.append(f'Definition modp_generator : Z := {gen}.')
    out.append(f"Definition modp_key_len (hexlen : Z) : Z := {tr.expect(kl, 'Z')}.")
    pk = st.get('self.public_key')
    if pk is None or _u(pk) != "public_key_int.to_bytes(self.key_len, 'big')":
        cr.fail(fn, "MODPDH.__init__: public_key is not public_key_int.to_bytes(self.key_len, 'big')")
    out.append('Definition modp_public_key (key_len public_key_int : Z) : result bytes := '
               'to_bytes_big public_key_int key_len.')
    body = [_u(s) for s in _strip(cr.func('MODPDH.compute_secret').body)]
    if body[:1] != ["peer_public_key_int = int.from_bytes(peer_public_key, 'big')"] \
            or body[-1:] != ['self.shared_secret = self._private_key.exchange(peer_public_key)']:
        cr.fail(cr.func('MODPDH.compute_secret'), 'MODPDH.compute_secret changed')
    # ---- ECDH ---------------------------------------------------------------------------------
    from cryptography.hazmat.primitives.asymmetric import ec
    _, items = _dict_items(cr, 'ECDH._ec_groups')
    curves, rows = [], []
    for k, v in items:
        if not (isinstance(v, ast.Call) and not v.args and not v.keywords
                and (pyast.dotted_name(v.func) or '').startswith('ec.') and hasattr(ec, _u(v.func)[3:])):
            cr.fail(v, f'curve {_u(v)} is not ec.<NAME>()')
        name = _u(v.func)[3:]
        if name not in curves:
            curves.append(name)
        rows.append((ev(cr, k, 'Transform.DhId'), name))
    fn = cr.func('ECDH.__init__')
    st = {_u(s.targets[0]): s.value for s in _strip(fn.body) if isinstance(s, ast.Assign)}
    if _u(st.get('self._private_key', ast.Constant(None))) != \
            'ec.generate_private_key(self._ec_groups[group], backend=self.backend)':
        cr.fail(fn, 'ECDH.__init__: private key generation changed')
    if _u(st.get('public_numbers', ast.Constant(None))) != 'self._private_key.public_key().public_numbers()':
        cr.fail(fn, 'ECDH.__init__: public_numbers changed')
    if _u(st.get('self.public_key', ast.Constant(None))) != \
            "public_numbers.x.to_bytes(self.key_len, 'big') + public_numbers.y.to_bytes(self.key_len, 'big')":
        cr.fail(fn, 'ECDH.__init__: public_key is no longer x | y, each key_len octets big endian')
    tr = Tr(cr, {'self._private_key.key_size': ('key_size', 'Z')})
    out.append('(* ECDH._ec_groups; key_size and name of each curve object read from the running `cryptography` *)')
    out.append('Inductive curve := ' + ' | '.join(curves) + '.')
    out.append('Definition ec_groups : list (Z * curve) := [' + '; '.join(f'({k}, {c})' for k, c in rows) + '].')
    out.append('Definition curve_key_size (c : curve) : Z := match c with '
               + ' | '.join(f'{c} => {getattr(ec, c)().key_size}' for c in curves) + ' end.')
    out.append('Definition curve_name (c : curve) : string := match c with '
               + ' | '.join(f'{c} => "{getattr(ec, c)().name}"' for c in curves) + ' end.')
    out.append(f"Definition ecdh_key_len (key_size : Z) : Z := {tr.expect(st['self.key_len'], 'Z')}.")
    out.append('Definition ecdh_public_key (key_len x y : Z) : result bytes :=\n'
               '  bind (to_bytes_big x key_len) (fun bx => bind (to_bytes_big y key_len) (fun by_ => Ok (bx ++ by_))).')
    body = [_u(s) for s in _strip(cr.func('ECDH.compute_secret').body)]
    if body[:2] != ["x = int.from_bytes(peer_public_key[:self.key_len], 'big')",
                    "y = int.from_bytes(peer_public_key[self.key_len:], 'big')"]:
        cr.fail(cr.func('ECDH.compute_secret'), 'ECDH.compute_secret no longer splits x | y at key_len')
    # DiffieHellman.from_group: MODP first, ECDH on KeyError
    body = [_u(s) for s in _strip(cr.func('DiffieHellman.from_group').body)]
    if body != ['try:\n    return MODPDH(group)\nexcept KeyError:\n    return ECDH(group)']:
        cr.fail(cr.func('DiffieHellman.from_group'), 'DiffieHellman.from_group changed')
    # Crypto record
    fn = cr.func('Crypto.__init__')
    params = [a.arg for a in fn.args.args][1:]
    if [_u(s) for s in _strip(fn.body)] != [f'self.{p} = {p}' for p in params]:
        cr.fail(fn, 'Crypto.__init__ is no longer a plain record constructor')
    return '\n'.join(out), params, modp


def _fmt_sizes(src, call, tr):
    """unpack('>{0}s{1}s..'.format(a, b, ..), data) -> (list of Gallina size terms, data expression)"""
    if not (isinstance(call, ast.Call) and _u(call.func) == 'unpack' and len(call.args) == 2 and not call.keywords):
        src.fail(call, 'not a call unpack(fmt, data)')
    f = call.args[0]
    if not (isinstance(f, ast.Call) and isinstance(f.func, ast.Attribute) and f.func.attr == 'format'
            and isinstance(f.func.value, ast.Constant) and isinstance(f.func.value.value, str) and not f.keywords):
        src.fail(call, 'unpack format is not a literal .format(...)')
    fmt = f.func.value.value
    if not re.fullmatch(r'>(\{\d+\}s)+', fmt):
        src.fail(call, f'unpack format {fmt!r} is not big-endian N-octet strings')
    args = [tr.expect(a, 'Z') for a in f.args]
    idx = [int(x) for x in re.findall(r'\{(\d+)\}s', fmt)]
    if any(i >= len(args) for i in idx):
        src.fail(call, 'unpack format refers to a missing argument')
    return [args[i] for i in idx], call.args[1]


def _keyring_ctor(src, call, fields, bound):
    """Keyring(a, b, None, ...) -> Gallina record term in the namedtuple's field order"""
    if not (isinstance(call, ast.Call) and _u(call.func) == 'Keyring' and not call.keywords
            and len(call.args) == len(fields)):
        src.fail(call, 'not a positional Keyring(...) call with one argument per field')
    parts = []
    for f, a in zip(fields, call.args):
        if isinstance(a, ast.Constant) and a.value is None:
            parts.append(f'{f} := None')
        elif isinstance(a, ast.Name) and a.id in bound:
            parts.append(f'{f} := Some v_{a.id}')
        else:
            src.fail(call, f'Keyring argument {_u(a)} is neither None nor an unpacked key')
    return '{| ' + '; '.join(parts) + ' |}'


def _is_log(s):
    if isinstance(s, ast.Expr) and isinstance(s.value, ast.Call) and _u(s.value.func) == 'self.log_debug':
        return True
    if isinstance(s, ast.For) and all(
            (isinstance(b, ast.Assign) and re.fullmatch(r'getattr\(\w+, keyname\)\.hex\(\)', _u(b.value)))
            or (isinstance(b, ast.Expr) and isinstance(b.value, ast.Call) and _u(b.value.func) == 'self.log_debug')
            for b in s.body) and not s.orelse:
        return True
    return False


def translate_ikesa(ik, msg, crypto_params):
    out = []
    # Keyring namedtuple
    kr = ik.assign_value('Keyring')
    if not (isinstance(kr, ast.Call) and _u(kr.func) == 'namedtuple' and len(kr.args) == 2
            and ik.lit(kr.args[0]) == 'Keyring'):
        ik.fail(kr, 'Keyring is no longer a namedtuple')
    fields = ik.lit(kr.args[1])
    if not all(isinstance(f, str) and re.fullmatch(r'sk_\w+', f) for f in fields):
        ik.fail(kr, 'unexpected Keyring fields')
    out.append('(* Keyring = namedtuple(...) *)')
    out.append('Record keyring := { ' + '; '.join(f'{f} : option bytes' for f in fields) + ' }.')
    want_params = ['cipher', 'sk_e', 'integrity', 'sk_a', 'prf', 'sk_p']
    if crypto_params != want_params:
        raise TranslateError(f'crypto.py: Crypto.__init__ parameters {crypto_params} != {want_params}')
    out.append('(* the key fields of crypto.Crypto (cipher/integrity/prf objects are shared by both directions) *)')
    out.append('Record crypto := { ' + '; '.join(f'{p} : option bytes' for p in crypto_params if p.startswith('sk_'))
               + ' }.')
    # ---------------- generate_ike_sa_key_material ----------------
    fn = ik.func('IkeSa.generate_ike_sa_key_material')
    params = [a.arg for a in fn.args.args]
    if params != ['self', 'ike_proposal', 'nonce_i', 'nonce_r', 'spi_i', 'spi_r', 'shared_secret', 'old_sk_d'] \
            or [_u(d) for d in fn.args.defaults] != ['None']:
        ik.fail(fn, 'generate_ike_sa_key_material signature changed')
    body = [s for s in _strip(fn.body) if not _is_log(s)]
    if len(body) != 12:
        ik.fail(fn, f'generate_ike_sa_key_material: {len(body)} statements, expected 12')
    for s, w in zip(body[:3], ['prf = Prf(ike_proposal.get_transform(Transform.Type.PRF))',
                               'integ = Integrity(ike_proposal.get_transform(Transform.Type.INTEG))',
                               'cipher = Cipher(ike_proposal.get_transform(Transform.Type.ENCR))']):
        if _u(s) != w:
            ik.fail(s, f'expected `{w}`')
    bts = {n: (n, 'bytes') for n in ('nonce_i', 'nonce_r', 'spi_i', 'spi_r', 'shared_secret', 'old_sk_d', 'skeyseed')}
    env = dict(bts)
    env.update({'prf.key_size': ('prf_key_size', 'Z'), 'integ.key_size': ('integ_key_size', 'Z'),
                'cipher.key_size': ('cipher_key_size', 'Z')})
    tr = Tr(ik, env, {'prf.prf': ('prf', ['bytes', 'bytes'], 'bytes'),
                      'prf.prfplus': ('prfplus', ['bytes', 'bytes', 'Z'], 'R')})
    s = body[3]
    if not (isinstance(s, ast.If) and _u(s.test) == 'not old_sk_d' and len(s.body) == 1 and len(s.orelse) == 1
            and all(isinstance(x, ast.Assign) and _u(x.targets[0]) == 'skeyseed' for x in s.body + s.orelse)):
        ik.fail(s, 'SKEYSEED is no longer `if not old_sk_d: skeyseed = .. else: skeyseed = ..`')
    out.append('(* generate_ike_sa_key_material: SKEYSEED, `if not old_sk_d` branch and `else` branch *)')
    out.append('Definition ike_skeyseed_initial (prf : bytes -> bytes -> bytes) (nonce_i nonce_r shared_secret : bytes)'
               f" : bytes :=\n  {tr.expect(s.body[0].value, 'bytes')}.")
    out.append('Definition ike_skeyseed_rekey (prf : bytes -> bytes -> bytes) (old_sk_d nonce_i nonce_r shared_secret '
               f": bytes) : bytes :=\n  {tr.expect(s.orelse[0].value, 'bytes')}.")
    s = body[4]
    if not (isinstance(s, ast.Assign) and _u(s.targets[0]) == 'keymat'):
        ik.fail(s, 'expected keymat = prf.prfplus(...)')
    out.append('(* keymat = prf.prfplus(skeyseed, seed, total length) *)')
    out.append('Definition ike_keymat {R} (prfplus : bytes -> bytes -> Z -> R) (skeyseed nonce_i nonce_r spi_i spi_r : '
               f"bytes) (prf_key_size integ_key_size cipher_key_size : Z) : R :=\n  {tr.expect(s.value, 'R')}.")
    s = body[5]
    if not (isinstance(s, ast.Assign) and isinstance(s.targets[0], ast.Tuple)
            and all(isinstance(e, ast.Name) for e in s.targets[0].elts)):
        ik.fail(s, 'expected a tuple assignment from unpack(...)')
    names = [e.id for e in s.targets[0].elts]
    sizes, data = _fmt_sizes(ik, s.value, tr)
    if _u(data) != 'keymat' or len(sizes) != len(names) or len(set(names)) != len(names):
        ik.fail(s, 'unpack of keymat: target/format mismatch')
    out.append('(* the unpack format of keymat and the Keyring built from its fields *)')
    out.append('Definition ike_unpack_sizes (prf_key_size integ_key_size cipher_key_size : Z) : list Z :=\n  ['
               + '; '.join(sizes) + '].')
    s = body[6]
    if not (isinstance(s, ast.Assign) and _u(s.targets[0]) == 'ike_sa_keyring'):
        ik.fail(s, 'expected ike_sa_keyring = Keyring(...)')
    out.append('Definition ike_keyring_of_unpack (l : list bytes) : option keyring :=\n  match l with\n  | ['
               + '; '.join('v_' + n for n in names) + '] => Some ' + _keyring_ctor(ik, s.value, fields, set(names))
               + '\n  | _ => None\n  end.')
    # crypto_i / crypto_r
    defs = {}
    for s, nm in ((body[7], 'crypto_i'), (body[8], 'crypto_r')):
        c = s.value if isinstance(s, ast.Assign) else None
        if not (c is not None and _u(s.targets[0]) == nm and isinstance(c, ast.Call) and _u(c.func) == 'Crypto'
                and len(c.args) == 6 and not c.keywords):
            ik.fail(s, f'expected {nm} = Crypto(6 positional arguments)')
        parts = []
        for p, a in zip(crypto_params, c.args):
            if p.startswith('sk_'):
                m = re.fullmatch(r'ike_sa_keyring\.(sk_\w+)', _u(a))
                if not m or m.group(1) not in fields:
                    ik.fail(s, f'{nm}: {_u(a)} is not a Keyring field')
                parts.append(f'{p} := {m.group(1)} kr')
            elif _u(a) != {'cipher': 'cipher', 'integrity': 'integ', 'prf': 'prf'}[p]:
                ik.fail(s, f'{nm}: argument {p} is {_u(a)}')
        defs[nm] = '{| ' + '; '.join(parts) + ' |}'
        out.append(f'Definition {nm} (kr : keyring) : crypto := {defs[nm]}.')
    for s, nm in ((body[9], 'my_crypto'), (body[10], 'peer_crypto')):
        v = s.value if isinstance(s, ast.Assign) else None
        if not (v is not None and _u(s.targets[0]) == 'self.' + nm and isinstance(v, ast.IfExp)
                and _u(v.test) == 'self.is_initiator' and _u(v.body) in defs and _u(v.orelse) in defs):
            ik.fail(s, f'expected self.{nm} = crypto_x if self.is_initiator else crypto_y')
        out.append(f'Definition {nm} (is_initiator : bool) (kr : keyring) : crypto := '
                   f'if is_initiator then {_u(v.body)} kr else {_u(v.orelse)} kr.')
    if _u(body[11]) != 'return ike_sa_keyring':
        ik.fail(body[11], 'expected return ike_sa_keyring')
    # ---------------- generate_child_sa_key_material ----------------
    fn = ik.func('IkeSa.generate_child_sa_key_material')
    if [a.arg for a in fn.args.args] != ['self', 'child_proposal', 'keyseed', 'sk_d'] or fn.args.defaults:
        ik.fail(fn, 'generate_child_sa_key_material signature changed')
    body = [s for s in _strip(fn.body) if not _is_log(s)]
    if len(body) != 7:
        ik.fail(fn, f'generate_child_sa_key_material: {len(body)} statements, expected 7')
    if not (isinstance(body[0], ast.Assign) and _u(body[0].targets[0]) == 'encr_key_size'):
        ik.fail(body[0], 'expected encr_key_size = <int>')
    encr0 = ik.lit(body[0].value)
    if _u(body[1]) != 'integ_key_size = Integrity(child_proposal.get_transform(Transform.Type.INTEG)).key_size':
        ik.fail(body[1], 'integ_key_size assignment changed')
    s = body[2]
    if not (isinstance(s, ast.If) and not s.orelse and len(s.body) == 1 and isinstance(s.test, ast.Compare)
            and _u(s.test.left) == 'child_proposal.protocol_id' and len(s.test.ops) == 1
            and isinstance(s.test.ops[0], ast.Eq)
            and _u(s.body[0]) == 'encr_key_size = Cipher(child_proposal.get_transform(Transform.Type.ENCR)).key_size'):
        ik.fail(s, 'the ESP-only cipher key size rule changed')
    proto = pyast.dotted_name(s.test.comparators[0]) or ''
    protos = dict(msg.enum('Proposal.Protocol'))
    if not proto.startswith('Proposal.Protocol.') or proto[18:] not in protos:
        ik.fail(s, f'{proto} is not a Proposal.Protocol member')
    env = {n: (n, 'bytes') for n in ('sk_d', 'keyseed')}
    env.update({'integ_key_size': ('integ_key_size', 'Z'), 'encr_key_size': ('encr_key_size', 'Z')})
    tr = Tr(ik, env, {'self.my_crypto.prf.prfplus': ('prfplus', ['bytes', 'bytes', 'Z'], 'R')})
    out.append('(* generate_child_sa_key_material *)')
    out.append(f'Definition child_encr_key_size_default : Z := {encr0}.')
    out.append(f'Definition child_protocol_with_cipher : Z := {protos[proto[18:]]}.   (* {proto} *)')
    out.append('Definition proposal_protocol_AH : Z := %d.\nDefinition proposal_protocol_ESP : Z := %d.'
               % (protos['AH'], protos['ESP']))
    s = body[3]
    if not (isinstance(s, ast.Assign) and _u(s.targets[0]) == 'keymat'):
        ik.fail(s, 'expected keymat = self.my_crypto.prf.prfplus(...)')
    out.append('Definition child_keymat {R} (prfplus : bytes -> bytes -> Z -> R) (sk_d keyseed : bytes) '
               f"(integ_key_size encr_key_size : Z) : R :=\n  {tr.expect(s.value, 'R')}.")
    s = body[4]
    if not (isinstance(s, ast.Assign) and isinstance(s.targets[0], ast.Tuple)
            and all(isinstance(e, ast.Name) for e in s.targets[0].elts)):
        ik.fail(s, 'expected a tuple assignment from unpack(...)')
    names = [e.id for e in s.targets[0].elts]
    sizes, data = _fmt_sizes(ik, s.value, tr)
    if _u(data) != 'keymat' or len(sizes) != len(names) or len(set(names)) != len(names):
        ik.fail(s, 'unpack of keymat: target/format mismatch')
    out.append('Definition child_unpack_sizes (encr_key_size integ_key_size : Z) : list Z :=\n  ['
               + '; '.join(sizes) + '].')
    s = body[5]
    if not (isinstance(s, ast.Assign) and _u(s.targets[0]) == 'child_sa_keyring'):
        ik.fail(s, 'expected child_sa_keyring = Keyring(...)')
    out.append('Definition child_keyring_of_unpack (l : list bytes) : option keyring :=\n  match l with\n  | ['
               + '; '.join('v_' + n for n in names) + '] => Some ' + _keyring_ctor(ik, s.value, fields, set(names))
               + '\n  | _ => None\n  end.')
    if _u(body[6]) != 'return child_sa_keyring':
        ik.fail(body[6], 'expected return child_sa_keyring')
    # ---------------- call sites ----------------
    out.append(translate_call_sites(ik))
    return '\n'.join(out)


def _find_calls(fn, attr):
    return [n for n in ast.walk(fn) if isinstance(n, ast.Call) and isinstance(n.func, ast.Attribute)
            and n.func.attr == attr]


def _assigns(fn, target):
    return [n for n in ast.walk(fn) if isinstance(n, ast.Assign) and len(n.targets) == 1
            and _u(n.targets[0]) == target]


def translate_call_sites(ik):
    out = ['(* ---- call sites in ikesa.py: which values of the exchange reach the key schedule ---- *)']
    order = ['ike_proposal', 'nonce_i', 'nonce_r', 'spi_i', 'spi_r', 'shared_secret', 'old_sk_d']

    def ike_call(fname, gname, env, comment):
        fn = ik.func(fname)
        calls = _find_calls(fn, 'generate_ike_sa_key_material')
        if len(calls) != 1 or calls[0].args or _u(calls[0].func.value) != 'self':
            ik.fail(fn, f'{fname}: expected one keyword call of self.generate_ike_sa_key_material')
        kw = {k.arg: k.value for k in calls[0].keywords}
        if sorted(kw) != sorted(order):
            ik.fail(calls[0], f'{fname}: keyword arguments {sorted(kw)}')
        if _u(kw['ike_proposal']) != 'self.chosen_proposal':
            ik.fail(calls[0], f'{fname}: ike_proposal is not self.chosen_proposal')
        args = []
        for k in order[1:]:
            key = _u(kw[k])
            if key not in env:
                ik.fail(calls[0], f'{fname}: argument {k}={key} outside the subset')
            args.append(env[key])
        tgt = [n for n in ast.walk(fn) if isinstance(n, ast.Assign) and n.value is calls[0]]
        if len(tgt) != 1 or _u(tgt[0].targets[0]) != 'self.ike_sa_keyring':
            ik.fail(calls[0], f'{fname}: result is not stored in self.ike_sa_keyring')
        out.append(f'(* {comment} *)')
        out.append(f'Definition {gname} {{R}} (gen : bytes -> bytes -> bytes -> bytes -> bytes -> option bytes -> R)\n'
                   '    (request_nonce response_nonce my_spi peer_spi dh_shared_secret : bytes) '
                   '(old_sk_d : option bytes) : R :=\n  gen ' + ' '.join(args) + '.')
        return fn

    fn = ike_call('IkeSa._process_ike_sa_negotiation_request', 'responder_ike_call',
                  {'payload_nonce.nonce': 'request_nonce', 'response_payload_nonce.nonce': 'response_nonce',
                   'self.peer_spi': 'peer_spi', 'self.my_spi': 'my_spi', 'dh.shared_secret': 'dh_shared_secret',
                   'old_sk_d': 'old_sk_d'},
                  'responder: _process_ike_sa_negotiation_request (nonce_i, nonce_r, spi_i, spi_r, secret, old_sk_d)')
    a = {t: [_u(x.value) for x in _assigns(fn, t)] for t in ('payload_nonce', 'response_payload_nonce', 'dh')}
    if a['payload_nonce'] != ['request.get_payload(Payload.Type.NONCE, encrypted)'] \
            or a['response_payload_nonce'] != ['PayloadNONCE()'] \
            or a['dh'] != ['DiffieHellman.from_group(payload_ke.dh_group)']:
        ik.fail(fn, '_process_ike_sa_negotiation_request: source of nonces / dh changed')
    if 'dh.compute_secret(payload_ke.ke_data)' not in [_u(s.value) for s in ast.walk(fn) if isinstance(s, ast.Expr)]:
        ik.fail(fn, '_process_ike_sa_negotiation_request: dh.compute_secret(payload_ke.ke_data) not found')
    fn = ike_call('IkeSa.process_ike_sa_negotiation_response', 'initiator_ike_call',
                  {'nonce': 'request_nonce', 'payload_nonce.nonce': 'response_nonce',
                   'self.peer_spi': 'peer_spi', 'self.my_spi': 'my_spi', 'self.dh.shared_secret': 'dh_shared_secret',
                   'old_sk_d': 'old_sk_d'},
                  'initiator: process_ike_sa_negotiation_response')
    if [_u(x.value) for x in _assigns(fn, 'payload_nonce')] != ['response.get_payload(Payload.Type.NONCE, encrypted)']:
        ik.fail(fn, 'process_ike_sa_negotiation_response: source of the responder nonce changed')
    if [_u(x.value) for x in _assigns(fn, 'self.peer_spi')] != \
            ['response.spi_r if old_sk_d is None else self.chosen_proposal.spi']:
        ik.fail(fn, 'process_ike_sa_negotiation_response: peer SPI rule changed')
    if 'self.dh.compute_secret(payload_ke.ke_data)' not in \
            [_u(s.value) for s in ast.walk(fn) if isinstance(s, ast.Expr)]:
        ik.fail(fn, 'process_ike_sa_negotiation_response: self.dh.compute_secret(payload_ke.ke_data) not found')
    # old SK_d handed to the negotiation of the new IKE_SA on both roles
    fn = ik.func('IkeSa.process_create_child_sa_request')
    c = _find_calls(fn, '_process_ike_sa_negotiation_request')
    if len(c) != 1 or [_u(x) for x in c[0].args] != ['request', 'True', 'self.ike_sa_keyring.sk_d'] or c[0].keywords \
            or _u(c[0].func.value) != 'self.new_ike_sa':
        ik.fail(fn, 'rekey responder: new_ike_sa._process_ike_sa_negotiation_request(request, True, '
                    'self.ike_sa_keyring.sk_d) not found')
    if [_u(x.value) for x in _assigns(fn, 'self.new_ike_sa')] != \
            ['IkeSa(False, proposal.spi, self.configuration, self.my_addr, self.peer_addr)']:
        ik.fail(fn, 'rekey responder: construction of the new IKE_SA changed')
    fn = ik.func('IkeSa.process_create_child_sa_response')
    c = _find_calls(fn, 'process_ike_sa_negotiation_response')
    if len(c) != 1 or _u(c[0].func.value) != 'self.new_ike_sa' \
            or [_u(x) for x in c[0].args] != ['response', 'self.request.get_payload(Payload.Type.NONCE, True).nonce'] \
            or {k.arg: _u(k.value) for k in c[0].keywords} != {'encrypted': 'True',
                                                              'old_sk_d': 'self.ike_sa_keyring.sk_d'}:
        ik.fail(fn, 'rekey initiator: new_ike_sa.process_ike_sa_negotiation_response(..., '
                    'old_sk_d=self.ike_sa_keyring.sk_d) not found')
    out.append('(* both rekey paths pass the SK_d of the IKE_SA being rekeyed *)')
    out.append('Definition rekey_old_sk_d (old_keyring : keyring) : option bytes := sk_d old_keyring.')
    # CHILD_SA keyseed on both roles
    for fname, pre, dhname, nonce_rule in (
            ('IkeSa._process_create_child_sa_negotiation_req', 'responder', 'dh.shared_secret',
             {'request_payload_nonce': ['ike_sa_init_req.get_payload(Payload.Type.NONCE)',
                                        'request.get_payload(Payload.Type.NONCE, encrypted=True)'],
              'response_payload_nonce': ['ike_sa_init_res.get_payload(Payload.Type.NONCE)', 'PayloadNONCE()']}),
            ('IkeSa._process_create_child_sa_negotiation_res', 'initiator', 'self.dh.shared_secret',
             {'request_payload_nonce': ['ike_sa_init_req.get_payload(Payload.Type.NONCE)',
                                        'self.request.get_payload(Payload.Type.NONCE, True)'],
              'response_payload_nonce': ['ike_sa_init_res.get_payload(Payload.Type.NONCE)',
                                         'response.get_payload(Payload.Type.NONCE, True)']})):
        fn = ik.func(fname)
        ks = _assigns(fn, 'keyseed')
        if len(ks) != 2:
            ik.fail(fn, f'{fn.name}: expected two assignments of keyseed')
        tr = Tr(ik, {'request_payload_nonce.nonce': ('request_nonce', 'bytes'),
                     'response_payload_nonce.nonce': ('response_nonce', 'bytes'),
                     dhname: ('dh_shared_secret', 'bytes'), 'keyseed': ('keyseed', 'bytes')})
        out.append(f'(* {pre}: {fn.name} *)')
        out.append(f'Definition {pre}_child_keyseed (request_nonce response_nonce : bytes) : bytes :=\n  '
                   f"{tr.expect(ks[0].value, 'bytes')}.")
        out.append(f'Definition {pre}_child_keyseed_pfs (dh_shared_secret keyseed : bytes) : bytes :=\n  '
                   f"{tr.expect(ks[1].value, 'bytes')}.")
        # the second assignment is guarded by the presence of a DH transform in the chosen proposal
        guard = [n for n in ast.walk(fn) if isinstance(n, ast.If) and ks[1] in n.body]
        if len(guard) != 1 or _u(guard[0].test) != 'chosen_child_proposal.get_transforms(Transform.Type.DH)':
            ik.fail(fn, f'{fn.name}: the DH secret is no longer prepended exactly when the proposal has a DH transform')
        c = _find_calls(fn, 'generate_child_sa_key_material')
        if len(c) != 1 or c[0].args or {k.arg: _u(k.value) for k in c[0].keywords} != {
                'child_proposal': 'chosen_child_proposal', 'keyseed': 'keyseed', 'sk_d': 'self.ike_sa_keyring.sk_d'}:
            ik.fail(fn, f'{fn.name}: arguments of generate_child_sa_key_material changed')
        # nonce sources: IKE_AUTH -> stored IKE_SA_INIT messages, else this exchange
        for t, want in nonce_rule.items():
            got = [_u(x.value) for x in _assigns(fn, t)]
            if got != want:
                ik.fail(fn, f'{fn.name}: source of {t} changed: {got}')
        iff = [n for n in ast.walk(fn) if isinstance(n, ast.If)
               and any(isinstance(x, ast.Assign) and _u(x.targets[0]) == 'request_payload_nonce' for x in n.body)]
        if len(iff) != 1 or not re.fullmatch(r'(request|response)\.exchange_type == Message\.Exchange\.IKE_AUTH',
                                            _u(iff[0].test)):
            ik.fail(fn, f'{fn.name}: the IKE_AUTH nonce-source rule changed')
        if ['Message.parse(self.ike_sa_init_req_data)'] != [_u(x.value) for x in _assigns(fn, 'ike_sa_init_req')] or \
                ['Message.parse(self.ike_sa_init_res_data)'] != [_u(x.value) for x in _assigns(fn, 'ike_sa_init_res')]:
            ik.fail(fn, f'{fn.name}: stored IKE_SA_INIT messages are no longer the nonce source for IKE_AUTH')
    return '\n'.join(out)


def translate_config(cf, msg):
    """configuration.py: the transforms a configuration file can name (type, id, keylen)"""
    ev = _enum_resolver(msg)
    types = dict(msg.enum('Transform.Type'))
    enums = {'ENCR': 'Transform.EncrId', 'INTEG': 'Transform.IntegId', 'PRF': 'Transform.PrfId', 'DH': 'Transform.DhId'}
    out = []
    for var, ty, gname in (('_encr_name_to_transform', 'ENCR', 'config_encr'),
                           ('_integ_name_to_transform', 'INTEG', 'config_integ'),
                           ('_prf_name_to_transform', 'PRF', 'config_prf'),
                           ('_dh_name_to_transform', 'DH', 'config_dh')):
        _, items = _dict_items(cf, var)
        rows = []
        for k, v in items:
            if not (isinstance(v, ast.Call) and _u(v.func) == 'Transform' and not v.keywords and len(v.args) in (2, 3)
                    and _u(v.args[0]) == 'Transform.Type.' + ty):
                cf.fail(v, f'{var}: value is not Transform(Transform.Type.{ty}, id[, keylen])')
            tid = ev(cf, v.args[1], enums[ty])
            keylen = cf.lit(v.args[2]) if len(v.args) == 3 else 0
            if not isinstance(keylen, int) or isinstance(keylen, bool) or keylen < 0:
                cf.fail(v, f'{var}: keylen is not a non-negative integer literal')
            if (tid, keylen) not in rows:
                rows.append((tid, keylen))
        rows.sort()
        out.append(f'(* configuration.{var}: distinct (transform id, keylen or 0), sorted *)')
        out.append(f'Definition {gname} : list (Z * Z) := [' + '; '.join(f'({a}, {b})' for a, b in rows) + '].')
    _, items = _dict_items(cf, '_ipsec_proto_name_to_enum')
    protos = dict(msg.enum('Proposal.Protocol'))
    vals = []
    for k, v in items:
        d = pyast.dotted_name(v) or ''
        if not d.startswith('Proposal.Protocol.') or d[18:] not in protos:
            cf.fail(v, '_ipsec_proto_name_to_enum: value is not a Proposal.Protocol member')
        vals.append(protos[d[18:]])
    out.append('(* configuration._ipsec_proto_name_to_enum values *)')
    out.append('Definition config_ipsec_protocols : list Z := ' + _zlist(sorted(set(vals))) + '.')
    return '\n'.join(out)


def translate(ctx):
    cr = pyast.Src(os.path.join(core.REPO, 'crypto.py'))
    ik = pyast.Src(os.path.join(core.REPO, 'ikesa.py'))
    msg = pyast.Src(os.path.join(core.REPO, 'message.py'))
    tables, crypto_params, modp = translate_crypto(cr, msg)
    head = ('(* GENERATED from /repo/{} by py/props/c04.py - do not edit *)\n'
            'From Coq Require Import ZArith List String.\nFrom VLib Require Import Bytes.\n'
            'From Keys Require Import Py.\nImport ListNotations.\nOpen Scope Z_scope.\nOpen Scope string_scope.\n'
            'Open Scope list_scope.\n\n')
    gen = os.path.join(core.cluster_dir(CLUSTER), 'Gen')
    pyast.write_if_changed(os.path.join(gen, 'CryptoTables.v'), head.format('crypto.py, message.py') + tables + '\n')
    pyast.write_if_changed(os.path.join(gen, 'ModpGroups.v'),
                           '(* GENERATED from /repo/crypto.py, message.py by py/props/c04.py - do not edit *)\n'
                           'From Coq Require Import ZArith List.\nImport ListNotations.\nOpen Scope Z_scope.\n\n' + modp)
    cf = pyast.Src(os.path.join(core.REPO, 'configuration.py'))
    pyast.write_if_changed(os.path.join(gen, 'ConfigSuites.v'),
                           '(* GENERATED from /repo/configuration.py, message.py by py/props/c04.py - do not edit *)\n'
                           'From Coq Require Import ZArith List.\nImport ListNotations.\nOpen Scope Z_scope.\n\n'
                           + translate_config(cf, msg) + '\n')
    km = translate_ikesa(ik, msg, crypto_params)
    pyast.write_if_changed(os.path.join(gen, 'KeyMaterial.v'),
                           head.format('ikesa.py, message.py') + 'From Keys Require Import Gen.CryptoTables.\n\n'
                           + km + '\n')



# =============================================================================================
# tie 2: correspondence (toy prf)

PRF_IDS = (2, 5, 7)
INTEG_IDS = (2, 12, 14)
KEYLENS = (128, 256)
ENCR_AES_CBC = 12


def toy_prf(hlen, key, data):
    """the same function as KeysRun.toy_prf"""
    a = 7
    for b in key:
        a = (a * 31 + b + 1) % 65521
    a = (a * 131 + 255) % 65521
    for b in data:
        a = (a * 31 + b + 1) % 65521
    a = (a * 257 + len(key) * 3 + len(data)) % 65521
    out = bytearray()
    x = a
    for _ in range(hlen):
        x = (x * 75 + 74) % 65537
        out.append(x % 256)
    return bytes(out)


def exc_name(ex):
    return ['raise', 'error' if type(ex).__name__ == 'error' else type(ex).__name__]


def _fake_self(is_initiator, prf_obj=None):
    import crypto
    ns = types.SimpleNamespace(log_debug=lambda m: None, is_initiator=is_initiator, my_crypto=None, peer_crypto=None)
    if prf_obj is not None:
        ns.my_crypto = crypto.Crypto(None, None, None, None, prf_obj, None)
    return ns


def _ike_proposal(p, i, e, keylen):
    from message import Proposal, Transform
    return Proposal(1, Proposal.Protocol.IKE, b'', [Transform(Transform.Type.ENCR, e, keylen),
                                                    Transform(Transform.Type.INTEG, i),
                                                    Transform(Transform.Type.PRF, p),
                                                    Transform(Transform.Type.DH, 14)])


def _child_proposal(proto, i, e, keylen):
    from message import Proposal, Transform
    tr = [Transform(Transform.Type.INTEG, i), Transform(Transform.Type.ESN, 0)]
    if proto == 3:
        tr.insert(0, Transform(Transform.Type.ENCR, e, keylen))
    return Proposal(1, proto, b'\x01\x02\x03\x04', tr)


def _kr(k):
    return [None if x is None else bytes(x) for x in k]


def _cr(c):
    return [bytes(c.sk_e), bytes(c.sk_a), bytes(c.sk_p)]


def impl_prfplus(p, key, seed, n):
    import crypto
    from message import Transform
    try:
        return crypto.Prf(Transform(Transform.Type.PRF, p)).prfplus(key, seed, n)
    except Exception as ex:
        return exc_name(ex)


def impl_ike(p, i, e, keylen, ini, ni, nr, si, sr, g, old):
    from ikesa import IkeSa
    try:
        ns = _fake_self(bool(ini))
        kr = IkeSa.generate_ike_sa_key_material(ns, _ike_proposal(p, i, e, keylen), ni, nr, si, sr, g, old)
        return [_kr(kr), _cr(ns.my_crypto), _cr(ns.peer_crypto)]
    except Exception as ex:
        return exc_name(ex)


def impl_child(p, proto, i, e, keylen, keyseed, skd):
    import crypto
    from ikesa import IkeSa
    from message import Transform
    try:
        ns = _fake_self(True, crypto.Prf(Transform(Transform.Type.PRF, p)))
        return _kr(IkeSa.generate_child_sa_key_material(ns, _child_proposal(proto, i, e, keylen), keyseed, skd))
    except Exception as ex:
        return exc_name(ex)


def impl_sizes(p, i, e, keylen):
    import crypto
    from message import Transform
    try:
        prf = crypto.Prf(Transform(Transform.Type.PRF, p))
        integ = crypto.Integrity(Transform(Transform.Type.INTEG, i))
        ciph = crypto.Cipher(Transform(Transform.Type.ENCR, e, keylen))
        return [prf.key_size, prf.hash_size, integ.key_size, integ.hash_size, ciph.key_size, ciph.block_size]
    except Exception as ex:
        return exc_name(ex)


def rnd_bytes(rng, n):
    return bytes(rng.getrandbits(8) for _ in range(n))


def rnd_nonce(rng):
    return rnd_bytes(rng, rng.choice((16, 17, 31, 32, 33, 64, 128, 255, 256, rng.randrange(16, 257))))


def rnd_secret(rng, n=None):
    """DH shared secrets are fixed width: leading zero octets must be kept"""
    n = n or rng.choice((32, 48, 66, 256, 384))
    z = rng.choice((0, 0, 1, 2, 5))
    return b'\0' * z + rnd_bytes(rng, n - z)


def gen_cases(ctx):
    """cases for KeysRun.run as (input, kind, python thunk arguments)"""
    rng = ctx.rng
    quick = ctx.quick()
    cases = []
    # prf+: every output length 0..400 (+ around the 255-block limit) for each PRF
    lens = list(range(0, 401)) if not quick else sorted(set(list(range(0, 50)) + rng.sample(range(50, 401), 45)))
    for p in PRF_IDS:
        hl = {2: 20, 5: 32, 7: 64}[p]
        extra = [255 * hl - 1, 255 * hl, 255 * hl + 1, 255 * hl + hl] if (p == 2 or not quick) else [255 * hl + 1]
        for n in lens + extra + [-1]:
            key = rnd_bytes(rng, rng.choice((0, 1, 20, 32, 64, 100)))
            seed = rnd_bytes(rng, rng.randrange(0, 80))
            cases.append((['prfplus' if n <= 1000 else 'prfplus_tail', [p, key, seed, n]], 'prfplus',
                          (p, key, seed, n)))
    cases.append((['prfplus', [3, b'k', b's', 10]], 'prfplus', (3, b'k', b's', 10)))    # unsupported PRF id
    # IKE_SA keys: all suites x initial/rekey x role
    reps = 1 if quick else 4
    for _ in range(reps):
        for p in PRF_IDS:
            for i in INTEG_IDS:
                for kl in KEYLENS:
                    for rekey in (False, True):
                        ini = rng.choice((0, 1))
                        ni, nr = rnd_nonce(rng), rnd_nonce(rng)
                        si, sr = rnd_bytes(rng, 8), rnd_bytes(rng, 8)
                        g = rnd_secret(rng)
                        old = rnd_bytes(rng, {2: 20, 5: 32, 7: 64}[p]) if rekey else None
                        a = (p, i, ENCR_AES_CBC, kl, ini, ni, nr, si, sr, g, old)
                        cases.append((['ike', [p, i, ENCR_AES_CBC, kl, ini, 0, ni, nr, si, sr, g, old]], 'ike', a))
    # quirks and errors: empty old_sk_d counts as "no old SK_d"; unsupported ids; KEY_LEN absent / not an AES size
    ni, nr, g = rnd_nonce(rng), rnd_nonce(rng), rnd_secret(rng)
    for (p, i, e, kl, old) in ((5, 12, 12, 256, b''), (1, 12, 12, 256, None), (5, 1, 12, 256, None),
                               (5, 12, 3, 256, None), (5, 12, 12, None, None), (5, 12, 12, 100, None),
                               (5, 12, 12, 0, None), (5, 12, 12, 192, None), (7, 14, 12, 512, None)):
        a = (p, i, e, kl, 1, ni, nr, b'\1' * 8, b'\2' * 8, g, old)
        cases.append((['ike', [p, i, e, kl, 1, 0, ni, nr, b'\1' * 8, b'\2' * 8, g, old]], 'ike', a))
    # CHILD_SA keys: ESP x key lengths and AH, with and without a DH secret in the seed
    for _ in range(reps):
        for p in PRF_IDS:
            for i in INTEG_IDS:
                for proto, kl in ((3, 128), (3, 256), (2, None)):
                    for pfs in (False, True):
                        seed = (rnd_secret(rng) if pfs else b'') + rnd_nonce(rng) + rnd_nonce(rng)
                        skd = rnd_bytes(rng, {2: 20, 5: 32, 7: 64}[p])
                        a = (p, proto, i, ENCR_AES_CBC, kl, seed, skd)
                        cases.append((['child', [p, proto, i, ENCR_AES_CBC, kl, 0, seed, b'', None, skd]], 'child', a))
    for (proto, i, e, kl) in ((3, 12, 12, None), (3, 1, 12, 128), (2, 1, 12, 128), (3, 12, 3, 128), (1, 12, 12, 128)):
        a = (5, proto, i, e, kl, b'seed' * 8, b'd' * 32)
        cases.append((['child', [5, proto, i, e, kl, 0, b'seed' * 8, b'', None, b'd' * 32]], 'child', a))
    # sizes of every suite (and of some the tables do not contain)
    for p in PRF_IDS + (1, 6):
        for i in INTEG_IDS + (1, 5):
            for e, kl in ((12, 128), (12, 192), (12, 256), (12, 512), (12, None), (12, 0), (12, 64), (13, 128)):
                if quick and (p in (1, 6) or i in (1, 5)) and (e, kl) != (12, 128):
                    continue
                cases.append((['sizes', [p, i, e, kl]], 'sizes', (p, i, e, kl)))
    return cases


def run_impl(kind, a):
    import crypto
    with mock.patch.object(crypto.Prf, 'prf', lambda self, key, data: toy_prf(self.hash_size, key, data)):
        if kind == 'prfplus':
            return impl_prfplus(*a)
        if kind == 'ike':
            return impl_ike(*a)
        if kind == 'child':
            return impl_child(*a)
        if kind == 'sizes':
            return impl_sizes(*a)
    raise ValueError(kind)


def handshake_cases(ctx):
    """Real handshakes (both peers are the real IkeSa) with Prf.prf patched to the toy function: what each call site
    fed to the key schedule is observed on the wire / at the DH objects and given to the model's call-site functions."""
    import crypto
    cases = []
    n = 2 if ctx.quick() else 8
    combos = [(p, i, kl, dh) for p in PRF_IDS for i in INTEG_IDS for kl in KEYLENS for dh in (19, 20, 21, 14)]
    ctx.rng.shuffle(combos)
    with mock.patch.object(crypto.Prf, 'prf', lambda self, key, data: toy_prf(self.hash_size, key, data)):
        for (p, i, kl, dh) in combos[:n]:
            obs, error = run_handshake(ctx, p, i, kl, dh, child_dh=ctx.rng.choice((None, 19)),
                                       proto=ctx.rng.choice((2, 3)))
            if error:
                raise RuntimeError('handshake with the toy prf failed: ' + error)
            for o in obs:
                cases.append(o)
    return cases


PRF_NAME = {2: 'sha1', 5: 'sha256', 7: 'sha512'}
INTEG_NAME = {2: 'sha1', 12: 'sha256', 14: 'sha512'}


def run_handshake(ctx, p, i, kl, dh, child_dh=None, proto=3, rekey_ike=True):
    """Drives IKE_SA_INIT, IKE_AUTH, CREATE_CHILD_SA (new CHILD_SA) and an IKE_SA rekey between two real IkeSa
    objects.  Returns observations: (model input for KeysRun.run, kind, expected model output, facts) where facts
    are the raw values (nonces, SPIs, secrets, suite) an independent implementation needs."""
    import crypto
    import ikesa
    import xfrm
    from ipaddress import ip_address, ip_network
    from configuration import Configuration
    from message import Message, Payload, TrafficSelector
    import logging
    logging.indent = 2
    ip1, ip2 = ip_address('192.168.0.1'), ip_address('192.168.0.2')
    prot = {'index': 1, 'ip_proto': 'tcp', 'mode': 'transport', 'lifetime': 5, 'peer_port': 0,
            'ipsec_proto': 'esp' if proto == 3 else 'ah', 'encr': ['aes%d' % kl], 'integ': [INTEG_NAME[i]]}
    if child_dh:
        prot['dh'] = [str(child_dh)]
    base = {'dh': [str(dh)], 'integ': [INTEG_NAME[i]], 'prf': [PRF_NAME[p]], 'encr': ['aes%d' % kl]}
    conf = {'alice': dict(base, my_addr=str(ip1), peer_addr=str(ip2), my_auth={'id': 'alice', 'psk': 'a'},
                          peer_auth={'id': 'bob', 'psk': 'b'}, protect=[dict(prot)]),
            'bob': dict(base, my_addr=str(ip2), peer_addr=str(ip1), my_auth={'id': 'bob', 'psk': 'b'},
                        peer_auth={'id': 'alice', 'psk': 'a'}, protect=[dict(prot, index=2, peer_port=23)])}
    secrets = []     # every DH secret computed, in order, with the object that computed it
    child_keyrings = []

    def wrap(cls):
        orig = cls.compute_secret

        def compute_secret(self, peer_public_key):
            orig(self, peer_public_key)
            secrets.append((self, bytes(self.shared_secret)))
        return mock.patch.object(cls, 'compute_secret', compute_secret)

    def create_child_sa(ike_sa, child_sa, keyring, is_initiator):
        child_keyrings.append((ike_sa, is_initiator, _kr(keyring), child_sa.proposal.protocol_id))

    obs = []
    error = None
    try:
        with mock.patch('xfrm.Xfrm.send_recv'), wrap(crypto.MODPDH), wrap(crypto.ECDH), \
                mock.patch('xfrm.Xfrm.create_child_sa', create_child_sa):
            cfg = Configuration([ip1, ip2], conf)
            a = ikesa.IkeSa(True, b'\0' * 8, cfg.get_ike_configuration(ip1, ip2), ip1, ip2)
            b = ikesa.IkeSa(False, a.my_spi, cfg.get_ike_configuration(ip2, ip1), ip2, ip1)
            tsi = TrafficSelector.from_network(ip_network('192.168.0.1/32'), 8765, TrafficSelector.IpProtocol.TCP)
            tsr = TrafficSelector.from_network(ip_network('192.168.0.2/32'), 23, TrafficSelector.IpProtocol.TCP)
            suite = [p, i, ENCR_AES_CBC, kl]
            m1 = a.process_acquire(tsi, tsr, 1)
            m2 = b.process_message(m1)
            # the responder has its keys now
            q1, q2 = Message.parse(m1), Message.parse(m2)
            if not q2.get_payloads(Payload.Type.NONCE):
                raise RuntimeError(f'IKE_SA_INIT was refused for suite {(p, i, kl, dh)}')
            ni = bytes(q1.get_payload(Payload.Type.NONCE).nonce)
            nr = bytes(q2.get_payload(Payload.Type.NONCE).nonce)
            spi_i, spi_r = bytes(q2.spi_i), bytes(q2.spi_r)
            g_b = secrets[0][1]
            facts = dict(suite=suite, ni=ni, nr=nr, spi_i=spi_i, spi_r=spi_r, g=g_b, old=None, dh=dh)
            obs.append((['ike', suite + [0, 1, ni, nr, spi_r, spi_i, g_b, None]], 'e2e-ike-responder',
                        [_kr(b.ike_sa_keyring), _cr(b.my_crypto), _cr(b.peer_crypto)], facts))
            m3 = a.process_message(m2)
            g_a = secrets[1][1]
            facts = dict(facts, g=g_a)
            obs.append((['ike', suite + [1, 2, ni, nr, spi_i, spi_r, g_a, None]], 'e2e-ike-initiator',
                        [_kr(a.ike_sa_keyring), _cr(a.my_crypto), _cr(a.peer_crypto)], facts))
            if g_a != g_b:
                raise RuntimeError('the two peers computed different DH secrets')
            m4 = b.process_message(m3)
            end = a.process_message(m4)
            if end is not None or a.state != ikesa.IkeSa.State.ESTABLISHED or b.state != ikesa.IkeSa.State.ESTABLISHED \
                    or len(child_keyrings) != 2:
                raise RuntimeError(f'handshake did not complete for suite {(p, i, kl, dh)}: {a.state} {b.state}')
            # piggy-backed CHILD_SA: nonces of IKE_SA_INIT, never a DH secret
            skd = bytes(a.ike_sa_keyring.sk_d)
            csuite = [p, proto, i, ENCR_AES_CBC, kl]
            cf = dict(prf=p, proto=proto, integ=i, kl=kl, ni=ni, nr=nr, g=None, skd=skd)
            for (sa, is_init, kr, pr) in child_keyrings:
                role = 2 if sa is a else 1
                obs.append((['child', csuite + [role, ni, nr, None, skd]], 'e2e-child-auth', kr, cf))
            # CREATE_CHILD_SA for a second CHILD_SA (with KE payloads when the protect entry names a DH group)
            del child_keyrings[:]
            nsec = len(secrets)
            c1 = a.process_acquire(tsi, tsr, 1)
            c2 = b.process_message(c1)
            end = a.process_message(c2)
            if end is not None or len(child_keyrings) != 2:
                raise RuntimeError(f'CREATE_CHILD_SA did not complete for suite {(p, i, kl, dh, child_dh)}')
            r1 = Message.parse(c1, crypto=a.my_crypto)
            r2 = Message.parse(c2, crypto=b.my_crypto)
            cni = bytes(r1.get_payload(Payload.Type.NONCE, True).nonce)
            cnr = bytes(r2.get_payload(Payload.Type.NONCE, True).nonce)
            cg = None
            if child_dh:
                if len(secrets) != nsec + 2 or secrets[nsec][1] != secrets[nsec + 1][1]:
                    raise RuntimeError('CREATE_CHILD_SA with KE: DH secrets missing or different')
                cg = secrets[nsec][1]
            elif len(secrets) != nsec:
                raise RuntimeError('CREATE_CHILD_SA without DH transform computed a DH secret')
            cf = dict(prf=p, proto=proto, integ=i, kl=kl, ni=cni, nr=cnr, g=cg, skd=skd)
            for (sa, is_init, kr, pr) in child_keyrings:
                role = 2 if sa is a else 1
                obs.append((['child', csuite + [role, cni, cnr, cg, skd]], 'e2e-child-create', kr, cf))
            # crossing CREATE_CHILD_SA exchanges with PFS: each side answers the other's request while its own is
            # outstanding; the KEYMAT of each exchange must come from the DH secret of THAT exchange
            if child_dh:
                del child_keyrings[:]
                nsec = len(secrets)
                x1 = a.process_acquire(tsi, tsr, 1)
                y1 = b.process_acquire(tsr, tsi, 2)
                y2 = a.process_message(y1)
                x2 = b.process_message(x1)
                e1 = a.process_message(x2)
                e2 = b.process_message(y2)
                if e1 is not None or e2 is not None or len(child_keyrings) != 4 or len(secrets) != nsec + 4:
                    raise RuntimeError(f'crossing CREATE_CHILD_SA exchanges did not complete for suite {(p, i, kl, dh, child_dh)}')
                rx1, rx2 = Message.parse(x1, crypto=a.my_crypto), Message.parse(x2, crypto=b.my_crypto)
                ry1, ry2 = Message.parse(y1, crypto=b.my_crypto), Message.parse(y2, crypto=a.my_crypto)
                xn = (bytes(rx1.get_payload(Payload.Type.NONCE, True).nonce), bytes(rx2.get_payload(Payload.Type.NONCE, True).nonce))
                yn = (bytes(ry1.get_payload(Payload.Type.NONCE, True).nonce), bytes(ry2.get_payload(Payload.Type.NONCE, True).nonce))
                # secrets in order: a answers Y, b answers X, a completes X, b completes Y; a responder computes
                # its secret with a fresh key pair and the KE it received: that value defines the exchange
                gy, gx = secrets[nsec][1], secrets[nsec + 1][1]
                # child_keyrings in order: a (responder of Y), b (responder of X), a (initiator of X), b (initiator of Y)
                for (sa, is_init, kr, pr), (nn, g) in zip(child_keyrings, [(yn, gy), (xn, gx), (xn, gx), (yn, gy)]):
                    role = 2 if is_init else 1
                    cf = dict(prf=p, proto=proto, integ=i, kl=kl, ni=nn[0], nr=nn[1], g=g, skd=skd)
                    obs.append((['child', csuite + [role, nn[0], nn[1], g, skd]], 'e2e-child-crossing', kr, cf))
            # IKE_SA rekey initiated by the original responder (roles swap: b is the initiator of the new IKE_SA)
            if rekey_ike:
                nsec = len(secrets)
                b.rekey_ike_sa_at = 0
                k1 = b.check_rekey_ike_sa_timer()
                k2 = a.process_message(k1)
                k3 = b.process_message(k2)
                if b.new_ike_sa is None or a.new_ike_sa is None or b.new_ike_sa.ike_sa_keyring is None \
                        or a.new_ike_sa.ike_sa_keyring is None or len(secrets) != nsec + 2:
                    raise RuntimeError(f'IKE_SA rekey did not complete for suite {(p, i, kl, dh)}')
                r1 = Message.parse(k1, crypto=b.my_crypto)
                r2 = Message.parse(k2, crypto=a.my_crypto)
                kni = bytes(r1.get_payload(Payload.Type.NONCE, True).nonce)
                knr = bytes(r2.get_payload(Payload.Type.NONCE, True).nonce)
                nspi_i = bytes(r1.get_payload(Payload.Type.SA, True).proposals[0].spi)
                nspi_r = bytes(r2.get_payload(Payload.Type.SA, True).proposals[0].spi)
                kg = secrets[nsec][1]
                if kg != secrets[nsec + 1][1]:
                    raise RuntimeError('rekey: the two peers computed different DH secrets')
                facts = dict(suite=suite, ni=kni, nr=knr, spi_i=nspi_i, spi_r=nspi_r, g=kg, old=skd, dh=dh)
                nb, na = b.new_ike_sa, a.new_ike_sa
                obs.append((['ike', suite + [1, 2, kni, knr, nspi_i, nspi_r, kg, skd]], 'e2e-rekey-initiator',
                            [_kr(nb.ike_sa_keyring), _cr(nb.my_crypto), _cr(nb.peer_crypto)], facts))
                obs.append((['ike', suite + [0, 1, kni, knr, nspi_r, nspi_i, kg, skd]], 'e2e-rekey-responder',
                            [_kr(na.ike_sa_keyring), _cr(na.my_crypto), _cr(na.peer_crypto)], facts))
    except Exception:
        import traceback
        error = traceback.format_exc()[-700:]
    return obs, error


def correspond(ctx):
    import warnings
    warnings.simplefilter('ignore')    # cryptography's FFDH deprecation notices
    fails = []
    raw = gen_cases(ctx)
    cases = []
    meta = []
    for inp, kind, a in raw:
        out = run_impl(kind, a)
        if inp[0] == 'prfplus_tail' and isinstance(out, bytes):
            out = [len(out), out[-64:]]
        cases.append((inp, out))
        meta.append((kind, a))
        nontrivial = not (isinstance(out, list) and out[:1] == ['raise'])
        ctx.case([kind, repr(a)], nontrivial=nontrivial, sample=(kind in ('ike', 'child') and len(ctx.samples) < 3))
        ctx.count(kind + ('' if nontrivial else ':raises'))
    # DH public values of freshly generated real keys against the model's fixed-width encoding
    import warnings
    import crypto
    with warnings.catch_warnings():
        warnings.simplefilter('ignore')
        for g in (14, 15, 16, 17, 18, 19, 20, 21):
            for _ in range(1 if ctx.quick() else 6):
                d = crypto.DiffieHellman.from_group(g)
                if isinstance(d, crypto.MODPDH):
                    nums = [d._private_key.public_key().public_numbers().y, 0]
                else:
                    pn = d._private_key.public_key().public_numbers()
                    nums = [pn.x, pn.y]
                cases.append((['dh', [g] + nums], bytes(d.public_key)))
                meta.append(('dh-public', (g,)))
                cases.append((['dh', [g]], d.key_len))
                meta.append(('dh-key-len', (g,)))
                ctx.case(['dh-public', g, bytes(d.public_key).hex()], nontrivial=True)
                ctx.count('dh-public')
    try:
        crypto.DiffieHellman.from_group(5)
        out5 = 'no exception'
    except Exception as ex:
        out5 = exc_name(ex)
    cases.append((['dh', [5]], out5))
    meta.append(('dh-key-len', (5,)))
    for inp, kind, out, facts in handshake_cases(ctx):
        cases.append((inp, out))
        meta.append((kind, inp))
        ctx.case([kind, repr(inp)], nontrivial=True)
        ctx.count(kind)
    # shards balanced by literal volume: many cheap cases per coqc, few of the long-nonce ones
    groups = {}
    for gi, (kind, a) in enumerate(meta):
        key = 'prfplus' if kind == 'prfplus' else 'sizes' if kind in ('sizes', 'dh-key-len') else 'keys'
        groups.setdefault(key, []).append(gi)
    bad = []
    from concurrent.futures import ThreadPoolExecutor

    def run_group(key):
        idxs = groups[key]
        shard = {'prfplus': 110, 'sizes': 400, 'keys': 30}[key]
        sub = [cases[gi] for gi in idxs]
        return [(idxs[li], out) for li, out in
                core.run_cases(ctx, CLUSTER, 'From Keys Require Import KeysRun.', 'run', sub, shard=shard,
                               name='cases_' + key)]

    def closedness():
        return core.run(['coqc'] + core.coq_flags(CLUSTER) + ['Props/C04.v'], cwd=core.cluster_dir(CLUSTER),
                        timeout=600)
    with ThreadPoolExecutor(max_workers=4) as ex:
        closed = ex.submit(closedness)
        for res in ex.map(run_group, sorted(groups)):
            bad += res
        rc, out = closed.result()
    bad.sort()
    for gi, model_out in bad[:10]:
        kind, a = meta[gi]
        fails.append(Failure('correspondence', 'keys:' + kind,
                             f'{kind}{a!r}: implementation {cases[gi][1]!r} but model {model_out[-600:]}',
                             {'kind': 'correspondence', 'case': repr(cases[gi][0])}))
    # the closed theorems must print no assumptions at all (the axiom whitelist is meant for C04_primes.v only)
    if rc != 0 or 'Axioms:' in out or out.count('Closed under the global context') < 15:
        fails.append(Failure('proof', 'proof:closedness', 'a theorem of Props/C04.v is not closed under the global '
                             'context: ' + out[-400:], {'kind': 'closedness'}))
    return fails



# =============================================================================================
# oracle: the property on the real code, against an independent implementation of the RFCs

# RFC 7296 3.3.2 / RFC 4868 / RFC 2404 / RFC 3602 (independent copy of the numbers; octets)
RFC_PRF = {2: ('sha1', 20), 5: ('sha256', 32), 7: ('sha512', 64)}
RFC_INTEG = {2: ('sha1', 20, 12), 12: ('sha256', 32, 16), 14: ('sha512', 64, 32)}
RFC_AES_BLOCK = 16
# RFC 3526: group -> (bits, constant c);  RFC 5903: group -> (curve, bits, octets per coordinate)
RFC3526 = {14: (2048, 124476), 15: (3072, 1690314), 16: (4096, 240904), 17: (6144, 929484), 18: (8192, 4743158)}
RFC5903 = {19: ('secp256r1', 256, 32), 20: ('secp384r1', 384, 48), 21: ('secp521r1', 521, 66)}


def rfc_T(prf, K, S):
    """T1, T2, ... of RFC 7296 2.13"""
    prev = b''
    for n in range(1, 256):
        prev = prf(K, prev + S + bytes([n]))
        yield prev


def rfc_prfplus(hashname, K, S, n):
    def prf(k, d):
        return hmac.new(k, d, hashname).digest()
    out = b''
    for t in rfc_T(prf, K, S):
        if len(out) >= n:
            break
        out += t
    if len(out) < n:
        raise ValueError('prf+ is not defined beyond 255 blocks')
    return out[:n]


def rfc_ike_keys(p, i, kl, ni, nr, spi_i, spi_r, g, old_sk_d=None):
    h, pl = RFC_PRF[p]
    il = RFC_INTEG[i][1]
    el = kl // 8
    if old_sk_d is None:
        skeyseed = hmac.new(ni + nr, g, h).digest()
    else:
        skeyseed = hmac.new(old_sk_d, g + ni + nr, h).digest()
    stream = rfc_prfplus(h, skeyseed, ni + nr + spi_i + spi_r, 3 * pl + 2 * il + 2 * el)
    keys = {}
    off = 0
    for name, ln in (('SK_d', pl), ('SK_ai', il), ('SK_ar', il), ('SK_ei', el), ('SK_er', el), ('SK_pi', pl),
                     ('SK_pr', pl)):
        keys[name] = stream[off:off + ln]
        off += ln
    return keys


def rfc_child_keys(p, proto, i, kl, sk_d, ni, nr, g=None):
    h = RFC_PRF[p][0]
    il = RFC_INTEG[i][1]
    el = kl // 8 if proto == 3 else 0
    keymat = rfc_prfplus(h, sk_d, (g or b'') + ni + nr, 2 * el + 2 * il)
    # initiator->responder SA first; encryption key before integrity key
    return {'ei': keymat[:el], 'ai': keymat[el:el + il], 'er': keymat[el + il:2 * el + il],
            'ar': keymat[2 * el + il:2 * el + 2 * il]}


def keyring_of_ike(k):
    return [k['SK_d'], k['SK_ai'], k['SK_ar'], k['SK_ei'], k['SK_er'], k['SK_pi'], k['SK_pr']]


def crypto_of_ike(k, initiator):
    i = [k['SK_ei'], k['SK_ai'], k['SK_pi']]
    r = [k['SK_er'], k['SK_ar'], k['SK_pr']]
    return [i, r] if initiator else [r, i]


def keyring_of_child(k):
    return [None, k['ai'], k['ar'], k['ei'], k['er'], None, None]


def pi_floor(bits):
    """floor(pi * 2^bits) with Python integers: Machin's formula, 64 guard bits, result certified by the guard"""
    guard = 64
    one = 1 << (bits + guard)

    def arctan_inv(x):
        total = term = one // x
        x2 = x * x
        n = 1
        while term:
            term //= x2
            n += 2
            total += -(term // n) if (n // 2) % 2 else term // n
        return total
    v = 16 * arctan_inv(5) - 4 * arctan_inv(239)
    low = v & ((1 << guard) - 1)
    # truncation errors are far below 2^20 units of the guarded value
    if low < (1 << 20) or low > (1 << guard) - (1 << 20):
        raise RuntimeError('pi_floor: guard bits inconclusive')
    return v >> guard


def rfc3526_prime(n, c):
    return 2 ** n - 2 ** (n - 64) - 1 + 2 ** 64 * (pi_floor(n - 130) + c)


def hexb(b):
    return None if b is None else bytes(b).hex()


def check_prfplus(p, key, seed, n):
    h, hl = RFC_PRF[p]
    got = impl_prfplus(p, key, seed, n)
    want = rfc_prfplus(h, key, seed, n)
    if got != want:
        return Failure('property', 'keys:prfplus-differs-from-rfc',
                       f'Prf({h}).prfplus(key={key.hex()}, seed={seed.hex()}, size={n}) = '
                       f'{got.hex() if isinstance(got, bytes) else got} but RFC 7296 2.13 gives {want.hex()}',
                       {'kind': 'prfplus', 'p': p, 'key': key.hex(), 'seed': seed.hex(), 'n': n})
    return None


def check_ike(p, i, kl, ini, ni, nr, si, sr, g, old):
    got = impl_ike(p, i, ENCR_AES_CBC, kl, ini, ni, nr, si, sr, g, old)
    k = rfc_ike_keys(p, i, kl, ni, nr, si, sr, g, old)
    want = [keyring_of_ike(k)] + crypto_of_ike(k, bool(ini))
    if got != want:
        which = 'rekeyed ' if old is not None else ''
        return Failure('property', 'keys:ike-keys-differ-from-rfc',
                       f'{which}IKE_SA keys for suite prf={p} integ={i} aes{kl} initiator={ini}: '
                       f'implementation {_show(got)} but RFC 7296 2.14/2.18 gives {_show(want)}',
                       {'kind': 'ike', 'p': p, 'i': i, 'kl': kl, 'ini': ini, 'ni': ni.hex(), 'nr': nr.hex(),
                        'si': si.hex(), 'sr': sr.hex(), 'g': g.hex(), 'old': hexb(old)})
    return None


def check_child(p, proto, i, kl, skd, ni, nr, g):
    got = impl_child(p, proto, i, ENCR_AES_CBC, kl, (g or b'') + ni + nr, skd)
    want = keyring_of_child(rfc_child_keys(p, proto, i, kl or 0, skd, ni, nr, g))
    if got != want:
        return Failure('property', 'keys:child-keymat-differs-from-rfc',
                       f'CHILD_SA keys (ike prf={p}, proto={proto}, integ={i}, keylen={kl}, pfs={g is not None}): '
                       f'implementation {_show(got)} but RFC 7296 2.17 gives {_show(want)}',
                       {'kind': 'child', 'p': p, 'proto': proto, 'i': i, 'kl': kl, 'skd': skd.hex(), 'ni': ni.hex(),
                        'nr': nr.hex(), 'g': hexb(g)})
    return None


def _show(x):
    if isinstance(x, (bytes, bytearray)):
        return bytes(x).hex()[:24] + '..'
    if isinstance(x, (list, tuple)):
        return '[' + ','.join(_show(y) for y in x) + ']'
    return repr(x)


def check_sizes():
    fails = []
    for p, (h, pl) in RFC_PRF.items():
        for i, (_, ikl, icv) in RFC_INTEG.items():
            for kl in KEYLENS:
                got = impl_sizes(p, i, ENCR_AES_CBC, kl)
                want = [pl, pl, ikl, icv, kl // 8, RFC_AES_BLOCK]
                if got != want:
                    fails.append(Failure('property', 'keys:sizes-differ-from-rfc',
                                         f'sizes of suite prf={p} integ={i} aes{kl}: {got} but the RFCs give {want}',
                                         {'kind': 'sizes', 'p': p, 'i': i, 'kl': kl}))
    return fails


def check_primes():
    import crypto
    from message import Transform
    fails = []
    table = {int(k): v for k, v in crypto.MODPDH._group_dict.items()}
    if sorted(table) != sorted(RFC3526):
        fails.append(Failure('property', 'keys:modp-group-set', f'MODP groups {sorted(table)} != {sorted(RFC3526)}',
                             {'kind': 'primes'}))
    for g, (n, c) in RFC3526.items():
        if g not in table:
            continue
        want = '%X' % rfc3526_prime(n, c)
        got = table[g].upper()
        if got != want:
            pos = [k for k in range(min(len(got), len(want))) if got[k] != want[k]]
            where = (f'hex digit(s) at position(s) {pos[:8]} (0 = most significant): table has '
                     f'{"".join(got[k] for k in pos[:8])!r}, RFC 3526 has {"".join(want[k] for k in pos[:8])!r}'
                     if len(got) == len(want) else f'length {len(got)} instead of {len(want)} hex digits')
            fails.append(Failure('property', 'keys:modp-prime-differs-from-rfc3526',
                                 f'MODP group {g} ({n} bits): {where}', {'kind': 'primes', 'group': g}))
    return fails


def check_small_public_values(ctx, g):
    """A public value with leading zero octets (about 1 key pair in 256) must still be encoded on the fixed width of the
    group.  The key pair is replaced by a stand-in with a chosen public number; everything else is the real constructor."""
    import types
    import warnings
    from unittest import mock
    import crypto
    fails = []
    width = len(crypto.MODPDH._group_dict[g]) // 2

    def run(y):
        class FakeKey:
            key_size = width * 8

            def public_key(self):
                return self

            def public_numbers(self):
                return types.SimpleNamespace(y=y, x=y)

        class FakeParams:
            def generate_private_key(self):
                return FakeKey()

        class FakePN:
            def __init__(self, p, gen):
                pass

            def parameters(self, backend=None):
                return FakeParams()
        with warnings.catch_warnings():
            warnings.simplefilter('ignore')
            with mock.patch.object(crypto.dh, 'DHParameterNumbers', FakePN):
                return crypto.MODPDH(g)
    for y in (1, 255, 256, (1 << (8 * (width - 1))) - 1, (1 << (8 * (width - 1))) + 7, (1 << (8 * width - 1)) + 9):
        ctx.case(['dh-small-public', g, y.bit_length()], nontrivial=True)
        try:
            d = run(y)
            ok = len(d.public_key) == width and int.from_bytes(d.public_key, 'big') == y
            detail = f'{len(d.public_key)} octets'
        except Exception as ex:     # noqa
            ok, detail = False, f'raised {type(ex).__name__}'
        if not ok:
            fails.append(Failure('property', 'keys:dh-public-value',
                                 f'group {g}: a public value of {y.bit_length()} bits is encoded as {detail}, the group '
                                 f'width is {width} octets', {'kind': 'dh-small', 'group': g}))
            break
    return fails


def check_dh_group(ctx, g, rounds=1):
    import warnings
    import crypto
    fails = []
    if g in crypto.MODPDH._group_dict:
        fails += check_small_public_values(ctx, g)
    with warnings.catch_warnings():
        warnings.simplefilter('ignore')
        for _ in range(rounds):
            try:
                a, b = crypto.DiffieHellman.from_group(g), crypto.DiffieHellman.from_group(g)
                a.compute_secret(b.public_key)
                b.compute_secret(a.public_key)
            except Exception as ex:
                return [Failure('property', 'keys:dh-exchange-fails',
                                f'group {g}: a Diffie-Hellman exchange between two DiffieHellman.from_group({g}) '
                                f'objects raises {type(ex).__name__}: {ex}', {'kind': 'dh', 'group': g})]
            if g in RFC3526:
                width = RFC3526[g][0] // 8
                pubw, secw = width, width
                ok_cls = isinstance(a, crypto.MODPDH)
                p = int(crypto.MODPDH._group_dict[g], 16)
                y = int.from_bytes(a.public_key, 'big')
                sane = 1 < y < p - 1 and y.to_bytes(width, 'big') == a.public_key and a._pn.g == 2 and a._pn.p == p
            else:
                name, bits, w = RFC5903[g]
                pubw, secw = 2 * w, w
                ok_cls = isinstance(a, crypto.ECDH)
                curve = a._private_key.curve
                x = int.from_bytes(a.public_key[:w], 'big')
                y = int.from_bytes(a.public_key[w:], 'big')
                pn = a._private_key.public_key().public_numbers()
                sane = curve.name == name and curve.key_size == bits and (x, y) == (pn.x, pn.y) and a.key_len == w
            probs = []
            if not ok_cls:
                probs.append(f'class {type(a).__name__}')
            if len(a.public_key) != pubw or len(b.public_key) != pubw:
                probs.append(f'public value of {len(a.public_key)} octets, fixed width is {pubw}')
            if a.shared_secret != b.shared_secret:
                probs.append('the two sides computed different secrets')
            if len(a.shared_secret) != secw:
                probs.append(f'shared secret of {len(a.shared_secret)} octets, fixed width is {secw}')
            if not sane:
                probs.append('public value is not the fixed-width big-endian encoding of the public number(s) in the '
                             'published group')
            ctx.case(['dh', g, len(a.public_key), len(a.shared_secret)], nontrivial=True)
            ctx.count('dh-group-%d' % g)
            if a.shared_secret[:1] == b'\0':
                ctx.count('dh-secret-with-leading-zero')
            if a.public_key[:1] == b'\0':
                ctx.count('dh-public-with-leading-zero')
            if probs:
                fails.append(Failure('property', 'keys:dh-public-value', f'group {g}: ' + '; '.join(probs),
                                     {'kind': 'dh', 'group': g}))
                return fails
    return fails


def check_e2e(ctx, p, i, kl, dh, child_dh, proto):
    """a real handshake with the real HMAC; every key the daemon derived against the independent implementation"""
    fails = []
    obs, error = run_handshake(ctx, p, i, kl, dh, child_dh=child_dh, proto=proto)
    rep = {'kind': 'e2e', 'p': p, 'i': i, 'kl': kl, 'dh': dh, 'child_dh': child_dh, 'proto': proto}
    for inp, kind, got, f in obs:
        ctx.case([kind, repr(inp)], nontrivial=True)
        ctx.count('real-' + kind)
        if kind.startswith('e2e-ike') or kind.startswith('e2e-rekey'):
            k = rfc_ike_keys(p, i, kl, f['ni'], f['nr'], f['spi_i'], f['spi_r'], f['g'], f['old'])
            want = [keyring_of_ike(k)] + crypto_of_ike(k, kind.endswith('initiator'))
            width = RFC3526[dh][0] // 8 if dh in RFC3526 else RFC5903[dh][2]
            if len(f['g']) != width:
                fails.append(Failure('property', 'keys:dh-public-value',
                                     f'{kind}: DH secret of {len(f["g"])} octets in group {dh}', rep))
        else:
            want = keyring_of_child(rfc_child_keys(f['prf'], f['proto'], f['integ'], f['kl'], f['skd'], f['ni'],
                                                   f['nr'], f['g']))
        if got != want:
            fails.append(Failure('property', 'keys:handshake-keys-differ-from-rfc',
                                 f'{kind} (prf={p} integ={i} aes{kl} dh={dh} child_dh={child_dh} proto={proto}): '
                                 f'daemon derived {_show(got)} but the RFC gives {_show(want)} from the nonces, SPIs '
                                 f'and DH secret of the exchange', rep))
    if error and not fails:
        fails.append(Failure('property', 'keys:handshake-failed',
                             f'handshake (prf={p} integ={i} aes{kl} dh={dh} child_dh={child_dh} proto={proto}) did not '
                             f'complete although every key derived so far equals the RFC: {error}', rep))
    return fails


def check_negotiated_sizes(ctx, seed):
    """Two honest peers whose CHILD_SA offers differ, so that the responder's choice is NOT the initiator's first
    transform (another AES key length, another integrity algorithm): through the real main_loop with the real HMACs,
    every CHILD_SA key ring either side derives must be KEYMAT = prf+(SK_d, [g^ir |] Ni | Nr) cut with the key sizes of
    the NEGOTIATED transforms (the ones the responder answered with), RFC 7296 2.17 - recomputed here with hmac."""
    from sim.scenarios import Pair, scripted
    from sim.world import LoopEscape
    from unittest import mock
    import ikesa
    fails = []
    confs = [('responder_prefers_aes128', {'over_b': {'protect': {'encr': ['aes128']}}}),
             ('responder_lists_aes128_first', {'over_b': {'protect': {'encr': ['aes128', 'aes256']}}}),
             ('responder_prefers_sha256', {'child_integ': ('sha512', 'sha256'), 'over_b': {'protect': {'integ': ['sha256']}}}),
             ('responder_prefers_sha512_pfs', {'child_integ': ('sha256', 'sha512'), 'child_dh': ('14',),
                                               'over_b': {'protect': {'integ': ['sha512', 'sha256']}}}),
             # PFS with an INVALID_KE_PAYLOAD retry after an IKE_SA rekey that was postponed (a stale successor object
             # is still around): the DH secret that goes into KEYMAT must be the one of the retried exchange at both ends
             ('pfs_retry_after_postponed_rekey', {'child_dh': ('15', '14'), 'child_dh_b': ('14',)})]
    for name, conf in confs:
        rep = {'kind': 'negotiated-sizes', 'name': name, 'seed': seed}
        calls = []
        orig = ikesa.IkeSa.generate_child_sa_key_material

        def gen(self_, child_proposal, keyseed, sk_d, _calls=calls, _orig=orig):
            r = _orig(self_, child_proposal, keyseed, sk_d)
            _calls.append((self_.is_initiator, bytes(keyseed), bytes(sk_d), self_.my_crypto.prf.hasher().name,
                           [bytes(r.sk_ei or b''), bytes(r.sk_ai), bytes(r.sk_er or b''), bytes(r.sk_ar)]))
            return r
        with Pair(seed=seed, **conf) as p, mock.patch.object(ikesa.IkeSa, 'generate_child_sa_key_material', gen):
            try:
                if name == 'pfs_retry_after_postponed_rekey':
                    p.run(scripted('postponed_rekey_then_child'))
                else:
                    p.run(scripted('new_child') + scripted('rekey_child')[5:] + [['deliver', 0]] * 4)
            except LoopEscape as ex:
                fails.append(Failure('property', 'loop:escaped-exception', f'{name}: {ex.exc!r}', rep))
                continue
            if not p.established() or not p.A.kernel.sad:
                fails.append(Failure('property', 'keys:handshake-failed', f'{name}: no CHILD_SA was established', rep))
                continue
            # the negotiated algorithms are the ones the two kernels hold; sizes per SPI from the RESPONDER's SA
            import xfrm
            for key, sa in p.B.kernel.sad.items():
                other = p.A.kernel.sad.get(key)
                algs = {c: (n_, kl_) for c, (n_, kl_, _k) in sa['algs'].items()}
                ctx.case(['negotiated-sizes', name, key[2].hex()], nontrivial=True)
                ctx.count('negotiated-sizes')
                if other is None or {c: (n_, kl_) for c, (n_, kl_, _k) in other['algs'].items()} != algs \
                        or any(other['algs'][c][2] != sa['algs'][c][2] for c in sa['algs']):
                    fails.append(Failure('property', 'keys:negotiated-keys-differ-between-peers',
                                         f'{name}: IPsec SA {key[2].hex()}: responder installed '
                                         f'{[(a[0].decode(), a[1]) for a in sa["algs"].values()]}, initiator '
                                         f'{[(a[0].decode(), a[1]) for a in (other or {"algs": {}})["algs"].values()]} or '
                                         f'different key bytes', rep))
                    break
            # every derived key ring against the RFC with the sizes of the responder's ring of the same exchange
            by_seed = {}
            for is_init, keyseed, sk_d, h, ring in calls:
                by_seed.setdefault((keyseed, sk_d), []).append((is_init, h, ring))
            for (keyseed, sk_d), lst in by_seed.items():
                sizes = None
                for is_init, h, ring in lst:
                    if sizes is None or not is_init:
                        sizes = (len(ring[0]), len(ring[1]))
                # the exchange responder's ring decides (it derived from what it put on the wire)
                resp = [x for x in lst if len(x[2][0]) == sizes[0] and len(x[2][1]) == sizes[1]]
                el, il = sizes
                keymat = rfc_prfplus(lst[0][1], sk_d, keyseed, 2 * el + 2 * il)
                want = [keymat[:el], keymat[el:el + il], keymat[el + il:2 * el + il], keymat[2 * el + il:]]
                for is_init, h, ring in lst:
                    if ring != want:
                        fails.append(Failure('property', 'keys:child-keymat-not-cut-by-negotiated-sizes',
                                             f'{name}: a CHILD_SA key ring was derived with key sizes '
                                             f'({len(ring[0])}, {len(ring[1])}) / bytes that differ from prf+(SK_d, seed) cut '
                                             f'with the negotiated sizes ({el}, {il})', rep))
                        break
        if len(fails) > 2:
            break
    return fails


def oracle(ctx, deep):
    import warnings
    warnings.simplefilter('ignore')
    rng = ctx.rng
    fails = []
    # 1. prf+ with the real HMACs, all lengths
    lens = list(range(1, 421)) if deep else sorted(set(list(range(1, 130)) + rng.sample(range(130, 421), 40)))
    for p in PRF_IDS:
        hl = RFC_PRF[p][1]
        for n in lens + [255 * hl]:
            key = rnd_bytes(rng, rng.choice((1, 20, 32, 64, 65, 129)))
            seed = rnd_bytes(rng, rng.randrange(0, 600))
            f = check_prfplus(p, key, seed, n)
            ctx.case(['oracle-prfplus', p, n], nontrivial=True)
            ctx.count('oracle-prfplus')
            if f:
                fails.append(f)
                break
        # beyond the RFC's limit the code must not deliver bytes
        r = impl_prfplus(p, b'k', b's', 255 * hl + 1)
        if r != ['raise', 'OverflowError']:
            fails.append(Failure('property', 'keys:prfplus-beyond-255-blocks',
                                 f'prfplus of {255 * hl + 1} octets returned {_show(r)}', {'kind': 'prfplus-limit', 'p': p}))
    # 2./3. the two key-material functions, every suite
    reps = 4 if deep else 1
    for _ in range(reps):
        for p in PRF_IDS:
            for i in INTEG_IDS:
                for kl in KEYLENS:
                    for rekey in (False, True):
                        ni, nr = rnd_nonce(rng), rnd_nonce(rng)
                        old = rnd_bytes(rng, RFC_PRF[p][1]) if rekey else None
                        f = check_ike(p, i, kl, rng.choice((0, 1)), ni, nr, rnd_bytes(rng, 8), rnd_bytes(rng, 8),
                                      rnd_secret(rng), old)
                        ctx.case(['oracle-ike', p, i, kl, rekey, ni.hex()], nontrivial=True)
                        ctx.count('oracle-ike')
                        if f:
                            fails.append(f)
                for proto, kl in ((3, 128), (3, 256), (2, None)):
                    for pfs in (False, True):
                        ni, nr = rnd_nonce(rng), rnd_nonce(rng)
                        f = check_child(p, proto, i, kl, rnd_bytes(rng, RFC_PRF[p][1]), ni, nr,
                                        rnd_secret(rng) if pfs else None)
                        ctx.case(['oracle-child', p, proto, i, kl, pfs, ni.hex()], nontrivial=True)
                        ctx.count('oracle-child')
                        if f:
                            fails.append(f)
    fails += check_sizes()
    # 4. groups
    fails += check_primes()
    for g in sorted(set(RFC3526) | set(RFC5903)):
        fails += check_dh_group(ctx, g, rounds=(40 if deep and g in (14, 19) else 2))
    import crypto
    got = {int(k): (v.name, v.key_size) for k, v in crypto.ECDH._ec_groups.items()}
    if got != {g: (v[0], v[1]) for g, v in RFC5903.items()}:
        fails.append(Failure('property', 'keys:ec-groups', f'ECDH groups {got}', {'kind': 'ec'}))
    # 5. end to end: the keys the daemon really installs, for all 8 DH groups
    groups = sorted(set(RFC3526) | set(RFC5903))
    combos = []
    for k, dh in enumerate(groups):
        p, i, kl = PRF_IDS[k % 3], INTEG_IDS[(k // 3 + k) % 3], KEYLENS[k % 2]
        combos.append((p, i, kl, dh, (None, 14, 19)[k % 3], (3, 2)[k % 2]))
    if deep:
        for p in PRF_IDS:
            for i in INTEG_IDS:
                for kl in KEYLENS:
                    combos.append((p, i, kl, rng.choice(groups), rng.choice((None, 14, 20, 21)), rng.choice((2, 3))))
    for c in combos:
        fails += check_e2e(ctx, *c)
    fails += check_negotiated_sizes(ctx, ctx.rng.getrandbits(32))
    return fails[:20]


def replay(ctx, obj):
    import warnings
    warnings.simplefilter('ignore')
    k = obj.get('kind')
    bx = (lambda h: None if h is None else bytes.fromhex(h))
    out = []
    if k == 'negotiated-sizes':
        return [f for f in check_negotiated_sizes(ctx, obj['seed']) if f.replay.get('name') == obj.get('name')]
    if k == 'prfplus':
        out = [check_prfplus(obj['p'], bx(obj['key']), bx(obj['seed']), obj['n'])]
    elif k == 'prfplus-limit':
        hl = RFC_PRF[obj['p']][1]
        r = impl_prfplus(obj['p'], b'k', b's', 255 * hl + 1)
        if r != ['raise', 'OverflowError']:
            out = [Failure('property', 'keys:prfplus-beyond-255-blocks', f'returned {_show(r)}', obj)]
    elif k == 'ike':
        out = [check_ike(obj['p'], obj['i'], obj['kl'], obj['ini'], bx(obj['ni']), bx(obj['nr']), bx(obj['si']),
                         bx(obj['sr']), bx(obj['g']), bx(obj['old']))]
    elif k == 'child':
        out = [check_child(obj['p'], obj['proto'], obj['i'], obj['kl'], bx(obj['skd']), bx(obj['ni']), bx(obj['nr']),
                           bx(obj['g']))]
    elif k == 'sizes':
        out = check_sizes()
    elif k == 'primes':
        out = check_primes()
    elif k == 'dh':
        out = check_dh_group(ctx, obj['group'], rounds=5)
    elif k == 'ec':
        import crypto
        got = {int(g): (v.name, v.key_size) for g, v in crypto.ECDH._ec_groups.items()}
        if got != {g: (v[0], v[1]) for g, v in RFC5903.items()}:
            out = [Failure('property', 'keys:ec-groups', f'ECDH groups {got}', obj)]
    elif k == 'e2e':
        out = check_e2e(ctx, obj['p'], obj['i'], obj['kl'], obj['dh'], obj['child_dh'], obj['proto'])
    return [f for f in out if f]


# Print Assumptions of C04_modp_primes (Props/C04_primes.v) only; every theorem of Props/C04.v prints
# "Closed under the global context" (re-checked in correspond()).  'Axioms' is the header line of the listing.
ALLOWED_AXIOMS = (
    r'Axioms',
    r'ClassicalDedekindReals\.sig_forall_dec', r'ClassicalDedekindReals\.sig_not_dec',
    r'Classical_Prop\.classic',
    r'FunctionalExtensionality\.functional_extensionality_dep',
    r'PrimInt63\.\w+',                                   # primitive 63-bit integers (type and operations)
    r'Uint63\.\w+_spec', r'Uint63\.of_to_Z', r'Uint63\.eqb_refl', r'Uint63\.eqb_correct',
)

CHECK = core.Check(
    'C04', CLUSTER, ['Props/C04.v', 'Props/C04_primes.v'], translate=translate, correspond=correspond, oracle=oracle,
    replay=replay, deps=('lib',), allowed_axioms=ALLOWED_AXIOMS,
    rule='correspondence (toy prf patched into crypto.Prf.prf, sizes from the real classes): prf+ for every output '
         'length 0..400 (quick: 0..49 plus a seeded sample) and around the 255-block limit for the 3 PRFs; '
         'generate_ike_sa_key_material for 3 PRF x 3 INTEG x 2 AES key lengths x initial/rekey with random nonces of '
         '16..256 octets, 8-octet SPIs and secrets with 0..5 leading zero octets; generate_child_sa_key_material for '
         '3 PRF x 3 INTEG x (ESP-128, ESP-256, AH) x with/without DH secret; unsupported ids and KEY_LEN values; the '
         'size properties of 200 (prf, integ, encr, keylen) combinations; fresh public values of the 8 DH groups; '
         'whole handshakes (IKE_SA_INIT, IKE_AUTH, CREATE_CHILD_SA, IKE_SA rekey) between two real IkeSa objects for '
         'seeded suites, whose observed nonces/SPIs/DH secrets are fed to the model of the call sites. oracle (real '
         'HMAC): independent RFC 7296 2.13-2.18 implementation against Prf.prfplus (lengths 1..420), both '
         'key-material functions for every suite, handshakes for all 8 DH groups, the primes against the RFC 3526 '
         'formula with an integer Machin pi, curve names and fixed widths. A case is non-trivial when the '
         'implementation returns keys (not an exception); distinct by content hash',
    trusted_base=[
        'Coq 8.16.1 kernel (coqc, vm_compute; no native_compute)',
        'coq-interval tactic and, through it, the standard-library axioms printed for C04_modp_primes only: '
        'ClassicalDedekindReals.sig_forall_dec, ClassicalDedekindReals.sig_not_dec, Classical_Prop.classic, '
        'FunctionalExtensionality.functional_extensionality_dep, the PrimInt63 primitive integer type and operations '
        'and their Uint63.*_spec / of_to_Z / eqb_refl / eqb_correct axioms; the 15 theorems of Props/C04.v are closed '
        'under the global context (re-checked on every run)',
        'translator py/props/c04.py (tables, size expressions, prf+ loop constants and block expression, SKEYSEED / '
        'prf+ seed / length expressions, unpack formats, Keyring and Crypto field wiring, role conditionals, call-site '
        'arguments -> Gen/CryptoTables.v, Gen/ModpGroups.v, Gen/ConfigSuites.v, Gen/KeyMaterial.v); the loop skeleton '
        'of prfplus and the statement skeleton of the two methods are matched structurally (fail closed)',
        'hand-written control structure of KeySched.v (loop, dict lookups, Cipher.__init__ checks), validated by the '
        'correspondence runs',
        'hashlib digest sizes, cryptography AES key_sizes/block_size and curve key_size/name are read from the '
        'installed libraries at translation time',
        'HMAC, OpenSSL DH/ECDH arithmetic and struct.unpack (exercised by the oracle, not modelled)',
        'reading of RFC 7296 2.13-2.18, RFC 4868/2404/3602 sizes, RFC 3526 formula, RFC 5903 in Rfc*.v'],
    assumptions=[
        'hmac h k d always returns digest_size h octets (true of HMAC; the only hypothesis about the primitive)',
        'suites are those of the RFC tables with an AES Key Length attribute of 128/192/256 bits (C04_config_suites_'
        'covered: every suite a configuration file can name is one of them)',
        'the old SK_d given to a rekey is not empty (it has the PRF key length, C04_ike_keys)',
        'DH public numbers lie in [0, p) resp. [0, 2^bits): that they are the right numbers is OpenSSL\'s job'],
)
