"""C04 - key material is derived exactly as RFC 7296 prescribes.

tie 1  translate(): crypto.py / ikesa.py / message.py  ->  coq/keys/Gen/CryptoTables.v, Gen/KeyMaterial.v
tie 2  correspond(): the executable model (toy prf in Gallina) against the REAL Prf.prfplus and the REAL
       IkeSa.generate_ike_sa_key_material / generate_child_sa_key_material with Prf.prf patched to the same toy prf
oracle independent Python implementation of RFC 7296 2.13-2.18 with hmac/hashlib against the real code; DH groups
"""
import ast
import hashlib
import hmac
import os
import re
import types
from unittest import mock

from vlib import core, pyast
from vlib.core import Failure, TranslateError

CLUSTER = 'keys'

# =============================================================================================
# tie 1: translator


def _u(node):
    return ast.unparse(node)


def _strip(stmts):
    """drop docstrings"""
    return [s for s in stmts if not (isinstance(s, ast.Expr) and isinstance(s.value, ast.Constant))]


class Tr:
    """Expression translator over two sorts: 'Z' integers and 'bytes' byte strings (fail closed)."""

    def __init__(self, src, env, calls=None):
        self.src = src
        self.env = env          # unparsed python expression -> (gallina, sort)
        self.calls = calls or {}  # unparsed callee -> (gallina function, [argument sorts], result sort)

    def go(self, n):
        key = _u(n)
        if key in self.env:
            return self.env[key]
        if isinstance(n, ast.Constant) and isinstance(n.value, int) and not isinstance(n.value, bool):
            return (f'({n.value})' if n.value < 0 else str(n.value)), 'Z'
        if isinstance(n, ast.BinOp):
            a, b = self.go(n.left), self.go(n.right)
            if a[1] != b[1]:
                self.src.fail(n, f'operands of different sorts in {key}')
            if a[1] == 'bytes':
                if not isinstance(n.op, ast.Add):
                    self.src.fail(n, f'byte-string operator outside the subset in {key}')
                return f'({a[0]} ++ {b[0]})', 'bytes'
            ops = {ast.Add: 'Z.add', ast.Mult: 'Z.mul', ast.FloorDiv: 'Z.div', ast.Sub: 'Z.sub'}
            if a[1] != 'Z' or type(n.op) not in ops:
                self.src.fail(n, f'arithmetic outside the subset in {key}')
            return f'({ops[type(n.op)]} {a[0]} {b[0]})', 'Z'
        if isinstance(n, ast.BoolOp) and isinstance(n.op, ast.Or) and len(n.values) == 2:
            a, b = self.go(n.values[0]), self.go(n.values[1])
            if a[1] != 'Z' or b[1] != 'Z':
                self.src.fail(n, f'`or` on non-integers in {key}')
            return f'(if Z.eqb {a[0]} 0 then {b[0]} else {a[0]})', 'Z'
        if isinstance(n, ast.Call):
            callee = _u(n.func)
            if callee in self.calls and not n.keywords:
                fn, sorts, ret = self.calls[callee]
                if len(sorts) != len(n.args):
                    self.src.fail(n, f'call {key}: expected {len(sorts)} arguments')
                args = []
                for a, s in zip(n.args, sorts):
                    t, ty = self.go(a)
                    if ty != s:
                        self.src.fail(n, f'call {key}: argument {_u(a)} has sort {ty}, expected {s}')
                    args.append(t)
                return '(' + ' '.join([fn] + args) + ')', ret
        self.src.fail(n, f'expression outside the subset: {key}')

    def expect(self, n, sort):
        t, ty = self.go(n)
        if ty != sort:
            self.src.fail(n, f'{_u(n)} has sort {ty}, expected {sort}')
        return t


def _prop_return(src, dotted):
    """the single `return <expr>` of a @property (comments/docstrings ignored)"""
    fn = src.func(dotted)
    if [_u(d) for d in fn.decorator_list] != ['property']:
        src.fail(fn, f'{dotted} is no longer a property')
    body = _strip(fn.body)
    if len(body) != 1 or not isinstance(body[0], ast.Return) or body[0].value is None:
        src.fail(fn, f'{dotted}: body is not a single return')
    return body[0].value


def _dict_items(src, dotted):
    node = src.assign_value(dotted)
    if not isinstance(node, ast.Dict) or any(k is None for k in node.keys):
        src.fail(node, f'{dotted} is not a dict literal')
    keys = [_u(k) for k in node.keys]
    if len(set(keys)) != len(keys):
        src.fail(node, f'{dotted} has duplicate keys')
    return node, list(zip(node.keys, node.values))


def _enum_resolver(msg):
    cache = {}

    def value(src, node, prefix):
        d = pyast.dotted_name(node)
        if d is None or not d.startswith(prefix + '.'):
            src.fail(node, f'key {_u(node)} is not a member of {prefix}')
        if prefix not in cache:
            cache[prefix] = dict(msg.enum(prefix))
        name = d[len(prefix) + 1:]
        if name not in cache[prefix]:
            src.fail(node, f'{d} is not defined in message.py')
        return cache[prefix][name]
    return value


def _zlist(xs):
    return '[' + '; '.join(str(x) for x in xs) + ']'


def translate_crypto(cr, msg):
    ev = _enum_resolver(msg)
    out = []
    # ---- Prf / Integrity digest tables -------------------------------------------------------
    hashers = []

    def hasher(node):
        d = pyast.dotted_name(node)
        if d is None or not d.startswith('hashlib.') or not re.fullmatch(r'[a-z0-9_]+', d[8:]):
            cr.fail(node, f'digestmod {_u(node)} is not hashlib.<name>')
        name = d[8:]
        if not hasattr(hashlib, name):
            cr.fail(node, f'hashlib has no {name}')
        if name not in hashers:
            hashers.append(name)
        return name
    _, items = _dict_items(cr, 'Prf._digestmod_dict')
    prf_rows = [(ev(cr, k, 'Transform.PrfId'), hasher(v)) for k, v in items]
    _, items = _dict_items(cr, 'Integrity._digestmod_dict')
    integ_rows = []
    for k, v in items:
        if not (isinstance(v, ast.Tuple) and len(v.elts) == 2):
            cr.fail(v, 'Integrity._digestmod_dict value is not (hasher, bits)')
        bits = cr.lit(v.elts[1])
        if not isinstance(bits, int) or isinstance(bits, bool):
            cr.fail(v, 'Integrity._digestmod_dict bits is not an integer')
        integ_rows.append((ev(cr, k, 'Transform.IntegId'), hasher(v.elts[0]), bits))
    # Integrity.__init__ unpacks the tuple as (hasher, keybits); Prf.__init__ takes the hasher
    init = [_u(s) for s in _strip(cr.func('Integrity.__init__').body)]
    if 'self.hasher, self.keybits = self._digestmod_dict[transform.id]' not in init:
        cr.fail(cr.func('Integrity.__init__'), 'Integrity.__init__ no longer unpacks (hasher, keybits) by transform.id')
    init = [_u(s) for s in _strip(cr.func('Prf.__init__').body)]
    if 'self.hasher = self._digestmod_dict[transform.id]' not in init:
        cr.fail(cr.func('Prf.__init__'), 'Prf.__init__ no longer selects the hasher by transform.id')
    out.append('(* hashlib constructors named by the tables; digest sizes read from the running hashlib *)')
    out.append('Inductive hasher := ' + ' | '.join(hashers) + '.')
    out.append('Definition digest_size (h : hasher) : Z := match h with '
               + ' | '.join(f'{h} => {getattr(hashlib, h)().digest_size}' for h in hashers) + ' end.')
    out.append('(* Prf._digestmod_dict *)')
    out.append('Definition prf_digestmod_dict : list (Z * hasher) := ['
               + '; '.join(f'({k}, {h})' for k, h in prf_rows) + '].')
    out.append('(* Integrity._digestmod_dict : id -> (hasher, keybits) *)')
    out.append('Definition integ_digestmod_dict : list (Z * (hasher * Z)) := ['
               + '; '.join(f'({k}, ({h}, {b}))' for k, h, b in integ_rows) + '].')
    # size properties
    tr = Tr(cr, {'self.hasher().digest_size': ('(digest_size hasher)', 'Z'),
                 'self.hash_size': ('(prf_hash_size hasher)', 'Z')})
    out.append('(* Prf.hash_size / Prf.key_size *)')
    out.append(f"Definition prf_hash_size (hasher : hasher) : Z := {tr.expect(_prop_return(cr, 'Prf.hash_size'), 'Z')}.")
    out.append(f"Definition prf_key_size (hasher : hasher) : Z := {tr.expect(_prop_return(cr, 'Prf.key_size'), 'Z')}.")
    tr = Tr(cr, {'self.hasher().digest_size': ('(digest_size hasher)', 'Z'), 'self.keybits': ('keybits', 'Z')})
    out.append('(* Integrity.key_size / Integrity.hash_size *)')
    out.append('Definition integ_key_size (hasher : hasher) (keybits : Z) : Z := '
               f"{tr.expect(_prop_return(cr, 'Integrity.key_size'), 'Z')}.")
    out.append('Definition integ_hash_size (hasher : hasher) (keybits : Z) : Z := '
               f"{tr.expect(_prop_return(cr, 'Integrity.hash_size'), 'Z')}.")
    # Prf.prf / Integrity.compute: HMAC(key, data, digestmod=self.hasher).digest()[ :hash_size ]
    body = [_u(s) for s in _strip(cr.func('Prf.prf').body)]
    if body != ['m = HMAC(key, data, digestmod=self.hasher)', 'return m.digest()']:
        cr.fail(cr.func('Prf.prf'), 'Prf.prf is no longer HMAC(key, data, digestmod=self.hasher).digest()')
    body = [_u(s) for s in _strip(cr.func('Integrity.compute').body)]
    if body != ['m = HMAC(key, data, digestmod=self.hasher)', 'return m.digest()[:self.hash_size]']:
        cr.fail(cr.func('Integrity.compute'), 'Integrity.compute is no longer the truncated HMAC')
    # ---- Cipher -------------------------------------------------------------------------------
    from cryptography.hazmat.primitives.ciphers import algorithms
    _, items = _dict_items(cr, 'Cipher._algorithm_dict')
    algs = []
    rows = []
    for k, v in items:
        d = pyast.dotted_name(v)
        if d is None or not d.startswith('algorithms.') or not hasattr(algorithms, d[11:]):
            cr.fail(v, f'cipher algorithm {_u(v)} is not algorithms.<name>')
        if d[11:] not in algs:
            algs.append(d[11:])
        rows.append((ev(cr, k, 'Transform.EncrId'), d[11:]))
    out.append('(* Cipher._algorithm_dict; key_sizes (sorted) and block_size read from the running `cryptography` *)')
    out.append('Inductive algorithm := ' + ' | '.join(algs) + '.')
    out.append('Definition cipher_algorithm_dict : list (Z * algorithm) := ['
               + '; '.join(f'({k}, {a})' for k, a in rows) + '].')
    out.append('Definition algorithm_key_sizes (a : algorithm) : list Z := match a with '
               + ' | '.join(f'{a} => {_zlist(sorted(getattr(algorithms, a).key_sizes))}' for a in algs) + ' end.')
    out.append('Definition algorithm_block_size (a : algorithm) : Z := match a with '
               + ' | '.join(f'{a} => {getattr(algorithms, a).block_size}' for a in algs) + ' end.')
    tr = Tr(cr, {'self._algorithm.block_size': ('(algorithm_block_size a)', 'Z'),
                 'self._transform.keylen': ('keylen', 'Z'),
                 'self._algorithm.key_sizes[0]': ('key_sizes_0', 'Z')})
    out.append('(* Cipher.block_size / Cipher.key_size (keylen = 0 stands for None; `x or y` on integers) *)')
    out.append('Definition cipher_block_size (a : algorithm) : Z := '
               f"{tr.expect(_prop_return(cr, 'Cipher.block_size'), 'Z')}.")
    out.append('Definition cipher_key_size (keylen key_sizes_0 : Z) : Z := '
               f"{tr.expect(_prop_return(cr, 'Cipher.key_size'), 'Z')}.")
    # ---- prf+ ---------------------------------------------------------------------------------
    fn = cr.func('Prf.prfplus')
    if [a.arg for a in fn.args.args] != ['self', 'key', 'seed', 'size'] or fn.args.defaults:
        cr.fail(fn, 'Prf.prfplus signature changed')
    b = _strip(fn.body)
    ok = (len(b) == 5 and _u(b[0]) == 'result = bytes()' and _u(b[1]) == 'temp = bytes()'
          and isinstance(b[2], ast.Assign) and _u(b[2].targets[0]) == 'i'
          and isinstance(b[3], ast.While) and _u(b[3].test) == 'len(result) < size' and not b[3].orelse
          and _u(b[4]) == 'return result[:size]' and len(b[3].body) == 3)
    if not ok:
        cr.fail(fn, 'Prf.prfplus: loop skeleton changed (result/temp/i initialisation, while len(result) < size, '
                    'return result[:size])')
    i0 = cr.lit(b[2].value)
    w0, w1, w2 = b[3].body
    if not (isinstance(w0, ast.Assign) and _u(w0.targets[0]) == 'temp' and isinstance(w0.value, ast.Call)
            and _u(w0.value.func) == 'self.prf' and len(w0.value.args) == 2 and not w0.value.keywords):
        cr.fail(w0, 'Prf.prfplus: first loop statement is not temp = self.prf(k, d)')
    if _u(w1) != 'result += temp':
        cr.fail(w1, 'Prf.prfplus: second loop statement is not result += temp')
    if not (isinstance(w2, ast.AugAssign) and _u(w2.target) == 'i' and isinstance(w2.op, ast.Add)):
        cr.fail(w2, 'Prf.prfplus: third loop statement is not i += n')
    step = cr.lit(w2.value)
    tob = [n for n in ast.walk(w0.value) if isinstance(n, ast.Call) and isinstance(n.func, ast.Attribute)
           and n.func.attr == 'to_bytes']
    if len(tob) != 1 or _u(tob[0].func.value) != 'i' or len(tob[0].args) != 2 or tob[0].keywords \
            or cr.lit(tob[0].args[1]) != 'big':
        cr.fail(w0, "Prf.prfplus: counter is not i.to_bytes(w, 'big')")
    width = cr.lit(tob[0].args[0])
    if not all(isinstance(x, int) and not isinstance(x, bool) for x in (i0, step, width)):
        cr.fail(fn, 'Prf.prfplus: non integer loop constants')
    tr = Tr(cr, {'key': ('key', 'bytes'), 'temp': ('temp', 'bytes'), 'seed': ('seed', 'bytes'),
                 _u(tob[0]): ('ctr', 'bytes')},
            {'self.prf': ('prf', ['bytes', 'bytes'], 'bytes')})
    out.append('(* Prf.prfplus: loop constants and the block computed by one iteration *)')
    out.append(f'Definition prfplus_i0 : Z := {i0}.')
    out.append(f'Definition prfplus_i_next (i : Z) : Z := (Z.add i {step}).')
    out.append(f'Definition prfplus_counter_width : Z := {width}.')
    out.append('Definition prfplus_block (prf : bytes -> bytes -> bytes) (key temp seed ctr : bytes) : bytes := '
               f"{tr.expect(w0.value, 'bytes')}.")
    # ---- MODP ---------------------------------------------------------------------------------
    _, items = _dict_items(cr, 'MODPDH._group_dict')
    rows = []
    for k, v in items:
        hx = cr.lit(v)
        if not isinstance(hx, str) or not re.fullmatch(r'[0-9A-Fa-f]+', hx):
            cr.fail(v, 'MODP prime is not a hexadecimal string literal')
        rows.append((ev(cr, k, 'Transform.DhId'), hx))
    init = [_u(s) for s in _strip(cr.func('MODPDH.__init__').body)]
    want = ['self.group = group',
            'module = int(self._group_dict[self.group], 16)',
            'self._parameters = self._pn.parameters(self.backend)',
            'self._private_key = self._parameters.generate_private_key()',
            'public_key_int = self._private_key.public_key().public_numbers().y']
    for w in want:
        if w not in init:
            cr.fail(cr.func('MODPDH.__init__'), f'MODPDH.__init__: statement `{w}` not found')
    fn = cr.func('MODPDH.__init__')
    st = {_u(s.targets[0]): s.value for s in _strip(fn.body) if isinstance(s, ast.Assign)}
    pn = st.get('self._pn')
    if not (isinstance(pn, ast.Call) and _u(pn.func) == 'dh.DHParameterNumbers' and len(pn.args) == 2
            and _u(pn.args[0]) == 'module' and not pn.keywords):
        cr.fail(fn, 'MODPDH.__init__: self._pn is not dh.DHParameterNumbers(module, g)')
    gen = cr.lit(pn.args[1])
    kl = st.get('self.key_len')
    if kl is None:
        cr.fail(fn, 'MODPDH.__init__: key_len not assigned')
    tr = Tr(cr, {'len(self._group_dict[group])': ('hexlen', 'Z')})
    modp = ('(* MODPDH._group_dict : group -> (len(hex string), int(hex string, 16)) *)\n'
            'Definition modp_group_dict : list (Z * (Z * Z)) := [\n  '
            + ';\n  '.join(f'({k}, ({len(hx)}, 0x{hx.upper()}))' for k, hx in rows) + '].\n')
    out.append('(* MODPDH: generator; key_len (the table itself is in Gen/ModpGroups.v) *)')
    out.append(f'Definition modp_generator : Z := {gen}.')
    out.append(f"Definition modp_key_len (hexlen : Z) : Z := {tr.expect(kl, 'Z')}.")
    pk = st.get('self.public_key')
    if pk is None or _u(pk) != "public_key_int.to_bytes(self.key_len, 'big')":
        cr.fail(fn, "MODPDH.__init__: public_key is not public_key_int.to_bytes(self.key_len, 'big')")
    out.append('Definition modp_public_key (key_len public_key_int : Z) : result bytes := '
               'to_bytes_big public_key_int key_len.')
    body = [_u(s) for s in _strip(cr.func('MODPDH.compute_secret').body)]
    if body[:1] != ["peer_public_key_int = int.from_bytes(peer_public_key, 'big')"] \
            or body[-1:] != ['self.shared_secret = self._private_key.exchange(peer_public_key)']:
        cr.fail(cr.func('MODPDH.compute_secret'), 'MODPDH.compute_secret changed')
    # ---- ECDH ---------------------------------------------------------------------------------
    from cryptography.hazmat.primitives.asymmetric import ec
    _, items = _dict_items(cr, 'ECDH._ec_groups')
    curves, rows = [], []
    for k, v in items:
        if not (isinstance(v, ast.Call) and not v.args and not v.keywords
                and (pyast.dotted_name(v.func) or '').startswith('ec.') and hasattr(ec, _u(v.func)[3:])):
            cr.fail(v, f'curve {_u(v)} is not ec.<NAME>()')
        name = _u(v.func)[3:]
        if name not in curves:
            curves.append(name)
        rows.append((ev(cr, k, 'Transform.DhId'), name))
    fn = cr.func('ECDH.__init__')
    st = {_u(s.targets[0]): s.value for s in _strip(fn.body) if isinstance(s, ast.Assign)}
    if _u(st.get('self._private_key', ast.Constant(None))) != \
            'ec.generate_private_key(self._ec_groups[group], backend=self.backend)':
        cr.fail(fn, 'ECDH.__init__: private key generation changed')
    if _u(st.get('public_numbers', ast.Constant(None))) != 'self._private_key.public_key().public_numbers()':
        cr.fail(fn, 'ECDH.__init__: public_numbers changed')
    if _u(st.get('self.public_key', ast.Constant(None))) != \
            "public_numbers.x.to_bytes(self.key_len, 'big') + public_numbers.y.to_bytes(self.key_len, 'big')":
        cr.fail(fn, 'ECDH.__init__: public_key is no longer x | y, each key_len octets big endian')
    tr = Tr(cr, {'self._private_key.key_size': ('key_size', 'Z')})
    out.append('(* ECDH._ec_groups; key_size and name of each curve object read from the running `cryptography` *)')
    out.append('Inductive curve := ' + ' | '.join(curves) + '.')
    out.append('Definition ec_groups : list (Z * curve) := [' + '; '.join(f'({k}, {c})' for k, c in rows) + '].')
    out.append('Definition curve_key_size (c : curve) : Z := match c with '
               + ' | '.join(f'{c} => {getattr(ec, c)().key_size}' for c in curves) + ' end.')
    out.append('Definition curve_name (c : curve) : string := match c with '
               + ' | '.join(f'{c} => "{getattr(ec, c)().name}"' for c in curves) + ' end.')
    out.append(f"Definition ecdh_key_len (key_size : Z) : Z := {tr.expect(st['self.key_len'], 'Z')}.")
    out.append('Definition ecdh_public_key (key_len x y : Z) : result bytes :=\n'
               '  bind (to_bytes_big x key_len) (fun bx => bind (to_bytes_big y key_len) (fun by_ => Ok (bx ++ by_))).')
    body = [_u(s) for s in _strip(cr.func('ECDH.compute_secret').body)]
    if body[:2] != ["x = int.from_bytes(peer_public_key[:self.key_len], 'big')",
                    "y = int.from_bytes(peer_public_key[self.key_len:], 'big')"]:
        cr.fail(cr.func('ECDH.compute_secret'), 'ECDH.compute_secret no longer splits x | y at key_len')
    # DiffieHellman.from_group: MODP first, ECDH on KeyError
    body = [_u(s) for s in _strip(cr.func('DiffieHellman.from_group').body)]
    if body != ['try:\n    return MODPDH(group)\nexcept KeyError:\n    return ECDH(group)']:
        cr.fail(cr.func('DiffieHellman.from_group'), 'DiffieHellman.from_group changed')
    # Crypto record
    fn = cr.func('Crypto.__init__')
    params = [a.arg for a in fn.args.args][1:]
    if [_u(s) for s in _strip(fn.body)] != [f'self.{p} = {p}' for p in params]:
        cr.fail(fn, 'Crypto.__init__ is no longer a plain record constructor')
    return '\n'.join(out), params, modp


def _fmt_sizes(src, call, tr):
    """unpack('>{0}s{1}s..'.format(a, b, ..), data) -> (list of Gallina size terms, data expression)"""
    if not (isinstance(call, ast.Call) and _u(call.func) == 'unpack' and len(call.args) == 2 and not call.keywords):
        src.fail(call, 'not a call unpack(fmt, data)')
    f = call.args[0]
    if not (isinstance(f, ast.Call) and isinstance(f.func, ast.Attribute) and f.func.attr == 'format'
            and isinstance(f.func.value, ast.Constant) and isinstance(f.func.value.value, str) and not f.keywords):
        src.fail(call, 'unpack format is not a literal .format(...)')
    fmt = f.func.value.value
    if not re.fullmatch(r'>(\{\d+\}s)+', fmt):
        src.fail(call, f'unpack format {fmt!r} is not big-endian N-octet strings')
    args = [tr.expect(a, 'Z') for a in f.args]
    idx = [int(x) for x in re.findall(r'\{(\d+)\}s', fmt)]
    if any(i >= len(args) for i in idx):
        src.fail(call, 'unpack format refers to a missing argument')
    return [args[i] for i in idx], call.args[1]


def _keyring_ctor(src, call, fields, bound):
    """Keyring(a, b, None, ...) -> Gallina record term in the namedtuple's field order"""
    if not (isinstance(call, ast.Call) and _u(call.func) == 'Keyring' and not call.keywords
            and len(call.args) == len(fields)):
        src.fail(call, 'not a positional Keyring(...) call with one argument per field')
    parts = []
    for f, a in zip(fields, call.args):
        if isinstance(a, ast.Constant) and a.value is None:
            parts.append(f'{f} := None')
        elif isinstance(a, ast.Name) and a.id in bound:
            parts.append(f'{f} := Some v_{a.id}')
        else:
            src.fail(call, f'Keyring argument {_u(a)} is neither None nor an unpacked key')
    return '{| ' + '; '.join(parts) + ' |}'


def _is_log(s):
    if isinstance(s, ast.Expr) and isinstance(s.value, ast.Call) and _u(s.value.func) == 'self.log_debug':
        return True
    if isinstance(s, ast.For) and all(
            (isinstance(b, ast.Assign) and re.fullmatch(r'getattr\(\w+, keyname\)\.hex\(\)', _u(b.value)))
            or (isinstance(b, ast.Expr) and isinstance(b.value, ast.Call) and _u(b.value.func) == 'self.log_debug')
            for b in s.body) and not s.orelse:
        return True
    return False


def translate_ikesa(ik, msg, crypto_params):
    out = []
    # Keyring namedtuple
    kr = ik.assign_value('Keyring')
    if not (isinstance(kr, ast.Call) and _u(kr.func) == 'namedtuple' and len(kr.args) == 2
            and ik.lit(kr.args[0]) == 'Keyring'):
        ik.fail(kr, 'Keyring is no longer a namedtuple')
    fields = ik.lit(kr.args[1])
    if not all(isinstance(f, str) and re.fullmatch(r'sk_\w+', f) for f in fields):
        ik.fail(kr, 'unexpected Keyring fields')
    out.append('(* Keyring = namedtuple(...) *)')
    out.append('Record keyring := { ' + '; '.join(f'{f} : option bytes' for f in fields) + ' }.')
    want_params = ['cipher', 'sk_e', 'integrity', 'sk_a', 'prf', 'sk_p']
    if crypto_params != want_params:
        raise TranslateError(f'crypto.py: Crypto.__init__ parameters {crypto_params} != {want_params}')
    out.append('(* the key fields of crypto.Crypto (cipher/integrity/prf objects are shared by both directions) *)')
    out.append('Record crypto := { ' + '; '.join(f'{p} : option bytes' for p in crypto_params if p.startswith('sk_'))
               + ' }.')
    # ---------------- generate_ike_sa_key_material ----------------
    fn = ik.func('IkeSa.generate_ike_sa_key_material')
    params = [a.arg for a in fn.args.args]
    if params != ['self', 'ike_proposal', 'nonce_i', 'nonce_r', 'spi_i', 'spi_r', 'shared_secret', 'old_sk_d'] \
            or [_u(d) for d in fn.args.defaults] != ['None']:
        ik.fail(fn, 'generate_ike_sa_key_material signature changed')
    body = [s for s in _strip(fn.body) if not _is_log(s)]
    if len(body) != 12:
        ik.fail(fn, f'generate_ike_sa_key_material: {len(body)} statements, expected 12')
    for s, w in zip(body[:3], ['prf = Prf(ike_proposal.get_transform(Transform.Type.PRF))',
                               'integ = Integrity(ike_proposal.get_transform(Transform.Type.INTEG))',
                               'cipher = Cipher(ike_proposal.get_transform(Transform.Type.ENCR))']):
        if _u(s) != w:
            ik.fail(s, f'expected `{w}`')
    bts = {n: (n, 'bytes') for n in ('nonce_i', 'nonce_r', 'spi_i', 'spi_r', 'shared_secret', 'old_sk_d', 'skeyseed')}
    env = dict(bts)
    env.update({'prf.key_size': ('prf_key_size', 'Z'), 'integ.key_size': ('integ_key_size', 'Z'),
                'cipher.key_size': ('cipher_key_size', 'Z')})
    tr = Tr(ik, env, {'prf.prf': ('prf', ['bytes', 'bytes'], 'bytes'),
                      'prf.prfplus': ('prfplus', ['bytes', 'bytes', 'Z'], 'R')})
    s = body[3]
    if not (isinstance(s, ast.If) and _u(s.test) == 'not old_sk_d' and len(s.body) == 1 and len(s.orelse) == 1
            and all(isinstance(x, ast.Assign) and _u(x.targets[0]) == 'skeyseed' for x in s.body + s.orelse)):
        ik.fail(s, 'SKEYSEED is no longer `if not old_sk_d: skeyseed = .. else: skeyseed = ..`')
    out.append('(* generate_ike_sa_key_material: SKEYSEED, `if not old_sk_d` branch and `else` branch *)')
    out.append('Definition ike_skeyseed_initial (prf : bytes -> bytes -> bytes) (nonce_i nonce_r shared_secret : bytes)'
               f" : bytes :=\n  {tr.expect(s.body[0].value, 'bytes')}.")
    out.append('Definition ike_skeyseed_rekey (prf : bytes -> bytes -> bytes) (old_sk_d nonce_i nonce_r shared_secret '
               f": bytes) : bytes :=\n  {tr.expect(s.orelse[0].value, 'bytes')}.")
    s = body[4]
    if not (isinstance(s, ast.Assign) and _u(s.targets[0]) == 'keymat'):
        ik.fail(s, 'expected keymat = prf.prfplus(...)')
    out.append('(* keymat = prf.prfplus(skeyseed, seed, total length) *)')
    out.append('Definition ike_keymat {R} (prfplus : bytes -> bytes -> Z -> R) (skeyseed nonce_i nonce_r spi_i spi_r : '
               f"bytes) (prf_key_size integ_key_size cipher_key_size : Z) : R :=\n  {tr.expect(s.value, 'R')}.")
    s = body[5]
    if not (isinstance(s, ast.Assign) and isinstance(s.targets[0], ast.Tuple)
            and all(isinstance(e, ast.Name) for e in s.targets[0].elts)):
        ik.fail(s, 'expected a tuple assignment from unpack(...)')
    names = [e.id for e in s.targets[0].elts]
    sizes, data = _fmt_sizes(ik, s.value, tr)
    if _u(data) != 'keymat' or len(sizes) != len(names) or len(set(names)) != len(names):
        ik.fail(s, 'unpack of keymat: target/format mismatch')
    out.append('(* the unpack format of keymat and the Keyring built from its fields *)')
    out.append('Definition ike_unpack_sizes (prf_key_size integ_key_size cipher_key_size : Z) : list Z :=\n  ['
               + '; '.join(sizes) + '].')
    s = body[6]
    if not (isinstance(s, ast.Assign) and _u(s.targets[0]) == 'ike_sa_keyring'):
        ik.fail(s, 'expected ike_sa_keyring = Keyring(...)')
    out.append('Definition ike_keyring_of_unpack (l : list bytes) : option keyring :=\n  match l with\n  | ['
               + '; '.join('v_' + n for n in names) + '] => Some ' + _keyring_ctor(ik, s.value, fields, set(names))
               + '\n  | _ => None\n  end.')
    # crypto_i / crypto_r
    defs = {}
    for s, nm in ((body[7], 'crypto_i'), (body[8], 'crypto_r')):
        c = s.value if isinstance(s, ast.Assign) else None
        if not (c is not None and _u(s.targets[0]) == nm and isinstance(c, ast.Call) and _u(c.func) == 'Crypto'
                and len(c.args) == 6 and not c.keywords):
            ik.fail(s, f'expected {nm} = Crypto(6 positional arguments)')
        parts = []
        for p, a in zip(crypto_params, c.args):
            if p.startswith('sk_'):
                m = re.fullmatch(r'ike_sa_keyring\.(sk_\w+)', _u(a))
                if not m or m.group(1) not in fields:
                    ik.fail(s, f'{nm}: {_u(a)} is not a Keyring field')
                parts.append(f'{p} := {m.group(1)} kr')
            elif _u(a) != {'cipher': 'cipher', 'integrity': 'integ', 'prf': 'prf'}[p]:
                ik.fail(s, f'{nm}: argument {p} is {_u(a)}')
        defs[nm] = '{| ' + '; '.join(parts) + ' |}'
        out.append(f'Definition {nm} (kr : keyring) : crypto := {defs[nm]}.')
    for s, nm in ((body[9], 'my_crypto'), (body[10], 'peer_crypto')):
        v = s.value if isinstance(s, ast.Assign) else None
        if not (v is not None and _u(s.targets[0]) == 'self.' + nm and isinstance(v, ast.IfExp)
                and _u(v.test) == 'self.is_initiator' and _u(v.body) in defs and _u(v.orelse) in defs):
            ik.fail(s, f'expected self.{nm} = crypto_x if self.is_initiator else crypto_y')
        out.append(f'Definition {nm} (is_initiator : bool) (kr : keyring) : crypto := '
                   f'if is_initiator then {_u(v.body)} kr else {_u(v.orelse)} kr.')
    if _u(body[11]) != 'return ike_sa_keyring':
        ik.fail(body[11], 'expected return ike_sa_keyring')
    # ---------------- generate_child_sa_key_material ----------------
    fn = ik.func('IkeSa.generate_child_sa_key_material')
    if [a.arg for a in fn.args.args] != ['self', 'child_proposal', 'keyseed', 'sk_d'] or fn.args.defaults:
        ik.fail(fn, 'generate_child_sa_key_material signature changed')
    body = [s for s in _strip(fn.body) if not _is_log(s)]
    if len(body) != 7:
        ik.fail(fn, f'generate_child_sa_key_material: {len(body)} statements, expected 7')
    if not (isinstance(body[0], ast.Assign) and _u(body[0].targets[0]) == 'encr_key_size'):
        ik.fail(body[0], 'expected encr_key_size = <int>')
    encr0 = ik.lit(body[0].value)
    if _u(body[1]) != 'integ_key_size = Integrity(child_proposal.get_transform(Transform.Type.INTEG)).key_size':
        ik.fail(body[1], 'integ_key_size assignment changed')
    s = body[2]
    if not (isinstance(s, ast.If) and not s.orelse and len(s.body) == 1 and isinstance(s.test, ast.Compare)
            and _u(s.test.left) == 'child_proposal.protocol_id' and len(s.test.ops) == 1
            and isinstance(s.test.ops[0], ast.Eq)
            and _u(s.body[0]) == 'encr_key_size = Cipher(child_proposal.get_transform(Transform.Type.ENCR)).key_size'):
        ik.fail(s, 'the ESP-only cipher key size rule changed')
    proto = pyast.dotted_name(s.test.comparators[0]) or ''
    protos = dict(msg.enum('Proposal.Protocol'))
    if not proto.startswith('Proposal.Protocol.') or proto[18:] not in protos:
        ik.fail(s, f'{proto} is not a Proposal.Protocol member')
    env = {n: (n, 'bytes') for n in ('sk_d', 'keyseed')}
    env.update({'integ_key_size': ('integ_key_size', 'Z'), 'encr_key_size': ('encr_key_size', 'Z')})
    tr = Tr(ik, env, {'self.my_crypto.prf.prfplus': ('prfplus', ['bytes', 'bytes', 'Z'], 'R')})
    out.append('(* generate_child_sa_key_material *)')
    out.append(f'Definition child_encr_key_size_default : Z := {encr0}.')
    out.append(f'Definition child_protocol_with_cipher : Z := {protos[proto[18:]]}.   (* {proto} *)')
    out.append('Definition proposal_protocol_AH : Z := %d.\nDefinition proposal_protocol_ESP : Z := %d.'
               % (protos['AH'], protos['ESP']))
    s = body[3]
    if not (isinstance(s, ast.Assign) and _u(s.targets[0]) == 'keymat'):
        ik.fail(s, 'expected keymat = self.my_crypto.prf.prfplus(...)')
    out.append('Definition child_keymat {R} (prfplus : bytes -> bytes -> Z -> R) (sk_d keyseed : bytes) '
               f"(integ_key_size encr_key_size : Z) : R :=\n  {tr.expect(s.value, 'R')}.")
    s = body[4]
    if not (isinstance(s, ast.Assign) and isinstance(s.targets[0], ast.Tuple)
            and all(isinstance(e, ast.Name) for e in s.targets[0].elts)):
        ik.fail(s, 'expected a tuple assignment from unpack(...)')
    names = [e.id for e in s.targets[0].elts]
    sizes, data = _fmt_sizes(ik, s.value, tr)
    if _u(data) != 'keymat' or len(sizes) != len(names) or len(set(names)) != len(names):
        ik.fail(s, 'unpack of keymat: target/format mismatch')
    out.append('Definition child_unpack_sizes (encr_key_size integ_key_size : Z) : list Z :=\n  ['
               + '; '.join(sizes) + '].')
    s = body[5]
    if not (isinstance(s, ast.Assign) and _u(s.targets[0]) == 'child_sa_keyring'):
        ik.fail(s, 'expected child_sa_keyring = Keyring(...)')
    out.append('Definition child_keyring_of_unpack (l : list bytes) : option keyring :=\n  match l with\n  | ['
               + '; '.join('v_' + n for n in names) + '] => Some ' + _keyring_ctor(ik, s.value, fields, set(names))
               + '\n  | _ => None\n  end.')
    if _u(body[6]) != 'return child_sa_keyring':
        ik.fail(body[6], 'expected return child_sa_keyring')
    # ---------------- call sites ----------------
    out.append(translate_call_sites(ik))
    return '\n'.join(out)


def _find_calls(fn, attr):
    return [n for n in ast.walk(fn) if isinstance(n, ast.Call) and isinstance(n.func, ast.Attribute)
            and n.func.attr == attr]


def _assigns(fn, target):
    return [n for n in ast.walk(fn) if isinstance(n, ast.Assign) and len(n.targets) == 1
            and _u(n.targets[0]) == target]


def translate_call_sites(ik):
    out = ['(* ---- call sites in ikesa.py: which values of the exchange reach the key schedule ---- *)']
    order = ['ike_proposal', 'nonce_i', 'nonce_r', 'spi_i', 'spi_r', 'shared_secret', 'old_sk_d']

    def ike_call(fname, gname, env, comment):
        fn = ik.func(fname)
        calls = _find_calls(fn, 'generate_ike_sa_key_material')
        if len(calls) != 1 or calls[0].args or _u(calls[0].func.value) != 'self':
            ik.fail(fn, f'{fname}: expected one keyword call of self.generate_ike_sa_key_material')
        kw = {k.arg: k.value for k in calls[0].keywords}
        if sorted(kw) != sorted(order):
            ik.fail(calls[0], f'{fname}: keyword arguments {sorted(kw)}')
        if _u(kw['ike_proposal']) != 'self.chosen_proposal':
            ik.fail(calls[0], f'{fname}: ike_proposal is not self.chosen_proposal')
        args = []
        for k in order[1:]:
            key = _u(kw[k])
            if key not in env:
                ik.fail(calls[0], f'{fname}: argument {k}={key} outside the subset')
            args.append(env[key])
        tgt = [n for n in ast.walk(fn) if isinstance(n, ast.Assign) and n.value is calls[0]]
        if len(tgt) != 1 or _u(tgt[0].targets[0]) != 'self.ike_sa_keyring':
            ik.fail(calls[0], f'{fname}: result is not stored in self.ike_sa_keyring')
        out.append(f'(* {comment} *)')
        out.append(f'Definition {gname} {{R}} (gen : bytes -> bytes -> bytes -> bytes -> bytes -> option bytes -> R)\n'
                   '    (request_nonce response_nonce my_spi peer_spi dh_shared_secret : bytes) '
                   '(old_sk_d : option bytes) : R :=\n  gen ' + ' '.join(args) + '.')
        return fn

    fn = ike_call('IkeSa._process_ike_sa_negotiation_request', 'responder_ike_call',
                  {'payload_nonce.nonce': 'request_nonce', 'response_payload_nonce.nonce': 'response_nonce',
                   'self.peer_spi': 'peer_spi', 'self.my_spi': 'my_spi', 'dh.shared_secret': 'dh_shared_secret',
                   'old_sk_d': 'old_sk_d'},
                  'responder: _process_ike_sa_negotiation_request (nonce_i, nonce_r, spi_i, spi_r, secret, old_sk_d)')
    a = {t: [_u(x.value) for x in _assigns(fn, t)] for t in ('payload_nonce', 'response_payload_nonce', 'dh')}
    if a['payload_nonce'] != ['request.get_payload(Payload.Type.NONCE, encrypted)'] \
            or a['response_payload_nonce'] != ['PayloadNONCE()'] \
            or a['dh'] != ['DiffieHellman.from_group(payload_ke.dh_group)']:
        ik.fail(fn, '_process_ike_sa_negotiation_request: source of nonces / dh changed')
    if 'dh.compute_secret(payload_ke.ke_data)' not in [_u(s.value) for s in ast.walk(fn) if isinstance(s, ast.Expr)]:
        ik.fail(fn, '_process_ike_sa_negotiation_request: dh.compute_secret(payload_ke.ke_data) not found')
    fn = ike_call('IkeSa.process_ike_sa_negotiation_response', 'initiator_ike_call',
                  {'nonce': 'request_nonce', 'payload_nonce.nonce': 'response_nonce',
                   'self.peer_spi': 'peer_spi', 'self.my_spi': 'my_spi', 'self.dh.shared_secret': 'dh_shared_secret',
                   'old_sk_d': 'old_sk_d'},
                  'initiator: process_ike_sa_negotiation_response')
    if [_u(x.value) for x in _assigns(fn, 'payload_nonce')] != ['response.get_payload(Payload.Type.NONCE, encrypted)']:
        ik.fail(fn, 'process_ike_sa_negotiation_response: source of the responder nonce changed')
    if [_u(x.value) for x in _assigns(fn, 'self.peer_spi')] != \
            ['response.spi_r if old_sk_d is None else self.chosen_proposal.spi']:
        ik.fail(fn, 'process_ike_sa_negotiation_response: peer SPI rule changed')
    if 'self.dh.compute_secret(payload_ke.ke_data)' not in \
            [_u(s.value) for s in ast.walk(fn) if isinstance(s, ast.Expr)]:
        ik.fail(fn, 'process_ike_sa_negotiation_response: self.dh.compute_secret(payload_ke.ke_data) not found')
    # old SK_d handed to the negotiation of the new IKE_SA on both roles
    fn = ik.func('IkeSa.process_create_child_sa_request')
    c = _find_calls(fn, '_process_ike_sa_negotiation_request')
    if len(c) != 1 or [_u(x) for x in c[0].args] != ['request', 'True', 'self.ike_sa_keyring.sk_d'] or c[0].keywords \
            or _u(c[0].func.value) != 'self.new_ike_sa':
        ik.fail(fn, 'rekey responder: new_ike_sa._process_ike_sa_negotiation_request(request, True, '
                    'self.ike_sa_keyring.sk_d) not found')
    if [_u(x.value) for x in _assigns(fn, 'self.new_ike_sa')] != \
            ['IkeSa(False, proposal.spi, self.configuration, self.my_addr, self.peer_addr)']:
        ik.fail(fn, 'rekey responder: construction of the new IKE_SA changed')
    fn = ik.func('IkeSa.process_create_child_sa_response')
    c = _find_calls(fn, 'process_ike_sa_negotiation_response')
    if len(c) != 1 or _u(c[0].func.value) != 'self.new_ike_sa' \
            or [_u(x) for x in c[0].args] != ['response', 'self.request.get_payload(Payload.Type.NONCE, True).nonce'] \
            or {k.arg: _u(k.value) for k in c[0].keywords} != {'encrypted': 'True',
                                                              'old_sk_d': 'self.ike_sa_keyring.sk_d'}:
        ik.fail(fn, 'rekey initiator: new_ike_sa.process_ike_sa_negotiation_response(..., '
                    'old_sk_d=self.ike_sa_keyring.sk_d) not found')
    out.append('(* both rekey paths pass the SK_d of the IKE_SA being rekeyed *)')
    out.append('Definition rekey_old_sk_d (old_keyring : keyring) : option bytes := sk_d old_keyring.')
    # CHILD_SA keyseed on both roles
    for fname, pre, dhname, nonce_rule in (
            ('IkeSa._process_create_child_sa_negotiation_req', 'responder', 'dh.shared_secret',
             {'request_payload_nonce': ['ike_sa_init_req.get_payload(Payload.Type.NONCE)',
                                        'request.get_payload(Payload.Type.NONCE, encrypted=True)'],
              'response_payload_nonce': ['ike_sa_init_res.get_payload(Payload.Type.NONCE)', 'PayloadNONCE()']}),
            ('IkeSa._process_create_child_sa_negotiation_res', 'initiator', 'self.dh.shared_secret',
             {'request_payload_nonce': ['ike_sa_init_req.get_payload(Payload.Type.NONCE)',
                                        'self.request.get_payload(Payload.Type.NONCE, True)'],
              'response_payload_nonce': ['ike_sa_init_res.get_payload(Payload.Type.NONCE)',
                                         'response.get_payload(Payload.Type.NONCE, True)']})):
        fn = ik.func(fname)
        ks = _assigns(fn, 'keyseed')
        if len(ks) != 2:
            ik.fail(fn, f'{fn.name}: expected two assignments of keyseed')
        tr = Tr(ik, {'request_payload_nonce.nonce': ('request_nonce', 'bytes'),
                     'response_payload_nonce.nonce': ('response_nonce', 'bytes'),
                     dhname: ('dh_shared_secret', 'bytes'), 'keyseed': ('keyseed', 'bytes')})
        out.append(f'(* {pre}: {fn.name} *)')
        out.append(f'Definition {pre}_child_keyseed (request_nonce response_nonce : bytes) : bytes :=\n  '
                   f"{tr.expect(ks[0].value, 'bytes')}.")
        out.append(f'Definition {pre}_child_keyseed_pfs (dh_shared_secret keyseed : bytes) : bytes :=\n  '
                   f"{tr.expect(ks[1].value, 'bytes')}.")
        # the second assignment is guarded by the presence of a DH transform in the chosen proposal
        guard = [n for n in ast.walk(fn) if isinstance(n, ast.If) and ks[1] in n.body]
        if len(guard) != 1 or _u(guard[0].test) != 'chosen_child_proposal.get_transforms(Transform.Type.DH)':
            ik.fail(fn, f'{fn.name}: the DH secret is no longer prepended exactly when the proposal has a DH transform')
        c = _find_calls(fn, 'generate_child_sa_key_material')
        if len(c) != 1 or c[0].args or {k.arg: _u(k.value) for k in c[0].keywords} != {
                'child_proposal': 'chosen_child_proposal', 'keyseed': 'keyseed', 'sk_d': 'self.ike_sa_keyring.sk_d'}:
            ik.fail(fn, f'{fn.name}: arguments of generate_child_sa_key_material changed')
        # nonce sources: IKE_AUTH -> stored IKE_SA_INIT messages, else this exchange
        for t, want in nonce_rule.items():
            got = [_u(x.value) for x in _assigns(fn, t)]
            if got != want:
                ik.fail(fn, f'{fn.name}: source of {t} changed: {got}')
        iff = [n for n in ast.walk(fn) if isinstance(n, ast.If)
               and any(isinstance(x, ast.Assign) and _u(x.targets[0]) == 'request_payload_nonce' for x in n.body)]
        if len(iff) != 1 or not re.fullmatch(r'(request|response)\.exchange_type == Message\.Exchange\.IKE_AUTH',
                                            _u(iff[0].test)):
            ik.fail(fn, f'{fn.name}: the IKE_AUTH nonce-source rule changed')
        if ['Message.parse(self.ike_sa_init_req_data)'] != [_u(x.value) for x in _assigns(fn, 'ike_sa_init_req')] or \
                ['Message.parse(self.ike_sa_init_res_data)'] != [_u(x.value) for x in _assigns(fn, 'ike_sa_init_res')]:
            ik.fail(fn, f'{fn.name}: stored IKE_SA_INIT messages are no longer the nonce source for IKE_AUTH')
    return '\n'.join(out)


def translate_config(cf, msg):
    """configuration.py: the transforms a configuration file can name (type, id, keylen)"""
    ev = _enum_resolver(msg)
    types = dict(msg.enum('Transform.Type'))
    enums = {'ENCR': 'Transform.EncrId', 'INTEG': 'Transform.IntegId', 'PRF': 'Transform.PrfId', 'DH': 'Transform.DhId'}
    out = []
    for var, ty, gname in (('_encr_name_to_transform', 'ENCR', 'config_encr'),
                           ('_integ_name_to_transform', 'INTEG', 'config_integ'),
                           ('_prf_name_to_transform', 'PRF', 'config_prf'),
                           ('_dh_name_to_transform', 'DH', 'config_dh')):
        _, items = _dict_items(cf, var)
        rows = []
        for k, v in items:
            if not (isinstance(v, ast.Call) and _u(v.func) == 'Transform' and not v.keywords and len(v.args) in (2, 3)
                    and _u(v.args[0]) == 'Transform.Type.' + ty):
                cf.fail(v, f'{var}: value is not Transform(Transform.Type.{ty}, id[, keylen])')
            tid = ev(cf, v.args[1], enums[ty])
            keylen = cf.lit(v.args[2]) if len(v.args) == 3 else 0
            if not isinstance(keylen, int) or isinstance(keylen, bool) or keylen < 0:
                cf.fail(v, f'{var}: keylen is not a non-negative integer literal')
            if (tid, keylen) not in rows:
                rows.append((tid, keylen))
        rows.sort()
        out.append(f'(* configuration.{var}: distinct (transform id, keylen or 0), sorted *)')
        out.append(f'Definition {gname} : list (Z * Z) := [' + '; '.join(f'({a}, {b})' for a, b in rows) + '].')
    _, items = _dict_items(cf, '_ipsec_proto_name_to_enum')
    protos = dict(msg.enum('Proposal.Protocol'))
    vals = []
    for k, v in items:
        d = pyast.dotted_name(v) or ''
        if not d.startswith('Proposal.Protocol.') or d[18:] not in protos:
            cf.fail(v, '_ipsec_proto_name_to_enum: value is not a Proposal.Protocol member')
        vals.append(protos[d[18:]])
    out.append('(* configuration._ipsec_proto_name_to_enum values *)')
    out.append('Definition config_ipsec_protocols : list Z := ' + _zlist(sorted(set(vals))) + '.')
    return '\n'.join(out)


def translate(ctx):
    cr = pyast.Src(os.path.join(core.REPO, 'crypto.py'))
    ik = pyast.Src(os.path.join(core.REPO, 'ikesa.py'))
    msg = pyast.Src(os.path.join(core.REPO, 'message.py'))
    tables, crypto_params, modp = translate_crypto(cr, msg)
    head = ('(* GENERATED from /repo/{} by py/props/c04.py - do not edit *)\n'
            'From Coq Require Import ZArith List String.\nFrom VLib Require Import Bytes.\n'
            'From Keys Require Import Py.\nImport ListNotations.\nOpen Scope Z_scope.\nOpen Scope string_scope.\n'
            'Open Scope list_scope.\n\n')
    gen = os.path.join(core.cluster_dir(CLUSTER), 'Gen')
    pyast.write_if_changed(os.path.join(gen, 'CryptoTables.v'), head.format('crypto.py, message.py') + tables + '\n')
    pyast.write_if_changed(os.path.join(gen, 'ModpGroups.v'),
                           '(* GENERATED from /repo/crypto.py, message.py by py/props/c04.py - do not edit *)\n'
                           'From Coq Require Import ZArith List.\nImport ListNotations.\nOpen Scope Z_scope.\n\n' + modp)
    cf = pyast.Src(os.path.join(core.REPO, 'configuration.py'))
    pyast.write_if_changed(os.path.join(gen, 'ConfigSuites.v'),
                           '(* GENERATED from /repo/configuration.py, message.py by py/props/c04.py - do not edit *)\n'
                           'From Coq Require Import ZArith List.\nImport ListNotations.\nOpen Scope Z_scope.\n\n'
                           + translate_config(cf, msg) + '\n')
    km = translate_ikesa(ik, msg, crypto_params)
    pyast.write_if_changed(os.path.join(gen, 'KeyMaterial.v'),
                           head.format('ikesa.py, message.py') + 'From Keys Require Import Gen.CryptoTables.\n\n'
                           + km + '\n')


CHECK = core.Check(
    'C04', CLUSTER, ['Props/C04.v', 'Props/C04_primes.v'], translate=translate,
    deps=('lib',),
)
