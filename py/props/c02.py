"""C02 - no IKE_SA is established without a valid AUTH over the real exchange."""
import hashlib
import hmac
import random
from unittest import mock

from props import shellcommon as sc
from sim.scenarios import Pair, HANDSHAKE
from sim.world import LoopEscape, conf_pair
from props import hdl
from vlib import core
from vlib.core import Failure

IPA, IPB = '192.168.0.1', '192.168.0.2'
_RSA = None


def rsa_keys():
    """two RSA key pairs (PEM), generated once per run"""
    global _RSA
    if _RSA is None:
        from cryptography.hazmat.primitives.asymmetric import rsa
        from cryptography.hazmat.primitives import serialization
        out = []
        for _ in range(2):
            k = rsa.generate_private_key(public_exponent=65537, key_size=2048)
            priv = k.private_bytes(serialization.Encoding.PEM, serialization.PrivateFormat.TraditionalOpenSSL,
                                   serialization.NoEncryption()).decode()
            pub = k.public_key().public_bytes(serialization.Encoding.PEM,
                                              serialization.PublicFormat.SubjectPublicKeyInfo).decode()
            out += [priv, pub]
        _RSA = tuple(out)      # priv_a, pub_a, priv_b, pub_b
    return _RSA


def toy_prf(self_, key, data):
    k, d = bytes(key), bytes(data)
    out = bytearray()
    for i in range(32):
        s = 7 * len(k) + 13 * len(d) + 31 * i
        s += sum(x * (j + 1 + i) for j, x in enumerate(k))
        s += sum(x * (j + 3 + 2 * i) for j, x in enumerate(d))
        out.append(s % 256)
    return bytes(out)


# credential / identity / method situations: (name, conf kwargs, post-edit of the two conf dicts)
def situations():
    priv_a, pub_a, priv_b, pub_b = rsa_keys()

    def edit_none(ca, cb):
        pass

    def b_expects_rsa_only(ca, cb):       # A authenticates with PSK, B only knows a public key for A
        cb['conn']['peer_auth'] = {'id': 'alice@openikev2', 'pubkey': pub_a}

    def a_uses_rsa_b_expects_psk(ca, cb):
        ca['conn']['my_auth'] = {'id': 'alice@openikev2', 'privkey': priv_a}

    def a_wrong_rsa_key(ca, cb):
        ca['conn']['my_auth'] = {'id': 'alice@openikev2', 'privkey': priv_b}

    def b_wrong_rsa_key(ca, cb):
        cb['conn']['my_auth'] = {'id': 'bob@openikev2', 'privkey': priv_a}

    def id_fqdn_vs_rfc822(ca, cb):
        cb['conn']['peer_auth']['id'] = 'alice.openikev2'     # same credential, other identity type and data

    def id_ipv4(ca, cb):
        ca['conn']['my_auth']['id'] = '10.1.1.1'
        cb['conn']['peer_auth']['id'] = '10.1.1.1'

    def id_ipv4_mismatch(ca, cb):
        ca['conn']['my_auth']['id'] = '10.1.1.1'
        cb['conn']['peer_auth']['id'] = '10.1.1.2'

    def a_expects_other_id_of_b(ca, cb):
        ca['conn']['peer_auth']['id'] = 'mallory@openikev2'

    def a_expects_other_psk_of_b(ca, cb):
        ca['conn']['peer_auth']['psk'] = 'not-bobs'
    rsa = (priv_a, pub_a, priv_b, pub_b)
    return [
        ('psk_ok', {}, edit_none, True),
        ('rsa_ok', {'rsa': rsa}, edit_none, True),
        ('id_ipv4_ok', {}, id_ipv4, True),
        ('psk_wrong_at_b', {'peer_psk_seen_by_b': 'wrong'}, edit_none, False),
        ('id_data_wrong_at_b', {'peer_id_seen_by_b': 'carol@openikev2'}, edit_none, False),
        ('id_type_wrong_at_b', {}, id_fqdn_vs_rfc822, False),
        ('id_ipv4_mismatch', {}, id_ipv4_mismatch, False),
        ('method_psk_but_b_expects_rsa', {}, b_expects_rsa_only, False),
        ('method_rsa_but_b_expects_psk', {}, a_uses_rsa_b_expects_psk, False),
        ('rsa_wrong_key_a', {'rsa': rsa}, a_wrong_rsa_key, False),
        ('rsa_wrong_key_b', {'rsa': rsa}, b_wrong_rsa_key, False),
        # identities that differ from the configured one only in the 0x20 bit of some octets (letter case; for
        # binary identities another address): the peer holds the right key and signs the identity it presents
        ('id_case_at_b', {'id_a': 'ALICE@openikev2', 'peer_id_seen_by_b': 'alice@openikev2'}, edit_none, False),
        ('id_case_at_a', {'id_b': 'Bob@OpenIKEv2', 'over_a': {'peer_auth': {'id': 'bob@openikev2'}}}, edit_none, False),
        ('id_ipv4_bit5_at_b', {'id_a': '10.0.0.97', 'peer_id_seen_by_b': '10.0.0.65'}, edit_none, False),
        ('id_ipv4_bit5_at_a', {'id_b': '10.0.0.65', 'over_a': {'peer_auth': {'id': '10.0.0.97'}}}, edit_none, False),
        ('id_wrong_at_a', {}, a_expects_other_id_of_b, False),
        ('psk_wrong_at_a', {}, a_expects_other_psk_of_b, False),
    ]


class ConfPair(Pair):
    """Pair whose two configuration dictionaries are edited before the endpoints are created"""

    def __init__(self, seed, conf, edit):
        super().__init__(seed, **conf)
        self.edit = edit

    def __enter__(self):
        self.sim.__enter__()
        from sim.deviant import Deviance
        self.dev = Deviance(self.sim)
        self.dev.__enter__()
        ca, cb = conf_pair(IPA, IPB, **self.conf)
        self.edit(ca, cb)
        self.A = self.sim.add_endpoint('A', [IPA], ca)
        self.B = self.sim.add_endpoint('B', [IPB], cb)
        return self


def run_handshake(seed, conf, edit, transform=None, toy=False, record=None):
    """One initial exchange; `transform(k, data) -> data|None` rewrites the k-th datagram in flight (MITM)."""
    from ikesa import IkeSa
    import crypto
    patches = []
    if toy:
        patches.append(mock.patch.object(crypto.Prf, 'prf', toy_prf))
    if record is not None:
        for name, role in (('process_ike_auth_request', 'responder'), ('process_ike_auth_response', 'initiator')):
            orig = getattr(IkeSa, name)

            def w(self_, msg, orig=orig, role=role):
                from message import Message, Payload
                rec = {'role': role}
                try:
                    pid = msg.get_payload(Payload.Type.IDi if role == 'responder' else Payload.Type.IDr, True)
                    pa = msg.get_payload(Payload.Type.AUTH, True)
                    pc = self_.configuration.peer_auth
                    peer_msg = self_.ike_sa_init_req_data if role == 'responder' else self_.ike_sa_init_res_data
                    mine = self_.ike_sa_init_res_data if role == 'responder' else self_.ike_sa_init_req_data
                    nonce = Message.parse(mine).get_payload(Payload.Type.NONCE).nonce
                    rsa_ok = 0
                    if pc.pubkey is not None:
                        octets = bytes(peer_msg) + nonce + self_.my_crypto.prf.prf(self_.peer_crypto.sk_p,
                                                                                  bytes(pid.to_bytes()))
                        rsa_ok = 1 if pc.pubkey.verify(bytes(pa.auth_data), octets) else 0
                    rec['input'] = [int(pc.id.id_type), bytes(pc.id.id_data), pc.psk, 1 if pc.pubkey is not None else 0,
                                    rsa_ok, int(pid.id_type), bytes(pid.id_data), int(pa.method), bytes(pa.auth_data),
                                    bytes(peer_msg), bytes(nonce), bytes(self_.peer_crypto.sk_p)]
                except Exception as ex:
                    rec['skip'] = repr(ex)
                try:
                    out = orig(self_, msg)
                    rec['continue'] = 1
                    return out
                except Exception as ex:
                    rec['continue'] = 0
                    rec['exc'] = type(ex).__name__
                    raise
                finally:
                    record.append(rec)
            patches.append(mock.patch.object(IkeSa, name, w))
    with ConfPair(seed, conf, edit) as p:
        for pt in patches:
            pt.start()
        try:
            k = 0
            p.do(['acquire', 'A', 80])
            while p.sim.net and k < 12:
                src, dst, data = p.sim.net.pop(0)
                if transform is not None:
                    data = transform(k, data)
                k += 1
                if data is None:
                    continue
                ep = p.sim.owner_of(dst)
                out = ep.datagram(dst, src, data)
                p._emit(out)
            res = {
                'a_states': [int(s.state) for s in p.A.controller.ike_sas],
                'b_states': [int(s.state) for s in p.B.controller.ike_sas],
                'a_newsa': sum(1 for r in p.A.kernel.requests if r[2] and r[2][0] == 'NEWSA'),
                'b_newsa': sum(1 for r in p.B.kernel.requests if r[2] and r[2][0] == 'NEWSA'),
                'history': [bytes(d) for (_, _, d) in p.history],
                'pair': p,
                'a_sa': list(p.A.controller.ike_sas), 'b_sa': list(p.B.controller.ike_sas),
            }
        finally:
            for pt in reversed(patches):
                pt.stop()
    return res


def established(res):
    return 10 in res['a_states'], 10 in res['b_states']


# ---------------------------------------------------------------------------------------------

def correspond(ctx):
    """the gate of the model (toy PRF) against the outcome of the real IKE_AUTH handlers"""
    cases, meta = [], []
    for name, conf, edit, ok in situations():
        for rep in range(1 if ctx.quick() else 4):
            rec = []
            seed = ctx.rng.getrandbits(32)
            tamper = None
            if rep % 2 == 1:
                tamper = None
            run_handshake(seed, conf, edit, toy=True, record=rec)
            for r in rec:
                if 'input' not in r:
                    continue
                # only failures of the authentication gate itself are compared (AuthenticationFailed) - later failures
                # (CHILD_SA negotiation) happen after the gate said Continue
                cont = 1 if (r['continue'] == 1 or r.get('exc') != 'AuthenticationFailed') else 0
                cases.append((r['input'], cont))
                meta.append((name, seed, r['role']))
                ctx.case({'situation': name, 'role': r['role'], 'continue': cont}, nontrivial=True,
                         sample=len(ctx.samples) < 4)
                ctx.count(f'gate:{name}:{r["role"]}:{cont}')
    bad = core.run_cases(ctx, sc.CLUSTER, 'From IkeSa Require Import AuthRun.', 'run_auth', cases, shard=60, name='auth')
    fails = []
    for gi, model_out in bad[:6]:
        name, seed, role = meta[gi]
        fails.append(Failure('correspondence', 'auth:model-vs-code',
                             f'{name} ({role}): implementation continue={cases[gi][1]} / model {model_out[-200:]}',
                             {'situation': name, 'seed': seed}))
    return fails + hdl.tie(ctx)


def prf_of(name):
    return {'sha1': hashlib.sha1, 'sha256': hashlib.sha256, 'sha512': hashlib.sha512}[name]


def recompute_auth(ctx, seed, prf_name, rsa):
    """Independent reference (hmac/hashlib/cryptography directly) for the AUTH payloads on the wire."""
    from message import Message, Payload
    fails = []
    conf = {'prf': (prf_name,), 'integ': (prf_name,)}
    if rsa:
        conf['rsa'] = rsa_keys()
    res = run_handshake(seed, conf, lambda a, b: None)
    ea, eb = established(res)
    ctx.case({'recompute': prf_name, 'rsa': bool(rsa)}, nontrivial=True)
    if not (ea and eb):
        return [Failure('property', 'auth:honest-handshake-failed', f'{prf_name} rsa={bool(rsa)}: states '
                        f'{res["a_states"]} {res["b_states"]}', {'recompute': prf_name, 'rsa': bool(rsa), 'seed': seed})]
    h = res['history']
    init_req, init_res, auth_req, auth_res = h[0], h[1], h[2], h[3]
    sa_a, sa_b = res['a_sa'][0], res['b_sa'][0]
    hm = prf_of(prf_name)

    def prf(k, d):
        return hmac.new(k, d, hm).digest()
    kr = sa_a.ike_sa_keyring
    ni = Message.parse(init_req).get_payload(Payload.Type.NONCE).nonce
    nr = Message.parse(init_res).get_payload(Payload.Type.NONCE).nonce
    m_req = Message.parse(auth_req, crypto=sa_b.peer_crypto)
    m_res = Message.parse(auth_res, crypto=sa_a.peer_crypto)
    for who, msg, wire, nonce_other, sk_p, idt, psk, pub in (
            ('initiator', m_req, init_req, nr, kr.sk_pi, Payload.Type.IDi, b'testing', rsa_keys()[1]),
            ('responder', m_res, init_res, ni, kr.sk_pr, Payload.Type.IDr, b'testing2', rsa_keys()[3])):
        pid = msg.get_payload(idt, True)
        pa = msg.get_payload(Payload.Type.AUTH, True)
        octets = wire + nonce_other + prf(sk_p, bytes([int(pid.id_type), 0, 0, 0]) + pid.id_data)
        if rsa:
            from cryptography.hazmat.primitives import serialization, hashes
            from cryptography.hazmat.primitives.asymmetric import padding
            from cryptography.exceptions import InvalidSignature
            key = serialization.load_pem_public_key(pub.encode())
            try:
                key.verify(bytes(pa.auth_data), octets, padding.PKCS1v15(), hashes.SHA256())
                ok = int(pa.method) == 1
            except InvalidSignature:
                ok = False
        else:
            ok = int(pa.method) == 2 and bytes(pa.auth_data) == prf(prf(psk, b'Key Pad for IKEv2'), octets)
        if not ok:
            fails.append(Failure('property', 'auth:wire-auth-differs-from-rfc',
                                 f'{prf_name} rsa={bool(rsa)}: the AUTH payload sent by the {who} is not the RFC 7296 '
                                 f'2.15 value over (its IKE_SA_INIT message on the wire | peer nonce | prf(SK_p, ID))',
                                 {'recompute': prf_name, 'rsa': bool(rsa), 'seed': seed}))
    return fails


def semantic(data):
    """what an IKE_SA_INIT message means: SPIs, proposals, KE, nonce"""
    from message import Message, Payload
    m = Message.parse(data)
    sa = m.get_payload(Payload.Type.SA)
    ke = m.get_payload(Payload.Type.KE)
    no = m.get_payload(Payload.Type.NONCE)
    return (bytes(m.spi_i), bytes(m.spi_r),
            [(int(p.protocol_id), [(int(t.type), int(t.id), t.keylen) for t in p.transforms]) for p in sa.proposals],
            int(ke.dh_group), bytes(ke.ke_data), bytes(no.nonce))


def mitm_mutations(rng):
    """rewrites of the cleartext IKE_SA_INIT messages (k = 0 request, k = 1 response)"""
    from message import Message, Payload, PayloadVENDOR, Transform

    def reparse(f):
        def g(data):
            m = Message.parse(data)
            f(m)
            return bytes(m.to_bytes())
        return g

    def nonce_flip(m):
        p = m.get_payload(Payload.Type.NONCE)
        b = bytearray(p.nonce)
        b[rng.randrange(len(b))] ^= 1 << rng.randrange(8)
        p.nonce = bytes(b)

    def nonce_replace(m):
        p = m.get_payload(Payload.Type.NONCE)
        p.nonce = bytes(rng.getrandbits(8) for _ in range(len(p.nonce)))

    def ke_flip(m):
        p = m.get_payload(Payload.Type.KE)
        b = bytearray(p.ke_data)
        b[rng.randrange(len(b))] ^= 1 << rng.randrange(8)
        p.ke_data = bytes(b)

    def ke_group(m):
        m.get_payload(Payload.Type.KE).dh_group = 20

    def downgrade(m):
        pr = m.get_payload(Payload.Type.SA).proposals[0]
        encr = [t for t in pr.transforms if int(t.type) == 1]
        if len(encr) > 1:
            pr.transforms.remove(encr[0])
        else:
            pr.transforms.append(Transform(1, 12, 128))

    def reorder_transforms(m):
        m.get_payload(Payload.Type.SA).proposals[0].transforms.reverse()

    def reorder_payloads(m):
        m.payloads.reverse()

    def drop_vendor(m):
        m.payloads = [p for p in m.payloads if p.type != Payload.Type.VENDOR]

    def add_vendor(m):
        m.payloads.append(PayloadVENDOR(b'mitm'))

    def spi_i(m):
        m.spi_i = bytes(rng.getrandbits(8) for _ in range(8))

    def spi_r(m):
        m.spi_r = bytes(rng.getrandbits(8) for _ in range(8))

    def proposal_spi(m):
        m.get_payload(Payload.Type.SA).proposals[0].spi = bytes(rng.getrandbits(8) for _ in range(8))

    def raw_reserved_bits(data):          # sets a reserved flag bit and the critical bit of the first payload
        b = bytearray(data)
        b[19] |= 0x01
        b[29] |= 0x80
        return bytes(b)

    def raw_unknown_payload(data):        # appends an unknown non-critical payload to the chain
        m = Message.parse(data)
        body = bytes(m.to_bytes())
        # find the last payload's next-payload octet by walking the chain
        off, nxt_pos = 28, 16
        nxt = body[16]
        while nxt != 0:
            nxt_pos = off
            nxt = body[off]
            off += int.from_bytes(body[off + 2:off + 4], 'big')
        b = bytearray(body)
        b[nxt_pos] = 200
        b += bytes([0, 0, 0, 8, 1, 2, 3, 4])
        b[24:28] = len(b).to_bytes(4, 'big')
        return bytes(b)
    muts = [('nonce_flip', reparse(nonce_flip)), ('nonce_replace', reparse(nonce_replace)), ('ke_flip', reparse(ke_flip)),
            ('ke_group', reparse(ke_group)), ('proposal_downgrade', reparse(downgrade)),
            ('reorder_transforms', reparse(reorder_transforms)), ('reorder_payloads', reparse(reorder_payloads)),
            ('drop_vendor', reparse(drop_vendor)), ('add_vendor', reparse(add_vendor)), ('spi_i', reparse(spi_i)),
            ('spi_r', reparse(spi_r)), ('proposal_spi', reparse(proposal_spi)), ('reserved_bits', raw_reserved_bits),
            ('unknown_payload', raw_unknown_payload)]
    return muts


def mitm(ctx, seed, deep):
    fails = []
    rng = random.Random(seed)
    conf = {'encr': ('aes256', 'aes128'), 'child_encr': ('aes256', 'aes128')}
    for which in (0, 1):
        for name, f in mitm_mutations(rng):
            sent = {}

            def transform(k, data, which=which, f=f, sent=sent):
                # every IKE_SA_INIT request (which = 0) / response (which = 1) is rewritten, retries included
                if len(data) >= 28 and data[18] == 34 and bool(data[19] & 0x20) == bool(which):
                    sent['orig'] = data
                    try:
                        sent['new'] = f(data)
                    except Exception as ex:
                        sent['new'] = data
                        sent['err'] = repr(ex)
                    return sent['new']
                return data
            try:
                res = run_handshake(rng.getrandbits(32), conf, lambda a, b: None, transform=transform)
            except LoopEscape as ex:
                fails.append(Failure('property', 'loop:escaped-exception', repr(ex.exc), {'mitm': name, 'which': which,
                                                                                          'seed': seed}))
                continue
            ea, eb = established(res)
            ctx.case({'mitm': name, 'message': which, 'established': [ea, eb]}, nontrivial=True,
                     sample=len(ctx.samples) < 6)
            ctx.count(f'mitm:{name}:{int(ea)}{int(eb)}')
            if 'orig' not in sent:
                continue
            try:
                changed = semantic(sent['orig']) != semantic(sent['new'])
            except Exception:
                changed = True
            # the side that received the rewritten message (the deceived side) must neither establish nor install
            # anything when the meaning changed.  (The other side may complete: the initiator's AUTH covers its own
            # message and the responder's nonce only - RFC 7296 2.15 - the rewritten message is covered by the AUTH that
            # the deceived side checks.)
            deceived_done = (eb or res['b_newsa']) if which == 0 else (ea or res['a_newsa'])
            if changed and deceived_done:
                fails.append(Failure('property', 'auth:mitm-not-detected',
                                     f'IKE_SA_INIT {"request" if which == 0 else "response"} rewritten ({name}): the '
                                     f'receiving side completed: established A={ea} B={eb}, NEWSA A={res["a_newsa"]} '
                                     f'B={res["b_newsa"]}', {'mitm': name, 'which': which, 'seed': seed}))
            if ea and eb:
                # both established: they must agree on the exchange
                a, b = res['a_sa'][0], res['b_sa'][0]
                try:
                    same = (semantic(a.ike_sa_init_req_data) == semantic(b.ike_sa_init_req_data) and
                            semantic(a.ike_sa_init_res_data) == semantic(b.ike_sa_init_res_data))
                except Exception:
                    same = False
                if not same:
                    fails.append(Failure('property', 'auth:peers-disagree', f'{name}: both established but their views of '
                                         'IKE_SA_INIT differ', {'mitm': name, 'which': which, 'seed': seed}))
    return fails


def credentials(ctx, seed):
    fails = []
    for name, conf, edit, ok in situations():
        try:
            res = run_handshake(seed, conf, edit)
        except LoopEscape as ex:
            fails.append(Failure('property', 'loop:escaped-exception', repr(ex.exc), {'situation': name, 'seed': seed}))
            continue
        ea, eb = established(res)
        ctx.case({'situation': name, 'established': [ea, eb]}, nontrivial=True)
        ctx.count(f'cred:{name}:{int(ea)}{int(eb)}')
        if ok and not (ea and eb):
            fails.append(Failure('property', 'auth:honest-handshake-failed', f'{name}: states {res["a_states"]} '
                                 f'{res["b_states"]}', {'situation': name, 'seed': seed}))
        if not ok:
            deceived_b = name.endswith('_at_b') or name in ('id_ipv4_mismatch', 'method_psk_but_b_expects_rsa',
                                                           'method_rsa_but_b_expects_psk', 'rsa_wrong_key_a')
            if deceived_b and (eb or res['b_newsa']):
                fails.append(Failure('property', 'auth:accepted-bad-credential', f'{name}: the responder established / '
                                     f'installed (states {res["b_states"]}, NEWSA {res["b_newsa"]})',
                                     {'situation': name, 'seed': seed}))
            if not deceived_b and (ea or res['a_newsa']):
                fails.append(Failure('property', 'auth:accepted-bad-credential', f'{name}: the initiator established / '
                                     f'installed (states {res["a_states"]}, NEWSA {res["a_newsa"]})',
                                     {'situation': name, 'seed': seed}))
    return fails


def forgeries(ctx, seed):
    """A peer that holds NO credential of the configured identity presents guesses instead of a valid AUTH payload
    (the empty shared secret, a zero key, the identity as the key, an empty RSA signature, an undefined method
    carrying a PSK-style value): the victim - responder or initiator, configured for RSA only or for PSK only - must
    never establish nor install anything."""
    from ikesa import IkeSa
    from message import PayloadAUTH
    priv_a, pub_a, priv_b, pub_b = rsa_keys()
    fails = []

    def psk_with(key):
        return lambda sa, octets: sa._generate_psk_auth_payload(key, octets)
    guesses = [('psk-empty-key', psk_with(b'')), ('psk-zero-key', psk_with(b'\0')),
               ('psk-identity-as-key', psk_with(b'alice@openikev2')),
               ('rsa-empty-signature', lambda sa, octets: PayloadAUTH(PayloadAUTH.Method.RSA, b'')),
               ('rsa-prf-value-as-signature', lambda sa, octets: PayloadAUTH(PayloadAUTH.Method.RSA,
                                                                          sa.my_crypto.prf.prf(b'', octets))),
               ('method-3-with-psk-value', lambda sa, octets: PayloadAUTH(3, sa.my_crypto.prf.prf(
                   sa.my_crypto.prf.prf(b'', b'Key Pad for IKEv2'), octets)))]
    for victim in ('B', 'A'):
        for cred in ('rsa-only', 'psk-only'):
            def edit(ca, cb, victim=victim, cred=cred):
                vc = cb if victim == 'B' else ca
                peer_id = 'alice@openikev2' if victim == 'B' else 'bob@openikev2'
                peer_pub = pub_a if victim == 'B' else pub_b
                vc['conn']['peer_auth'] = ({'id': peer_id, 'pubkey': peer_pub} if cred == 'rsa-only'
                                           else {'id': peer_id, 'psk': 'a-secret-the-attacker-does-not-know'})
            for gname, guess in guesses:
                orig = IkeSa._generate_auth_payload

                def forged(self_, message_data, nonce, payload_id, sk_p, orig=orig, guess=guess, victim=victim):
                    attacker_is_initiator = (victim == 'B')
                    if bool(self_.is_initiator) == attacker_is_initiator:
                        octets = message_data + nonce + self_.my_crypto.prf.prf(sk_p, payload_id.to_bytes())
                        return guess(self_, octets)
                    return orig(self_, message_data, nonce, payload_id, sk_p)
                with mock.patch.object(IkeSa, '_generate_auth_payload', forged):
                    try:
                        res = run_handshake(seed, {}, edit)
                    except LoopEscape as ex:
                        fails.append(Failure('property', 'loop:escaped-exception', repr(ex.exc),
                                             {'kind': 'forgery', 'seed': seed}))
                        continue
                ea, eb = established(res)
                est, newsa = (eb, res['b_newsa']) if victim == 'B' else (ea, res['a_newsa'])
                ctx.case({'forgery': gname, 'victim': victim, 'configured': cred, 'established': bool(est)}, nontrivial=True)
                ctx.count(f'forgery:{gname}')
                if est or newsa:
                    fails.append(Failure('property', 'auth:accepted-bad-credential',
                                         f'{"responder" if victim == "B" else "initiator"} configured for {cred} accepted the '
                                         f'guess "{gname}" from a peer that holds no credential: established={bool(est)}, '
                                         f'IPsec SAs installed={newsa}',
                                         {'kind': 'forgery', 'seed': seed, 'victim': victim, 'configured': cred, 'guess': gname}))
    return fails


def preauth(ctx, seed):
    """A peer that completed IKE_SA_INIT (so keys exist) but never authenticates: whatever exchange it sends instead
    of IKE_AUTH, nothing may be installed and the IKE_SA must not become established - on either role."""
    from ikesa import IkeSa
    from message import Message, PayloadNONCE, PayloadDELETE, Proposal
    fails = []
    for variant in ('create_child', 'informational_empty', 'informational_delete_child', 'rekey_ike',
                    'response_create_child', 'response_informational'):
        with ConfPair(seed, {}, lambda a, b: None) as p:
            try:
                p.do(['acquire', 'A', 80])
                p.do(['deliver', 0])          # IKE_SA_INIT request -> B
                p.do(['deliver', 0])          # IKE_SA_INIT response -> A (A answers with IKE_AUTH)
                auth_req = p.sim.net.pop(0)   # the IKE_AUTH request is withheld
                sa = p.A.controller.ike_sas[0]
                sb = p.B.controller.ike_sas[0]
                with p.sim.as_current(p.A):
                    if variant in ('create_child', 'response_create_child'):
                        pl = sa._generate_child_sa_negotiation_req(sa.creating_child_sa) + [PayloadNONCE()]
                        exch = Message.Exchange.CREATE_CHILD_SA
                    elif variant in ('informational_empty', 'response_informational'):
                        pl, exch = [], Message.Exchange.INFORMATIONAL
                    elif variant == 'informational_delete_child':
                        pl, exch = [PayloadDELETE(Proposal.Protocol.ESP, [b'abcd'])], Message.Exchange.INFORMATIONAL
                    else:
                        new = IkeSa(True, b'', sa.configuration, sa.my_addr, sa.peer_addr)
                        pl, exch = new._generate_ike_sa_negotiation_request(), Message.Exchange.CREATE_CHILD_SA
                    if variant.startswith('response_'):
                        # sent by the unauthenticated RESPONDER to the initiator waiting in AUTH_REQ_SENT
                        with p.sim.as_current(p.B):
                            m = sb.generate_response(exch, pl)
                            m.message_id = sa.my_msg_id
                        target, src, dst = p.A, '192.168.0.2', '192.168.0.1'
                    else:
                        m = sa.generate_request(exch, pl)
                        target, src, dst = p.B, '192.168.0.1', '192.168.0.2'
                    data = bytes(m.to_bytes())
                n0 = sum(1 for r in target.kernel.requests if r[2] and r[2][0] == 'NEWSA')
                target.datagram(dst, src, data)
                ctx.case({'preauth': variant}, nontrivial=True)
                ctx.count('preauth:' + variant)
                n1 = sum(1 for r in target.kernel.requests if r[2] and r[2][0] == 'NEWSA')
                states = [int(x.state) for x in target.controller.ike_sas]
                if n1 != n0 or any(10 <= st < 21 for st in states):
                    fails.append(Failure('property', 'auth:effect-before-authentication',
                                         f'{variant} sent instead of IKE_AUTH by a peer that never authenticated: '
                                         f'{n1 - n0} NEWSA, IKE_SA states {states}', {'preauth': variant, 'seed': seed}))
            except LoopEscape as ex:
                fails.append(Failure('property', 'loop:escaped-exception', repr(ex.exc), {'preauth': variant,
                                                                                          'seed': seed}))
    return fails


AUTH_DEVIATIONS = ['id_data', 'id_type', 'id_case', 'auth_garbage', 'auth_method', 'drop_auth', 'drop_id', 'empty']


def deviant_auth(ctx, seed, only=None):
    """A peer that completed IKE_SA_INIT honestly (it holds the SK_* keys) but whose IKE_AUTH message carries another
    identity, an AUTH value of zeros, the other AUTH method, or no AUTH / ID payload at all: the side that receives
    it never reaches ESTABLISHED and installs nothing, in both roles, under PSK and RSA authentication."""
    from sim.testkeys import RSA
    fails = []
    for conf_name, conf in (('psk', {}), ('rsa', {'rsa': list(RSA)})):
        for side, is_req in (('B', False), ('A', True)):
            honest = 'A' if side == 'B' else 'B'
            for name in AUTH_DEVIATIONS:
                label = f'{conf_name}/{side}/{name}'
                if only and only != label:
                    continue
                rep = {'deviant_auth': label, 'seed': seed}
                with Pair(seed=seed, **conf) as p:
                    try:
                        p.run([['mutate', side, name, 'auth', is_req]] + [list(a) for a in HANDSHAKE] +
                              [['deliver', 0]] * 4)
                    except LoopEscape as ex:
                        fails.append(Failure('property', 'loop:escaped-exception', f'{label}: {ex.exc!r}', rep))
                        continue
                    ep = p.ep(honest)
                    ctx.case({'deviant_auth': label}, nontrivial=True, sample=False)
                    if not p.dev.applied:
                        fails.append(Failure('property', 'auth:harness', f'{label}: the deviation was never applied', rep))
                    est = [int(x.state) for x in ep.controller.ike_sas if int(x.state) >= 10 and int(x.state) != 21]
                    if est or ep.kernel.sad:
                        fails.append(Failure('property', 'auth:established-without-valid-auth',
                                             f'{label}: the {honest} side received an IKE_AUTH message with {name} from a '
                                             f'peer holding the keys and ended with IKE_SA states {est} and '
                                             f'{len(ep.kernel.sad)} kernel SA(s)', rep))
    return fails


def oracle(ctx, deep):
    fails = []
    fails += preauth(ctx, ctx.rng.getrandbits(32))
    fails += deviant_auth(ctx, ctx.rng.getrandbits(32))
    for prf_name in ('sha256', 'sha1', 'sha512'):
        fails += recompute_auth(ctx, ctx.rng.getrandbits(32), prf_name, False)
    fails += recompute_auth(ctx, ctx.rng.getrandbits(32), 'sha256', True)
    fails += credentials(ctx, ctx.rng.getrandbits(32))
    fails += forgeries(ctx, ctx.rng.getrandbits(32))
    for _ in range(1 if not deep else 6):
        fails += mitm(ctx, ctx.rng.getrandbits(32), deep)
        if fails:
            break
    return fails


def replay(ctx, obj):
    if 'recompute' in obj:
        return recompute_auth(ctx, obj['seed'], obj['recompute'], obj['rsa'])
    if 'situation' in obj:
        return [f for f in credentials(ctx, obj['seed']) if f.replay.get('situation') == obj['situation']]
    if obj.get('kind') == 'forgery':
        return [f for f in forgeries(ctx, obj['seed']) if f.replay.get('guess') == obj.get('guess')]
    if 'preauth' in obj:
        return [f for f in preauth(ctx, obj['seed']) if f.replay.get('preauth') == obj['preauth']]
    if 'mitm' in obj:
        return [f for f in mitm(ctx, obj['seed'], True) if f.replay.get('mitm') == obj['mitm']]
    if 'deviant_auth' in obj:
        return deviant_auth(ctx, obj['seed'], only=obj['deviant_auth'])
    return []


CHECK = core.Check(
    'C02', sc.CLUSTER, ['Props/C02.v', 'Props/C02H.v'], translate=sc.translate, correspond=correspond, oracle=oracle, replay=replay,
    deps=('lib',),
    rule='13 credential / identity / method situations (PSK and RSA, matching and mismatching at either side) run '
         'through the real handshake with a toy PRF patched into crypto.Prf.prf, each IKE_AUTH handler invocation is one '
         'case of the gate correspondence; the oracle recomputes the wire AUTH payloads with hmac/hashlib/cryptography for '
         'the 3 PRFs and RSA, runs the situations with the real PRF, and rewrites either IKE_SA_INIT message in flight in '
         '14 ways (nonce/KE/SPI substitution, proposal downgrade and reordering, payload insertion/removal/reordering, '
         'reserved and critical bits, unknown payload); every case is non-trivial',
    trusted_base=sc.TRUSTED + hdl.TRUSTED + ['the PRF and RSA verification are Section variables of the theorems; unforgeability is '
                               'assumed, not proved: the theorems state the exact acceptance condition'],
    assumptions=['"meaning" of an IKE_SA_INIT message = SPIs, proposals (protocol and transforms), KE group and data, '
                 'nonce; the responder authenticates the re-serialisation of what it parsed (finding F10, observation): '
                 'changes that do not survive parsing (unknown non-critical payload, reserved/critical bits) are not '
                 'detected and do not change the meaning'],
)
