"""C05 - wire encoding matches RFC 7296 section 3 and round-trips.

This module also hosts what the three codec checks (C05, C06, C07) share: the fail-closed translator
message.py -> coq/codec/Gen/MessageTables.v, the structured message generator, the malformed stream, the toy
crypto context and the tree canonicalisation used by the correspondence runs.
"""
import ast
import os
import re

from vlib import core, pyast
from vlib.core import Failure, TranslateError

CLUSTER = 'codec'
REQ = 'From Codec Require Import Run.'

# =============================================================================================
# 1. translator  message.py -> Gen/MessageTables.v
# =============================================================================================

ENUMS = ['Payload.Type', 'Transform.Type', 'Transform.EncrId', 'Transform.PrfId', 'Transform.DhId',
         'Transform.IntegId', 'Transform.EsnId', 'Proposal.Protocol', 'PayloadNOTIFY.Type', 'PayloadID.Type',
         'PayloadAUTH.Method', 'TrafficSelector.Type', 'TrafficSelector.IpProtocol', 'Message.Exchange']

# every struct call of the modelled functions, in source order (fail closed if this changes)
STRUCT_CALLS = {
    'PayloadKE.parse': ['unpack_from'],
    'PayloadKE.to_bytes': ['pack'],
    'Transform.parse': ['unpack_from', 'unpack_from'],
    'Transform.to_bytes': ['pack', 'pack'],
    'Proposal.parse': ['unpack_from', 'unpack_from'],
    'Proposal.to_bytes': ['pack', 'pack'],
    'PayloadSA.parse': ['unpack_from'],
    'PayloadSA.to_bytes': ['pack'],
    'PayloadNOTIFY.parse': ['unpack_from'],
    'PayloadNOTIFY.to_bytes': ['pack'],
    'PayloadID.parse': ['unpack_from'],
    'PayloadID.to_bytes': ['pack'],
    'PayloadAUTH.parse': ['unpack_from'],
    'PayloadAUTH.to_bytes': ['pack'],
    'TrafficSelector.parse': ['unpack_from', 'unpack_from'],
    'TrafficSelector.to_bytes': ['pack'],
    'PayloadTS.parse': ['unpack_from', 'unpack_from'],
    'PayloadTS.to_bytes': ['pack'],
    'PayloadSK.generate': ['pack'],
    'PayloadDELETE.parse': ['unpack_from'],
    'PayloadDELETE.to_bytes': ['pack'],
    'Message._parse_payloads': ['unpack_from'],
    'Message.parse': ['unpack_from'],
    'Message._payloads_to_bytes': ['pack'],
    'Message.to_bytes': ['pack', 'pack_into', 'pack_into'],
}
# functions with struct calls that are not part of the codec model
STRUCT_ELSEWHERE = {'PayloadNOTIFY.from_exception': ['pack']}

FMT_UNITS = {'B': ('FU', 1), 'H': ('FU', 2), 'L': ('FU', 4), 'I': ('FU', 4), 'Q': ('FU', 8), 's': ('FS', None)}


def parse_fmt(src, node, text):
    """'>8s8s4B2L' -> ['FS 8','FS 8','FU 1',...]; '{0}' stands for the run-time count (Gallina variable n)."""
    if not text.startswith('>'):
        src.fail(node, f'struct format {text!r} is not big-endian (">")')
    out = []
    pos = 1
    tok = re.compile(r'(\d+|\{0\})?([A-Za-z])')
    while pos < len(text):
        m = tok.match(text, pos)
        if not m:
            src.fail(node, f'struct format {text!r} outside the subset')
        cnt, letter = m.group(1), m.group(2)
        if letter not in FMT_UNITS:
            src.fail(node, f'struct format letter {letter!r} outside the subset')
        kind, width = FMT_UNITS[letter]
        if kind == 'FS':
            w = '1' if cnt is None else ('n' if cnt == '{0}' else cnt)
            out.append(f'FS {w}')
        else:
            if cnt == '{0}':
                src.fail(node, 'run-time repeat count on an integer field')
            out += [f'FU {width}'] * (int(cnt) if cnt else 1)
        pos = m.end()
    return out


def fmt_of_call(src, call):
    """Format of a pack/unpack_from/pack_into call: (fields, dynamic: bool)."""
    a = call.args[0]
    if isinstance(a, ast.Constant) and isinstance(a.value, str):
        return parse_fmt(src, call, a.value), False
    if isinstance(a, ast.Call) and isinstance(a.func, ast.Attribute) and a.func.attr == 'format' \
            and isinstance(a.func.value, ast.Constant) and isinstance(a.func.value.value, str) and len(a.args) == 1:
        return parse_fmt(src, call, a.func.value.value), True
    if isinstance(a, ast.JoinedStr):
        text = ''
        nfv = 0
        for v in a.values:
            if isinstance(v, ast.Constant):
                text += v.value
            elif isinstance(v, ast.FormattedValue):
                text += '{0}'
                nfv += 1
        if nfv != 1:
            src.fail(call, 'f-string format with more than one hole')
        return parse_fmt(src, call, text), True
    src.fail(call, 'struct format is not a literal')


def struct_calls(fn):
    calls = [n for n in ast.walk(fn) if isinstance(n, ast.Call) and isinstance(n.func, ast.Name)
             and n.func.id in ('pack', 'unpack_from', 'pack_into', 'unpack')]
    calls.sort(key=lambda n: (n.lineno, n.col_offset))
    return calls


class ExprN:
    """Python integer/boolean expression -> Gallina term over N / bool.  env: ast.unparse text -> (term, type)."""

    BIN = {ast.LShift: 'N.shiftl', ast.RShift: 'N.shiftr', ast.BitOr: 'N.lor', ast.BitAnd: 'N.land',
           ast.Add: 'N.add', ast.Sub: 'N.sub', ast.Mult: 'N.mul', ast.Mod: 'N.modulo', ast.FloorDiv: 'N.div'}

    def __init__(self, src, env):
        self.src = src
        self.env = env

    def go(self, n):
        src = self.src
        key = ast.unparse(n)
        if key in self.env:
            return self.env[key]
        if isinstance(n, ast.Constant):
            if isinstance(n.value, bool):
                return ('true' if n.value else 'false'), 'bool'
            if isinstance(n.value, int) and n.value >= 0:
                return str(n.value), 'N'
            src.fail(n, 'constant outside the subset')
        if isinstance(n, ast.BinOp):
            a, b = self.go(n.left), self.go(n.right)
            if a[1] != 'N' or b[1] != 'N' or type(n.op) not in self.BIN:
                src.fail(n, f'arithmetic outside the subset: {key}')
            return f'({self.BIN[type(n.op)]} {a[0]} {b[0]})', 'N'
        if isinstance(n, ast.Compare):
            if len(n.ops) != 1:
                src.fail(n, 'chained comparison')
            a, b = self.go(n.left), self.go(n.comparators[0])
            if a[1] != 'N' or b[1] != 'N':
                src.fail(n, f'comparison of non-integers: {key}')
            op = type(n.ops[0])
            tab = {ast.Eq: f'(N.eqb {a[0]} {b[0]})', ast.NotEq: f'(negb (N.eqb {a[0]} {b[0]}))',
                   ast.Lt: f'(N.ltb {a[0]} {b[0]})', ast.LtE: f'(N.leb {a[0]} {b[0]})',
                   ast.Gt: f'(N.ltb {b[0]} {a[0]})', ast.GtE: f'(N.leb {b[0]} {a[0]})'}
            if op not in tab:
                src.fail(n, 'comparison operator outside the subset')
            return tab[op], 'bool'
        if isinstance(n, ast.BoolOp):
            parts = [self.go(v) for v in n.values]
            if any(p[1] != 'bool' for p in parts):
                src.fail(n, 'and/or on non-booleans')
            op = 'andb' if isinstance(n.op, ast.And) else 'orb'
            t = parts[-1][0]
            for p in reversed(parts[:-1]):
                t = f'({op} {p[0]} {t})'
            return t, 'bool'
        if isinstance(n, ast.UnaryOp) and isinstance(n.op, ast.Not):
            a = self.go(n.operand)
            if a[1] != 'bool':
                src.fail(n, 'not on a non-boolean')
            return f'(negb {a[0]})', 'bool'
        if isinstance(n, ast.IfExp):
            c, t, e = self.go(n.test), self.go(n.body), self.go(n.orelse)
            if c[1] != 'bool' or t[1] != e[1]:
                src.fail(n, 'ill-typed conditional expression')
            return f'(if {c[0]} then {t[0]} else {e[0]})', t[1]
        if isinstance(n, ast.Call) and isinstance(n.func, ast.Name) and n.func.id == 'bool' and len(n.args) == 1:
            a = self.go(n.args[0])
            if a[1] == 'bool':
                return a
            return f'(negb (N.eqb {a[0]} 0))', 'bool'
        src.fail(n, f'expression outside the subset: {key}')

    def term(self, n, want):
        t, ty = self.go(n)
        if ty != want:
            self.src.fail(n, f'expression {ast.unparse(n)} has type {ty}, expected {want}')
        return t


def find_stmt(src, fn, pred, what):
    hits = [n for n in ast.walk(fn) if pred(n)]
    if len(hits) != 1:
        src.fail(fn, f'{fn.name}: expected exactly one {what}, found {len(hits)}')
    return hits[0]


def translate(ctx):
    src = pyast.Src(os.path.join(core.REPO, 'message.py'))
    L = []
    emit = L.append
    emit('(* GENERATED from /repo/message.py by py/props/c05.py translate() - do not edit *)')
    emit('From Coq Require Import List NArith String Bool.')
    emit('Import ListNotations.')
    emit('Open Scope N_scope.')
    emit('')
    emit('(** struct format fields: big-endian unsigned integer of w bytes / byte string of w bytes *)')
    emit('Inductive fld : Set := FU (w : nat) | FS (w : nat).')
    emit('')
    # ---- enums -------------------------------------------------------------------------------
    enum_env = {}
    for dotted in ENUMS:
        members = src.enum(dotted)
        if not members:
            raise TranslateError(f'message.py: enum {dotted} is empty')
        base = dotted.replace('.', '_')
        emit(f'(* enum {dotted} *)')
        for name, val in members:
            if not isinstance(val, int) or isinstance(val, bool) or val < 0:
                raise TranslateError(f'message.py: enum member {dotted}.{name} is not a natural number')
            emit(f'Definition {base}_{pyast.coq_ident(name)} : N := {val}.')
            enum_env[f'{dotted}.{name}'] = (f'{base}_{pyast.coq_ident(name)}', 'N')
        emit(f'Definition {base}_names : list (N * string) :=')
        emit('  [' + '; '.join(f'({v}, "{n}"%string)' for n, v in members) + '].')
        emit(f'Definition {base}_cls : string := "{dotted.split(".")[-1]}"%string.')
        emit('')
    # Transform._transform_id_enums : type -> id enum (default EncrId in Transform.__init__)
    node = src.assign_value('Transform._transform_id_enums')
    if not isinstance(node, ast.Dict):
        src.fail(node, 'Transform._transform_id_enums is not a dict literal')
    rows = []
    for k, v in zip(node.keys, node.values):
        kd, vd = pyast.dotted_name(k), pyast.dotted_name(v)
        if kd is None or vd is None or f'Transform.{kd}' not in enum_env or f'Transform.{vd}' not in ENUMS:
            src.fail(node, 'Transform._transform_id_enums entry outside the subset')
        rows.append(f'({enum_env["Transform." + kd][0]}, Transform_{vd}_names)')
    init = src.func('Transform.__init__')
    if 'self._transform_id_enums.get(type, self.EncrId)(id)' not in src.segment(init):
        src.fail(init, 'Transform.__init__: id enum selection changed')
    emit('Definition transform_id_enums : list (N * list (N * string)) :=')
    emit('  [' + '; '.join(rows) + '].')
    emit('Definition transform_id_enum_default : list (N * string) := Transform_EncrId_names.')
    emit('')
    # ---- type_2_payload ----------------------------------------------------------------------
    node = src.assign_value('Message.type_2_payload')
    if not isinstance(node, ast.Dict):
        src.fail(node, 'Message.type_2_payload is not a dict literal')
    t2p = []
    for k, v in zip(node.keys, node.values):
        kd, vd = pyast.dotted_name(k), pyast.dotted_name(v)
        if kd not in enum_env or not kd.startswith('Payload.Type.') or vd is None:
            src.fail(node, 'Message.type_2_payload entry outside the subset')
        t2p.append((kd, vd))
    classes = [c for _, c in t2p]
    if len(set(classes)) != len(classes) or len(set(k for k, _ in t2p)) != len(t2p):
        src.fail(node, 'Message.type_2_payload has duplicate keys or classes')
    emit('(* Message.type_2_payload: the payload classes and the dispatch table *)')
    emit('Inductive pclass : Set := ' + ' | '.join(classes) + '.')
    emit('Definition type_2_payload : list (N * pclass) :=')
    emit('  [' + '; '.join(f'({enum_env[k][0]}, {c})' for k, c in t2p) + '].')
    # class attribute `type` of each class (inherited ones are not allowed here: each class states its own)
    emit('Definition class_type (c : pclass) : N :=')
    emit('  match c with')
    for c in classes:
        v = src.assign_value(f'{c}.type')
        d = pyast.dotted_name(v)
        if d not in enum_env or not d.startswith('Payload.Type.'):
            src.fail(v, f'{c}.type is not a Payload.Type member')
        emit(f'  | {c} => {enum_env[d][0]}')
    emit('  end.')
    # parse is inherited for the ID and TS families: record the base class providing it
    for c in classes:
        cls = src.cls(c)
        has_parse = any(isinstance(n, ast.FunctionDef) and n.name == 'parse' for n in cls.body)
        bases = [pyast.dotted_name(b) for b in cls.bases]
        if not has_parse:
            if len(bases) != 1 or bases[0] not in ('PayloadID', 'PayloadTS'):
                src.fail(cls, f'{c} inherits parse from an unexpected class {bases}')
            if len([n for n in cls.body if not isinstance(n, (ast.Assign, ast.Expr, ast.Pass))]) != 0:
                src.fail(cls, f'{c} is expected to define only its type')
        elif bases != ['Payload']:
            src.fail(cls, f'{c} has unexpected base classes {bases}')
    emit('')
    # ---- struct formats ----------------------------------------------------------------------
    emit('(* struct format strings, per function in source order *)')
    all_funcs = {}
    for cls in [n for n in src.tree.body if isinstance(n, ast.ClassDef)]:
        for fn in [n for n in cls.body if isinstance(n, ast.FunctionDef)]:
            all_funcs[f'{cls.name}.{fn.name}'] = fn
    for name, fn in all_funcs.items():
        kinds = [c.func.id for c in struct_calls(fn)]
        want = STRUCT_CALLS.get(name, STRUCT_ELSEWHERE.get(name, []))
        if kinds != want:
            src.fail(fn, f'{name}: struct calls {kinds} differ from the modelled ones {want}')
    for name in STRUCT_CALLS:
        if name not in all_funcs:
            raise TranslateError(f'message.py: function {name} not found')
    call_of = {}
    for name in STRUCT_CALLS:
        for k, call in enumerate(struct_calls(all_funcs[name])):
            fields, dyn = fmt_of_call(src, call)
            ident = f'fmt_{name.replace(".", "_").replace("__", "_")}_{k}'
            call_of[(name, k)] = call
            if dyn:
                emit(f'Definition {ident} (n : nat) : list fld := [' + '; '.join(fields) + '].')
            else:
                emit(f'Definition {ident} : list fld := [' + '; '.join(fields) + '].')
    emit('')

    # ---- expressions -------------------------------------------------------------------------
    def ex(env):
        e = dict(enum_env)
        e.update(env)
        return ExprN(src, e)

    def N(v):
        return (v, 'N')

    emit('(* integer expressions of the codec *)')
    # Transform.parse: the KEYLEN test
    fn = all_funcs['Transform.parse']
    iff = find_stmt(src, fn, lambda n: isinstance(n, ast.If), 'if statement')
    emit('Definition transform_attr_is_keylen (attr_type : N) : bool := '
         + ex({'attr_type': N('attr_type')}).term(iff.test, 'bool') + '.')
    if 'return Transform(type, id, attr_value)' not in src.segment(iff):
        src.fail(iff, 'Transform.parse: KEYLEN branch changed')
    # Transform.to_bytes
    c = call_of[('Transform.to_bytes', 1)]
    if len(c.args) != 3 or ast.unparse(c.args[2]) != 'self.keylen':
        src.fail(c, 'Transform.to_bytes: attribute pack changed')
    emit('Definition transform_keylen_attr : N := ' + ex({}).term(c.args[1], 'N') + '.')
    c = call_of[('Transform.to_bytes', 0)]
    if [ast.unparse(a) for a in c.args[1:]] != ['self.type', '0', 'self.id']:
        src.fail(c, 'Transform.to_bytes: header pack changed')
    # Proposal.to_bytes
    c = call_of[('Proposal.to_bytes', 0)]
    if [ast.unparse(a) for a in c.args[1:]] != ['self.num', 'self.protocol_id', 'len(self.spi)',
                                                'len(self.transforms)']:
        src.fail(c, 'Proposal.to_bytes: header pack changed')
    c = call_of[('Proposal.to_bytes', 1)]
    if len(c.args) != 4:
        src.fail(c, 'Proposal.to_bytes: transform header pack changed')
    e = ex({'index': N('index'), 'len(self.transforms)': N('count'), 'len(transform_data)': N('len')})
    emit('Definition transform_more (index count : N) : N := ' + e.term(c.args[1], 'N') + '.')
    emit('Definition transform_reserved : N := ' + e.term(c.args[2], 'N') + '.')
    emit('Definition transform_length_field (len : N) : N := ' + e.term(c.args[3], 'N') + '.')
    # PayloadSA.to_bytes
    c = call_of[('PayloadSA.to_bytes', 0)]
    if len(c.args) != 4:
        src.fail(c, 'PayloadSA.to_bytes: proposal header pack changed')
    e = ex({'index': N('index'), 'len(self.proposals)': N('count'), 'len(proposal_data)': N('len')})
    emit('Definition proposal_more (index count : N) : N := ' + e.term(c.args[1], 'N') + '.')
    emit('Definition proposal_reserved : N := ' + e.term(c.args[2], 'N') + '.')
    emit('Definition proposal_length_field (len : N) : N := ' + e.term(c.args[3], 'N') + '.')
    # simple payload packs: argument shapes
    for name, want in (('PayloadKE.to_bytes', ['self.dh_group', '0']),
                       ('PayloadNOTIFY.to_bytes', ['self.protocol_id', 'len(self.spi)', 'self.notification_type']),
                       ('PayloadID.to_bytes', ['self.id_type', '0', '0']),
                       ('PayloadAUTH.to_bytes', ['self.method', '0', '0']),
                       ('PayloadTS.to_bytes', ['len(self.traffic_selectors)', '0', '0']),
                       ('PayloadDELETE.to_bytes', ['self.protocol_id', 'len(self.spis[0]) if self.spis else 0',
                                                   'len(self.spis)'])):
        c = call_of[(name, 0)]
        if [ast.unparse(a) for a in c.args[1:]] != want:
            src.fail(c, f'{name}: pack arguments changed')
    # PayloadNONCE bounds
    fn = all_funcs['PayloadNONCE.__init__']
    iff = find_stmt(src, fn, lambda n: isinstance(n, ast.If) and 'len(nonce)' in ast.unparse(n.test), 'length test')
    emit('Definition nonce_length_bad (len : N) : bool := ' + ex({'len(nonce)': N('len')}).term(iff.test, 'bool') + '.')
    if not (len(iff.body) == 1 and isinstance(iff.body[0], ast.Raise) and 'InvalidSyntax' in ast.unparse(iff.body[0])):
        src.fail(iff, 'PayloadNONCE.__init__: length test no longer raises InvalidSyntax')
    # TrafficSelector
    fn = all_funcs['TrafficSelector.parse']
    asg = find_stmt(src, fn, lambda n: isinstance(n, ast.Assign) and ast.unparse(n.targets[0]) == 'addr_len',
                    'addr_len assignment')
    emit('Definition ts_addr_len_parse (ts_type : N) : N := ' + ex({'ts_type': N('ts_type')}).term(asg.value, 'N') + '.')
    c = call_of[('TrafficSelector.parse', 1)]
    if len(c.args) != 3 or ast.unparse(c.args[1]) != 'data':
        src.fail(c, 'TrafficSelector.parse: address unpack changed')
    emit('Definition ts_addr_offset : nat := (' + ex({}).term(c.args[2], 'N') + ')%nat.')
    fn = all_funcs['TrafficSelector.to_bytes']
    asg = find_stmt(src, fn, lambda n: isinstance(n, ast.Assign) and ast.unparse(n.targets[0]) == 'addr_len',
                    'addr_len assignment')
    emit('Definition ts_addr_len_to_bytes (ts_type : N) : N := '
         + ex({'self.ts_type': N('ts_type')}).term(asg.value, 'N') + '.')
    c = call_of[('TrafficSelector.to_bytes', 0)]
    if [ast.unparse(a) for a in c.args[1:3]] + [ast.unparse(a) for a in c.args[4:]] != \
            ['self.ts_type', 'self.ip_proto', 'self.start_port', 'self.end_port', 'self.start_addr.packed',
             'self.end_addr.packed']:
        src.fail(c, 'TrafficSelector.to_bytes: pack arguments changed')
    emit('Definition ts_length_field (addr_len : N) : N := ' + ex({'addr_len': N('addr_len')}).term(c.args[3], 'N') + '.')
    # PayloadSK.generate
    fn = all_funcs['PayloadSK.generate']
    asg = find_stmt(src, fn, lambda n: isinstance(n, ast.Assign) and ast.unparse(n.targets[0]) == 'padlen',
                    'padlen assignment')
    emit('Definition sk_padlen (block_size len : N) : N := '
         + ex({'crypto.cipher.block_size': N('block_size'), 'len(cleartext)': N('len')}).term(asg.value, 'N') + '.')
    seg = src.segment(fn)
    for needle in ("cleartext += b'\\x00' * padlen + pack('>B', padlen)",
                   'encrypted = crypto.cipher.encrypt(crypto.sk_e, bytes(iv), bytes(cleartext))',
                   "return PayloadSK(iv + encrypted + b'\\x00' * crypto.integrity.hash_size)"):
        if needle not in seg:
            src.fail(fn, f'PayloadSK.generate changed: {needle!r} not found')
    # Message._parse_payloads
    fn = all_funcs['Message._parse_payloads']
    asg = find_stmt(src, fn, lambda n: isinstance(n, ast.Assign) and ast.unparse(n.targets[0]) == 'critical'
                    and isinstance(n.value, ast.Call), 'critical assignment')
    emit('Definition payload_critical_of (critical : N) : bool := '
         + ex({'critical': N('critical')}).term(asg.value, 'bool') + '.')
    iff = find_stmt(src, fn, lambda n: isinstance(n, ast.If) and ast.unparse(n.test).startswith('length '),
                    'length guard')
    emit('Definition payload_length_bad (length : N) : bool := ' + ex({'length': N('length')}).term(iff.test, 'bool') + '.')
    if not (len(iff.body) == 1 and isinstance(iff.body[0], ast.Raise) and 'InvalidSyntax' in ast.unparse(iff.body[0])):
        src.fail(iff, '_parse_payloads: length guard no longer raises InvalidSyntax')
    wh = find_stmt(src, fn, lambda n: isinstance(n, ast.While), 'while loop')
    if ast.unparse(wh.test) != 'payload_type != Payload.Type.NONE':
        src.fail(wh, '_parse_payloads: loop condition changed')
    # Message._payloads_to_bytes
    c = call_of[('Message._payloads_to_bytes', 0)]
    if len(c.args) != 4 or ast.unparse(c.args[1]) != 'next_payload_type':
        src.fail(c, '_payloads_to_bytes: generic header pack changed')
    e = ex({'len(payload_data)': N('len')})
    emit('Definition payload_critical_byte : N := ' + e.term(c.args[2], 'N') + '.')
    emit('Definition payload_length_field (len : N) : N := ' + e.term(c.args[3], 'N') + '.')
    # Message.parse: the keyword arguments of the constructor call
    fn = all_funcs['Message.parse']
    ctor = find_stmt(src, fn, lambda n: isinstance(n, ast.Call) and pyast.dotted_name(n.func) == 'Message',
                     'Message(...) call')
    kws = {k.arg: k.value for k in ctor.keywords}
    want_idx = {'spi_i': 0, 'spi_r': 1, 'major': 3, 'minor': 3, 'exchange_type': 4, 'is_response': 5,
                'can_use_higher_version': 5, 'is_initiator': 5, 'message_id': 6}
    for k, idx in want_idx.items():
        if k not in kws:
            src.fail(ctor, f'Message.parse: keyword {k} missing')
        subs = [n for n in ast.walk(kws[k]) if isinstance(n, ast.Subscript)]
        if len(subs) != 1 or ast.unparse(subs[0]) != f'header[{idx}]':
            src.fail(ctor, f'Message.parse: {k} is no longer read from header[{idx}]')
    if ast.unparse(kws.get('payloads')) != '[]' or ast.unparse(kws.get('encrypted_payloads')) != '[]' \
            or ast.unparse(kws.get('crypto')) != 'crypto' or len(kws) != 12:
        src.fail(ctor, 'Message.parse: constructor keywords changed')
    for k, ty in (('major', 'N'), ('minor', 'N'), ('exchange_type', 'N'), ('is_response', 'bool'),
                  ('can_use_higher_version', 'bool'), ('is_initiator', 'bool'), ('message_id', 'N')):
        idx = want_idx[k]
        emit(f'Definition hdr_parse_{k} (h : N) : {ty} := ' + ex({f'header[{idx}]': N('h')}).term(kws[k], ty) + '.')
    seg = src.segment(fn)
    m = re.search(r'cls\._parse_payloads\(data\[(\d+):\], Payload\.Type\(header\[2\]\)\)', seg)
    if not m:
        src.fail(fn, 'Message.parse: payload area / first payload type changed')
    emit(f'Definition hdr_size : nat := {int(m.group(1))}%nat.')
    for needle in ('if message.payloads and message.payloads[-1].type == Payload.Type.SK and crypto is not None:',
                   'checksum = crypto.integrity.compute(crypto.sk_a, data[:-crypto.integrity.hash_size])',
                   'if checksum != data[-crypto.integrity.hash_size:]:',
                   'message.iv, decrypted_data = payload_sk.decrypt(crypto)',
                   'cls._parse_payloads(decrypted_data, payload_sk.next_payload_type)'):
        if needle not in seg:
            src.fail(fn, f'Message.parse changed: {needle!r} not found')
    # Message.to_bytes
    c = call_of[('Message.to_bytes', 0)]
    args = [ast.unparse(a) for a in c.args[1:]]
    if len(args) != 8 or args[0:3] != ['self.spi_i', 'self.spi_r', 'first_payload_type'] \
            or args[4] != 'self.exchange_type' or args[6] != 'self.message_id':
        src.fail(c, 'Message.to_bytes: header pack arguments changed')
    e = ex({'self.major': N('major'), 'self.minor': N('minor'),
            'self.is_response': N('(N.b2n is_response)'),
            'self.can_use_higher_version': N('(N.b2n can_use_higher_version)'),
            'self.is_initiator': N('(N.b2n is_initiator)')})
    emit('Definition hdr_version_byte (major minor : N) : N := ' + e.term(c.args[4], 'N') + '.')
    emit('Definition hdr_flags_byte (is_response can_use_higher_version is_initiator : bool) : N := '
         + e.term(c.args[6], 'N') + '.')
    emit('Definition hdr_initial_length : N := ' + e.term(c.args[8], 'N') + '.')
    c = call_of[('Message.to_bytes', 1)]
    if len(c.args) != 4 or ast.unparse(c.args[1]) != 'data' or ast.unparse(c.args[3]) != 'len(data)':
        src.fail(c, 'Message.to_bytes: length patch changed')
    emit('Definition hdr_length_offset : nat := (' + ex({}).term(c.args[2], 'N') + ')%nat.')
    c = call_of[('Message.to_bytes', 2)]
    if [ast.unparse(a) for a in c.args[1:]] != ['data', 'len(data) - len(checksum)', 'checksum']:
        src.fail(c, 'Message.to_bytes: checksum patch changed')
    seg = src.segment(all_funcs['Message.to_bytes'])
    for needle in ('checksum = self.crypto.integrity.compute(self.crypto.sk_a, data[:-self.crypto.integrity.hash_size])',
                   'payload_sk = PayloadSK.generate(cleartext, self.iv, self.crypto)',
                   'cleartext = self._payloads_to_bytes(self.encrypted_payloads)'):
        if needle not in seg:
            src.fail(all_funcs['Message.to_bytes'], f'Message.to_bytes changed: {needle!r} not found')
    # PayloadSK.decrypt guards
    seg = src.segment(all_funcs['PayloadSK.decrypt'])
    for needle in ('iv = self.ciphertext[:block_size]',
                   'ciphertext = self.ciphertext[block_size:-crypto.integrity.hash_size]',
                   'if len(iv) != block_size or len(ciphertext) == 0 or len(ciphertext) % block_size != 0:',
                   'padlen = decrypted[-1]', 'if padlen + 1 > len(decrypted):',
                   'return iv, decrypted[:-1 - padlen]'):
        if needle not in seg:
            src.fail(all_funcs['PayloadSK.decrypt'], f'PayloadSK.decrypt changed: {needle!r} not found')
    emit('')
    pyast.write_if_changed(os.path.join(core.cluster_dir(CLUSTER), 'Gen', 'MessageTables.v'), '\n'.join(L) + '\n')


# =============================================================================================
# 2. toy primitives (the same functions as coq/codec/Toy.v) and duck-typed crypto contexts
# =============================================================================================

def toy_stream(k, iv, i):
    a = k[i % len(k)] if k else 0
    b = iv[i % len(iv)] if iv else 0
    return (a + b + i) % 256


def toy_enc(k, iv, p):
    return bytes((b + toy_stream(k, iv, i)) % 256 for i, b in enumerate(p))


def toy_dec(k, iv, c):
    return bytes((b + 256 - toy_stream(k, iv, i)) % 256 for i, b in enumerate(c))


def toy_mac(n, k, d):
    acc = 5381
    for b in bytes(k) + bytes([len(k) % 256]) + bytes(d):
        acc = (acc * 31 + b + 7) % 4294967296
    out = acc.to_bytes(4, 'big') + bytes((((acc * (j + 1) + j * j) % 4294967296) // 256) % 256
                                         for j in range(max(0, n - 4)))
    return out[:n]


class ToyCipher:
    def __init__(self, bs, new_iv):
        self.block_size = bs
        self._new_iv = new_iv

    def encrypt(self, key, iv, data):
        return toy_enc(key, iv, data)

    def decrypt(self, key, iv, data):
        return toy_dec(key, iv, data)

    def generate_iv(self):
        return self._new_iv


class ToyIntegrity:
    def __init__(self, n):
        self.hash_size = n

    def compute(self, key, data):
        return toy_mac(self.hash_size, key, data)


class ToyCrypto:
    """Duck-typed stand-in for crypto.Crypto: message.py only touches these attributes."""

    def __init__(self, spec):
        bs, icv, sk_e, sk_a, new_iv = spec
        self.spec = [bs, icv, bytes(sk_e), bytes(sk_a), bytes(new_iv)]
        self.cipher = ToyCipher(bs, bytes(new_iv))
        self.integrity = ToyIntegrity(icv)
        self.sk_e = bytes(sk_e)
        self.sk_a = bytes(sk_a)


def mk_crypto(spec):
    return None if spec is None else ToyCrypto(spec)


# =============================================================================================
# 3. canonical trees  <->  real message objects
# =============================================================================================
# message  = [spi_i, spi_r, major, minor, exchange, is_response, higher, is_initiator, message_id,
#             [payload..], [encrypted payload..], iv|None, is_authenticated]
# payload  = [type number, critical, *fields]     (fields per class, see canon_payload)

def rle(items):
    """Run-length encoding [[item, count]..] (a 4-byte DELETE payload can announce 65535 empty SPIs)."""
    out = []
    for x in items:
        if out and out[-1][0] == x:
            out[-1][1] += 1
        else:
            out.append([x, 1])
    return out


def unrle(pairs):
    return [x for x, n in pairs for _ in range(n)]


def canon_payload(p):
    import message as M
    head = [int(p.type), bool(p.critical)]
    if isinstance(p, M.PayloadSA):
        return head + [[[int(pr.num), int(pr.protocol_id), bytes(pr.spi),
                         [[int(t.type), int(t.id), (None if t.keylen is None else int(t.keylen))]
                          for t in pr.transforms]] for pr in p.proposals]]
    if isinstance(p, M.PayloadKE):
        return head + [int(p.dh_group), bytes(p.ke_data)]
    if isinstance(p, M.PayloadID):
        return head + [int(p.id_type), bytes(p.id_data)]
    if isinstance(p, M.PayloadAUTH):
        return head + [int(p.method), bytes(p.auth_data)]
    if isinstance(p, M.PayloadNONCE):
        return head + [bytes(p.nonce)]
    if isinstance(p, M.PayloadVENDOR):
        return head + [bytes(p.vendor_id)]
    if isinstance(p, M.PayloadNOTIFY):
        return head + [int(p.protocol_id), int(p.notification_type), bytes(p.spi), bytes(p.notification_data)]
    if isinstance(p, M.PayloadDELETE):
        return head + [int(p.protocol_id), rle([bytes(s) for s in p.spis])]
    if isinstance(p, M.PayloadTS):
        return head + [[[int(t.ts_type), int(t.ip_proto), int(t.start_port), int(t.end_port),
                         t.start_addr.packed, t.end_addr.packed] for t in p.traffic_selectors]]
    if isinstance(p, M.PayloadSK):
        return head + [bytes(p.ciphertext), int(p.next_payload_type)]
    raise TypeError(type(p))


def canon_msg(m):
    return [bytes(m.spi_i), bytes(m.spi_r), int(m.major), int(m.minor), int(m.exchange_type), bool(m.is_response),
            bool(m.can_use_higher_version), bool(m.is_initiator), int(m.message_id),
            [canon_payload(p) for p in m.payloads], [canon_payload(p) for p in m.encrypted_payloads],
            (None if m.iv is None else bytes(m.iv)), bool(m.is_authenticated)]


def build_payload(t):
    import message as M
    from ipaddress import ip_address
    ty, crit = t[0], t[1]
    f = t[2:]
    if ty == 33:
        return M.PayloadSA([M.Proposal(pr[0], pr[1], pr[2], [M.Transform(x[0], x[1], x[2]) for x in pr[3]])
                            for pr in f[0]], critical=crit)
    if ty == 34:
        return M.PayloadKE(f[0], f[1], critical=crit)
    if ty in (35, 36):
        return (M.PayloadIDi if ty == 35 else M.PayloadIDr)(f[0], f[1], critical=crit)
    if ty == 39:
        return M.PayloadAUTH(f[0], f[1], critical=crit)
    if ty == 40:
        return M.PayloadNONCE(f[0], critical=crit)
    if ty == 43:
        return M.PayloadVENDOR(f[0], critical=crit)
    if ty == 41:
        return M.PayloadNOTIFY(f[0], f[1], f[2], f[3], critical=crit)
    if ty == 42:
        return M.PayloadDELETE(f[0], unrle(f[1]), critical=crit)
    if ty in (44, 45):
        sels = [M.TrafficSelector(s[0], s[1], s[2], s[3], ip_address(s[4]), ip_address(s[5])) for s in f[0]]
        return (M.PayloadTSi if ty == 44 else M.PayloadTSr)(sels, critical=crit)
    if ty == 46:
        p = M.PayloadSK(f[0], critical=crit)
        p.next_payload_type = f[1]
        return p
    raise ValueError(ty)


def build_msg(t, crypto=None):
    import message as M
    m = M.Message(t[0], t[1], t[2], t[3], t[4], t[5], t[6], t[7], t[8], [build_payload(p) for p in t[9]],
                  [build_payload(p) for p in t[10]], crypto=crypto, iv=t[11])
    return m


def exc_name(ex):
    return type(ex).__name__


def impl_decode(spec, header_only, data):
    """Real Message.parse -> ['OK', tree] | ['EXC', class name]."""
    import message as M
    try:
        m = M.Message.parse(bytes(data), header_only=header_only, crypto=mk_crypto(spec))
    except Exception as ex:     # noqa: every class is part of the observation
        return ['EXC', exc_name(ex)]
    return ['OK', canon_msg(m)]


def impl_encode(spec, tree):
    try:
        m = build_msg(tree, mk_crypto(spec))
        return ['OK', bytes(m.to_bytes())]
    except Exception as ex:     # noqa
        return ['EXC', exc_name(ex)]


# =============================================================================================
# 4. independent RFC 7296 section 3 encoder (Python; shares nothing with message.py)
# =============================================================================================
# Works on the same trees, plus payload entries of unknown type [type, critical, raw body].
# Returns the bytes and the positions of every length field / next-payload octet (for the sweeps).

KNOWN_TYPES = (33, 34, 35, 36, 39, 40, 41, 42, 43, 44, 45, 46)


def u(n, w):
    return int(n).to_bytes(w, 'big')


class Marks:
    def __init__(self):
        self.len16 = []      # (absolute offset, level name)
        self.next8 = []      # absolute offsets of next-payload octets
        self.base = 0


def rfc_transform(t):
    ty, tid, keylen = t
    body = u(ty, 1) + b'\x00' + u(tid, 2)
    if keylen:
        body += u(0x800E, 2) + u(keylen, 2)          # attribute 14 (Key Length), AF bit set, TV format
    return body


def rfc_proposal(pr, marks, off):
    num, proto, spi, transforms = pr
    out = u(num, 1) + u(proto, 1) + u(len(spi), 1) + u(len(transforms), 1) + spi
    for i, t in enumerate(transforms):
        body = rfc_transform(t)
        last = i == len(transforms) - 1
        marks.len16.append((off + len(out) + 2, 'transform'))
        if len(body) > 4:
            marks.len16.append((off + len(out) + 4 + 4, 'attribute'))
        out += (b'\x00' if last else b'\x03') + b'\x00' + u(len(body) + 4, 2) + body
    return out


def rfc_body(p, marks, off):
    ty = p[0]
    f = p[2:]
    if ty == 33:
        out = b''
        for i, pr in enumerate(f[0]):
            body = rfc_proposal(pr, marks, off + len(out) + 4)
            last = i == len(f[0]) - 1
            marks.len16.append((off + len(out) + 2, 'proposal'))
            out += (b'\x00' if last else b'\x02') + b'\x00' + u(len(body) + 4, 2) + body
        return out
    if ty == 34:
        return u(f[0], 2) + b'\x00\x00' + f[1]
    if ty in (35, 36, 39):
        return u(f[0], 1) + b'\x00\x00\x00' + f[1]
    if ty in (40, 43):
        return f[0]
    if ty == 41:
        return u(f[0], 1) + u(len(f[2]), 1) + u(f[1], 2) + f[2] + f[3]
    if ty == 42:
        spis = unrle(f[1])
        return u(f[0], 1) + u(len(spis[0]) if spis else 0, 1) + u(len(spis), 2) + b''.join(spis)
    if ty in (44, 45):
        out = u(len(f[0]), 1) + b'\x00\x00\x00'
        for s in f[0]:
            sel = u(s[0], 1) + u(s[1], 1) + u(8 + len(s[4]) + len(s[5]), 2) + u(s[2], 2) + u(s[3], 2) + s[4] + s[5]
            marks.len16.append((off + len(out) + 2, 'selector'))
            out += sel
        return out
    if ty == 46:
        return f[0]
    return f[0]                                   # unknown type: raw body


def rfc_chain(payloads, marks, off, last_next=0, with_critical=True):
    out = b''
    for i, p in enumerate(payloads):
        body = rfc_body(p, marks, off + len(out) + 4)
        if i + 1 < len(payloads):
            nxt = payloads[i + 1][0]
        elif p[0] == 46:
            nxt = p[3]
        else:
            nxt = last_next
        marks.next8.append(off + len(out))
        marks.len16.append((off + len(out) + 2, 'payload'))
        out += u(nxt, 1) + (b'\x80' if (p[1] and with_critical) else b'\x00') + u(len(body) + 4, 2) + body
    return out


def rfc_header(t, first, total):
    flags = (0x20 if t[5] else 0) | (0x10 if t[6] else 0) | (0x08 if t[7] else 0)
    return (bytes(t[0]).ljust(8, b'\x00')[:8] + bytes(t[1]).ljust(8, b'\x00')[:8] + u(first, 1)
            + u(((t[2] & 0xF) << 4) | (t[3] & 0xF), 1) + u(t[4], 1) + u(flags, 1) + u(t[8], 4) + u(total, 4))


def rfc_message(t, marks=None, with_critical=True):
    """Clear message (payloads t[9])."""
    marks = marks or Marks()
    chain = rfc_chain(t[9], marks, 28, with_critical=with_critical)
    first = t[9][0][0] if t[9] else 0
    marks.next8.insert(0, 16)
    return rfc_header(t, first, 28 + len(chain)) + chain


def rfc_protected(t, spec, prims=None, inner=None, marks=None, with_critical=True):
    """Protected message: t[9] in clear, then SK{t[10]}; `inner` overrides the inner chain bytes (for mutated
    bodies that are re-encrypted and re-MACed).  prims = (enc, mac) defaults to the toy functions."""
    bs, icv, sk_e, sk_a, _ = spec
    enc, mac = prims or (toy_enc, lambda k, d: toy_mac(icv, k, d))
    marks = marks or Marks()
    iv = t[11]
    if inner is None:
        inner = rfc_chain(t[10], Marks(), 0, with_critical=with_critical)
    pad = (bs - (len(inner) + 1) % bs) % bs
    plain = inner + b'\x00' * pad + u(pad, 1)
    body = iv + enc(sk_e, iv, plain)
    clear = rfc_chain(t[9], marks, 28, last_next=46, with_critical=with_critical)
    first = t[9][0][0] if t[9] else 46
    inner_first = t[10][0][0] if t[10] else 0
    total = 28 + len(clear) + 4 + len(body) + icv
    pre = rfc_header(t, first, total) + clear + u(inner_first, 1) + b'\x00' + u(4 + len(body) + icv, 2) + body
    return pre + mac(sk_a, pre)[:icv]


# =============================================================================================
# 5. generators
# =============================================================================================

def rnd_bytes(rng, n):
    return bytes(rng.getrandbits(8) for _ in range(n))


def gen_transform(rng):
    ty = rng.choice((1, 1, 2, 3, 4, 5, rng.randrange(256)))
    tid = rng.choice((12, 2, 5, 14, 0, rng.randrange(65536)))
    keylen = rng.choice((None, None, 128, 256, 0, rng.randrange(1, 65536)))
    return [ty, tid, keylen]


def gen_proposal(rng, num):
    spi = rnd_bytes(rng, rng.choice((0, 4, 8, 8, rng.randrange(0, 12))))
    return [rng.choice((num, rng.randrange(256))), rng.choice((1, 2, 3, rng.randrange(256))), spi,
            [gen_transform(rng) for _ in range(rng.choice((1, 2, 4, 5)))]]


def gen_tsel(rng):
    v4 = rng.random() < 0.5
    n = 4 if v4 else 16
    ty = 7 if v4 else 8
    if rng.random() < 0.08:
        ty = rng.choice((0, 9, 255, 7, 8))      # type/address family mismatch: '4s' / '16s' truncate or pad
    return [ty, rng.choice((0, 6, 17, 58, rng.randrange(256))), rng.randrange(65536), rng.randrange(65536),
            rnd_bytes(rng, n), rnd_bytes(rng, n)]


def gen_payload(rng, kind=None):
    kind = kind or rng.choice((33, 34, 35, 36, 39, 40, 41, 42, 43, 44, 45))
    crit = rng.random() < 0.15
    if kind == 33:
        return [33, crit, [gen_proposal(rng, i + 1) for i in range(rng.choice((1, 1, 2, 3)))]]
    if kind == 34:
        return [34, crit, rng.choice((2, 14, 19, rng.randrange(65536))), rnd_bytes(rng, rng.choice((0, 1, 32, 64)))]
    if kind in (35, 36):
        t = rng.choice((1, 2, 3, 5, 9, 11, rng.randrange(256)))
        data = rng.choice((b'alice@example.org', b'gw.example.org', rnd_bytes(rng, 4), rnd_bytes(rng, 16),
                           rnd_bytes(rng, rng.randrange(0, 24))))
        return [kind, crit, t, data]
    if kind == 39:
        return [39, crit, rng.choice((1, 2, 3, rng.randrange(256))), rnd_bytes(rng, rng.choice((0, 20, 32)))]
    if kind == 40:
        return [40, crit, rnd_bytes(rng, rng.choice((16, 17, 32, 255, 256)))]
    if kind == 43:
        return [43, crit, rng.choice((b'pyikev2', rnd_bytes(rng, rng.randrange(1, 20))))]
    if kind == 41:
        spi = rnd_bytes(rng, rng.choice((0, 0, 4, 8)))
        return [41, crit, rng.choice((0, 1, 2, 3, rng.randrange(256))),
                rng.choice((14, 16388, 16393, 16390, rng.randrange(65536))), spi,
                rnd_bytes(rng, rng.choice((0, 2, 20)))]
    if kind == 42:
        size = rng.choice((0, 4, 8))
        spis = [rnd_bytes(rng, size) for _ in range(rng.choice((0, 1, 2, 5)))]
        if rng.random() < 0.1 and spis:
            spis.append(rnd_bytes(rng, rng.randrange(0, 10)))     # SPIs of unequal sizes
        return [42, crit, rng.choice((1, 2, 3)), rle(spis)]
    if kind in (44, 45):
        return [kind, crit, [gen_tsel(rng) for _ in range(rng.choice((0, 1, 2, 3)))]]
    if kind == 46:
        return [46, crit, rnd_bytes(rng, rng.randrange(0, 40)), rng.choice((0, 33, 41, 200))]
    raise ValueError(kind)


def gen_unknown(rng):
    return [rng.choice((1, 32, 37, 38, 47, 48, 49, 127, 200, 255)), rng.random() < 0.4,
            rnd_bytes(rng, rng.choice((0, 1, 4, 12)))]


def gen_header(rng, sloppy=False):
    spi_i, spi_r = rnd_bytes(rng, 8), rng.choice((bytes(8), rnd_bytes(rng, 8)))
    major, minor = 2, 0
    exch = rng.choice((34, 35, 36, 37))
    if rng.random() < 0.3:
        major, minor = rng.randrange(16), rng.randrange(16)
    if rng.random() < 0.2:
        exch = rng.randrange(256)
    if sloppy and rng.random() < 0.15:
        k = rng.randrange(5)
        if k == 0:
            spi_i = rnd_bytes(rng, rng.randrange(0, 12))
        elif k == 1:
            spi_r = rnd_bytes(rng, rng.randrange(0, 12))
        elif k == 2:
            major = rng.choice((16, 17, 255))
        elif k == 3:
            minor = rng.choice((16, 31, 255, 256))
        else:
            exch = rng.choice((256, 1000))
    flags = rng.randrange(8)
    return [spi_i, spi_r, major, minor, exch, bool(flags & 4), bool(flags & 2), bool(flags & 1),
            rng.choice((0, 1, 2, rng.getrandbits(32)))]


def gen_payloads(rng, allow_sk=False):
    n = rng.choice((0, 1, 2, 3, 4, 6))
    ps = [gen_payload(rng) for _ in range(n)]
    if allow_sk and rng.random() < 0.2:
        ps.append(gen_payload(rng, 46))
    return ps


def gen_message(rng, protected=False, sloppy=False, bs=16):
    h = gen_header(rng, sloppy)
    if protected:
        clear = [] if rng.random() < 0.8 else gen_payloads(rng)[:2]
        return h + [clear, gen_payloads(rng), rnd_bytes(rng, bs), False]
    return h + [gen_payloads(rng, allow_sk=sloppy), [], None, False]


def gen_spec(rng):
    bs = rng.choice((16, 16, 8, 4, 1))
    icv = rng.choice((12, 16, 32, 4))
    return [bs, icv, rnd_bytes(rng, rng.choice((16, 32))), rnd_bytes(rng, rng.choice((20, 32, 64))),
            rnd_bytes(rng, bs)]


def sprinkle_unknown(rng, payloads):
    out = list(payloads)
    for _ in range(rng.choice((0, 1, 1, 2))):
        out.insert(rng.randrange(len(out) + 1), gen_unknown(rng))
    return out


def authentic_messages(rng):
    """A few realistic messages of each exchange type (trees)."""
    def hdr(exch, resp, mid):
        return [rnd_bytes(rng, 8), rnd_bytes(rng, 8), 2, 0, exch, resp, False, not resp, mid]
    sa = [33, False, [[1, 1, b'', [[1, 12, 256], [2, 5, None], [3, 12, None], [4, 14, None]]]]]
    sa_child = [33, False, [[1, 3, rnd_bytes(rng, 4), [[1, 12, 128], [3, 2, None], [5, 0, None]]],
                            [2, 3, rnd_bytes(rng, 4), [[1, 12, 256], [3, 12, None], [5, 0, None]]]]]
    ke = [34, False, 14, rnd_bytes(rng, 32)]
    nonce = [40, False, rnd_bytes(rng, 32)]
    tsi = [44, False, [[7, 0, 0, 65535, bytes([10, 0, 0, 0]), bytes([10, 0, 0, 255])]]]
    tsr = [45, False, [[8, 6, 80, 80, rnd_bytes(rng, 16), rnd_bytes(rng, 16)],
                       [7, 17, 0, 65535, bytes([192, 168, 0, 0]), bytes([192, 168, 255, 255])]]]
    init = hdr(34, False, 0) + [[sa, ke, nonce, [43, False, b'pyikev2'],
                                 [41, False, 0, 16388, b'', rnd_bytes(rng, 20)]], [], None, False]
    auth = hdr(35, False, 1) + [[], [[35, False, 3, b'alice@example.org'], [39, False, 2, rnd_bytes(rng, 32)],
                                     sa_child, tsi, tsr, [41, False, 0, 16391, b'', b'']], None, False]
    child = hdr(36, True, 2) + [[], [[41, False, 3, 16393, rnd_bytes(rng, 4), b''], sa_child, nonce, ke, tsi, tsr],
                                None, False]
    info = hdr(37, False, 3) + [[], [[42, False, 3, rle([rnd_bytes(rng, 4), rnd_bytes(rng, 4)])],
                                     [41, False, 0, 14, b'', b'']], None, False]
    return [init, auth, child, info]


def as_clear(t):
    """The same message with every payload in the clear."""
    return t[:9] + [t[9] + t[10], [], None, False]


def with_iv(t, spec, rng):
    return t[:11] + [rnd_bytes(rng, spec[0]), False]


SWEEP_LENGTHS = (0, 1, 2, 3, 4, 5, 0xFFFF)
SWEEP_NEXT = (0, 33, 41, 42, 44, 200, 46)


def sweep_mutants(rng, data, marks, budget):
    """Length-field sweep {0..5, exact-1, exact, exact+1, 0xFFFF} at every nesting level, combined with the
    next-payload octets."""
    out = []
    combos = []
    for off, level in marks.len16:
        exact = int.from_bytes(data[off:off + 2], 'big')
        for v in SWEEP_LENGTHS + (max(exact - 1, 0), exact, min(exact + 1, 0xFFFF)):
            combos.append((off, v, level))
    rng.shuffle(combos)
    for off, v, level in combos[:budget]:
        d = bytearray(data)
        d[off:off + 2] = u(v, 2)
        if level == 'payload' or rng.random() < 0.3:
            if marks.next8:
                d[rng.choice(marks.next8)] = rng.choice(SWEEP_NEXT)
        out.append((bytes(d), 'sweep:' + level))
    return out


def small_mutants(rng, data, n):
    out = []
    for _ in range(n):
        d = bytearray(data)
        for _ in range(rng.choice((1, 2))):
            d[rng.randrange(len(d))] = rng.choice((0, 1, 4, 0x80, 0xFF, rng.randrange(256)))
        out.append((bytes(d), 'mutation'))
    return out


def malformed_stream(ctx, n_random, n_trunc_stride, n_mut, n_sweep, n_protected):
    """[(spec|None, header_only, data, kind)] - the malformed stream shared by C05/C06."""
    rng = ctx.rng
    cases = []
    for _ in range(n_random):
        k = rng.random()
        if k < 0.3:
            d = rnd_bytes(rng, rng.randrange(0, 60))
        elif k < 0.6:
            d = rnd_bytes(rng, 16) + bytes([rng.choice(SWEEP_NEXT), 0x20, rng.choice((34, 35, 36, 37)), 8]) \
                + rnd_bytes(rng, 8) + rnd_bytes(rng, rng.randrange(0, 40))
        else:   # random but structured: header + chain of generic headers with random lengths
            d = rnd_bytes(rng, 16) + bytes([rng.choice(SWEEP_NEXT), 0x20, 34, 0]) + rnd_bytes(rng, 8)
            for _ in range(rng.randrange(1, 4)):
                body = rnd_bytes(rng, rng.choice((0, 3, 4, 8, 12)))
                ln = rng.choice((len(body) + 4, len(body) + 4, rng.choice(SWEEP_LENGTHS)))
                d += bytes([rng.choice(SWEEP_NEXT), rng.choice((0, 0x80))]) + u(ln, 2) + body
        cases.append((None, rng.random() < 0.1, d, 'random'))
    auth = authentic_messages(rng)
    for t in auth:
        marks = Marks()
        data = rfc_message(as_clear(t), marks)
        for n in range(0, len(data), n_trunc_stride):
            cases.append((None, False, data[:n], 'truncation'))
        cases += [(None, False, d, k) for d, k in small_mutants(rng, data, n_mut)]
        cases += [(None, False, d, k) for d, k in sweep_mutants(rng, data, marks, n_sweep)]
        cases.append((None, True, data, 'authentic'))
        cases.append((None, False, data, 'authentic'))
    # protected: mutate the inner chain, then re-encrypt and re-MAC with the right keys
    for i in range(n_protected):
        t = auth[1 + i % 3]
        spec = gen_spec(rng)
        t = with_iv(t, spec, rng)
        marks = Marks()
        inner = rfc_chain(t[10], marks, 0)
        kind = rng.randrange(6)
        if kind == 0:
            mutated, label = inner, 'protected:authentic'
        elif kind == 1:
            mutated, label = inner[:rng.randrange(len(inner) + 1)], 'protected:inner-truncation'
        elif kind == 2:
            mutated, label = small_mutants(rng, inner, 1)[0][0], 'protected:inner-mutation'
        else:
            mutated, label = sweep_mutants(rng, inner, marks, 1)[0][0], 'protected:inner-sweep'
        data = rfc_protected(t, spec, inner=mutated)
        k2 = rng.random()
        if k2 < 0.15:
            data, label = small_mutants(rng, data, 1)[0][0], 'protected:outer-mutation'
        elif k2 < 0.2:
            data, label = data[:rng.randrange(len(data))], 'protected:outer-truncation'
        elif k2 < 0.25:
            spec = spec[:3] + [rnd_bytes(rng, 20)] + spec[4:]
            label = 'protected:wrong-key'
        cases.append((spec, False, data, label))
    # SK bodies of impossible size under a correct MAC (F4 family)
    for bodylen in (0, 1, 15, 16, 17, 31, 33):
        spec = [16, 12, b'k' * 16, b'a' * 20, bytes(16)]
        t = auth[3]
        pre = rfc_header(t, 46, 28 + 4 + bodylen + 12) + u(0, 1) + b'\x00' + u(4 + bodylen + 12, 2) \
            + rnd_bytes(rng, bodylen)
        cases.append((spec, False, pre + toy_mac(12, spec[3], pre), 'protected:sk-body-size'))
    # a clear message parsed with a crypto context, and a protected one parsed without
    spec = gen_spec(rng)
    cases.append((spec, False, rfc_message(as_clear(auth[0])), 'clear-with-crypto'))
    cases.append((None, False, rfc_protected(with_iv(auth[1], spec, rng), spec), 'protected-without-crypto'))
    cases.append((spec, True, rfc_protected(with_iv(auth[1], spec, rng), spec), 'protected-header-only'))
    return cases


# =============================================================================================
# 6. the real parser under sys.settrace: loop iterations and executed lines
# =============================================================================================

LOOP_FUNCS = ('Transform.parse', 'Proposal.parse', 'PayloadSA.parse', 'PayloadTS.parse', 'PayloadDELETE.parse',
              'Message._parse_payloads')
_loop_lines = None


class BudgetExceeded(Exception):
    pass


def loop_lines():
    """Line numbers of the first statement of every loop body of the parser (message.py)."""
    global _loop_lines
    if _loop_lines is None:
        src = pyast.Src(os.path.join(core.REPO, 'message.py'))
        lines = set()
        for name in LOOP_FUNCS:
            fn = src.func(name)
            loops = [n for n in ast.walk(fn) if isinstance(n, (ast.While, ast.For))]
            if len(loops) != 1:
                raise TranslateError(f'message.py: {name} is expected to contain exactly one loop')
            lines.add(loops[0].body[0].lineno)
        _loop_lines = lines
    return _loop_lines


def traced_decode(spec, header_only, data, budget=2_000_000, crypto=None):
    """Run the real Message.parse under a line tracer: (outcome, loop iterations, executed lines of message.py).
    outcome as impl_decode, or ['BUDGET'] when more than `budget` lines were executed (non-termination)."""
    import sys
    import message as M
    target = M.__file__
    loops = loop_lines()
    counts = [0, 0]

    def local(frame, event, arg):
        if event == 'line':
            counts[1] += 1
            if frame.f_lineno in loops:
                counts[0] += 1
            if counts[1] > budget:
                raise BudgetExceeded()
        return local

    def tracer(frame, event, arg):
        if frame.f_code.co_filename == target:
            return local
        return None
    cr = crypto if crypto is not None else mk_crypto(spec)
    old = sys.gettrace()
    sys.settrace(tracer)
    try:
        try:
            m = M.Message.parse(bytes(data), header_only=header_only, crypto=cr)
            out = ['OK', canon_msg(m)]
        except BudgetExceeded:
            out = ['BUDGET']
        except Exception as ex:     # noqa
            out = ['EXC', exc_name(ex)]
    finally:
        sys.settrace(old)
    return out, counts[0], counts[1]


# =============================================================================================
# 7. real crypto contexts (crypto.Crypto with AES-CBC and HMAC) for the oracles
# =============================================================================================

REAL_SUITES = [(128, 2), (256, 2), (128, 12), (256, 12), (128, 14), (256, 14)]   # (AES key bits, IntegId)


def real_crypto(rng, keybits=128, integ_id=2):
    import crypto as C
    import message as M
    cipher = C.Cipher(M.Transform(M.Transform.Type.ENCR, M.Transform.EncrId.ENCR_AES_CBC, keybits))
    integ = C.Integrity(M.Transform(M.Transform.Type.INTEG, integ_id))
    return C.Crypto(cipher, rnd_bytes(rng, keybits // 8), integ, rnd_bytes(rng, integ.key_size), None, None)


def real_spec(cr, iv=None):
    """A `spec` list describing a real context for rfc_protected (sizes and keys)."""
    return [cr.cipher.block_size, cr.integrity.hash_size, cr.sk_e, cr.sk_a, iv or bytes(cr.cipher.block_size)]


def real_prims(cr):
    """Independent implementations of the negotiated primitives (cryptography / hmac / hashlib directly)."""
    import hashlib
    import hmac
    from cryptography.hazmat.primitives.ciphers import Cipher as _C, algorithms, modes
    digest = {20: hashlib.sha1, 32: hashlib.sha256, 64: hashlib.sha512}[cr.integrity.key_size]

    def enc(k, iv, p):
        e = _C(algorithms.AES(k), modes.CBC(iv)).encryptor()
        return e.update(p) + e.finalize()

    def dec(k, iv, c):
        d = _C(algorithms.AES(k), modes.CBC(iv)).decryptor()
        return d.update(c) + d.finalize()

    def mac(k, d):
        return hmac.new(k, d, digest).digest()
    return enc, dec, mac


PROTOCOL_ERRORS = ('InvalidSyntax', 'UnsupportedCriticalPayload')


def real_decode(cr, header_only, data, budget=3_000_000):
    return traced_decode(None, header_only, data, budget=budget, crypto=cr)


# =============================================================================================
# 8. the C05 check
# =============================================================================================

def wf_tree(t):
    """Python mirror of wf_msg (Rfc7296Layout.v) for clear and protected trees: the content round-trips."""
    def wf_payload(p):
        ty, crit, f = p[0], p[1], p[2:]
        if crit:
            return False
        if ty == 33:
            return all(pr[0] < 256 and pr[1] < 256 and len(pr[2]) < 256 and 0 < len(pr[3]) < 256
                       and all(x[0] < 256 and x[1] < 65536 and (x[2] is None or 0 < x[2] < 65536) for x in pr[3])
                       for pr in f[0]) and len(f[0]) > 0
        if ty == 34:
            return f[0] < 65536
        if ty in (35, 36, 39):
            return f[0] < 256
        if ty == 40:
            return 16 <= len(f[0]) <= 256
        if ty == 43:
            return len(f[0]) > 0
        if ty == 41:
            return f[0] < 256 and f[1] < 65536 and len(f[2]) < 256
        if ty == 42:
            spis = unrle(f[1])
            return f[0] < 256 and len(spis) < 65536 and all(len(s) == len(spis[0]) for s in spis) \
                and (not spis or len(spis[0]) < 256)
        if ty in (44, 45):
            return len(f[0]) < 256 and all(s[0] < 256 and s[1] < 256 and len(s[4]) == len(s[5]) == (4 if s[0] == 7 else 16)
                                           for s in f[0])
        if ty == 46:
            return f[1] < 256
        return False

    def wf_chain(ps):
        return all(wf_payload(p) for p in ps) and all(p[0] != 46 for p in ps[:-1])
    return (len(t[0]) == 8 and len(t[1]) == 8 and t[2] < 16 and t[3] < 16 and t[4] < 256 and t[8] < 2 ** 32
            and wf_chain(t[9]) and wf_chain(t[10]) and all(p[0] != 46 for p in t[10]))


def correspond(ctx):
    import logging
    rng = ctx.rng
    logging.disable(logging.CRITICAL)
    fails = []
    try:
        n_enc = 600 if ctx.quick() else 60000
        enc_cases, dec_cases = [], []
        for i in range(n_enc):
            prot = rng.random() < 0.35
            spec = gen_spec(rng) if prot else None
            t = gen_message(rng, protected=prot, sloppy=(rng.random() < 0.5), bs=spec[0] if spec else 16)
            out = impl_encode(spec, t)
            enc_cases.append(([spec, t], out))
            ctx.case(['encode', str(t)], nontrivial=bool(t[9] or t[10]), sample=(i < 2))
            ctx.count('encode:' + ('protected' if prot else 'clear') + ':' + (out[0] if out[0] == 'OK' else out[1]))
            if out[0] == "OK" and rng.random() < 0.45:
                # what the real encoder produced goes back through both parsers
                d = out[1]
                dec_cases.append(([spec, False, d], impl_decode(spec, False, d)))
                ctx.case(['decode', d.hex()], nontrivial=True)
                ctx.count('decode:own-output')
            # the same content with unknown payloads (with and without the critical bit) spliced in
            if rng.random() < 0.5:
                t2 = t[:9] + [sprinkle_unknown(rng, t[9]), sprinkle_unknown(rng, t[10]) if prot else []] + t[11:]
                try:
                    d = rfc_protected(t2, spec) if prot else rfc_message(t2)
                except (OverflowError, ValueError):
                    continue
                if rng.random() < 0.15:
                    d += rnd_bytes(rng, rng.choice((1, 4, 8)))      # trailing bytes
                out2 = impl_decode(spec, False, d)
                dec_cases.append(([spec, False, d], out2))
                ctx.case(['decode', d.hex()], nontrivial=True, sample=(len(ctx.samples) < 4))
                ctx.count('decode:unknown-spliced:' + (out2[0] if out2[0] == 'OK' else out2[1]))
        n = (150, 9, 12, 40, 60) if ctx.quick() else (8000, 1, 400, 1500, 6000)
        for spec, ho, data, kind in malformed_stream(ctx, *n):
            dec_cases.append(([spec, ho, data], impl_decode(spec, ho, data)))
            ctx.case(['decode', data.hex()], nontrivial=True)
            ctx.count('decode:' + kind.split(':')[0])
    finally:
        logging.disable(logging.NOTSET)
    bad = core.run_cases(ctx, CLUSTER, REQ, 'run_encode', enc_cases, shard=60, name='encode')
    for gi, model_out in bad[:5]:
        fails.append(Failure('correspondence', 'codec:encode',
                             f'to_bytes of {str(enc_cases[gi][0])[:400]} gives {str(enc_cases[gi][1])[:200]} but the '
                             f'model gives {model_out[-400:]}', {'kind': 'encode', 'case': repr(enc_cases[gi][0])}))
    bad = core.run_cases(ctx, CLUSTER, REQ, 'run_decode', dec_cases, shard=80, name='decode')
    for gi, model_out in bad[:5]:
        spec, ho, data = dec_cases[gi][0]
        fails.append(Failure('correspondence', 'codec:decode',
                             f'Message.parse({data.hex()[:300]}, crypto={spec}) gives {str(dec_cases[gi][1])[:300]} '
                             f'but the model gives {model_out[-400:]}',
                             {'kind': 'decode', 'spec': repr(spec), 'header_only': ho, 'data': data.hex()}))
    return fails


def normalise(tree):
    """What parsing can give back of a tree: keylen 0 is not emitted."""
    def pl(p):
        if p[0] == 33:
            return p[:2] + [[[pr[0], pr[1], pr[2], [[x[0], x[1], x[2] or None] for x in pr[3]]] for pr in p[2]]]
        return p
    return tree[:9] + [[pl(p) for p in tree[9]], [pl(p) for p in tree[10]]] + tree[11:]


def check_message(spec, t, prot):
    """C05's observable statement on the real code for one well-formed tree; returns [(signature, detail)]."""
    import json
    import message as M
    out = []
    cr = mk_crypto(spec)
    try:
        m = build_msg(t, cr)
        data = bytes(m.to_bytes())
    except Exception as ex:     # noqa
        return [('encode:exception', f'to_bytes raised {exc_name(ex)} on well-formed content')]
    want = rfc_protected(t, spec, with_critical=False) if prot else rfc_message(t, with_critical=False)
    if data != want:
        out.append(('encode:layout', f'to_bytes {data.hex()[:240]} differs from the RFC 7296 layout {want.hex()[:240]}'))
    try:
        back = M.Message.parse(data, crypto=mk_crypto(spec))
    except Exception as ex:     # noqa
        return out + [('roundtrip:exception', f'parse(to_bytes(m)) raised {exc_name(ex)}')]
    got = canon_msg(back)
    expect = normalise(t[:11] + [t[11], prot])
    if got != expect:
        out.append(('roundtrip:differs', f'parse(to_bytes(m)) = {str(got)[:300]} but m = {str(expect)[:300]}'))
    try:
        d = back.to_dict()
        json.dumps(d)
        names = [x['type'] for x in d['payloads']] + [x['type'] for x in d['encrypted_payloads']]
        wantn = [M.Payload.Type(p[0]).name for p in t[9] + t[10]]
        if names != wantn:
            out.append(('dump:names', f'to_dict names {names} but the payloads are {wantn}'))
    except Exception as ex:     # noqa
        out.append(('dump:exception', f'to_dict raised {exc_name(ex)}'))
    return out


def check_accepted(spec, data):
    """serialise-after-parse is idempotent on an accepted byte string; the dump never raises."""
    import json
    import message as M
    try:
        m = M.Message.parse(data, crypto=mk_crypto(spec))
    except (M.InvalidSyntax, M.UnsupportedCriticalPayload):
        return None
    out = []
    try:
        d = m.to_dict()
        json.dumps(d)
        if [x['type'] for x in d['payloads']] != [p.type.name for p in m.payloads] \
                or [x['type'] for x in d['encrypted_payloads']] != [p.type.name for p in m.encrypted_payloads]:
            out.append(('dump:names', 'to_dict does not name every payload'))
    except Exception as ex:     # noqa
        out.append(('dump:exception', f'to_dict raised {exc_name(ex)} on an accepted message'))
    try:
        b1 = bytes(m.to_bytes())
        m2 = M.Message.parse(b1, crypto=mk_crypto(spec))
        b2 = bytes(m2.to_bytes())
        if b1 != b2:
            out.append(('idempotent:differs', f'to_bytes(parse(to_bytes(parse(d)))) differs: {b1.hex()[:200]} / {b2.hex()[:200]}'))
    except Exception as ex:     # noqa
        out.append(('idempotent:exception', f're-serialising an accepted message raised {exc_name(ex)}'))
    return out


def chain_rules():
    """unknown skipped / unknown critical rejected / trailing rejected, on the real parser."""
    import message as M
    out = []
    hdr = lambda first, n: bytes(16) + bytes([first, 0x20, 37, 0]) + bytes(4) + u(28 + n, 4)   # noqa: E731
    notify = bytes([0, 0]) + u(12, 2) + bytes([0, 0]) + u(16384, 2) + bytes(4)
    for unk in (1, 32, 37, 38, 47, 48, 49, 100, 200, 255):
        body = bytes([41, 0]) + u(8, 2) + b'abcd' + notify
        try:
            m = M.Message.parse(hdr(unk, len(body)) + body)
            if [int(p.type) for p in m.payloads] != [41]:
                out.append(('chain:unknown-not-skipped', f'unknown type {unk}: payloads {m.payloads}'))
        except Exception as ex:     # noqa
            out.append(('chain:unknown-not-skipped', f'unknown non-critical type {unk} raised {exc_name(ex)}'))
        body = bytes([41, 0x80]) + u(8, 2) + b'abcd' + notify
        try:
            M.Message.parse(hdr(unk, len(body)) + body)
            out.append(('chain:critical-accepted', f'unknown critical type {unk} was accepted'))
        except M.UnsupportedCriticalPayload:
            pass
        except Exception as ex:     # noqa
            out.append(('chain:critical-accepted', f'unknown critical type {unk} raised {exc_name(ex)}'))
    for extra in (1, 3, 4, 8):
        try:
            M.Message.parse(hdr(41, len(notify)) + notify + bytes(extra))
            out.append(('chain:trailing-accepted', f'{extra} trailing bytes were accepted'))
        except M.InvalidSyntax:
            pass
        except Exception as ex:     # noqa
            out.append(('chain:trailing-accepted', f'{extra} trailing bytes raised {exc_name(ex)}'))
    # the chain must end EXACTLY at the end of the data: also when the last payload announces more than there is
    # (its body parser would be content with the shorter body: NOTIFY / VENDOR / KE / NONCE / AUTH / ID accept any tail)
    vendor = bytes([0, 0]) + u(4 + 12, 2) + b'vendor-id-xx'
    nonce = bytes([0, 0]) + u(4 + 24, 2) + bytes(range(24))
    for name, first, pl in (('NOTIFY', 41, notify), ('VENDOR', 43, vendor), ('NONCE', 40, nonce)):
        for cut in (1, 2, 4):
            short = pl[:-cut]                       # the length field still announces the full payload
            try:
                M.Message.parse(hdr(first, len(short)) + short)
                out.append(('chain:overrun-accepted', f'a {name} payload announcing {cut} octets more than the datagram '
                            'holds was accepted'))
            except M.InvalidSyntax:
                pass
            except Exception as ex:     # noqa
                out.append(('chain:overrun-accepted', f'overrunning {name} payload raised {exc_name(ex)}'))
        # two payloads, the second one overrunning
        try:
            two = notify[:0] + bytes([first, 0]) + notify[2:] + pl[:-2]
            M.Message.parse(hdr(41, len(two)) + two)
            out.append(('chain:overrun-accepted', f'a trailing {name} payload overrunning the data by 2 was accepted'))
        except M.InvalidSyntax:
            pass
        except Exception as ex:     # noqa
            out.append(('chain:overrun-accepted', f'overrunning trailing {name} payload raised {exc_name(ex)}'))
    return out


def oracle(ctx, deep):
    import logging
    rng = ctx.rng
    logging.disable(logging.CRITICAL)
    fails = []
    try:
        for sig, detail in chain_rules():
            fails.append(Failure('property', sig, detail, {'kind': 'chain-rules'}))
        n = 700 if not deep else 20000
        done = 0
        while done < n and len(fails) < 6:
            prot = rng.random() < 0.4
            spec = gen_spec(rng) if prot else None
            t = gen_message(rng, protected=prot, sloppy=False, bs=spec[0] if spec else 16)
            t = t[:9] + [[p[:1] + [False] + p[2:] for p in t[9]], [p[:1] + [False] + p[2:] for p in t[10]]] + t[11:]
            if not wf_tree(t):
                continue
            done += 1
            ctx.case(['oracle', str(t)], nontrivial=bool(t[9] or t[10]))
            ctx.count('oracle:' + ('protected' if prot else 'clear'))
            for sig, detail in check_message(spec, t, prot):
                fails.append(Failure('property', sig, detail, {'kind': 'message', 'spec': repr(spec), 'tree': repr(t),
                                                               'protected': prot}))
        ns = (300, 5, 25, 80, 120) if not deep else (6000, 1, 400, 1500, 5000)
        for spec, ho, data, kind in malformed_stream(ctx, *ns):
            r = check_accepted(spec, data)
            ctx.count('oracle:accepted' if r is not None else 'oracle:rejected')
            ctx.case(['oracle-stream', data.hex()], nontrivial=True)
            for sig, detail in (r or []):
                fails.append(Failure('property', sig, detail + ' on ' + data.hex()[:200],
                                     {'kind': 'accepted', 'spec': repr(spec), 'data': data.hex()}))
            if len(fails) > 6:
                break
    finally:
        logging.disable(logging.NOTSET)
    return fails


def regressions(ctx):
    """F3: to_dict on binary vendor IDs / non-text or wrong-length identities."""
    import json
    import message as M
    fails = []
    objs = [M.PayloadVENDOR(b'\xff\xfe\x80binary'), M.PayloadIDi(M.PayloadID.Type.ID_FQDN, b'\xc3\x28'),
            M.PayloadIDr(M.PayloadID.Type.ID_RFC822_ADDR, b'\xff@x'),
            M.PayloadIDi(M.PayloadID.Type.ID_IPV4_ADDR, b'\x01\x02\x03'),
            M.PayloadIDi(M.PayloadID.Type.ID_IPV6_ADDR, b'\x01' * 15),
            M.PayloadIDi(M.PayloadID.Type.ID_IPV4_ADDR, b'\x01\x02\x03\x04\x05')]
    for o in objs:
        ctx.count('regression:F3')
        try:
            json.dumps(o.to_dict())
        except Exception as ex:     # noqa
            fails.append(Failure('property', 'dump:exception', f'F3 is back: {type(o).__name__}.to_dict raised '
                                 f'{exc_name(ex)}', {'kind': 'dump', 'cls': type(o).__name__}))
    return fails


def replay(ctx, obj):
    import logging
    logging.disable(logging.CRITICAL)
    try:
        if obj.get('kind') == 'message':
            spec, t = eval(obj['spec']), eval(obj['tree'])     # noqa: S307 - our own repr of bytes/ints/lists
            return [Failure('property', s, d, obj) for s, d in check_message(spec, t, obj['protected'])]
        if obj.get('kind') == 'accepted':
            r = check_accepted(eval(obj['spec']), bytes.fromhex(obj['data']))     # noqa: S307
            return [Failure('property', s, d, obj) for s, d in (r or [])]
        if obj.get('kind') == 'chain-rules':
            return [Failure('property', s, d, obj) for s, d in chain_rules()]
        if obj.get('kind') == 'dump':
            return regressions(ctx)
    finally:
        logging.disable(logging.NOTSET)
    return []


CHECK = core.Check(
    'C05', CLUSTER, 'Props/C05.v', translate=translate, correspond=correspond, oracle=oracle, replay=replay,
    regressions=regressions, deps=('lib',),
    rule='structured generator over the whole message type: header (SPIs, version nibbles, exchange type, all 8 flag '
         'combinations, Message ID; occasionally out-of-range fields), payload lists over SA (1-3 proposals, SPI sizes '
         '0/4/8/odd, 1-5 transforms with/without key length incl. 0), KE, IDi/IDr, AUTH, NONCE, NOTIFY, DELETE (0-5 '
         'SPIs of size 0/4/8, occasionally unequal), VENDOR, TSi/TSr (IPv4/IPv6, occasionally mismatching type), SK, '
         'in clear and inside an encrypted payload (toy cipher/MAC, block sizes 1/4/8/16, ICV 4/12/16/32); to_bytes '
         'hex / exception class compared with the model; the real encoder output, the same content with unknown '
         'payload types (with/without the critical bit) and trailing bytes spliced in by an independent RFC 7296 '
         'encoder, and a malformed stream are parsed by both; a case is non-trivial when the message has payloads',
    trusted_base=['Coq 8.16.1 kernel (coqc, vm_compute; no native_compute)',
                  'hand model coq/codec/Codec.v of message.py tied by differential execution (to_bytes bytes, parse '
                  'trees, exception classes)',
                  'py/props/c05.py translate(): enums, type_2_payload, struct formats, masks -> Gen/MessageTables.v',
                  'coq/codec/Rfc7296Layout.v read against RFC 7296 section 3 and the IANA registry (the spec)',
                  'independent Python RFC 7296 encoder in py/props/c05.py (oracle only)',
                  'toy cipher/MAC of coq/codec/Toy.v = ToyCrypto in py/props/c05.py for the encrypted branch'],
    assumptions=['abstract content = field values of the payload objects; senders clear the critical bit (RFC 7296 '
                 '3.2), so wf_msg has critical = false; the decoder side of the bit is covered by the correspondence',
                 'to_dict is validated on the real code only (oracle: never raises, names every payload)'],
)
