"""C01 - peers derive the same keys and install mirror-image IPsec SAs."""
import random
import socket
from unittest import mock

from props import shellcommon as sc
from sim.scenarios import Pair, scripted
from sim.world import LoopEscape
from props import hdl
from vlib import core
from vlib.core import Failure

ALG_NAMES = {12: b'cbc(aes)', (3, 2): b'hmac(sha1)', (3, 12): b'hmac(sha256)', (3, 14): b'hmac(sha512)'}

# configuration family: ENCR key lengths x INTEG x PRF x DH groups incl. mismatching preference orders, ESP/AH,
# transport/tunnel, IPv4/IPv6, PSK/RSA (RSA in the thorough tier: key generation is slow)
def conf_family(ctx):
    fam = [
        ('default', None, {}),
        ('tunnel', None, {'mode': 'tunnel'}),
        ('ah', None, {'ipsec_proto': 'ah', 'child_encr': ()}),
        ('aes128_sha1_modp2048', None, {'dh': ('14',), 'integ': ('sha1',), 'prf': ('sha1',), 'encr': ('aes128',),
                                        'child_encr': ('aes128',), 'child_integ': ('sha1',)}),
        ('sha512_ecp384_pfs', None, {'dh': ('ecp384',), 'integ': ('sha512',), 'prf': ('sha512',),
                                     'child_dh': ('ecp256',), 'child_integ': ('sha512',)}),
        ('dh_preference_mismatch', None, {'dh': ('ecp256', 'ecp384'), 'dh_b': ('ecp384', 'ecp256')}),
        ('ipv6_tunnel_udp', ('2001:db8::1', '2001:db8::2'), {'mode': 'tunnel', 'ip_proto': 'udp', 'peer_port_a': 53}),
        ('ecp521_aes256_sha256', None, {'dh': ('ecp521',), 'child_dh': ('ecp521',)}),
    ]
    if not ctx.quick():
        from props.c02 import rsa_keys
        fam += [('rsa', None, {'rsa': rsa_keys()}),
                ('modp3072', None, {'dh': ('15',)}), ('modp4096', None, {'dh': ('16',)}),
                ('ipv6_transport_ah', ('2001:db8::1', '2001:db8::2'), {'ipsec_proto': 'ah', 'child_encr': ()})]
    return fam


SCEN = ['handshake', 'new_child', 'new_child_from_responder', 'rekey_child', 'rekey_child_from_responder', 'rekey_ike',
        'rekey_ike_from_responder', 'rekey_ike_then_child']


class Interner:
    def __init__(self):
        self.d = {}

    def __call__(self, v):
        if v not in self.d:
            self.d[v] = len(self.d) + 1
        return self.d[v]


def sel_of_ts(ts):
    net = ts.get_network()
    return (str(net.network_address), net.prefixlen, int(ts.get_port()), int(ts.ip_proto))


def run_one(ctx, name, ips, conf, scen, seed):
    """Run a scenario; record every Xfrm.create_child_sa call and check the mirror property on the real endpoints."""
    import xfrm
    fails, cases = [], []
    calls = []
    with Pair(seed=seed, ips=ips, **conf) as p:
        orig = xfrm.Xfrm.create_child_sa.__func__

        def create(cls, ike_sa, child_sa, keyring, is_initiator):
            ep = p.sim.current
            n0 = len(ep.kernel.requests)
            out = orig(cls, ike_sa, child_sa, keyring, is_initiator)
            news = [r for r in ep.kernel.requests[n0:] if r[1] == xfrm.XFRM_MSG_NEWSA and r[3] == 0]
            calls.append((ep, ike_sa, child_sa, keyring, is_initiator,
                          [dict(ep.kernel.sad[r[2][1]]) for r in news if r[2][1] in ep.kernel.sad]))
            return out
        with mock.patch.object(xfrm.Xfrm, 'create_child_sa', classmethod(create)):
            try:
                p.run(scripted(scen) if isinstance(scen, str) else [list(a) for a in scen])
                p.drain()
            except LoopEscape as ex:
                return [Failure('property', 'loop:escaped-exception', repr(ex.exc),
                                {'conf': name, 'scenario': scen, 'seed': seed})], []
        rep = {'conf': name, 'scenario': scen, 'seed': seed}
        # --- correspondence cases: the wiring of create_child_sa
        for ep, sa, ch, kr, ini, recs in calls:
            if len(recs) != 2:
                continue
            I = Interner()
            proto = 50 if int(ch.proposal.protocol_id) == 3 else 51
            enc = next((t for t in ch.proposal.transforms if int(t.type) == 1), None)
            integ = next(t for t in ch.proposal.transforms if int(t.type) == 3)
            prop = (proto, ALG_NAMES[12] if proto == 50 else None, ALG_NAMES[(3, int(integ.id))])
            inp = [I(bytes(ch.inbound_spi)), I(bytes(ch.outbound_spi)), I(prop), I(sel_of_ts(ch.tsi)), I(sel_of_ts(ch.tsr)),
                   I(('mode', int(ch.mode))), I(bytes(kr.sk_ei or b'')), I(bytes(kr.sk_er or b'')), I(bytes(kr.sk_ai)),
                   I(bytes(kr.sk_ar)), 1 if ini else 0, I(str(sa.my_addr)), I(str(sa.peer_addr))]
            outs = []
            for r in recs:
                s = r['sel']
                algs = r['algs']
                ek = algs[xfrm.XFRMA_ALG_CRYPT][2] if xfrm.XFRMA_ALG_CRYPT in algs else b''
                en = algs[xfrm.XFRMA_ALG_CRYPT][0] if xfrm.XFRMA_ALG_CRYPT in algs else None
                ak, an = algs[xfrm.XFRMA_ALG_AUTH][2], algs[xfrm.XFRMA_ALG_AUTH][0]
                outs.append([I((s[1], s[2], s[5], s[9])), I((s[3], s[4], s[7], s[9])), I(bytes(r['key'][2])),
                             I(('mode', r['mode'])), I(r['saddr']), I(r['key'][0]), I(bytes(ek)), I(bytes(ak)),
                             I((r['key'][1], en, an))])
            cases.append((inp, outs))
            ctx.case({'conf': name, 'scenario': scen, 'initiator': bool(ini)}, nontrivial=True,
                     sample=len(ctx.samples) < 3)
            ctx.count('conf:' + name)
            # direction keys on the real request
            want_out = (bytes(kr.sk_ei or b''), bytes(kr.sk_ai)) if ini else (bytes(kr.sk_er or b''), bytes(kr.sk_ar))
            got_out = (bytes(recs[0]['algs'].get(xfrm.XFRMA_ALG_CRYPT, (0, 0, b''))[2]),
                       bytes(recs[0]['algs'][xfrm.XFRMA_ALG_AUTH][2]))
            if want_out != got_out:
                fails.append(Failure('property', 'mirror:direction-keys',
                                     f'{name}/{scen}: the outbound SA of the exchange {"initiator" if ini else "responder"} '
                                     'does not carry the keys RFC 7296 2.17 assigns to its direction', rep))
        # --- the property on the two real endpoints
        ea = [s for s in p.A.controller.ike_sas if int(s.state) == 10]
        eb = [s for s in p.B.controller.ike_sas if int(s.state) == 10]
        if not ea or not eb:
            fails.append(Failure('property', 'mirror:negotiation-did-not-complete',
                                 f'{name}/{scen}: states A {[int(s.state) for s in p.A.controller.ike_sas]} '
                                 f'B {[int(s.state) for s in p.B.controller.ike_sas]}', rep))
            return fails, cases
        for a in ea:
            b = next((x for x in eb if bytes(x.my_spi) == bytes(a.peer_spi)), None)
            if b is None:
                fails.append(Failure('property', 'mirror:ike-sa-unmatched', f'{name}/{scen}', rep))
                continue
            if [bytes(k) for k in a.ike_sa_keyring] != [bytes(k) for k in b.ike_sa_keyring]:
                fails.append(Failure('property', 'mirror:ike-keys-differ', f'{name}/{scen}: IKE_SA key material differs',
                                     rep))
            if (bytes(a.my_crypto.sk_e), bytes(a.my_crypto.sk_a), bytes(a.my_crypto.sk_p)) != \
                    (bytes(b.peer_crypto.sk_e), bytes(b.peer_crypto.sk_a), bytes(b.peer_crypto.sk_p)) or \
                    (bytes(b.my_crypto.sk_e), bytes(b.my_crypto.sk_a)) != (bytes(a.peer_crypto.sk_e), bytes(a.peer_crypto.sk_a)):
                fails.append(Failure('property', 'mirror:ike-direction-keys', f'{name}/{scen}: my_crypto of one side is '
                                     'not peer_crypto of the other', rep))

        def canon(sad):
            out = {}
            for k, r in sad.items():
                out[(k[0], k[1], bytes(k[2]))] = (r['saddr'], r['sel'], r['mode'], r['family'],
                                                  {kk: (vv[0], vv[1], bytes(vv[2])) for kk, vv in r['algs'].items()})
            return out
        sa_, sb_ = canon(p.A.kernel.sad), canon(p.B.kernel.sad)
        if not sa_:
            fails.append(Failure('property', 'mirror:nothing-installed', f'{name}/{scen}', rep))
        if sa_ != sb_:
            diff = [k for k in set(sa_) | set(sb_) if sa_.get(k) != sb_.get(k)]
            fails.append(Failure('property', 'mirror:kernel-sas-differ',
                                 f'{name}/{scen}: {len(diff)} kernel SA(s) are not mirror images (SPI, tunnel addresses, '
                                 f'protocol, mode, algorithms, keys, selectors); first: {diff[0][0]} proto {diff[0][1]} spi '
                                 f'{diff[0][2].hex()}: A {sa_.get(diff[0])} / B {sb_.get(diff[0])}'[:900], rep))
    return fails, cases


def plan(ctx):
    out = []
    fam = conf_family(ctx)
    # negotiations that need something specific: a CHILD_SA with PFS whose first KE group is refused
    # (INVALID_KE_PAYLOAD retry) after an IKE_SA rekey that was postponed with TEMPORARY_FAILURE; crossing CHILD_SA
    # creations with PFS (each side answers the other's request while its own is outstanding)
    out.append(('child_pfs_modp_retry', None, {'child_dh': ('15', '14'), 'child_dh_b': ('14',)}, 'postponed_rekey_then_child'))
    out.append(('child_pfs_modp_retry', None, {'child_dh': ('15', '14'), 'child_dh_b': ('14',)}, 'new_child'))
    out.append(('child_pfs_modp', None, {'child_dh': ('14',)}, 'crossing_children'))
    out.append(('child_pfs_ecp', None, {'child_dh': ('ecp256',)}, 'crossing_children'))
    # a responder that rejects the KE group statelessly (RFC 7296 1.3) and accepts the retry - during an IKE_SA rekey and
    # during CHILD_SA creation with PFS; afterwards the new SAs are used (props/hdl.py, sim/deviant.py). Both ends must
    # still end with the same keys and mirror-image SAs.
    for label, acts, conf, seed, skip in hdl.deviant_set(True, 0):
        if label.endswith('/stateless_invalid_ke'):
            out.append(('rfc_style_' + label.split('/')[1], None, conf, acts))
        # an initiator whose SA payloads carry a second, unacceptable proposal with ANOTHER SPI in front of the real one
        if label.endswith('/sa_two_proposals'):
            out.append(('two_proposals_' + label.split('/')[1] + '_' + label.split('/')[2], None, conf, acts))
    # honest peers whose configurations differ but are compatible: the responder picks something that is not the
    # initiator's first choice (another key length, a narrower selector, one of two protect entries, no PFS)
    compatible = ('b_narrower_port', 'a_wider_subnet', 'b_other_child_encr', 'b_ike_prf_subset', 'b_two_protect',
                  'a_pfs_b_none', 'b_short_lifetime')
    for label, conf in hdl.ASYM_CONFS:
        if label in compatible:
            for s_ in (('new_child', 'rekey_child', 'rekey_ike') if not ctx.quick() else ('new_child',)):
                out.append(('asym_' + label, None, conf, s_))
    for name, ips, conf in fam:
        scens = SCEN if (not ctx.quick() or name in ('default', 'sha512_ecp384_pfs')) else ['handshake', 'rekey_child',
                                                                                          'rekey_ike']
        for s in scens:
            out.append((name, ips, conf, s))
    return out


def correspond(ctx):
    fails, cases, meta = [], [], []
    ctx.oracle_fails = []
    for name, ips, conf, scen in plan(ctx):
        seed = ctx.rng.getrandbits(32)
        f, c = run_one(ctx, name, ips, conf, scen, seed)
        ctx.oracle_fails += f
        cases += c
        meta += [(name, scen, seed)] * len(c)
    bad = core.run_cases(ctx, sc.CLUSTER, 'From IkeSa Require Import MirrorRun.', 'run_mirror', cases, shard=300,
                         name='mirror')
    for gi, model_out in bad[:6]:
        name, scen, seed = meta[gi]
        fails.append(Failure('correspondence', 'mirror:model-vs-code',
                             f'{name}/{scen}: NEWSA parameters {cases[gi][1]} / model {model_out[-300:]}',
                             {'conf': name, 'scenario': scen, 'seed': seed}))
    return fails + hdl.tie(ctx)


def oracle(ctx, deep):
    if hasattr(ctx, 'oracle_fails'):
        return ctx.oracle_fails
    fails = []
    for name, ips, conf, scen in plan(ctx):
        f, _ = run_one(ctx, name, ips, conf, scen, ctx.rng.getrandbits(32))
        fails += f
        if len(fails) > 3:
            break
    return fails


def replay(ctx, obj):
    for name, ips, conf, scen in plan(ctx):
        if name == obj.get('conf') and scen == obj.get('scenario'):
            return run_one(ctx, name, ips, conf, scen, obj['seed'])[0]
    return []


CHECK = core.Check(
    'C01', sc.CLUSTER, ['Props/C01.v', 'Props/C01H.v', 'Props/C01W.v'], translate=sc.translate, correspond=correspond, oracle=oracle, replay=replay,
    deps=('lib',),
    rule='configuration family (AES-128/256, SHA1/256/512, MODP-2048 [3072/4096 thorough], ECP-256/384/521, mismatching '
         'DH preference orders -> INVALID_KE_PAYLOAD retry, ESP/AH, transport/tunnel, IPv4/IPv6, PSK [RSA thorough], PFS) x '
         'successful negotiations (initial exchange, additional CHILD_SA from either side, CHILD_SA rekey from either '
         'side, IKE_SA rekey from either side, negotiations on the rekeyed successor); every Xfrm.create_child_sa call is '
         'one case of the wiring correspondence (interned values); the oracle compares the two kernels record by record',
    trusted_base=sc.TRUSTED + hdl.TRUSTED + ['Diffie-Hellman is an oracle (OpenSSL): commutativity is a hypothesis of C01_ike_keys_agree; '
                               'that the key derivation is the RFC one is C04'],
    assumptions=['the model kernel stores exactly what the NEWSA request says; lifetimes (local jitter) are not part of '
                 'the mirror relation'],
)
